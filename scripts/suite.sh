#!/bin/bash
# Runs semadb's pinned test suite (the baseline command, minus JSON) in the tree given as $1 (default /repo).
# Not part of any registered check: used by hand to validate fix: commits and seeded changes.
dir=${1:-/repo}
shift
cd "$dir" || exit 2
export GOFLAGS=-mod=mod GOPROXY=off
pkgs=$(go list ./... | grep -v internal/loadhdf5)
go test -vet=off -count=1 -timeout 25m "$@" $pkgs
