#!/usr/bin/env python3
# Rewrites the catch matrix of DESIGN.md (§10) from /verif/seeded/*/meta.json and the output of `semaverif selftest`.
import json,glob,subprocess,re,os
out=open(os.environ['SELFTEST_OUT']).read() if os.environ.get('SELFTEST_OUT') else subprocess.run(['/verif/bin/semaverif','selftest','-j','10'],capture_output=True,text=True,env=dict(os.environ)).stdout
status={}
for l in out.splitlines():
    m=re.match(r'((?:s\d?|r)-\S+)\s+(detected|missed|declared-undetectable|not-applicable)\s*(.*)',l)
    if m: status[m.group(1)]=(m.group(2),m.group(3).split())
rows=[]
for p in sorted(glob.glob('/verif/seeded/*/meta.json')):
    d=json.load(open(p)); n=d['name']
    st,rep=status.get(n,('?',[]))
    rules=sorted({e.split('/')[0] for e in d.get('expect',[])})
    if st=='detected': res='**detected** by '+', '.join(rules)
    elif st=='declared-undetectable': res='declared undetectable (§12)'
    else: res=st
    what=d['what'].replace('|','\\|')
    rows.append(f"| {d['property']} | {d.get('round',1)} | `{n}` | {what} | {d.get('blind_result','?')} | {res} |")
import collections
blind=collections.Counter()
for p2 in glob.glob('/verif/seeded/*/meta.json'):
    d2=json.load(open(p2)); b=d2.get('blind_result','?'); blind[(d2.get('round',1), 'detected' if b.startswith('detected') else ('other' if b.startswith('reported') else 'missed'))]+=1
tot=len(rows); det=sum(1 for r in rows if '**detected**' in r); und=sum(1 for r in rows if 'undetectable' in r)
rounds=sorted({k[0] for k in blind})
parts=[]
for r in rounds:
    d_,o_,m_=blind[(r,'detected')],blind[(r,'other')],blind[(r,'missed')]
    parts.append(f"round {r}: {d_} detected, {o_} reported for another reason, {m_} missed of {d_+o_+m_}")
table="| property | round | seed | change | first run, before any rule was touched | final state |\n|---|---|---|---|---|---|\n"+"\n".join(rows)+f"\n\nTotals: {tot} confirmed seeds, {det} detected with the expected construct, {und} declared undetectable, {tot-det-und} missed.\n\nFirst-run (blind) results, i.e. what the checks said before I changed anything in response to a seed (each round was run against the rules as improved after the previous one): "+"; ".join(parts)+". The later rounds are the honest estimate of how the rules generalise to changes nobody has shown them. Every miss was then turned into a rule clause (or declared undetectable with a reason), which is why the final column is nearly all \"detected\"; that column measures the corpus, not the generalisation.\n"
s=open('/verif/DESIGN.md').read()
a=s.index('<!-- MATRIX-BEGIN -->')+len('<!-- MATRIX-BEGIN -->'); b=s.index('<!-- MATRIX-END -->')
s=s[:a]+"\n"+table+s[b:]
lst=subprocess.run(['/verif/bin/semaverif','list'],capture_output=True,text=True).stdout
blk=[]
cur=None
for l in lst.splitlines():
    m=re.match(r'(C\d\d) rules=\[(.*)\]',l)
    if m: cur=[m.group(1),m.group(2),'','']; blk.append(cur); continue
    if cur and l.strip().startswith('decides:'): cur[2]=l.strip()[len('decides:'):].strip()
    if cur and l.strip().startswith('not decided:'): cur[3]=l.strip()[len('not decided:'):].strip()
blk.sort()
ptab='| property | rule families | decided (structural necessary conditions) | not decided |\n|---|---|---|---|\n'+'\n'.join(f'| {c[0]} | {c[1]} | {c[2]} | {c[3]} |' for c in blk)+'\n'
if '<!-- PROPS-BEGIN -->' in s:
    a=s.index('<!-- PROPS-BEGIN -->')+len('<!-- PROPS-BEGIN -->'); b=s.index('<!-- PROPS-END -->')
    s=s[:a]+'\n'+ptab+s[b:]
open('/verif/DESIGN.md','w').write(s)
print(f"{tot} seeds, {det} detected, {und} undetectable")
