#!/usr/bin/env python3
# Rewrites the catch matrix of DESIGN.md (§10) from /verif/seeded/*/meta.json and the output of `semaverif selftest`.
import json,glob,subprocess,re,os
out=subprocess.run(['/verif/bin/semaverif','selftest','-j','10'],capture_output=True,text=True,env=dict(os.environ,SEMA_ONLY='s-')).stdout
status={}
for l in out.splitlines():
    m=re.match(r'(s-\S+)\s+(detected|missed|declared-undetectable|not-applicable)\s*(.*)',l)
    if m: status[m.group(1)]=(m.group(2),m.group(3).split())
rows=[]
for p in sorted(glob.glob('/verif/seeded/*/meta.json')):
    d=json.load(open(p)); n=d['name']
    st,rep=status.get(n,('?',[]))
    rules=sorted({e.split('/')[0] for e in d.get('expect',[])})
    if st=='detected': res='**detected** by '+', '.join(rules)
    elif st=='declared-undetectable': res='declared undetectable (§12)'
    else: res=st
    what=d['what'].replace('|','\\|')
    rows.append(f"| {d['property']} | `{n}` | {what} | {res} |")
tot=len(rows); det=sum(1 for r in rows if '**detected**' in r); und=sum(1 for r in rows if 'undetectable' in r)
table="| property | seed | change | result |\n|---|---|---|---|\n"+"\n".join(rows)+f"\n\nTotals: {tot} confirmed seeds, {det} detected with the expected construct, {und} declared undetectable, {tot-det-und} missed.\n"
s=open('/verif/DESIGN.md').read()
a=s.index('<!-- MATRIX-BEGIN -->')+len('<!-- MATRIX-BEGIN -->'); b=s.index('<!-- MATRIX-END -->')
open('/verif/DESIGN.md','w').write(s[:a]+"\n"+table+s[b:])
print(f"{tot} seeds, {det} detected, {und} undetectable")
