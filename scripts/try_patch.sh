#!/bin/bash
# try_patch.sh <patch.diff>... : analyse /repo with each patch applied in memory and print what is newly reported.
cd /verif
./bin/semaverif obls > /tmp/.base_obls.json 2>/dev/null
for p in "$@"; do
  ./bin/semaverif obls -patch "$p" 2>/dev/null | python3 -c "
import json,sys
base=json.loads(open('/tmp/.base_obls.json').read().strip().splitlines()[-1])
bb={o['rule']+'/'+o['key'] for o in base['obligations']}
r=json.loads(sys.stdin.read().strip().splitlines()[-1])
print('== $p', 'APPLY-ERR '+r['apply_error'] if r.get('apply_error') else '', 'LOAD-ERR '+r['load_error'] if r.get('load_error') else '')
new=[o for o in (r.get('obligations') or []) if o['rule']+'/'+o['key'] not in bb]
for o in new: print('   ',o['verdict'],o['rule']+'/'+o['key'],o.get('props'),'|',o.get('detail','')[:160])
if not new: print('    (nothing new reported)')
"
done
