#!/bin/bash
# Runs every registered check of MANIFEST.json (tier $1: quick|thorough, default quick), up to $2 at a time
# (default 4), then validates every evidence file against the schema. Exit 0 iff all passed.
tier=${1:-quick}; par=${2:-4}
cd /verif
mkdir -p /verif/evidence/logs
key=quick_cmd; [ "$tier" = thorough ] && key=thorough_cmd
jq -r ".checks[] | [.property_id, .$key] | @tsv" MANIFEST.json > /tmp/.semaverif_cmds.$$
fail=0
cat /tmp/.semaverif_cmds.$$ | xargs -P "$par" -d '\n' -I{} bash -c 'id=$(echo "{}" | cut -f1); cmd=$(echo "{}" | cut -f2); $cmd > /verif/evidence/logs/$id.'$tier'.log 2>&1; echo "$id exit=$? $(tail -1 /verif/evidence/logs/$id.'$tier'.log)"' | sort | tee /tmp/.semaverif_res.$$
grep -qv "exit=0" /tmp/.semaverif_res.$$ && fail=1
python3-vt - <<'PY' || fail=1
import json,jsonschema,sys,glob
sch=json.load(open('/root/.vp/EVIDENCE.schema.json'))
m=json.load(open('/verif/MANIFEST.json'))
jsonschema.validate(m,json.load(open('/root/.vp/MANIFEST.schema.json')))
bad=0
for c in m['checks']:
    try:
        e=json.load(open(c['evidence_file'])); jsonschema.validate(e,sch)
        assert e['property_id']==c['property_id'] and e['level']==c['level_claimed']['category']
    except Exception as ex:
        print('EVIDENCE INVALID',c['property_id'],str(ex)[:200]); bad=1
print('evidence files valid' if not bad else 'evidence problems')
sys.exit(bad)
PY
rm -f /tmp/.semaverif_cmds.$$ /tmp/.semaverif_res.$$
exit $fail
