#!/usr/bin/env python3
# import_seed.py <srcdir> <name> <property> <what> <needs>
# Copies a confirmed seeded change (patch.diff, demonstration, NOTES.md) into /verif/seeded/<name>/ and
# writes meta.json. "expect" is filled in afterwards (scripts/adopt_expect.py + review).
import sys,os,shutil,json,glob,re
src,name,prop,what,needs=sys.argv[1:6]
dst=f'/verif/seeded/{name}'
os.makedirs(dst,exist_ok=True)
shutil.copy(src+'/patch.diff',dst+'/patch.diff')
demos=sorted(glob.glob(src+'/demo*_test.go'))
for d in demos: shutil.copy(d,dst+'/'+os.path.basename(d)+'.txt' if False else dst+'/'+os.path.basename(d))
if os.path.exists(src+'/NOTES.md'): shutil.copy(src+'/NOTES.md',dst+'/NOTES.md')
# the demonstration must not be picked up as part of any Go package in /verif: rename *_test.go -> *_test.go.txt
for d in glob.glob(dst+'/*_test.go'): os.rename(d,d+'.txt')
head=open(demos[0]).read().splitlines()[:3] if demos else []
place=[l for l in head if 'place at:' in l]; run=[l for l in head if 'go test' in l]
meta={'name':name,'property':prop,'origin':'independent (sub-agent given only the property text and a scratch worktree)',
 'what':what,'needs':needs,'patch':'patch.diff',
 'demonstration':[os.path.basename(d)+'.txt' for d in demos],
 'demo_place_at':place[0].split('place at:')[1].strip() if place else '',
 'demo_run':re.sub(r'/tmp/wt/\w+','<worktree>',run[0].split('run with:')[-1].strip()) if run else '',
 'ran':'scripts/verify_seed.sh in a scratch worktree of /repo HEAD: patch applies and builds; pinned suite passes with the patch; demonstration fails with the patch; demonstration passes without it',
 'expect':[]}
json.dump(meta,open(dst+'/meta.json','w'),indent=1)
print('imported',name)
