#!/usr/bin/env python3
# adopt_expect.py <name-substring>: for seeded edits whose "expect" list is empty, run the analyser on the
# variant and write the newly reported obligation ids into "expect". Development helper: the adopted
# ids must be reviewed by hand (is this the construct the edit breaks?) before committing.
import json,subprocess,sys,glob,os
sub=sys.argv[1] if len(sys.argv)>1 else ''
base=json.loads(subprocess.run(['/verif/bin/semaverif','obls'],capture_output=True,text=True).stdout.strip().splitlines()[-1])
bb={o['rule']+'/'+o['key'] for o in base['obligations']}
for p in sorted(glob.glob('/verif/mutants/*.json')+glob.glob('/verif/seeded/*/meta.json')):
    d=json.load(open(p))
    name=d.get('name') or os.path.basename(os.path.dirname(p))
    if sub not in name or d.get('expect') or d.get('statically_detectable') is False: continue
    r=json.loads(subprocess.run(['/verif/bin/semaverif','obls','-mutant',name],capture_output=True,text=True).stdout.strip().splitlines()[-1])
    new=[o['rule']+'/'+o['key'] for o in (r.get('obligations') or []) if o['rule']+'/'+o['key'] not in bb]
    print(name, r.get('apply_error') or r.get('load_error') or new)
    if new:
        d['expect']=new; json.dump(d,open(p,'w'),indent=1)
