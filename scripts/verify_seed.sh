#!/bin/bash
# verify_seed.sh <dir with patch.diff + demo_test.go|demo/main.go> [race]
# Confirms a seeded change in a scratch worktree of /repo (removed afterwards):
#   1. patch applies and the tree builds, 2. the pinned suite passes with it,
#   3. the demonstration fails with it, 4. the demonstration passes without it.
# Prints one line "VERIFY <dir>: suite=... demo_with=... demo_without=..." and exits 0 iff all as expected.
d=$(readlink -f "$1"); extra=$2
wt=$(mktemp -d /tmp/seedverify.XXXXXX); rmdir "$wt"
export GOFLAGS=-mod=mod GOPROXY=off
git -C /repo worktree add -q --detach "$wt" HEAD || exit 2
cleanup() { git -C /repo worktree remove --force "$wt" 2>/dev/null; rm -rf "$wt"; }
trap cleanup EXIT
cd "$wt"
git apply "$d/patch.diff" || { echo "VERIFY $d: patch does not apply"; exit 1; }
pkgs=$(go list ./... | grep -v internal/loadhdf5)
go build $pkgs 2>&1 | tail -3
go test -vet=off -count=1 -timeout 25m $pkgs > "$d/.suite.log" 2>&1; suite=$?
demo=$(ls "$d"/demo*_test.go "$d"/demo_test.go 2>/dev/null | head -1)
if [ -z "$demo" ]; then echo "VERIFY $d: no demo_test.go"; exit 1; fi
place=$(grep -m1 -o 'place at: *[^ ]*' "$demo" | sed 's/place at: *//')
runline=$(grep -m1 -o "go test .*" "$demo" | sed "s#/tmp/wt/[A-Za-z0-9]*#$wt#g")
[ -z "$place" ] && { echo "VERIFY $d: demo has no 'place at:' line"; exit 1; }
mkdir -p "$(dirname "$place")"; cp "$demo" "$place"
run="env GOFLAGS=-mod=mod GOPROXY=off $runline"
( cd "$wt" && eval "timeout 600 $run" ) > "$d/.demo_with.log" 2>&1; with=$?
git apply -R "$d/patch.diff"
( cd "$wt" && eval "timeout 600 $run" ) > "$d/.demo_without.log" 2>&1; without=$?
echo "VERIFY $d: suite_exit=$suite demo_with_exit=$with demo_without_exit=$without (run: $runline)"
[ $suite -eq 0 ] && [ $with -ne 0 ] && [ $without -eq 0 ]
