#!/bin/bash
# Builds /verif/bin/semaverif offline with the pinned toolchain (MANIFEST.setup_cmd).
set -e
cd /verif/tool
export PATH=/opt/veriftools/go1.26.8/bin:$PATH GOTOOLCHAIN=local GOFLAGS=-mod=mod GOPROXY=off GOWORK=off
unset GOARCH GOOS
mkdir -p /verif/bin /verif/evidence
go build -o /verif/bin/semaverif ./cmd/semaverif
echo "built /verif/bin/semaverif"
