package main

import (
	"encoding/json"
	"fmt"
	"os"
	"os/exec"
	"path/filepath"
	"sort"
	"strings"
	"sync"

	"semaverif/internal/core"
	"semaverif/internal/load"
	"semaverif/internal/mutant"
)

// childResult is what `semaverif obls` prints: the non-discharged obligations
// of one variant of the tree (the tree itself, or the tree with one seeded edit).
type childResult struct {
	Mutant      string            `json:"mutant,omitempty"`
	ApplyError  string            `json:"apply_error,omitempty"` // the edit no longer applies to the tree under analysis
	LoadError   string            `json:"load_error,omitempty"`  // the variant does not type-check
	Obligations []core.Obligation `json:"obligations"`           // violations and undecided only
	Total       int               `json:"total"`
}

// obls analyses one variant in this process and prints a childResult.
func obls(mutName, goarch, patch string) int {
	res := childResult{Mutant: mutName}
	var overlay map[string][]byte
	if patch != "" {
		abs, _ := filepath.Abs(patch)
		m := mutant.FromPatch(abs)
		var err error
		overlay, err = m.Overlay(load.RepoDir())
		if err != nil {
			res.ApplyError = err.Error()
			return emit(res)
		}
	} else if mutName != "" {
		m, err := mutant.Find(verifDir(), mutName)
		if err != nil {
			res.ApplyError = err.Error()
			return emit(res)
		}
		overlay, err = m.Overlay(load.RepoDir())
		if err != nil {
			res.ApplyError = err.Error()
			return emit(res)
		}
	}
	c, err := analyse(goarch, overlay)
	if err != nil {
		res.LoadError = err.Error()
		return emit(res)
	}
	res.Total = len(c.Obls)
	for _, o := range c.Obls {
		if o.Verdict == core.Violation || o.Verdict == core.Undecided {
			res.Obligations = append(res.Obligations, o)
		}
	}
	sort.Slice(res.Obligations, func(i, j int) bool { return res.Obligations[i].ID() < res.Obligations[j].ID() })
	return emit(res)
}

func emit(r childResult) int {
	data, _ := json.Marshal(r)
	fmt.Println(string(data))
	return 0
}

// runChild analyses a variant in a child process (one world per process keeps memory flat).
func runChild(mutName string) childResult {
	self, _ := os.Executable()
	cmd := exec.Command(self, "obls", "-mutant", mutName)
	cmd.Env = os.Environ()
	out, err := cmd.Output()
	var r childResult
	if err != nil {
		r.Mutant = mutName
		r.LoadError = "child failed: " + err.Error()
		return r
	}
	// the JSON is the last line
	lines := strings.Split(strings.TrimSpace(string(out)), "\n")
	if e := json.Unmarshal([]byte(lines[len(lines)-1]), &r); e != nil {
		r.Mutant = mutName
		r.LoadError = "child output unreadable: " + e.Error()
	}
	return r
}

type mutantOutcome struct {
	Name     string   `json:"name"`
	Origin   string   `json:"origin,omitempty"`
	What     string   `json:"what,omitempty"`
	Expect   []string `json:"expected_obligations"`
	Status   string   `json:"status"` // detected | missed | not-applicable | declared-undetectable
	Reported []string `json:"reported,omitempty"`
	Note     string   `json:"note,omitempty"`
}

func matchExpect(expect []string, id string) bool {
	for _, e := range expect {
		if strings.HasSuffix(e, "*") {
			if strings.HasPrefix(id, strings.TrimSuffix(e, "*")) {
				return true
			}
		} else if e == id {
			return true
		}
	}
	return false
}

// runMutants applies every seeded edit that serves prop ("" = all) to the tree
// under analysis, one child process each, and reports whether the obligations
// named by the edit turned into violations that the unchanged tree does not have.
func runMutants(prop string, baseBad map[string]bool, par int) []mutantOutcome {
	return runMutantsFiltered(prop, baseBad, par, "")
}

func runMutantsFiltered(prop string, baseBad map[string]bool, par int, only string) []mutantOutcome {
	all, err := mutant.LoadAll(verifDir())
	if err != nil {
		return []mutantOutcome{{Name: "(loading mutants)", Status: "not-applicable", Note: err.Error()}}
	}
	var sel []*mutant.Mutant
	for _, m := range all {
		if only != "" && !strings.Contains(m.Name, only) {
			continue
		}
		if m.Benign {
			if prop == "" {
				sel = append(sel, m)
			}
			continue
		}
		if prop == "" || m.Serves(prop) {
			sel = append(sel, m)
		}
	}
	out := make([]mutantOutcome, len(sel))
	sem := make(chan struct{}, par)
	var wg sync.WaitGroup
	for i, m := range sel {
		wg.Add(1)
		go func(i int, m *mutant.Mutant) {
			defer wg.Done()
			sem <- struct{}{}
			defer func() { <-sem }()
			o := mutantOutcome{Name: m.Name, Origin: m.Origin, What: m.What, Expect: m.Expect}
			if m.Detected != nil && !*m.Detected {
				o.Status = "declared-undetectable"
				o.Note = m.Why
				out[i] = o
				return
			}
			r := runChild(m.Name)
			switch {
			case r.ApplyError != "":
				o.Status, o.Note = "not-applicable", "edit does not apply to this tree: "+r.ApplyError
			case r.LoadError != "":
				o.Status, o.Note = "not-applicable", "variant does not build: "+r.LoadError
			default:
				hit := false
				elsewhere := map[string]bool{}
				for _, ob := range r.Obligations {
					if baseBad[ob.ID()] {
						continue
					}
					if prop != "" && !hasProp(ob.Props, prop) {
						// the construct the edit breaks is decided under another property's tag: the
						// author filed the change under this property, the checks of those report it
						if matchExpect(m.Expect, ob.ID()) {
							for _, q := range ob.Props {
								elsewhere[q] = true
							}
						}
						continue
					}
					o.Reported = append(o.Reported, ob.ID())
					if matchExpect(m.Expect, ob.ID()) {
						hit = true
					}
				}
				switch {
				case m.Benign && len(o.Reported) == 0:
					o.Status = "silent"
				case m.Benign && m.KnownFalseAlarm != "":
					o.Status = "known-false-alarm"
					o.Note = m.KnownFalseAlarm
				case m.Benign:
					o.Status = "FALSE-ALARM"
					for _, ob := range r.Obligations {
						if !baseBad[ob.ID()] {
							o.Note += ob.ID() + ": " + ob.Detail + " | "
						}
					}
				case hit:
					o.Status = "detected"
				case len(elsewhere) > 0:
					var ps []string
					for q := range elsewhere {
						ps = append(ps, q)
					}
					sort.Strings(ps)
					o.Status = "detected-by-other-check"
					o.Note = "the expected construct is reported by the check of " + strings.Join(ps, ", ") + ", under which the rule that decides it is filed"
				default:
					o.Status = "missed"
				}
			}
			out[i] = o
		}(i, m)
	}
	wg.Wait()
	return out
}

func hasProp(ps []string, p string) bool {
	for _, q := range ps {
		if q == p {
			return true
		}
	}
	return false
}

// selftest is the developer-facing both-ways test: silent on the tree, firing on every seeded edit.
func selftest(prop string, par int) int {
	only := os.Getenv("SEMA_ONLY") // substring filter on edit names, for development
	base := runChild("")
	if base.LoadError != "" {
		fmt.Println("cannot analyse the tree:", base.LoadError)
		return 2
	}
	baseBad := map[string]bool{}
	for _, o := range base.Obligations {
		baseBad[o.ID()] = true
	}
	fmt.Printf("unchanged tree: %d obligations, %d not discharged (known findings included)\n", base.Total, len(base.Obligations))
	outs := runMutantsFiltered(prop, baseBad, par, only)
	miss := 0
	for _, o := range outs {
		fmt.Printf("%-44s %-22s %s\n", o.Name, o.Status, strings.Join(o.Reported, " "))
		if o.Note != "" {
			fmt.Printf("%-44s   note: %s\n", "", o.Note)
		}
		if o.Status == "missed" || o.Status == "FALSE-ALARM" || (strings.HasPrefix(o.Name, "b-") && o.Status == "not-applicable") {
			miss++
		}
	}
	fmt.Printf("%d seeded edits, %d missed / false alarms / broken benign edits\n", len(outs), miss)
	if miss > 0 {
		return 1
	}
	return 0
}
