// semaverif decides structural clauses of the semadb properties from source.
package main

import (
	"crypto/sha1"
	"encoding/json"
	"flag"
	"fmt"
	"os"
	"path/filepath"
	"sort"
	"strconv"
	"strings"
	"time"

	"semaverif/internal/core"
	"semaverif/internal/load"
	"semaverif/internal/lockset"
	"semaverif/internal/props"
	"semaverif/rules"
)

func verifDir() string {
	if d := os.Getenv("SEMA_VERIF"); d != "" {
		return d
	}
	return "/verif"
}

type finding struct {
	Prop, Key, Text string
}

func readFindings() ([]finding, []string) {
	var open []finding
	var fixed []string
	data, err := os.ReadFile(filepath.Join(verifDir(), "known_findings.txt"))
	if err != nil {
		return nil, nil
	}
	for _, line := range strings.Split(string(data), "\n") {
		line = strings.TrimSpace(line)
		switch {
		case strings.HasPrefix(line, "finding:"):
			f := finding{}
			rest := strings.TrimSpace(strings.TrimPrefix(line, "finding:"))
			for _, tok := range strings.Fields(rest) {
				if strings.HasPrefix(tok, "property=") && f.Prop == "" {
					f.Prop = strings.TrimPrefix(tok, "property=")
				} else if strings.HasPrefix(tok, "key=") && f.Key == "" {
					f.Key = strings.TrimPrefix(tok, "key=")
				}
			}
			if i := strings.Index(rest, f.Key); i >= 0 {
				f.Text = strings.TrimSpace(rest[i+len(f.Key):])
			}
			open = append(open, f)
		case strings.HasPrefix(line, "fixed:"):
			fixed = append(fixed, line)
		}
	}
	return open, fixed
}

func analyse(goarch string, overlay map[string][]byte) (*core.Collector, error) {
	w, err := load.LoadOverlay(goarch, overlay)
	if err != nil {
		return nil, err
	}
	c := core.NewCollector()
	c.Count("module_packages", len(w.ByPath))
	c.Count("module_functions", len(w.Fns))
	ls := lockset.AnalyzeAtomic(w, rules.HandOverTagger, rules.AtomicMaps(w))
	rules.LockOrder(w, ls, c)
	rules.LockPair(w, ls, c)
	rules.Guard(w, ls, c)
	rules.Atomic(w, ls, c)
	rules.Degree(w, ls, c)
	rules.RoEffect(w, ls, c)
	rules.WithCB(w, ls, c)
	rules.SharedScratch(w, ls, c)
	rules.RunAll(w, c)
	// a rule family that lost its instances must fail, not pass vacuously
	cnt := map[string]int{}
	for _, o := range c.Obls {
		cnt[o.Rule]++
	}
	for rule, fl := range props.RuleFloors {
		if cnt[rule] < fl.Min {
			c.Add(rule, "floor", core.Undecided, "", fmt.Sprintf("rule %s produced %d obligations on this tree; at least %d were confirmed by hand on the reference tree: its anchors are gone and it would pass vacuously", rule, cnt[rule], fl.Min), fl.Props...)
		}
	}
	return c, nil
}

type evidence struct {
	PropertyID  string         `json:"property_id"`
	Tier        string         `json:"tier"`
	Seed        int            `json:"seed"`
	Level       string         `json:"level"`
	Coverage    map[string]any `json:"coverage"`
	Assumptions []string       `json:"assumptions"`
	WallS       float64        `json:"wall_s"`
	Violations  int            `json:"violations"`
}

func check(propID, tier string) int {
	t0 := time.Now()
	p := props.Get(propID)
	if p == nil {
		if why, na := props.NotApplicable[propID]; na {
			fmt.Printf("property %s is not claimed by static analysis: %s\n", propID, why)
			return 2
		}
		fmt.Println("unknown property", propID)
		return 2
	}
	variants := []string{""}
	if tier == "thorough" {
		variants = []string{"", "arm64"}
	}
	open, _ := readFindings()
	var all []core.Obligation
	universe := map[string]int{}
	var notes []string
	for _, arch := range variants {
		c, err := analyse(arch, nil)
		if err != nil {
			fmt.Printf("VIOLATION property=%s replay=%s\n", propID, writeReplay(propID, core.Obligation{Rule: "LOAD", Key: "load:" + arch, Verdict: core.Undecided, Detail: err.Error()}))
			return 1
		}
		label := "amd64"
		if arch != "" {
			label = arch
		}
		for _, o := range c.ForProp(propID) {
			if len(variants) > 1 {
				o.Detail = strings.TrimSpace(o.Detail + " [GOARCH=" + label + "]")
			}
			all = append(all, o)
		}
		for k, v := range c.Universe {
			universe[label+":"+k] = v
		}
		notes = append(notes, c.Notes...)
	}
	// merge variants by obligation id: worst verdict wins
	merged := map[string]core.Obligation{}
	rank := map[core.Verdict]int{core.OK: 0, core.Exception: 1, core.Undecided: 2, core.Violation: 3}
	for _, o := range all {
		if m, ok := merged[o.ID()]; !ok || rank[o.Verdict] > rank[m.Verdict] {
			merged[o.ID()] = o
		}
	}
	var obls []core.Obligation
	for _, o := range merged {
		obls = append(obls, o)
	}
	sort.Slice(obls, func(i, j int) bool { return obls[i].ID() < obls[j].ID() })
	if len(obls) < p.MinObls {
		obls = append(obls, core.Obligation{Rule: "FLOOR", Key: "obligations:" + propID, Verdict: core.Undecided,
			Detail: fmt.Sprintf("only %d obligations were generated, at least %d were confirmed by hand: the rules would pass vacuously", len(obls), p.MinObls)})
	}
	cnt := map[core.Verdict]int{}
	nViol, nKnown := 0, 0
	var samples []any
	byRule := map[string]int{}
	for _, o := range obls {
		cnt[o.Verdict]++
		byRule[o.Rule]++
		if o.Verdict == core.Violation || o.Verdict == core.Undecided {
			known := false
			for _, f := range open {
				if f.Prop == propID && f.Key == o.ID() {
					known = true
					fmt.Printf("KNOWN-FINDING: property=%s %s %s (%s)\n", propID, o.ID(), f.Text, o.Where)
				}
			}
			if known {
				nKnown++
				continue
			}
			nViol++
			fmt.Printf("VIOLATION property=%s replay=%s\n", propID, writeReplay(propID, o))
			fmt.Printf("  %s %s at %s: %s\n", o.Verdict, o.ID(), o.Where, o.Detail)
		}
	}
	// samples: every non-ok obligation and a spread of discharged ones
	step := len(obls)/30 + 1
	for i, o := range obls {
		if o.Verdict != core.OK || i%step == 0 {
			samples = append(samples, o)
		}
	}
	// thorough tier: the both-ways self-test of the rules that serve this property.
	var selfOut []mutantOutcome
	selfCnt := map[string]int{}
	if tier == "thorough" {
		baseBad := map[string]bool{}
		for _, o := range obls {
			if o.Verdict == core.Violation || o.Verdict == core.Undecided {
				baseBad[o.ID()] = true
			}
		}
		selfOut = runMutants(propID, baseBad, 4)
		for _, o := range selfOut {
			selfCnt[o.Status]++
			if o.Status == "missed" {
				fmt.Printf("SELFTEST-MISS property=%s seeded edit %s applied to this tree is not reported (expected %v)\n", propID, o.Name, o.Expect)
			}
		}
	}
	seed, _ := strconv.Atoi(os.Getenv("VERIF_SEED"))
	ev := evidence{
		PropertyID: propID, Tier: tier, Seed: seed, Level: "other",
		Coverage: map[string]any{
			"explanation":         "Static analysis of /repo's current source (go/packages + go/ssa + VTA call graph; nothing is executed). Decides: " + p.Decides + ". Not decided: " + p.Undecided + ".",
			"obligations":         len(obls),
			"discharged":          cnt[core.OK] + cnt[core.Exception],
			"exceptions":          cnt[core.Exception],
			"known_findings":      nKnown,
			"evaluations":         len(obls),
			"distinct_nontrivial": len(obls),
			"rule":                "one obligation per (rule, construct) pair; constructs are functions, call sites, lock-class edges, table rows — keyed by name, never by line; all are distinct by construction",
			"obligations_by_rule": byRule,
			"rules":               unionRules(p.Rules, byRule),
			"build_variants":      variants,
			"universe":            universe,
			"samples":             samples,
			"checker_cmd":         "/verif/bin/semaverif check -property " + propID + " -tier " + tier,
			"trusted_base":        []string{"go/types and go/ssa of golang.org/x/tools v0.50.0", "VTA call graph resolution of interface and closure calls", "the frozen exception tables of DESIGN.md §4", "bbolt and the Go runtime"},
			"notes":               notes,
		},
		Assumptions: []string{
			"the analysed packages are ./... of the module without test files; internal/loadhdf5 is excluded (cgo, hdf5.h not in the image)",
			"lock identity is abstracted to (struct type, field): a lock of the right class on another instance would be accepted",
			"function literals are reachable only when their enclosing function is",
		},
		WallS:      time.Since(t0).Seconds(),
		Violations: nViol,
	}
	if tier == "thorough" {
		ev.Coverage["selftest"] = map[string]any{
			"rule":    "each seeded property-breaking edit of this property (/verif/mutants, /verif/seeded) is applied in memory (go/packages overlay) to the tree under analysis and analysed in a child process; it counts as detected when one of the obligations it names turns into a violation the unchanged tree does not have",
			"counts":  selfCnt,
			"results": selfOut,
		}
	}
	os.MkdirAll(filepath.Join(verifDir(), "evidence"), 0o755)
	data, _ := json.MarshalIndent(ev, "", " ")
	os.WriteFile(filepath.Join(verifDir(), "evidence", propID+".json"), data, 0o644)
	fmt.Printf("%s %s: %d obligations, %d discharged (%d by exception), %d known findings, %d violations, %.1fs\n",
		propID, tier, len(obls), cnt[core.OK]+cnt[core.Exception], cnt[core.Exception], nKnown, nViol, time.Since(t0).Seconds())
	if nViol > 0 {
		return 1
	}
	return 0
}

// unionRules: the rule families listed for the property and every family that produced an
// obligation tagged with it on this run.
func unionRules(listed []string, byRule map[string]int) []string {
	seen := map[string]bool{}
	var out []string
	for _, r := range listed {
		if !seen[r] {
			seen[r] = true
			out = append(out, r)
		}
	}
	var extra []string
	for r := range byRule {
		if !seen[r] {
			extra = append(extra, r)
		}
	}
	sort.Strings(extra)
	return append(out, extra...)
}

func writeReplay(propID string, o core.Obligation) string {
	dir := filepath.Join(verifDir(), "evidence", "violations")
	os.MkdirAll(dir, 0o755)
	h := sha1.Sum([]byte(o.ID()))
	path := filepath.Join(dir, fmt.Sprintf("%s-%x.json", propID, h[:6]))
	data, _ := json.MarshalIndent(map[string]any{"property_id": propID, "obligation": o}, "", " ")
	os.WriteFile(path, data, 0o644)
	return path
}

func main() {
	if len(os.Args) < 2 {
		fmt.Println("usage: semaverif check -property Cxx -tier quick|thorough | explain <file> | list | dump")
		os.Exit(2)
	}
	switch os.Args[1] {
	case "check":
		fs := flag.NewFlagSet("check", flag.ExitOnError)
		prop := fs.String("property", "", "property id")
		tier := fs.String("tier", "quick", "quick or thorough")
		fs.Parse(os.Args[2:])
		if t := os.Getenv("VERIF_TIER"); t != "" && *tier == "" {
			*tier = t
		}
		os.Exit(check(*prop, *tier))
	case "explain":
		data, err := os.ReadFile(os.Args[2])
		if err != nil {
			fmt.Println(err)
			os.Exit(2)
		}
		fmt.Println(string(data))
	case "list":
		for _, p := range props.All {
			fmt.Printf("%s rules=%v\n  decides: %s\n  not decided: %s\n", p.ID, p.Rules, p.Decides, p.Undecided)
		}
		for id, why := range props.NotApplicable {
			fmt.Printf("%s not applicable: %s\n", id, why)
		}
	case "manifest":
		writeManifest()
	case "obls":
		fs := flag.NewFlagSet("obls", flag.ExitOnError)
		mut := fs.String("mutant", "", "name of a seeded edit to apply in memory")
		arch := fs.String("goarch", "", "GOARCH of the build variant")
		patch := fs.String("patch", "", "unified diff to apply in memory")
		fs.Parse(os.Args[2:])
		os.Exit(obls(*mut, *arch, *patch))
	case "selftest":
		fs := flag.NewFlagSet("selftest", flag.ExitOnError)
		prop := fs.String("property", "", "restrict to the seeded edits of one property")
		par := fs.Int("j", 4, "variants analysed in parallel")
		fs.Parse(os.Args[2:])
		os.Exit(selftest(*prop, *par))
	case "dump":
		c, err := analyse(os.Getenv("SEMA_GOARCH"), nil)
		if err != nil {
			fmt.Println("LOAD ERROR:", err)
			os.Exit(2)
		}
		obls := c.Obls
		sort.Slice(obls, func(i, j int) bool { return obls[i].ID() < obls[j].ID() })
		cnt := map[core.Verdict]int{}
		verbose := len(os.Args) > 2 && os.Args[2] == "-v"
		for _, o := range obls {
			cnt[o.Verdict]++
			if verbose || o.Verdict == core.Violation || o.Verdict == core.Undecided {
				fmt.Printf("%-10s %s  [%s] %v\n      %s\n", o.Verdict, o.ID(), o.Where, o.Props, o.Detail)
			}
		}
		fmt.Println("verdicts:", cnt)
		var ks []string
		for k := range c.Universe {
			ks = append(ks, k)
		}
		sort.Strings(ks)
		for _, k := range ks {
			fmt.Printf("  %s=%d\n", k, c.Universe[k])
		}
	default:
		fmt.Println("unknown command", os.Args[1])
		os.Exit(2)
	}
}

// writeManifest prints MANIFEST.json derived from the property table, so that the
// manifest, the evidence texts and DESIGN.md's summary share one source.
func writeManifest() {
	type level struct {
		Category  string `json:"category"`
		Text      string `json:"text"`
		DesignRef string `json:"design_ref"`
	}
	type chk struct {
		PropertyID   string `json:"property_id"`
		QuickCmd     string `json:"quick_cmd"`
		ThoroughCmd  string `json:"thorough_cmd"`
		EvidenceFile string `json:"evidence_file"`
		Replay       string `json:"replay_cmd_template"`
		Engine       string `json:"engine"`
		Level        level  `json:"level_claimed"`
		LevelNote    string `json:"level_note"`
		Technique    string `json:"technique"`
	}
	type na struct {
		PropertyID string `json:"property_id"`
		Reason     string `json:"reason"`
	}
	var checks []chk
	var served []string
	for _, p := range props.All {
		served = append(served, p.ID)
		checks = append(checks, chk{
			PropertyID:   p.ID,
			QuickCmd:     "/verif/bin/semaverif check -property " + p.ID + " -tier quick",
			ThoroughCmd:  "/verif/bin/semaverif check -property " + p.ID + " -tier thorough",
			EvidenceFile: "/verif/evidence/" + p.ID + ".json",
			Replay:       "/verif/bin/semaverif explain {path}",
			Engine:       "semaverif",
			Level: level{
				Category: "other",
				Text: "Static analysis of the type-checked program (go/ssa, VTA call graph), nothing executed. It decides structural clauses the property cannot hold without, on every path / call site / table row of the current tree: " + p.Decides +
					". It does not decide the behaviour itself: " + p.Undecided + ". A necessary-condition check is the strongest sound claim this technique family can make for a property that quantifies over runtime values.",
				DesignRef: "DESIGN.md §5 " + p.ID + ", rules in §4: " + strings.Join(p.Rules, ", "),
			},
			LevelNote: "Trusted: go/types and go/ssa (x/tools v0.50.0), VTA resolution of interface and closure calls, the frozen exception tables (each printed in the evidence with its reason), bbolt and the Go runtime. Lock identity is abstracted to (struct type, field). Known findings are listed in /verif/known_findings.txt by construct key.",
			Technique: "static analysis: " + props.Technique[p.ID],
		})
	}
	nas := []na{}
	var ids []string
	for id := range props.NotApplicable {
		ids = append(ids, id)
	}
	sort.Strings(ids)
	for _, id := range ids {
		nas = append(nas, na{id, props.NotApplicable[id]})
	}
	m := map[string]any{
		"version":   1,
		"setup_cmd": "/verif/scripts/build.sh",
		"hooks": map[string]any{
			"guard":            "verif",
			"enable":           "none needed: the checks analyse /repo's source as it is and add no hook or instrumentation; the tag is reserved and unused",
			"baseline_off_cmd": "for m in $(cat /w/out/gomods.txt); do MF=$(cd /repo/$m && . /w/out/goenv.sh && gomodflag); (cd /repo/$m && go test $MF -json -vet=off -count=1 -timeout 25m ./...); done",
			"source_commits":   []string{},
			"add_only":         true,
		},
		"engines": []map[string]any{{
			"name": "semaverif", "path": "/verif/tool", "serves_properties": served,
			"kind_free_text": "repository-specific static analyser: go/packages + go/ssa + VTA call graph; path-sensitive lock-state exploration, dominance / must-pass-through queries, provenance slices, table extraction, two small abstract interpreters (sortable key codec, Plan-9 AVX kernels)",
		}},
		"checks":         checks,
		"not_applicable": nas,
		"notes":          "All checks are static (technique family: static analysis). Every claimed property is claimed at level 'other': a named structural necessary condition, not the behaviour. Fix commits in /repo and known findings are listed in /verif/known_findings.txt; seeded property-breaking changes and which rule reports each are in /verif/seeded and DESIGN.md.",
	}
	data, _ := json.MarshalIndent(m, "", " ")
	fmt.Println(string(data))
}
