// Package load loads the repository under analysis, builds SSA and call graphs.
package load

import (
	"fmt"
	"go/token"
	"go/types"
	"os"
	"sort"
	"strings"

	"golang.org/x/tools/go/callgraph"
	"golang.org/x/tools/go/callgraph/cha"
	"golang.org/x/tools/go/callgraph/vta"
	"golang.org/x/tools/go/packages"
	"golang.org/x/tools/go/ssa"
	"golang.org/x/tools/go/ssa/ssautil"
)

const Mod = "github.com/semafind/semadb"

// GoBin is the toolchain the analysis is pinned to (go1.26.8; x/tools v0.50.0 needs it).
const GoBin = "/opt/veriftools/go1.26.8/bin"

// Packages that cannot be type-checked in this image, with the reason.
var Excluded = map[string]string{
	Mod + "/internal/loadhdf5": "cgo against hdf5.h which the image does not have; developer data loader",
}

type World struct {
	Dir     string
	Overlay map[string][]byte // absolute path -> contents replacing the file on disk (seeded variants)
	Pkgs    []*packages.Package
	ByPath  map[string]*packages.Package
	Prog    *ssa.Program
	SPkgs   map[string]*ssa.Package
	All     map[*ssa.Function]bool
	CG      *callgraph.Graph
	Fns     []*ssa.Function // module functions with bodies (incl. instantiations and closures), sorted
}

func RepoDir() string {
	if d := os.Getenv("SEMA_REPO"); d != "" {
		return d
	}
	return "/repo"
}

// ReadFile reads a file of the analysed tree, honouring the overlay.
func (w *World) ReadFile(abs string) ([]byte, error) {
	if b, ok := w.Overlay[abs]; ok {
		return b, nil
	}
	return os.ReadFile(abs)
}

func Load(goarch string) (*World, error) { return LoadOverlay(goarch, nil) }

func LoadOverlay(goarch string, overlay map[string][]byte) (*World, error) {
	// go/packages resolves the "go" binary through this process's PATH (exec.LookPath),
	// not through cfg.Env, so the pinned toolchain is put in front of both.
	if !strings.HasPrefix(os.Getenv("PATH"), GoBin+":") {
		os.Setenv("PATH", GoBin+":"+os.Getenv("PATH"))
	}
	var env []string
	for _, kv := range os.Environ() {
		k, _, _ := strings.Cut(kv, "=")
		switch k {
		case "GOFLAGS", "GOPROXY", "GOTOOLCHAIN", "GOWORK", "GOARCH", "GOOS", "CGO_ENABLED", "GOSUMDB":
			continue // never inherit the caller's build configuration
		}
		env = append(env, kv)
	}
	env = append(env, "GOFLAGS=-mod=mod", "GOPROXY=off", "GOTOOLCHAIN=local", "GOWORK=off")
	if goarch != "" {
		env = append(env, "GOARCH="+goarch, "CGO_ENABLED=0")
	}
	dir := RepoDir()
	cfg := &packages.Config{Mode: packages.LoadAllSyntax, Dir: dir, Env: env, Overlay: overlay}
	pkgs, err := packages.Load(cfg, "./...")
	if err != nil {
		return nil, err
	}
	w := &World{Dir: dir, Overlay: overlay, ByPath: map[string]*packages.Package{}, SPkgs: map[string]*ssa.Package{}}
	n := 0
	for _, p := range pkgs {
		if !strings.HasPrefix(p.PkgPath, Mod) {
			continue
		}
		if _, ex := Excluded[p.PkgPath]; ex {
			continue
		}
		n++
		for _, e := range p.Errors {
			return nil, fmt.Errorf("package %s does not type-check: %v", p.PkgPath, e)
		}
		w.ByPath[p.PkgPath] = p
	}
	if n == 0 {
		return nil, fmt.Errorf("no module packages loaded from %s", dir)
	}
	var keep []*packages.Package
	for _, p := range pkgs {
		if _, ex := Excluded[p.PkgPath]; !ex {
			keep = append(keep, p)
		}
	}
	w.Pkgs = keep
	prog, spkgs := ssautil.AllPackages(keep, ssa.InstantiateGenerics)
	prog.Build()
	w.Prog = prog
	for _, sp := range spkgs {
		if sp != nil {
			w.SPkgs[sp.Pkg.Path()] = sp
		}
	}
	w.All = ssautil.AllFunctions(prog)
	for f := range w.All {
		if InMod(f) && f.Blocks != nil {
			w.Fns = append(w.Fns, f)
		}
	}
	sort.Slice(w.Fns, func(i, j int) bool {
		if w.Fns[i].String() != w.Fns[j].String() {
			return w.Fns[i].String() < w.Fns[j].String()
		}
		return w.Fns[i].Pos() < w.Fns[j].Pos()
	})
	return w, nil
}

func (w *World) BuildCallGraph() {
	if w.CG == nil {
		w.CG = vta.CallGraph(w.All, cha.CallGraph(w.Prog))
	}
}

func PkgOf(f *ssa.Function) *ssa.Package {
	for q := f; q != nil; q = q.Parent() {
		if q.Pkg != nil {
			return q.Pkg
		}
		if o := q.Origin(); o != nil && o.Pkg != nil {
			return o.Pkg
		}
	}
	return nil
}

func PkgPath(f *ssa.Function) string {
	if p := PkgOf(f); p != nil {
		return p.Pkg.Path()
	}
	return ""
}

// InMod: function belongs to the module's production packages (not internal/ tools).
func InMod(f *ssa.Function) bool {
	if f == nil {
		return false
	}
	p := PkgPath(f)
	return strings.HasPrefix(p, Mod) && !strings.Contains(p, "/internal/")
}

func (w *World) Position(p token.Pos) string {
	pos := w.Prog.Fset.Position(p)
	if !pos.IsValid() {
		return ""
	}
	return fmt.Sprintf("%s:%d", strings.TrimPrefix(strings.TrimPrefix(pos.Filename, w.Dir), "/"), pos.Line)
}

func (w *World) At(in ssa.Instruction) string {
	if in.Pos().IsValid() {
		return w.Position(in.Pos())
	}
	// fall back to the closest positioned instruction in the block
	for _, i := range in.Block().Instrs {
		if i.Pos().IsValid() {
			return w.Position(i.Pos())
		}
	}
	return w.Position(in.Parent().Pos())
}

// Short strips the module path from a qualified name.
func Short(s string) string { return strings.ReplaceAll(s, Mod+"/", "") }

// FnKey is a stable key for a function: short name with instantiation types removed.
func FnKey(f *ssa.Function) string {
	if f == nil {
		return "?"
	}
	if o := f.Origin(); o != nil {
		f = o
	}
	return Short(f.String())
}

// Callees returns the module callees of a call site (all callees if all is set).
func (w *World) Callees(site ssa.CallInstruction, all bool) []*ssa.Function {
	if w.CG == nil {
		if f := site.Common().StaticCallee(); f != nil && (all || InMod(f)) {
			return []*ssa.Function{f}
		}
		return nil
	}
	n := w.CG.Nodes[site.Parent()]
	if n == nil {
		return nil
	}
	var out []*ssa.Function
	for _, e := range n.Out {
		if e.Site == site && (all || InMod(e.Callee.Func)) {
			out = append(out, e.Callee.Func)
		}
	}
	return out
}

// Func looks up a package-level function.
func (w *World) Func(pkgSuffix, name string) *ssa.Function {
	if sp := w.SPkgs[Mod+pkgSuffix]; sp != nil {
		return sp.Func(name)
	}
	return nil
}

// Method looks up a method of a named type of a module package (value or pointer receiver).
func (w *World) Method(pkgSuffix, typeName, method string) *ssa.Function {
	sp := w.SPkgs[Mod+pkgSuffix]
	if sp == nil {
		return nil
	}
	t := sp.Type(typeName)
	if t == nil {
		return nil
	}
	for _, tt := range []types.Type{t.Type(), types.NewPointer(t.Type())} {
		if sel := w.Prog.MethodSets.MethodSet(tt).Lookup(sp.Pkg, method); sel != nil {
			return w.Prog.MethodValue(sel)
		}
	}
	return nil
}
