// Package props describes, per property, what the static rules decide and
// what they leave undecided. The texts go into the evidence files.
package props

import (
	"strings"

	"semaverif/internal/core"
)

type Prop struct {
	ID        string
	Rules     []string
	Decides   string
	Undecided string
	MinObls   int // floor: fewer obligations than this means the rules would pass vacuously
}

var All = []Prop{
	{"C01", []string{"KEYS", "FLUSH", "PAIR", "DOCFLOW", "ITEMFLAGS", "DEADSTORE", "SKIPPEDEFFECT", "ELEMPTR", "TEMPLATEMAP", "SPRINTEQ", "POOLESCAPE", "REGEXANCHOR", "RECVSTORE", "TRYLOCKSKIP", "LOSSYCMP", "DIRTYGUARD", "TXSHADOW", "LOOSENAME", "POOLDIRTY", "SHAREDSCRATCH", "CUTONCE", "IFACEEQ", "REPEATCMP", "DEADERR", "DEADLINE", "GLOBROOT", "MAPORDER", "POOLRESET", "WALKSKIP", "DIVGUARD", "QUERYRO", "ERRLOOP", "NILLIST"},
		"the document and node id handed to the point store are the very values reported to the indexes, the previous document reported is the one loaded from the store, an update stores exactly the marshalled merge; point-store key tables agree (every key SetPoint writes is deleted by DeletePoint, every key read is written); the id allocator and the point count are persisted on every success exit of the insert and delete transactions; allocated ids flow into the stored point, freed ids belong to the deleted point; the size limit of an update is tested on the merged document that is stored; a read by ids looks every id up (the loop is left only by exhaustion or an error); the id allocator writes both its keys on every flush; no field of the Shard is assigned inside a storage write transaction; an update removes from the merged document only the fields the request names (no sweep over the merged map); each batch method opens one write transaction, not in a loop; a pooled set goes back to its pool emptied on every path",
		"equality of stored documents, ids and counts with a reference model after arbitrary histories; merge semantics of update; reported id lists", 8},
	{"C02", []string{"MERGE", "FOLD", "ENUM", "OPTABLE", "SORTABLE", "SCAN", "DOCFLOW", "DEADSTORE", "SKIPPEDEFFECT", "ELEMPTR", "TEMPLATEMAP", "SPRINTEQ", "POOLESCAPE", "REGEXANCHOR", "RECVSTORE", "TRYLOCKSKIP", "LOSSYCMP", "DIRTYGUARD", "LOOSENAME", "POOLDIRTY", "SHAREDSCRATCH", "CUTONCE", "IFACEEQ", "RANK", "REPEATCMP", "DEADERR", "DEADLINE", "GLOBROOT", "MAPORDER", "POOLRESET", "WALKSKIP", "DIVGUARD", "QUERYRO", "ERRLOOP", "NILLIST"},
		"every bucket implementation compares iterated keys with range bounds by the comparison its inclusiveness needs; the indexes are told the stored previous and new documents of every change; every key operand that reaches the inverted index is case-folded iff its siblings are; every operator accepted by validation has a handler; each range operator scans exactly (start,end,inclusive) its name means; the order-preserving key codec maps every sign class to the right half of the key space monotonically and is inverted by the decoder; a range scan compares the iterated key with its start bound as well; no change is taken for 'no change' by comparing renderings; a read by ids looks every id up; a dirty flag is only ever set (never assigned a computed value outside a flush); a case fold that depends on the index's case-sensitivity does so for every operand; containsAll over an array intersects a posting set for every queried element",
		"set equality of results with a model; postings after arbitrary update histories; _and/_or algebra", 30},
	{"C03", []string{"RANK", "DEADSTORE", "SKIPPEDEFFECT", "ELEMPTR", "TEMPLATEMAP", "SPRINTEQ", "POOLESCAPE", "REGEXANCHOR", "RECVSTORE", "TRYLOCKSKIP", "LOSSYCMP", "DIRTYGUARD", "DOCFLOW", "LOOSENAME", "POOLDIRTY", "SHAREDSCRATCH", "CUTONCE", "IFACEEQ", "QDIST", "REPEATCMP", "DEADERR", "DEADLINE", "GLOBROOT", "ITEMFLAGS", "MAPORDER", "ORDERING", "POOLRESET"},
		"the graph search appends a result only behind a comparison of the element's id with the entry node's id, only while fewer than limit results are held, with hybrid score minus weight times distance, and puts that very id into the returned id set; with a filter, greedy search adds to the filtered result set only points taken from the filter or tested with filter.Contains; the default weight replaces only an absent weight; with a filter the returned set is never the unfiltered search set; the visiting loop is bounded by the size the search set was created with; no TryLock failure is reported as success; the index is searched with the pre-filter of its own option block; the set of nodes unlinked before re-insertion covers updated points as well as deleted ones; the cosine and dot metrics are 1 - k and -k of the kernel's inner product",
		"that no deleted or duplicate point is returned after arbitrary histories, that distances are those of the configured metric, ordering, and the exactness regimes (values computed by greedy search over a history-built graph)", 7},
	{"C05", []string{"RANK", "DEADSTORE", "SKIPPEDEFFECT", "ELEMPTR", "TEMPLATEMAP", "SPRINTEQ", "POOLESCAPE", "REGEXANCHOR", "RECVSTORE", "TRYLOCKSKIP", "LOSSYCMP", "DIRTYGUARD", "DOCFLOW", "LOOSENAME", "POOLDIRTY", "SHAREDSCRATCH", "CUTONCE", "IFACEEQ", "REPEATCMP", "DEADERR", "DEADLINE", "GLOBROOT", "MAPORDER", "POOLRESET", "WALKSKIP", "DIVGUARD", "QUERYRO", "ERRLOOP", "NILLIST"},
		"containsAll intersects and containsAny unites the term sets; with a filter the match set is intersected with it before any result is built; hybrid score is plus weight times score; results are sorted by score, highest first, before the head is cut to the limit; the search never mutates a bitmap that can be a cached posting set; a document with tokens always gets its record (frequencies, length) stored; every query term contributes its posting set; a state-changing call is not skipped by the short-circuit of the flag it feeds; a persisted counter whose write-out is guarded by a flag sets the flag wherever it changes; a change is dropped by the dispatch transform only for a reason involving both old and new value; query terms collected into a slice are collected behind a membership test; the text index is searched with its own option block's filter",
		"the tf-idf arithmetic itself, analysis of text into tokens, corpus statistics after arbitrary histories", 7},
	{"C06", []string{"MERGE", "RANK", "DEADSTORE", "SKIPPEDEFFECT", "ELEMPTR", "TEMPLATEMAP", "SPRINTEQ", "POOLESCAPE", "REGEXANCHOR", "RECVSTORE", "TRYLOCKSKIP", "LOSSYCMP", "DIRTYGUARD", "LOOSENAME", "POOLDIRTY", "SHAREDSCRATCH", "CUTONCE", "IFACEEQ", "REPEATCMP", "DEADERR", "DEADLINE", "GLOBROOT", "MAPORDER", "POOLRESET", "WALKSKIP", "DIVGUARD", "QUERYRO", "ERRLOOP", "NILLIST"},
		"_or selects the union and _and the intersection of the sub-results; a merged result is appended only when its node id was not seen, otherwise its hybrid score is added to the entry held; in a conjunction results outside the intersection are never appended; every return of merged ranked results (beyond the single sub-query shortcut) comes after a sort by hybrid score, highest first; the page is results[min(offset,len):min(offset+limit,len)]; the sort-key comparator puts points lacking the key last and swaps operands per key when that key is descending; hybrid score signs of the three ranking indexes; every successful return of results is the page slice (except over tests of offset and limit only); 64-bit integers are not ordered through float64; no pointer to an element is kept across appends; two values of type any are not compared with == unless one is known comparable",
		"the values of the scores, stability of ties, selected field contents and nested-path rebuilding", 12},
	{"C04", []string{"KEYS", "ENUM", "RANK", "BORROW", "DEADSTORE", "SKIPPEDEFFECT", "ELEMPTR", "TEMPLATEMAP", "SPRINTEQ", "POOLESCAPE", "REGEXANCHOR", "RECVSTORE", "TRYLOCKSKIP", "LOSSYCMP", "DIRTYGUARD", "DOCFLOW", "FLUSH", "LOOSENAME", "POOLDIRTY", "QDIST", "SHAREDSCRATCH", "CUTONCE", "IFACEEQ", "REPEATCMP", "DEADERR", "DEADLINE", "GLOBROOT", "ITEMFLAGS", "MAPORDER", "POOLRESET", "WALKSKIP", "DIVGUARD", "QUERYRO", "ERRLOOP", "NILLIST"},
		"nothing a vector store or an index keeps (cached items, quantiser parameters) shares memory with the byte slices a storage bucket handed out: every retained slice passes through a copy; the flat scan stores a result only where no filter was given or the point is in it, grows its buffer only while len < cap with cap = limit, and scores minus weight times distance; every item a vector store writes is enumerable (IdFromKey), readable (ReadFrom) and fully removable (DeleteFrom) from a cold cache; every distance metric validation accepts is routed to a registered function; a deleted cache element is removed from the bucket whatever its other flags; a vector store is trained before it is flushed, never after; the default weight replaces only an absent weight; candidates are kept and ordered by distance, never by hybrid score; the flat index is searched with the pre-filter of its own option block; the cosine and dot metrics are 1 - k and -k of the kernel's inner product",
		"k-nearest-neighbour exactness and reported distance values", 12},
	{"C07", []string{"TXSTATE", "SCRAP", "ERRS", "JOIN", "LOCKPAIR", "FLUSH", "TXSHADOW", "DOCFLOW", "DEADERR", "ERRLOOP"},
		"a failed storage transaction always reaches Commit(true) and a successful one Commit(false); the cache manager scraps and unregisters every cache touched by a failed transaction; no error of a storage-layer call is dropped on the write path and the callback's error reaches bbolt's rollback; every pipeline stage's error channel is consumed and every write callback waits for the merged channel; the error a write transaction ends with reaches a return of the function that ran it; a pipeline transform returns a constructed error with skip constantly false; each batch method opens one write transaction",
		"crash atomicity of bbolt itself; equality of answers before and after a failed batch; (known finding) the fan-in helpers can complete before their inputs", 150},
	{"C08", []string{"FLUSH", "DIRTY", "KEYS", "GUARD", "ITEMFLAGS", "SCAN", "BORROW", "QDIST", "RANK", "TXLEAK", "LAYOUT", "ORDERING"},
		"no cached or returned value aliases bucket memory that is only valid during the storage transaction; the item cache's dirty/deleted flag protocol (Put makes live and dirty, readers skip deleted, Flush obeys the flags); both storage backends implement the same scan semantics; every flushing method flushes all caches of its receiver and persists every parameter the constructor reads; every write driver's success exits are the flush result; every mutation of a persisted field of a flagged Storable sets its dirty flag; Storable key tables agree; a storage transaction begun by hand is closed on every path; byte encoders never return nil; a node's neighbour list counts as loaded only behind its loaded flag",
		"equality of answers across cache states and storage backends; durability of bbolt", 50},
	{"C09", []string{"ROEFFECT", "GUARD", "LOCKORDER", "LOCKPAIR", "JOIN", "SCRAP", "ATOMIC", "BORROW", "GOCAPTURE", "WITHCB", "WGWAIT", "ORDERING", "RANK", "SHAREDSCRATCH", "DOCFLOW", "TXLEAK"},
		"the documents a search returns own their memory (they do not point into the storage engine's memory map, which later writes reuse and remap); a lookup-then-update of a guarded registry map stays inside one critical section; no store into shared cached state is reachable from a read-only cache callback without a mutex of the stored-to object held; every access to the guarded maps and pointers holds the guarding lock; the lock-class order graph has no cycle outside the reasoned exceptions; every lock acquired is released on every exit; Transaction.With hands its callback only an element that is locked and was tested not-scrapped under that lock; a function that starts goroutines on a local WaitGroup does not return before they are done; no goroutine in a loop reads a variable the loop re-assigns; a search runs in one read transaction; stateful scratch objects (decoders, buffers, hashes) kept in fields are used only under a lock of their owner; a node's neighbour list counts as loaded only behind its loaded flag",
		"that a search's results come from one committed version (snapshot / cache version skew); final-state equality with a sequential model", 120},
	{"C10", []string{"PAIR", "KEYS", "FLUSH", "DEGREE", "ITEMFLAGS", "DOCFLOW", "DEADSTORE", "SKIPPEDEFFECT", "ELEMPTR", "TEMPLATEMAP", "SPRINTEQ", "POOLESCAPE", "REGEXANCHOR", "RECVSTORE", "TRYLOCKSKIP", "LOSSYCMP", "DIRTYGUARD", "LOOSENAME", "ORDERING", "POOLDIRTY", "RANK", "SHAREDSCRATCH", "CUTONCE", "IFACEEQ", "REPEATCMP", "DEADERR", "DEADLINE", "GLOBROOT", "MAPORDER", "POOLRESET", "WALKSKIP", "DIVGUARD", "QUERYRO", "ERRLOOP", "NILLIST"},
		"every site that adds a graph edge is bounded by the degree bound (result check or a dominating guard with enough slack); a cached item deleted and re-put in one transaction stays live; graph node and stored vector are created and removed together for the same id; deleting an item removes every key a write may have created; the id allocator is persisted and its ids are paired with the points stored and deleted; every successful pruneDeleteNeighbour replaces the node's edge list; the id allocator writes both keys on every flush; a method result compared with the degree bound is a length on every return; the unlink set covers updated and deleted points",
		"dangling edges, self-loops, the degree bound and id bounds after arbitrary histories", 12},
	{"C11", []string{"LOCKPAIR", "LOCKORDER", "SCRAP", "GUARD", "TXSTATE", "ATOMIC", "DEADSTORE", "WITHCB", "SKIPPEDEFFECT", "ELEMPTR", "TEMPLATEMAP", "SPRINTEQ", "POOLESCAPE", "REGEXANCHOR", "RECVSTORE", "TRYLOCKSKIP", "LOSSYCMP", "DIRTYGUARD", "LOOSENAME", "POOLDIRTY", "SHAREDSCRATCH", "CUTONCE", "IFACEEQ", "REPEATCMP", "DEADERR", "DEADLINE", "GLOBROOT", "MAPORDER", "POOLRESET", "WALKSKIP", "DIVGUARD", "QUERYRO", "ERRLOOP", "NILLIST"},
		"the cache registry is looked up and published in one critical section; marking a failed cache scrapped is unconditional before its lock is released; the cache transaction is committed only after the storage transaction returned, with a flag that tests its error; every lock of the cache manager is released on every exit, the write lock handed to the transaction is registered on the same path and unlocked by Commit for every registered cache; lock classes are acquired in an acyclic order; a failed callback or commit scraps and unregisters the cache; readers never block on an existing cache; Transaction.With hands its callback only an element that is locked and was tested not-scrapped under that lock, and an element it publishes is locked before the manager lock is released",
		"that readers observe a quiescent cache (ROEFFECT under C09); fairness", 60},
	{"C12", []string{"LOCKORDER", "GUARD", "LIFECYCLE", "LOCKPAIR", "ATOMIC", "TXLEAK"},
		"the shard manager's locks are acquired in an acyclic order and released on every exit; the shard pointer and the shard map are only touched under their locks; the pointer is nil-checked under the lock before use, cleared after Close, and shard files are removed only under the store lock after un-registration; signals to the idle routine never block; the nil test of the shard pointer and its use are in one critical section; an entry leaves the registry only once its shard is closed; a helper returns holding a lock only if it does so on every return of that kind; the shard pointer given to a DoWithShard callback does not outlive the callback; hand-managed storage transactions are closed on every path",
		"liveness beyond mutex deadlock (channel waits other than the checked non-blocking sends)", 25},
	{"C13", []string{"PURITY", "ROUTE", "DEADSTORE", "GOCAPTURE", "SKIPPEDEFFECT", "ELEMPTR", "TEMPLATEMAP", "SPRINTEQ", "POOLESCAPE", "REGEXANCHOR", "RECVSTORE", "TRYLOCKSKIP", "LOSSYCMP", "DIRTYGUARD", "TXSHADOW", "LOOSENAME", "POOLDIRTY", "SHAREDSCRATCH", "CUTONCE", "IFACEEQ", "REPEATCMP", "DEADERR", "DEADLINE", "GLOBROOT", "MAPORDER", "POOLRESET", "WALKSKIP", "DIVGUARD", "QUERYRO", "ERRLOOP", "NILLIST"},
		"a server's score depends on (key, that server) only; the ranking comparator depends on its operands only; every RPC destination is RendezvousHash over the node's full, immutable server list; a goroutine started in a loop never reads a destination or request variable that the loop keeps re-assigning, and no field assigned on a request is lost because the struct was copied before; every value a destination can take is the RendezvousHash owner (no shortcut returns the node's own name); the server list a node routes by is the configured list as it came",
		"64-bit score ties; statistical uniformity of the hash", 25},
	{"C14", []string{"TRANSFER", "BORROW", "TEMPLATEMAP", "LOOSENAME", "TENANT", "ERRS", "GLOBROOT", "WALKSKIP"},
		"the records collected for the other servers are copied out of the read transaction they were scanned in; recursive removal on the sender is confined to the sent shard's own directory; the record receiver counts an entry as delivered only after its Put succeeded; the source copy (file or records) is removed only on paths behind a successful transfer, matching byte/record counts and equal checksums; the receiver reports the checksum of the file on disk and resets the destination on the first chunk; start-up runs RPC serving, synchronisation, HTTP in that order; the checksum covers the whole file (every block read is hashed); every path into the shard tree is rooted at the shard manager's root; a template request copied per destination does not share its map; the node's server list is the configured one; a shard file is recognised by its exact name; the outcome of the record-receiving write transaction is returned to the sender; Sync skips its phases only after comparing a listed server with the node itself",
		"byte identity of transferred files; recovery after a kill at every chunk", 6},
	{"C15", []string{"QUOTA", "ROUTE", "REPLYFLAGS", "TXRMW", "TXSHADOW", "DOCFLOW", "MAPORDER"},
		"every side effect of an insert request (shard creation, per-shard insert) is only reachable behind the point-quota test, and the collection record is only written behind the collection-quota test; a request that names a shard (the shard-info fan-out that feeds the quota sum, inserts) is sent to the server that RendezvousHash gives for that very shard id; no in-memory copy of stored state is changed inside a write transaction; every reply flag a handler sets is read by its callers; a record is read and written back in one transaction; an insert is one write transaction; a write transaction that replaces an existing record writes the stored record decoded and changed, not the caller's copy",
		"contiguity, disjointness and per-shard limits of the point distribution; count identities", 3},
	{"C16", []string{"TENANT", "REGEXANCHOR", "HANDLERSHARED", "BORROW", "POOLRESET"},
		"every key and scan prefix on the collection records is user id + delimiter (+ collection id) of the request; shard directories are built from the collection's user id and id; handlers take the user id only from the authenticated headers; validation patterns are anchored at both ends; request handlers do not assign to variables shared between requests; the user id put into the request context is the header value unchanged; a hand-built Collection that names its id names its user id",
		"isolation as observed over HTTP for interleaved histories", 18},
	{"C17", []string{"ROUTE", "FANOUT", "SORTED", "DEADSTORE", "GOCAPTURE", "REPLYFLAGS", "TXRMW", "SKIPPEDEFFECT", "ELEMPTR", "WGWAIT", "TEMPLATEMAP", "SPRINTEQ", "POOLESCAPE", "REGEXANCHOR", "RECVSTORE", "TRYLOCKSKIP", "LOSSYCMP", "DIRTYGUARD", "TXSHADOW", "LOOSENAME", "POOLDIRTY", "SHAREDSCRATCH", "CUTONCE", "IFACEEQ", "REPEATCMP", "DEADERR", "DEADLINE", "GLOBROOT", "MAPORDER", "POOLRESET", "WALKSKIP", "DIVGUARD", "QUERYRO", "ERRLOOP", "NILLIST"},
		"the failed-point bookkeeping binary-searches only a slice that was sorted as a whole; every RPC handler forwards to itself on the destination server with its own arguments, guarded by the destination test, and acts locally only on the destination; fan-outs cover the collection's complete shard list; \"not found\" is only reported when every shard answered; merged search results are cut to the client's limit; merged shard results are sorted before every successful return with more than one shard; reply flags are read; a record is read and written back in one transaction; fan-out functions wait for their goroutines; the counter that decides 'every shard answered' is incremented only where the call succeeded; no comparator compares the same operands twice",
		"exactly-once effects, merge order and failed-point bookkeeping values", 30},
	{"C18", []string{"MERGE", "VALID", "LIMITS", "ENUM", "TYPETAB", "TAGGED", "VECLEN", "HANDBUILT", "DEADSTORE", "SKIPPEDEFFECT", "ELEMPTR", "TEMPLATEMAP", "SPRINTEQ", "POOLESCAPE", "REGEXANCHOR", "RECVSTORE", "TRYLOCKSKIP", "LOSSYCMP", "DIRTYGUARD", "HANDLERSHARED", "DOCFLOW", "LOOSENAME", "POOLDIRTY", "SHAREDSCRATCH", "CUTONCE", "IFACEEQ", "REPEATCMP", "DEADERR", "DEADLINE", "GLOBROOT", "MAPORDER", "POOLRESET", "WALKSKIP", "DIVGUARD", "QUERYRO", "ERRLOOP", "NILLIST"},
		"for every vector index type both schema validators compare the vector length with the index dimension on every success path; queries built by hand in a handler satisfy the validator of their own type; request bodies are only read through DecodeValid, which only succeeds after Validate; no failing validation edge can reach a cluster call; every documented limit is enforced by the hand-written validators; index-type and quantizer dispatchers are exhaustive; the types validation normalises to are the types the index dispatcher asserts; optional union payloads are only dereferenced behind a nil or tag test; on every successful way through Query.Validate every option block it validates at all was looked at; a validator does not assign defaults to a copy of its receiver; the pre-filter of every option block is validated on the way through Query.Validate; a dotted property path is not resolved with a single Cut; no == between two unknown any values",
		"absence of panics in general for all request bytes; panics on goroutines outside the recovery middleware", 150},
	{"C19", []string{"SORTABLE", "LAYOUT", "KEYS"},
		"the sortable codec is order-preserving and invertible on every sign class of int64 and float64 and the identity on strings and uint64; every key constructor and its decoder agree on length, constant bytes, id offset and byte order; item kinds sharing a bucket have disjoint key shapes; in the slice codecs every iteration writes its element; no key is handed out from memory that was given back to a pool; byte encoders never return nil and a key decoder's ok result does not depend on the decoded id",
		"bit-exact round trip of float32 vector payloads beyond byte order and width", 25},
	{"C20", []string{"ASM", "BITPACK", "COVERAGE", "QDIST"},
		"the Go kernels (bit metrics, pure-Go float kernels) read every index below the length from both operands, including unrolled loops with a switch tail; in both AVX kernels a register read as a partial sum is zero or a partial sum on every path and the element count is zero at every return; both AVX kernels read every index below the length exactly once from both operands, never beyond it, and fold every accumulator into the result; bit packing uses one word width for count, index and shift on a zeroed slice; the bit metrics combine their operands only with commutative operators; every bit packed by the binary quantiser is the outcome of element > threshold; the AVX traversal is decided for count-down, indexed, end-pointer and mixed loop forms; every instruction of a kernel is in the vocabulary the abstract interpreter gives a meaning to; the cosine and dot metrics are 1 - k and -k of the kernel's result with nothing (no clamp) in between",
		"floating-point agreement with the scalar reference; haversine; cosine's normalisation assumption", 9},
}

// NotApplicable is empty since the build step: C03, C05 and C06 were declared not applicable in the
// first design and are now claimed through the structural clauses of RANK and MERGE (DESIGN.md §9).
var NotApplicable = map[string]string{}

func Get(id string) *Prop {
	for i := range All {
		if All[i].ID == id {
			return &All[i]
		}
	}
	return nil
}

// Technique names, per property, the static methods that decide it (MANIFEST "technique").
var Technique = map[string]string{
	"C01": "key-table extraction over Put/Get/Delete call shapes, dominance of counter persistence over success exits, value-flow pairing of allocator ids; call-graph count of write-transaction sites per batch method and loop membership; must-pass reset analysis of pooled objects; repository-specific shape lints on SSA (lost updates on copies, effects skipped by short-circuits, element pointers kept across appends, shared templates and handler variables, pool escapes, value-receiver assignments, owner state changed inside a write transaction, flag-guarded persisted fields)",
	"C02": "provenance slicing for case-fold sibling agreement, switch/case table extraction, phi-edge operator table, sign-class abstract interpretation of the key codec; monotonicity of dirty flags; conditional/unconditional agreement of case folds across operands; loop-skip analysis of the per-element set collection; repository-specific shape lints on SSA (lost updates on copies, effects skipped by short-circuits, element pointers kept across appends, shared templates and handler variables, pool escapes, value-receiver assignments, owner state changed inside a write transaction, flag-guarded persisted fields)",
	"C03": "edge dominance of the entry-node and limit tests over every result append, provenance and sign of the hybrid score product, gating of filtered-result-set adds by the filter; context-sensitive value trace of the pre-filter to its option block; must-pass pairing of list appends with unlink-set adds; affine evaluation of the metric formulas found through the metric table; repository-specific shape lints on SSA (lost updates on copies, effects skipped by short-circuits, element pointers kept across appends, shared templates and handler variables, pool escapes, value-receiver assignments, owner state changed inside a write transaction, flag-guarded persisted fields)",
	"C05": "operator table by edge dominance, must-pass-through of the filter intersection, comparator direction, sort-before-cut ordering, alias analysis of mutated bitmaps, path-consistent walk of the per-document routine; dependence analysis of the skip result of the dispatch transforms on old/new data; membership-guard check of term collection; repository-specific shape lints on SSA (lost updates on copies, effects skipped by short-circuits, element pointers kept across appends, shared templates and handler variables, pool escapes, value-receiver assignments, owner state changed inside a write transaction, flag-guarded persisted fields)",
	"C06": "edge dominance and must-pass-through in the merge (set algebra, de-duplication, conjunction gate, sort before every return), clamp/provenance shape of the page slice, partial evaluation of the sort-key comparator; repository-specific shape lints on SSA (lost updates on copies, effects skipped by short-circuits, element pointers kept across appends, shared templates and handler variables, pool escapes, value-receiver assignments, owner state changed inside a write transaction, flag-guarded persisted fields)",
	"C04": "writer/reader/enumerator key-table agreement per Storable (exhaustive path enumeration of loop-free methods), enum-switch exhaustiveness, whole-module alias (borrow) analysis from bucket reads to retained fields; field-of-comparison check of the top-k insertion; affine evaluation of the metric formulas found through the metric table; repository-specific shape lints on SSA (lost updates on copies, effects skipped by short-circuits, element pointers kept across appends, shared templates and handler variables, pool escapes, value-receiver assignments, owner state changed inside a write transaction, flag-guarded persisted fields)",
	"C07": "typestate of cache transactions on the CFG, must-pass-through (scrap on failure), error-result use analysis over the VTA-reachable write path, goroutine join-chain analysis of select states; value-flow of a write transaction's error to the caller's returns; pairing of constructed errors with a constant-false skip result in pipeline transforms",
	"C08": "sibling completeness of flush methods, success-exit dominance, dirty-flag post-dominance, key tables, constant-key write/read pairing, whole-module alias (borrow) analysis from bucket reads to retained fields; path check that hand-begun transactions are closed; nil-constant returns of byte encoders; flag-edge dominance of the lazy neighbour load",
	"C09": "loop-shared capture analysis of search goroutines, read-only effect analysis over the VTA call graph with path-sensitive must-held locksets, guarded-by table, lock-order graph SCCs, alias (borrow) analysis of search results against bucket memory; call-graph count of read-transaction sites of a search; lockset check of stateful scratch objects held in fields",
	"C10": "value-flow pairing of node and vector mutations, key tables (delete ⊇ write), flush completeness; return-shape check of methods whose result is compared with the degree bound; repository-specific shape lints on SSA (lost updates on copies, effects skipped by short-circuits, element pointers kept across appends, shared templates and handler variables, pool escapes, value-receiver assignments, owner state changed inside a write transaction, flag-guarded persisted fields)",
	"C11": "path-sensitive lock-state exploration (acquire/release pairing incl. hand-over), lock-order graph, must-pass-through on failure edges, non-blocking reader path; repository-specific shape lints on SSA (lost updates on copies, effects skipped by short-circuits, element pointers kept across appends, shared templates and handler variables, pool escapes, value-receiver assignments, owner state changed inside a write transaction, flag-guarded persisted fields)",
	"C12": "lock-order graph SCCs, guarded-by table, nil-check typestate and dominance ordering of unregister-before-remove; consistency of a helper's held-at-return lockset over its returns (a lock held at one return only is a leak); escape analysis of the shard pointer handed to DoWithShard callbacks",
	"C13": "loop-shared capture analysis of the goroutines that carry a destination, backward provenance slice of the hash input and comparator, who-may-store on the server list, every Dest initialiser traced to RendezvousHash over the full list; store analysis of the node's server list against the configured list; repository-specific shape lints on SSA (lost updates on copies, effects skipped by short-circuits, element pointers kept across appends, shared templates and handler variables, pool escapes, value-receiver assignments, owner state changed inside a write transaction, flag-guarded persisted fields)",
	"C14": "edge dominance (delete only behind verify), provenance of the reported checksum, open-flag constant analysis on the first-chunk path, call order in main, alias (borrow) analysis of the records kept beyond the scan transaction; who-may-modify check of the configured server list, edge dominance of Sync's phase-skipping return by the self-comparison, value-flow of the record transaction's error to the RPC reply; repository-specific shape lints on SSA (lost updates on copies, effects skipped by short-circuits, element pointers kept across appends, shared templates and handler variables, pool escapes, value-receiver assignments, owner state changed inside a write transaction, flag-guarded persisted fields)",
	"C15": "edge dominance of the quota tests over every side-effecting call, value identity of the hashed key and the id stored in each routed request; decode-modify-encode provenance of records replaced inside a write transaction; repository-specific shape lints on SSA (lost updates on copies, effects skipped by short-circuits, element pointers kept across appends, shared templates and handler variables, pool escapes, value-receiver assignments, owner state changed inside a write transaction, flag-guarded persisted fields)",
	"C16": "provenance of bucket keys, scan prefixes, directory paths and handler user ids; identity trace of the user-id header value into the request context; field-set check of hand-built Collection literals; repository-specific shape lints on SSA (lost updates on copies, effects skipped by short-circuits, element pointers kept across appends, shared templates and handler variables, pool escapes, value-receiver assignments, owner state changed inside a write transaction, flag-guarded persisted fields)",
	"C17": "loop-shared capture analysis of fan-out goroutines, dead-store analysis of request templates, sibling cross-check of all RPC handlers (self-route constant, guard, arguments), range-operand and length-comparison provenance of fan-out loops; edge dominance of the answered-shards counter by the nil-error edge (sibling fan-outs compared); structural equality of repeated comparisons; repository-specific shape lints on SSA (lost updates on copies, effects skipped by short-circuits, element pointers kept across appends, shared templates and handler variables, pool escapes, value-receiver assignments, owner state changed inside a write transaction, flag-guarded persisted fields)",
	"C18": "dead-store (lost update) analysis of request structs copied before being bound, who-may-read of the request body, dominance of validation over cluster calls, binding-tag vs Validate comparison tables, enum/type tables, tagged-union dereference guards; reachability of a Validate call for the Filter of every option block (incl. table-driven and interface-dispatched forms); dynamic-type comparability of == on any; repository-specific shape lints on SSA (lost updates on copies, effects skipped by short-circuits, element pointers kept across appends, shared templates and handler variables, pool escapes, value-receiver assignments, owner state changed inside a write transaction, flag-guarded persisted fields)",
	"C19": "sign-class abstract interpretation of encoder and decoder, constructor/decoder layout tables (length, constant bytes, offsets, endianness), key-shape disjointness; nil-constant and value-dependence checks of encoders' and key decoders' results; shift/or tree evaluation of hand-written byte reads; repository-specific shape lints on SSA (lost updates on copies, effects skipped by short-circuits, element pointers kept across appends, shared templates and handler variables, pool escapes, value-receiver assignments, owner state changed inside a write transaction, flag-guarded persisted fields)",
	"C20": "affine abstract interpretation of the Plan-9 AVX kernels (stride, coverage, bounds, accumulator folding), constant agreement of bit packing, operator commutativity; instruction-vocabulary closure of the kernels; affine evaluation of the cosine/dot wrappers around the kernel",
}

// RuleFloor: per rule family, the number of obligations below which the rule is
// considered to have lost its anchors (it would pass vacuously), and the
// properties that then fail. Counts confirmed on the reference tree; large
// families get slack for legitimate shrinkage.
type RuleFloor struct {
	Min   int
	Props []string
}

var RuleFloors = map[string]RuleFloor{
	"ASM":           {8, []string{"C20"}},
	"BORROW":        {25, []string{"C04", "C08", "C09", "C14"}},
	"DEADSTORE":     {12, []string{"C01", "C02", "C04", "C11", "C13", "C17", "C18"}},
	"GOCAPTURE":     {3, []string{"C09", "C13", "C17"}},
	"WGWAIT":        {5, []string{"C09", "C17"}},
	"WITHCB":        {3, []string{"C09", "C11"}},
	"REPLYFLAGS":    {3, []string{"C15", "C17"}},
	"TXRMW":         {3, []string{"C15", "C17"}},
	"ATOMIC":        {3, []string{"C09", "C11", "C12"}},
	"BITPACK":       {3, []string{"C20"}},
	"DEGREE":        {3, []string{"C10"}},
	"DIRTY":         {5, []string{"C08"}},
	"DOCFLOW":       {9, []string{"C01", "C02"}},
	"ENUM":          {14, []string{"C18", "C02", "C04"}},
	"ERRS":          {100, []string{"C07"}},
	"FANOUT":        {7, []string{"C17"}},
	"FLUSH":         {24, []string{"C08", "C07", "C01", "C10"}},
	"FOLD":          {8, []string{"C02"}},
	"GUARD":         {38, []string{"C09", "C11", "C12", "C08"}},
	"HANDBUILT":     {2, []string{"C18"}},
	"ITEMFLAGS":     {6, []string{"C10", "C08", "C01"}},
	"JOIN":          {30, []string{"C07", "C09"}},
	"KEYS":          {30, []string{"C04", "C08", "C10", "C01", "C19"}},
	"LAYOUT":        {9, []string{"C19"}},
	"LIFECYCLE":     {7, []string{"C12"}},
	"LIMITS":        {90, []string{"C18"}},
	"LOCKORDER":     {25, []string{"C09", "C11", "C12"}},
	"LOCKPAIR":      {32, []string{"C09", "C11", "C12", "C07"}},
	"OPTABLE":       {8, []string{"C02"}},
	"PAIR":          {5, []string{"C10", "C01"}},
	"PURITY":        {2, []string{"C13"}},
	"QUOTA":         {3, []string{"C15"}},
	"ROEFFECT":      {5, []string{"C09"}},
	"ROUTE":         {20, []string{"C13", "C17"}},
	"SCAN":          {4, []string{"C02", "C08"}},
	"SCRAP":         {9, []string{"C11", "C07", "C09"}},
	"SORTABLE":      {14, []string{"C19", "C02"}},
	"SORTED":        {1, []string{"C17"}},
	"TAGGED":        {30, []string{"C18"}},
	"TENANT":        {18, []string{"C16"}},
	"TRANSFER":      {8, []string{"C14"}},
	"TXSTATE":       {3, []string{"C07", "C11"}},
	"TYPETAB":       {9, []string{"C18"}},
	"VALID":         {12, []string{"C18"}},
	"VECLEN":        {4, []string{"C18"}},
	"COVERAGE":      {4, []string{"C20"}},
	"RANK":          {17, []string{"C03", "C04", "C05", "C06"}},
	"MERGE":         {10, []string{"C06"}},
	"ORDERING":      {3, []string{"C09", "C10"}},
	"QDIST":         {6, []string{"C04", "C08"}},
	"DIRTYGUARD":    {10, []string{"C01", "C02", "C04", "C11"}},
	"ELEMPTR":       {10, []string{"C01", "C02", "C04", "C11"}},
	"HANDLERSHARED": {4, []string{"C16", "C18"}},
	"LOOSENAME":     {10, []string{"C14"}},
	"LOSSYCMP":      {10, []string{"C06", "C17"}},
	"POOLDIRTY":     {10, []string{"C01"}},
	"POOLESCAPE":    {10, []string{"C01", "C19"}},
	"RECVSTORE":     {8, []string{"C18"}},
	"REGEXANCHOR":   {10, []string{"C16", "C18"}},
	"SHAREDSCRATCH": {10, []string{"C09"}},
	"SKIPPEDEFFECT": {10, []string{"C05", "C01"}},
	"SPRINTEQ":      {10, []string{"C02"}},
	"TEMPLATEMAP":   {10, []string{"C13", "C17"}},
	"TRYLOCKSKIP":   {10, []string{"C03", "C09"}},
	"TXLEAK":        {2, []string{"C12", "C08"}},
	"DEADERR":       {10, []string{"C07"}},
	"DEADLINE":      {10, []string{"C17"}},
	"GLOBROOT":      {10, []string{"C14"}},
	"MAPORDER":      {10, []string{"C15"}},
	"POOLRESET":     {10, []string{"C16"}},
	"WALKSKIP":      {10, []string{"C14"}},
	"DIVGUARD":      {8, []string{"C18"}},
	"QUERYRO":       {8, []string{"C02"}},
	"ERRLOOP":       {16, []string{"C07"}},
	"NILLIST":       {10, []string{"C17"}},
	"CUTONCE":       {10, []string{"C18"}},
	"IFACEEQ":       {10, []string{"C18"}},
	"REPEATCMP":     {10, []string{"C17"}},
	"TXSHADOW":      {2, []string{"C07", "C15"}},
}

// round7Decides: what the clauses of DESIGN.md addendum 7 (and the horizontal-sum clause of §11.1)
// add to the per-property texts above.
var round7Decides = map[string]string{
	"C02": "no arithmetic lies between the value fields of a query and the arguments of the scalar indexes' Search (a strict bound is not rewritten as an inclusive neighbour)",
	"C03": "ItemCache.GetMany leaves its loop over the requested ids only at the end or with an error, so a missing or deleted id does not hide the ids after it",
	"C04": "one function does not walk an unordered collection twice and index the second walk's data by the first walk's position",
	"C05": "the cardinality that feeds the inverse document frequency is that of a term's whole posting set, not of a set derived from it; the loop that counts a document's tokens has no way round the count",
	"C06": "a path is cut at its first separator again for every remaining level when selected fields are rebuilt",
	"C08": "outside the node's own methods a node's cached neighbour list is read (directly or through an accessor that lends it to a callback) only after LoadNeighbours on that node",
	"C09": "a storage transaction begun by hand and put into a wrapper that is only lent to a callback is closed on every exit of the function that began it",
	"C10": "Flush writes an element to the bucket (itself or in a helper) only behind the not-deleted edge of its mark; an error that is built is also used",
	"C12": "no key used on the shard registry went through a path normalisation the other users of the registry do not apply",
	"C13": "an owner computed by the routing function is memoised only under the key that was hashed",
	"C14": "shard files are found through the collection records, not by a glob over a non-constant directory",
	"C15": "answers of a fan-out are not matched to requests by the slot of a second walk over the same map",
	"C16": "an object from a sync.Pool is wiped as a whole before use; bucket bytes are not assigned inside a transaction callback to a variable that outlives the transaction",
	"C17": "the rpc codec's body readers call the decoder on every successful return; a deadline set for the handshake is cleared before the connection is used",
	"C18": "every uuid.MustParse in the handlers is applied to a field that the request type's Validate parses; the page of a search is cut with the offset clamped to the number of results before the limit is added, so that the unbounded offset of a request cannot wrap the sum (a negative upper bound panics on a goroutine without recovery; found and repaired, 6e1ff8c)",
	"C19": "no codec sizes its output by the capacity of its argument",
	"C20": "the final block of both AVX kernels, evaluated over a lane model (VADDPS, VADDSS, VHADDPS, VEXTRACTF128 and the register shuffles), adds every lane of every packed accumulator and lane 0 of every scalar accumulator into the returned float exactly once",
}

func init() {
	for i := range All {
		if t, ok := round7Decides[All[i].ID]; ok {
			All[i].Decides += "; " + t
		}
	}
	Technique["C20"] += "; lane-level symbolic evaluation (multisets of accumulator lanes) of the horizontal reduction"
	Technique["C03"] += "; loop-exit analysis of the batched cache read"
	Technique["C10"] += "; mark-edge dominance of bucket writes in Flush, followed into helpers"
}

// round8Decides: the clauses of DESIGN.md addendum 8.
var round8Decides = map[string]string{
	"C01": "outside its constructor the id allocator's next free id is only ever counted up",
	"C02": "case folds in the string indexes happen only behind the not-case-sensitive edge; the query executor combines sets by intersection and union only and never writes into a query it was given; a range scan tests an absent bound by nil, not by length",
	"C03": "the distance a vector search reports is the index's distance itself (no clamp, no arithmetic)",
	"C04": "a loop of the vector stores that keeps a running minimum looks at every candidate",
	"C05": "the corpus size of a text index is never compared with, and is counted up only for a document that has tokens",
	"C06": "the shard's final list is sorted by the request's sort keys only; an appended merged result is registered in the de-duplication map before the next one is looked at; the page is cut with the offset clamped before it enters a sum",
	"C07": "an error assigned in a loop is looked at before the next iteration overwrites it; no success return lies between a call and the test of its error",
	"C10": "a decoder of a cached item stores the id it was asked for into the item it returns",
	"C12": "nothing can fail after a shard was put into the registry; a function handed an operation on a shard does not report success without having run it",
	"C14": "no directory walk skips subtrees",
	"C15": "the quota sums the point counts over the list of shards as it was fetched",
	"C16": "a prefix scan hands out only keys that were tested for the prefix",
	"C17": "the reply of a shard call is read only behind the nil edge of the call's error",
	"C18": "an integer division or remainder by the length of a collection lies behind a test that it is not empty; schema validation descends into the _and and the _or list of a query, each read from its own field",
	"C19": "a range scan tests an absent bound by nil, not by length (the key of the empty string is a legal bound)",
	"C20": "every entry of the product quantiser's query table is the result of the configured distance function",
}

func init() {
	for i := range All {
		if t, ok := round8Decides[All[i].ID]; ok {
			All[i].Decides += "; " + t
		}
	}
	Technique["C18"] += "; guard-edge dominance of divisions by a length; clamp-before-sum shape of the page bounds"
	Technique["C07"] += "; loop-phi use analysis of error values; reachability of success returns avoiding the blocks that test an error"
	Technique["C16"] += "; edge dominance of the scan callback by the prefix test in both storage backends"
}

// round9Decides: the clauses of DESIGN.md addendum 9.
var round9Decides = map[string]string{
	"C02": "the array index's diff looks for the values an array lost on every way to a successful return (or knows there were no previous values)",
	"C03": "the hit bitmap a vector search returns starts as an empty bitmap (it is not derived from the pre-filter)",
	"C05": "the term map of a stored document record is built afresh on an update (or terms are deleted from it)",
	"C07": "an error of a storage call that is only written to the log counts as lost",
	"C09": "a failed transaction marks a cache scrapped and unpublishes it before it releases that cache's write lock, in the same pass",
	"C10": "an error of a storage call that is only written to the log counts as lost (the recorded maximum node id is written or the batch fails)",
	"C15": "the comparison that refuses a request over quota involves both the shards' point counts and the number of points of the request",
	"C16": "the registry of loaded shards is keyed by a value that derives from the user id (the shard directory)",
	"C17": "no list field of a request model is compared with nil (an empty list and an absent one are the same request)",
	"C18": "for every index type that has a parameter block, schema validation tests that very block for nil before it accepts the entry",
}

func init() {
	for i := range All {
		if t, ok := round9Decides[All[i].ID]; ok {
			All[i].Decides += "; " + t
		}
	}
	Technique["C18"] += "; per-tag reachability in Validate avoiding the nil test of the tag's own block"
	Technique["C16"] += "; provenance of every key of the loaded-shard registry"
}

// The constructs of core.AlsoServes are reported by the checks of further properties: their rule
// families join those properties' rule lists, and the evidence text says so.
func init() {
	for _, a := range core.AlsoServes {
		rule := a.Prefix
		if i := strings.Index(rule, "/"); i >= 0 {
			rule = rule[:i]
		}
		for _, id := range a.Props {
			p := Get(id)
			if p == nil {
				continue
			}
			has := false
			for _, r := range p.Rules {
				if r == rule {
					has = true
				}
			}
			if !has {
				p.Rules = append(p.Rules, rule)
			}
		}
	}
	also := map[string][]string{}
	for _, a := range core.AlsoServes {
		for _, id := range a.Props {
			also[id] = append(also[id], strings.TrimSuffix(a.Prefix, ":"))
		}
	}
	for i := range All {
		if l := also[All[i].ID]; len(l) > 0 {
			All[i].Decides += "; in addition the constructs " + strings.Join(l, ", ") + " — decided by rules written for other properties and shown by independently confirmed changes (DESIGN.md §10.1) to be necessary for this one as well — are reported by this check too"
		}
	}
}
