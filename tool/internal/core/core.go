// Package core holds the obligation model shared by all rules.
package core

import (
	"fmt"
	"sort"
	"strings"
)

type Verdict string

const (
	OK        Verdict = "ok"
	Violation Verdict = "violation"
	Undecided Verdict = "undecided"
	Exception Verdict = "exception" // discharged by a frozen, reasoned exception
)

// Obligation is one instance of a rule on one construct.
type Obligation struct {
	Rule    string   `json:"rule"`
	Key     string   `json:"key"` // stable construct key, never a line number
	Verdict Verdict  `json:"verdict"`
	Where   string   `json:"where,omitempty"` // file:line, diagnostic only
	Detail  string   `json:"detail,omitempty"`
	Props   []string `json:"props"`
}

func (o Obligation) ID() string { return o.Rule + "/" + o.Key }

type Collector struct {
	Obls     []Obligation
	Universe map[string]int // measured sizes: functions, call sites, ...
	Notes    []string
	seen     map[string]int
}

func NewCollector() *Collector {
	return &Collector{Universe: map[string]int{}, seen: map[string]int{}}
}

// Add records an obligation. Obligations with the same rule/key are merged:
// the worst verdict wins and details are concatenated.
func (c *Collector) Add(rule, key string, v Verdict, where, detail string, props ...string) {
	// keys appear as one whitespace-free token in known_findings.txt
	key = strings.ReplaceAll(strings.ReplaceAll(key, ", ", ","), " ", "_")
	id := rule + "/" + key
	props = widen(id, props)
	if i, ok := c.seen[id]; ok {
		o := &c.Obls[i]
		if rank(v) > rank(o.Verdict) {
			o.Verdict = v
			o.Where = where
		}
		if detail != "" && !strings.Contains(o.Detail, detail) {
			if o.Detail != "" {
				o.Detail += "; "
			}
			o.Detail += detail
		}
		for _, p := range props {
			if !has(o.Props, p) {
				o.Props = append(o.Props, p)
			}
		}
		return
	}
	c.seen[id] = len(c.Obls)
	c.Obls = append(c.Obls, Obligation{Rule: rule, Key: key, Verdict: v, Where: where, Detail: detail, Props: append([]string(nil), props...)})
}

func (c *Collector) Count(name string, n int) { c.Universe[name] += n }
func (c *Collector) Notef(f string, a ...any) { c.Notes = append(c.Notes, fmt.Sprintf(f, a...)) }

func rank(v Verdict) int {
	switch v {
	case OK:
		return 0
	case Exception:
		return 1
	case Undecided:
		return 2
	case Violation:
		return 3
	}
	return 0
}

func has(xs []string, x string) bool {
	for _, y := range xs {
		if y == x {
			return true
		}
	}
	return false
}

// ForProp returns the obligations serving a property, sorted by id.
func (c *Collector) ForProp(p string) []Obligation {
	var out []Obligation
	for _, o := range c.Obls {
		if has(o.Props, p) {
			out = append(out, o)
		}
	}
	sort.Slice(out, func(i, j int) bool { return out[i].ID() < out[j].ID() })
	return out
}


// AlsoServes: constructs that were first filed under the property their rule was written for and
// that independently confirmed changes (the seeds of DESIGN.md §10, each with a failing
// demonstration of the property named here) showed to be necessary for other properties too. The
// obligation carries those properties as well, so that the check of every property a construct
// is necessary for reports it.
var AlsoServes = []struct {
	Prefix string
	Props  []string
}{
	{"ERRS/", []string{"C02", "C03", "C08", "C10"}},
	{"SCRAP/", []string{"C03", "C08", "C09"}},
	{"ITEMFLAGS/", []string{"C03", "C04"}},
	{"ATOMIC/check-then-act:cache.", []string{"C03", "C07"}},
	{"KEYS/K2:vectorstore.", []string{"C04"}},
	{"BITPACK/", []string{"C04"}},
	{"COVERAGE/every-index-once:", []string{"C04"}},
	{"LOCKORDER/cycle:{cache.ItemCache", []string{"C04"}},
	{"TXSTATE/", []string{"C04", "C08", "C09", "C10"}},
	{"RANK/text:order", []string{"C06"}},
	{"CUTONCE/path-cut-once:shard", []string{"C06"}},
	{"ROEFFECT/", []string{"C07", "C11"}},
	{"FLUSH/counters-present:", []string{"C07", "C09"}},
	{"TXSHADOW/owner-state-in-transaction:shard", []string{"C09"}},
	{"WITHCB/", []string{"C08"}},
	{"BORROW/retained:", []string{"C09"}},
	{"DIRTY/", []string{"C09"}},
	{"DOCFLOW/insert-after-existence-test:", []string{"C09"}},
	{"PURITY/", []string{"C14", "C17"}},
	{"ROUTE/retry-gives-attempt-back", []string{"C15"}},
	{"LIFECYCLE/remove-after-unregister", []string{"C16"}},
	{"LOSSYCMP/integers-through-float:utils", []string{"C17"}},
	{"MERGE/sort-keys", []string{"C17"}},
	{"QUOTA/points:", []string{"C18"}},
	{"FOLD/presence:", []string{"C18"}},
	{"FOLD/anchor:fold-sites", []string{"C18"}},
	{"POOLESCAPE/returned-after-put:shard/pointstore", []string{"C19"}},
	{"OPTABLE/point:", []string{"C19"}},
}

func widen(id string, props []string) []string {
	out := props
	for _, a := range AlsoServes {
		if !strings.HasPrefix(id, a.Prefix) {
			continue
		}
		for _, p := range a.Props {
			if !has(out, p) {
				if len(out) == len(props) {
					out = append([]string(nil), props...)
				}
				out = append(out, p)
			}
		}
	}
	return out
}
