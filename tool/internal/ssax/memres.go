package ssax

import (
	"fmt"
	"go/token"
	"strings"

	"golang.org/x/tools/go/ssa"
)

// Field-sensitive, flow-aware resolution of values that travel through local
// struct cells. go/ssa keeps address-taken and struct-typed locals in Alloc
// cells; `p.Data = x; use(T{Point: p})` becomes stores to field addresses and
// whole-struct loads. Resolve answers "which SSA values can field path P of
// this value hold here", following reaching stores inside one function.

// Origin is a value together with a field path still to be selected from it.
type Origin struct {
	Val  ssa.Value
	Path []string
}

func (o Origin) String() string {
	s := "?"
	switch v := o.Val.(type) {
	case nil:
		s = "nil"
	case *ssa.Const:
		s = "const " + v.String()
	case *ssa.Parameter:
		s = "param " + v.Name()
	case *ssa.FreeVar:
		s = "freevar " + v.Name()
	case *ssa.Call:
		s = "result of " + CalleeName(v.Common())
	case *ssa.Extract:
		if c, ok := v.Tuple.(*ssa.Call); ok {
			s = fmt.Sprintf("result #%d of %s", v.Index, CalleeName(c.Common()))
		} else {
			s = v.String()
		}
	default:
		s = fmt.Sprintf("%s (%T)", v.Name(), v)
	}
	if len(o.Path) > 0 {
		s += "." + strings.Join(o.Path, ".")
	}
	return s
}

// Key identifies an origin for set comparison.
func (o Origin) Key() string {
	return fmt.Sprintf("%p.%s", o.Val, strings.Join(o.Path, "."))
}

// addrRoot walks a chain of FieldAddr down to its root address and returns the field path.
func addrRoot(addr ssa.Value) (ssa.Value, []string) {
	var path []string
	for {
		fa, ok := addr.(*ssa.FieldAddr)
		if !ok {
			return addr, path
		}
		path = append([]string{StructOf(fa.X.Type()).Field(fa.Field).Name()}, path...)
		addr = fa.X
	}
}

func hasPrefix(p, prefix []string) bool {
	if len(prefix) > len(p) {
		return false
	}
	for i := range prefix {
		if p[i] != prefix[i] {
			return false
		}
	}
	return true
}

func canReach(a, b ssa.Instruction) bool {
	if a.Block() == b.Block() && InstrIndex(a) < InstrIndex(b) {
		return true
	}
	for _, s := range a.Block().Succs {
		if Reaches(s, b.Block()) {
			return true
		}
	}
	return false
}

type memStore struct {
	st   *ssa.Store
	path []string
}

// reachingStores: stores into cell `root` that may define field path p as seen by instruction at.
func reachingStores(root *ssa.Alloc, p []string, at ssa.Instruction) []memStore {
	f := root.Parent()
	var cands []memStore
	for _, b := range f.Blocks {
		for _, in := range b.Instrs {
			st, ok := in.(*ssa.Store)
			if !ok {
				continue
			}
			r, q := addrRoot(st.Addr)
			if r != ssa.Value(root) {
				continue
			}
			// the store writes location q; it matters when q covers p (q prefix of p)
			if !hasPrefix(p, q) {
				continue
			}
			if !canReach(st, at) {
				continue
			}
			cands = append(cands, memStore{st, q})
		}
	}
	var out []memStore
	for i, s1 := range cands {
		killed := false
		for j, s2 := range cands {
			if i == j {
				continue
			}
			// s2 overwrites everything s1 wrote of p, lies on every path to `at`, and comes after s1
			if Precedes(s2.st, at) && canReach(s1.st, s2.st) && !canReach(s2.st, s1.st) {
				killed = true
			}
		}
		if !killed {
			out = append(out, s1)
		}
	}
	return out
}

// Resolve lists the origins of v as seen at its definition.
func Resolve(v ssa.Value) []Origin {
	return resolvePath(v, nil, map[string]bool{}, 0)
}

// ResolveField lists the origins of field path p of struct value v.
func ResolveField(v ssa.Value, p ...string) []Origin {
	return resolvePath(v, p, map[string]bool{}, 0)
}

func resolvePath(v ssa.Value, p []string, seen map[string]bool, depth int) []Origin {
	key := fmt.Sprintf("%p/%s", v, strings.Join(p, "."))
	if seen[key] || depth > 40 {
		return []Origin{{v, p}}
	}
	seen[key] = true
	switch x := v.(type) {
	case *ssa.Phi:
		var out []Origin
		for _, e := range x.Edges {
			out = append(out, resolvePath(e, p, seen, depth+1)...)
		}
		return out
	case *ssa.Field:
		name := StructOf(x.X.Type()).Field(x.Field).Name()
		return resolvePath(x.X, append([]string{name}, p...), seen, depth+1)
	case *ssa.ChangeType:
		return resolvePath(x.X, p, seen, depth+1)
	case *ssa.MakeInterface:
		return resolvePath(x.X, p, seen, depth+1)
	case *ssa.UnOp:
		if x.Op != token.MUL {
			break
		}
		root, q := addrRoot(x.X)
		full := append(append([]string(nil), q...), p...)
		al, ok := root.(*ssa.Alloc)
		if !ok {
			// a load through a pointer that is not a local cell: opaque base plus path
			if len(q) > 0 || len(p) > 0 {
				return []Origin{{root, full}}
			}
			break
		}
		stores := reachingStores(al, full, x)
		if len(stores) == 0 {
			return []Origin{{x, p}}
		}
		var out []Origin
		for _, s := range stores {
			rest := full[len(s.path):]
			out = append(out, resolvePath(s.st.Val, rest, seen, depth+1)...)
		}
		return out
	}
	return []Origin{{v, p}}
}
