package ssax

import (
	"strings"

	"golang.org/x/tools/go/ssa"
)

// Interprocedural summaries over static calls into module functions. They make
// effect rules indifferent to helper extraction: a call to a helper that must
// (or may) perform an effect counts as that effect at the call site.

const summaryDepth = 4

// InModule: f has a body and belongs to the code under analysis.
func InModule(f *ssa.Function) bool {
	if f == nil || f.Blocks == nil {
		return false
	}
	for q := f; q != nil; q = q.Parent() {
		pk := q.Pkg
		if pk == nil && q.Origin() != nil {
			pk = q.Origin().Pkg
		}
		if pk != nil {
			return strings.HasPrefix(pk.Pkg.Path(), ModulePrefix)
		}
	}
	return false
}

// StaticModuleCallee returns the module function a call instruction statically
// invokes: a named function/method, or a function literal called in place.
func StaticModuleCallee(in ssa.Instruction) *ssa.Function {
	ci, ok := in.(ssa.CallInstruction)
	if !ok {
		return nil
	}
	if _, isGo := in.(*ssa.Go); isGo {
		return nil
	}
	cc := ci.Common()
	if g := cc.StaticCallee(); g != nil && InModule(g) {
		return g
	}
	return nil
}

// Labeller classifies an instruction as performing zero or more named effects.
type Labeller func(ssa.Instruction) []string

// Summaries memoises, per function, which effects it must perform before every
// success exit and which it may perform at all (transitively).
type Summaries struct {
	label Labeller
	must  map[*ssa.Function]map[string]bool
	may   map[*ssa.Function]map[string]bool
	busy  map[*ssa.Function]bool
	// SuccessExits lists the instructions of f that end a successful run.
	SuccessExits func(f *ssa.Function) []ssa.Instruction
}

func NewSummaries(label Labeller, successExits func(f *ssa.Function) []ssa.Instruction) *Summaries {
	return &Summaries{label: label, must: map[*ssa.Function]map[string]bool{}, may: map[*ssa.Function]map[string]bool{}, busy: map[*ssa.Function]bool{}, SuccessExits: successExits}
}

// At returns the effects instruction in performs on every successful run
// through it: its own labels, plus the must-set of a module callee.
func (s *Summaries) At(in ssa.Instruction) []string {
	out := s.label(in)
	if g := StaticModuleCallee(in); g != nil {
		if _, isDefer := in.(*ssa.Defer); !isDefer {
			for k := range s.Must(g, 0) {
				out = append(out, k)
			}
		}
	}
	return out
}

// Must: effects performed before every success exit of f (dominance).
func (s *Summaries) Must(f *ssa.Function, depth int) map[string]bool {
	if m, ok := s.must[f]; ok {
		return m
	}
	if s.busy[f] || depth > summaryDepth || !InModule(f) {
		return nil
	}
	s.busy[f] = true
	defer delete(s.busy, f)
	type site struct {
		in     ssa.Instruction
		labels []string
	}
	var sites []site
	for _, b := range f.Blocks {
		for _, in := range b.Instrs {
			ls := s.label(in)
			if g := StaticModuleCallee(in); g != nil {
				if _, isDefer := in.(*ssa.Defer); !isDefer {
					for k := range s.Must(g, depth+1) {
						ls = append(ls, k)
					}
				}
			}
			if len(ls) > 0 {
				sites = append(sites, site{in, ls})
			}
		}
	}
	res := map[string]bool{}
	exits := s.SuccessExits(f)
	if len(sites) > 0 && len(exits) > 0 {
		cand := map[string]bool{}
		for _, st := range sites {
			for _, l := range st.labels {
				cand[l] = true
			}
		}
		for l := range cand {
			all := true
			for _, ex := range exits {
				ok := false
				for _, st := range sites {
					has := false
					for _, x := range st.labels {
						if x == l {
							has = true
						}
					}
					if !has {
						continue
					}
					if st.in == ex || Precedes(st.in, ex) {
						ok = true
					}
				}
				if !ok {
					all = false
				}
			}
			if all {
				res[l] = true
			}
		}
	}
	s.must[f] = res
	return res
}

// May: effects f may perform, in its own body, in literals it creates, or in
// module functions it calls (transitively, go and defer included).
func (s *Summaries) May(f *ssa.Function) map[string]bool {
	if m, ok := s.may[f]; ok {
		return m
	}
	res := map[string]bool{}
	s.may[f] = res // cycles see the partial set
	var walk func(g *ssa.Function, depth int)
	seen := map[*ssa.Function]bool{}
	walk = func(g *ssa.Function, depth int) {
		if g == nil || seen[g] || depth > summaryDepth+2 || !InModule(g) {
			return
		}
		seen[g] = true
		for _, b := range g.Blocks {
			for _, in := range b.Instrs {
				for _, l := range s.label(in) {
					res[l] = true
				}
				if ci, ok := in.(ssa.CallInstruction); ok {
					if c := ci.Common().StaticCallee(); c != nil {
						walk(c, depth+1)
					}
					if mc, ok := ci.Common().Value.(*ssa.MakeClosure); ok {
						walk(mc.Fn.(*ssa.Function), depth+1)
					}
				}
				if mc, ok := in.(*ssa.MakeClosure); ok {
					walk(mc.Fn.(*ssa.Function), depth+1)
				}
			}
		}
	}
	walk(f, 0)
	return res
}

// MayAt: effects instruction in may perform (its own labels or anything its callee may do).
func (s *Summaries) MayAt(in ssa.Instruction) map[string]bool {
	out := map[string]bool{}
	for _, l := range s.label(in) {
		out[l] = true
	}
	if ci, ok := in.(ssa.CallInstruction); ok {
		if g := ci.Common().StaticCallee(); g != nil && InModule(g) {
			for k := range s.May(g) {
				out[k] = true
			}
		}
		if mc, ok := ci.Common().Value.(*ssa.MakeClosure); ok {
			for k := range s.May(mc.Fn.(*ssa.Function)) {
				out[k] = true
			}
		}
	}
	return out
}
