// Package ssax has SSA helpers shared by the rules: access paths, freshness,
// provenance slices and edge dominance.
package ssax

import (
	"fmt"
	"go/constant"
	"go/token"
	"go/types"
	"sort"
	"strings"

	"golang.org/x/tools/go/ssa"
)

// NamedOf unwraps pointers and aliases down to a named type (or nil).
func NamedOf(t types.Type) *types.Named {
	for {
		switch x := t.(type) {
		case *types.Pointer:
			t = x.Elem()
		case *types.Alias:
			t = types.Unalias(x)
		case *types.Named:
			return x
		default:
			return nil
		}
	}
}

// TypeName is "pkg.Name" of the generic origin of a (pointer to a) named type.
func TypeName(t types.Type) string {
	if n := NamedOf(t); n != nil {
		o := n.Origin().Obj()
		if o.Pkg() != nil {
			return o.Pkg().Name() + "." + o.Name()
		}
		return o.Name()
	}
	return t.String()
}

// StructOf returns the struct underlying a (pointer to a) type, or nil.
func StructOf(t types.Type) *types.Struct {
	if p, ok := t.Underlying().(*types.Pointer); ok {
		t = p.Elem()
	}
	s, _ := t.Underlying().(*types.Struct)
	return s
}

// SingleStore returns the only value ever stored into a cell, or nil.
func SingleStore(al *ssa.Alloc) ssa.Value {
	var v ssa.Value
	n := 0
	for _, r := range *al.Referrers() {
		if st, ok := r.(*ssa.Store); ok && st.Addr == al {
			v = st.Val
			n++
		}
	}
	if n == 1 {
		return v
	}
	return nil
}

// Path renders the access path of a value from its SSA root and reports
// whether the root object was allocated in the same function (fresh).
// Parameters spilled into a cell are resolved through their single store.
func Path(v ssa.Value) (string, bool) {
	switch x := v.(type) {
	case *ssa.Parameter:
		return x.Name(), false
	case *ssa.FreeVar:
		return "fv:" + x.Name(), false
	case *ssa.Global:
		return "g:" + x.Name(), false
	case *ssa.Alloc:
		return fmt.Sprintf("alloc:%s@%d", x.Comment, x.Pos()), true
	case *ssa.FieldAddr:
		p, f := Path(x.X)
		return p + "." + StructOf(x.X.Type()).Field(x.Field).Name(), f
	case *ssa.Field:
		p, f := Path(x.X)
		return p + "." + StructOf(x.X.Type()).Field(x.Field).Name(), f
	case *ssa.UnOp:
		if x.Op == token.MUL {
			if al, ok := x.X.(*ssa.Alloc); ok {
				if sv := SingleStore(al); sv != nil {
					return Path(sv)
				}
				return fmt.Sprintf("cell:%s@%d", al.Comment, al.Pos()), false
			}
		}
		p, f := Path(x.X)
		return p + "*", f
	case *ssa.MakeInterface:
		return Path(x.X)
	case *ssa.ChangeType:
		return Path(x.X)
	case *ssa.ChangeInterface:
		return Path(x.X)
	case *ssa.Lookup:
		p, _ := Path(x.X)
		idx := "?"
		if c, ok := x.Index.(*ssa.Const); ok && c.Value != nil {
			idx = c.Value.ExactString()
		}
		return p + "[" + idx + "]", false
	case *ssa.Extract:
		if call, ok := x.Tuple.(*ssa.Call); ok && returnsFresh(call, x.Index, 0) {
			return fmt.Sprintf("alloc:ret%d@%d", x.Index, call.Pos()), true
		}
		p, _ := Path(x.Tuple)
		return fmt.Sprintf("%s#%d", p, x.Index), false
	case *ssa.Call:
		if returnsFresh(x, 0, 0) {
			return fmt.Sprintf("alloc:ret@%d", x.Pos()), true
		}
	case *ssa.Const:
		return "const", false
	}
	fn := "?"
	if v.Parent() != nil {
		fn = v.Parent().Name()
	}
	return fmt.Sprintf("%s@%s", v.Name(), fn), false
}

// ---- provenance

// Origins is a set of origin labels of a value.
type Origins map[string]bool

func (o Origins) Keys() []string {
	var r []string
	for k := range o {
		r = append(r, k)
	}
	sort.Strings(r)
	return r
}

func (o Origins) HasPrefix(p string) bool {
	for k := range o {
		if strings.HasPrefix(k, p) {
			return true
		}
	}
	return false
}

// Prov computes the origins of v by a backward slice within its function.
// Labels: const, param:NAME, freevar:NAME, global:NAME, field:NAME,
// call:QUALIFIED, elem(L) for an element of a slice with origins L (the index
// is deliberately forgotten), loopindex, iter, other:TYPE.
func Prov(v ssa.Value) Origins {
	o := Origins{}
	prov(v, map[ssa.Value]bool{}, o)
	return o
}

func prov(v ssa.Value, seen map[ssa.Value]bool, out Origins) {
	if v == nil || seen[v] {
		return
	}
	seen[v] = true
	switch x := v.(type) {
	case *ssa.Const:
		out["const"] = true
	case *ssa.Parameter:
		out["param:"+x.Name()] = true
	case *ssa.FreeVar:
		out["freevar:"+x.Name()] = true
	case *ssa.Global:
		out["global:"+x.Name()] = true
	case *ssa.Function:
		out["func:"+x.String()] = true
	case *ssa.BinOp:
		prov(x.X, seen, out)
		prov(x.Y, seen, out)
	case *ssa.UnOp:
		if ia, ok := x.X.(*ssa.IndexAddr); ok && x.Op == token.MUL {
			inner := Origins{}
			prov(ia.X, map[ssa.Value]bool{}, inner)
			for k := range inner {
				out["elem("+k+")"] = true
			}
			return
		}
		prov(x.X, seen, out)
	case *ssa.Phi:
		if strings.HasPrefix(x.Comment, "rangeindex") {
			out["loopindex"] = true
		}
		for _, e := range x.Edges {
			prov(e, seen, out)
		}
	case *ssa.Call:
		if f := x.Call.StaticCallee(); f != nil {
			out["call:"+f.String()] = true
			provThroughCall(x, -1, seen, out)
		} else if x.Call.IsInvoke() {
			out["call:"+x.Call.Value.Type().String()+"."+x.Call.Method.Name()] = true
			prov(x.Call.Value, seen, out)
		} else {
			out["call:?"] = true
			prov(x.Call.Value, seen, out)
		}
		for _, a := range x.Call.Args {
			prov(a, seen, out)
		}
	case *ssa.FieldAddr:
		out["field:"+StructOf(x.X.Type()).Field(x.Field).Name()] = true
		prov(x.X, seen, out)
	case *ssa.Field:
		out["field:"+StructOf(x.X.Type()).Field(x.Field).Name()] = true
		prov(x.X, seen, out)
	case *ssa.IndexAddr:
		prov(x.X, seen, out)
		prov(x.Index, seen, out)
	case *ssa.Index:
		prov(x.X, seen, out)
	case *ssa.Lookup:
		prov(x.X, seen, out)
		prov(x.Index, seen, out)
	case *ssa.Extract:
		if call, ok := x.Tuple.(*ssa.Call); ok && call.Call.StaticCallee() != nil {
			provThroughCall(call, x.Index, seen, out)
		}
		prov(x.Tuple, seen, out)
	case *ssa.Convert:
		prov(x.X, seen, out)
	case *ssa.ChangeType:
		prov(x.X, seen, out)
	case *ssa.ChangeInterface:
		prov(x.X, seen, out)
	case *ssa.Slice:
		prov(x.X, seen, out)
	case *ssa.MakeInterface:
		prov(x.X, seen, out)
	case *ssa.TypeAssert:
		prov(x.X, seen, out)
	case *ssa.Alloc:
		for _, r := range *x.Referrers() {
			switch s := r.(type) {
			case *ssa.Store:
				if s.Addr == x {
					prov(s.Val, seen, out)
				}
			case *ssa.FieldAddr:
				// stores into fields of a local struct
				for _, rr := range *s.Referrers() {
					if st, ok := rr.(*ssa.Store); ok && st.Addr == s {
						prov(st.Val, seen, out)
					}
				}
			case *ssa.IndexAddr:
				for _, rr := range *s.Referrers() {
					if st, ok := rr.(*ssa.Store); ok && st.Addr == s {
						prov(st.Val, seen, out)
					}
				}
			case *ssa.MakeClosure:
				// a captured variable: what the literal stores into it, and — for a map — what it
				// puts into the map it finds there
				fn, _ := s.Fn.(*ssa.Function)
				if fn == nil {
					continue
				}
				// only for a captured map: what a literal puts into it belongs to its contents
				if pt, ok := x.Type().Underlying().(*types.Pointer); !ok {
					continue
				} else if _, isMap := pt.Elem().Underlying().(*types.Map); !isMap {
					continue
				}
				for i, bnd := range s.Bindings {
					if bnd != ssa.Value(x) || i >= len(fn.FreeVars) {
						continue
					}
					fv := fn.FreeVars[i]
					for _, fr := range *fv.Referrers() {
						switch y := fr.(type) {
						case *ssa.UnOp:
							for _, lr := range *y.Referrers() {
								if mu, ok := lr.(*ssa.MapUpdate); ok && mu.Map == ssa.Value(y) {
									prov(mu.Key, seen, out)
									prov(mu.Value, seen, out)
								}
							}
						}
					}
				}
			case *ssa.UnOp:
				// the variable's own value used as a map in this function
				for _, lr := range *s.Referrers() {
					if mu, ok := lr.(*ssa.MapUpdate); ok && mu.Map == ssa.Value(s) {
						prov(mu.Key, seen, out)
						prov(mu.Value, seen, out)
					}
				}
			}
		}
	case *ssa.Next, *ssa.Range:
		out["iter"] = true
		if r, ok := x.(*ssa.Range); ok {
			prov(r.X, seen, out)
		}
		if n, ok := x.(*ssa.Next); ok {
			prov(n.Iter, seen, out)
		}
	case *ssa.MakeClosure:
		out["func:"+x.Fn.String()] = true
	case *ssa.MakeMap:
		// contents of a local map: whatever is stored into it
		for _, r := range *x.Referrers() {
			if mu, ok := r.(*ssa.MapUpdate); ok && mu.Map == x {
				prov(mu.Key, seen, out)
				prov(mu.Value, seen, out)
			}
		}
	default:
		out[fmt.Sprintf("other:%T", v)] = true
	}
}

// ModulePrefix is the import-path prefix of the code under analysis; calls to
// functions below it are looked through by Prov (helpers extracted by a
// refactoring must not change what a value is made of).
var ModulePrefix = "github.com/semafind/semadb"

const provInlineDepth = 3

var provDepth = 0

// provThroughCall adds the origins of what a module callee actually returns
// (result #idx, or every non-error result for -1): fields, constants, globals
// and calls it reads itself, with elements of its slice parameters mapped to
// elements of the arguments. The caller still walks every argument, so the
// result is a superset of the intraprocedural slice.
// It reports false when the callee is not a module function with a body.
func provThroughCall(call *ssa.Call, idx int, seen map[ssa.Value]bool, out Origins) bool {
	f := call.Call.StaticCallee()
	if f == nil || f.Blocks == nil || provDepth >= provInlineDepth {
		return false
	}
	pk := f.Pkg
	if pk == nil && f.Origin() != nil {
		pk = f.Origin().Pkg
	}
	if pk == nil && f.Parent() != nil {
		return false
	}
	if pk == nil || !strings.HasPrefix(pk.Pkg.Path(), ModulePrefix) {
		return false
	}
	provDepth++
	defer func() { provDepth-- }()
	inner := Origins{}
	iseen := map[ssa.Value]bool{}
	nret := 0
	for _, b := range f.Blocks {
		if b == f.Recover {
			continue
		}
		ret, ok := b.Instrs[len(b.Instrs)-1].(*ssa.Return)
		if !ok {
			continue
		}
		for i := range ret.Results {
			if idx >= 0 && i != idx {
				continue
			}
			if idx < 0 && ret.Results[i].Type().String() == "error" && len(ret.Results) > 1 {
				continue
			}
			nret++
			prov(ReturnOperand(ret, i), iseen, inner)
		}
	}
	if nret == 0 {
		return false
	}
	out["inlined:"+f.String()] = true
	params := map[string]int{}
	for i, p := range f.Params {
		params[p.Name()] = i
	}
	for k := range inner {
		name, wrap := "", ""
		switch {
		case strings.HasPrefix(k, "param:"):
			name = strings.TrimPrefix(k, "param:")
		case strings.HasPrefix(k, "elem(param:") && strings.HasSuffix(k, ")"):
			name, wrap = strings.TrimSuffix(strings.TrimPrefix(k, "elem(param:"), ")"), "elem"
		default:
			out[k] = true
			continue
		}
		i, ok := params[name]
		if !ok || i >= len(call.Call.Args) {
			out[k] = true
			continue
		}
		if wrap == "" {
			continue // the caller walks every argument itself
		} else {
			ao := Origins{}
			prov(call.Call.Args[i], map[ssa.Value]bool{}, ao)
			for ak := range ao {
				out["elem("+ak+")"] = true
			}
		}
	}
	return true
}

// ---- constants

func ConstString(v ssa.Value) (string, bool) {
	if c, ok := v.(*ssa.Const); ok && c.Value != nil && c.Value.Kind() == constant.String {
		return constant.StringVal(c.Value), true
	}
	return "", false
}

func ConstBool(v ssa.Value) (bool, bool) {
	if c, ok := v.(*ssa.Const); ok && c.Value != nil && c.Value.Kind() == constant.Bool {
		return constant.BoolVal(c.Value), true
	}
	return false, false
}

func ConstInt(v ssa.Value) (int64, bool) {
	if c, ok := v.(*ssa.Const); ok && c.Value != nil && c.Value.Kind() == constant.Int {
		return constant.Int64Val(c.Value)
	}
	return 0, false
}

func IsNilConst(v ssa.Value) bool {
	c, ok := v.(*ssa.Const)
	return ok && c.IsNil()
}

// ---- control flow

// ReachableWithout reports whether target is reachable from the entry block
// when the edge (from -> from.Succs[succ]) is removed.
func ReachableWithout(f *ssa.Function, from *ssa.BasicBlock, succ int, target *ssa.BasicBlock) bool {
	seen := map[*ssa.BasicBlock]bool{}
	var dfs func(b *ssa.BasicBlock) bool
	dfs = func(b *ssa.BasicBlock) bool {
		if b == target {
			return true
		}
		if seen[b] {
			return false
		}
		seen[b] = true
		for i, s := range b.Succs {
			if b == from && i == succ {
				continue
			}
			if dfs(s) {
				return true
			}
		}
		return false
	}
	return dfs(f.Blocks[0])
}

// OnlyViaEdge: block target is reachable only through edge succ of block from.
func OnlyViaEdge(from *ssa.BasicBlock, succ int, target *ssa.BasicBlock) bool {
	f := from.Parent()
	s := from.Succs[succ]
	if s != target && !s.Dominates(target) {
		return false
	}
	return !ReachableWithout(f, from, succ, target)
}

// Reaches reports whether block b can reach block t (b == t counts).
func Reaches(b, t *ssa.BasicBlock) bool {
	seen := map[*ssa.BasicBlock]bool{}
	var dfs func(x *ssa.BasicBlock) bool
	dfs = func(x *ssa.BasicBlock) bool {
		if x == t {
			return true
		}
		if seen[x] {
			return false
		}
		seen[x] = true
		for _, s := range x.Succs {
			if dfs(s) {
				return true
			}
		}
		return false
	}
	return dfs(b)
}

// InstrIndex returns the index of an instruction in its block.
func InstrIndex(in ssa.Instruction) int {
	for i, x := range in.Block().Instrs {
		if x == in {
			return i
		}
	}
	return -1
}

// Precedes: a executes before b on every path that reaches b (a dominates b).
func Precedes(a, b ssa.Instruction) bool {
	if a.Block() == b.Block() {
		return InstrIndex(a) < InstrIndex(b)
	}
	return a.Block().Dominates(b.Block())
}

// ErrGuard describes "if err != nil" style tests on a value.
// NonNilEdge returns (block, succ index) pairs where v is known non-nil.
type Edge struct {
	From *ssa.BasicBlock
	Succ int
}

// NilTests returns, for value v, the edges on which v != nil and v == nil hold.
func NilTests(f *ssa.Function, v ssa.Value) (nonNil, isNil []Edge) {
	for _, b := range f.Blocks {
		ifi, ok := b.Instrs[len(b.Instrs)-1].(*ssa.If)
		if !ok {
			continue
		}
		bo, ok := ifi.Cond.(*ssa.BinOp)
		if !ok {
			continue
		}
		var other ssa.Value
		switch {
		case bo.X == v:
			other = bo.Y
		case bo.Y == v:
			other = bo.X
		default:
			continue
		}
		if !IsNilConst(other) {
			continue
		}
		switch bo.Op {
		case token.NEQ:
			nonNil = append(nonNil, Edge{b, 0})
			isNil = append(isNil, Edge{b, 1})
		case token.EQL:
			isNil = append(isNil, Edge{b, 0})
			nonNil = append(nonNil, Edge{b, 1})
		}
	}
	return
}

// Used reports whether a value has a referrer other than debug refs.
func Used(v ssa.Value) bool {
	if v.Referrers() == nil {
		return true
	}
	for _, r := range *v.Referrers() {
		if _, dbg := r.(*ssa.DebugRef); !dbg {
			return true
		}
	}
	return false
}

// CalleeName gives a printable callee for diagnostics.
func CalleeName(c *ssa.CallCommon) string {
	if c.IsInvoke() {
		return TypeName(c.Value.Type()) + "." + c.Method.Name()
	}
	if f := c.StaticCallee(); f != nil {
		return f.String()
	}
	return "?"
}

// IsMethod reports whether call c invokes (statically or through an interface)
// a method named name on a receiver whose type name is recvType ("pkg.Type").
func IsMethod(c *ssa.CallCommon, recvType, name string) bool {
	if c.IsInvoke() {
		return c.Method.Name() == name && TypeName(c.Value.Type()) == recvType
	}
	f := c.StaticCallee()
	if f == nil || f.Name() != name || f.Signature.Recv() == nil {
		return false
	}
	return TypeName(f.Signature.Recv().Type()) == recvType
}

// ReturnOperand resolves result #i of a return. In functions with defers go/ssa
// spills results into a cell and returns a load of it; the value actually
// returned is the one stored into the cell last in the returning block.
func ReturnOperand(ret *ssa.Return, i int) ssa.Value {
	v := ret.Results[i]
	u, ok := v.(*ssa.UnOp)
	if !ok || u.Op != token.MUL {
		return v
	}
	al, ok := u.X.(*ssa.Alloc)
	if !ok {
		return v
	}
	instrs := ret.Block().Instrs
	for k := len(instrs) - 1; k >= 0; k-- {
		if st, ok := instrs[k].(*ssa.Store); ok && st.Addr == al {
			return st.Val
		}
	}
	// the store may be in the unique predecessor chain
	b := ret.Block()
	for len(b.Preds) == 1 {
		b = b.Preds[0]
		for k := len(b.Instrs) - 1; k >= 0; k-- {
			if st, ok := b.Instrs[k].(*ssa.Store); ok && st.Addr == al {
				return st.Val
			}
		}
	}
	// the recover block of a function with a defer returns the cells without a store of its own:
	// a cell that is assigned once in the whole function holds that value there too
	if fn := ret.Parent(); fn != nil && ret.Block() == fn.Recover {
		captured := false
		for _, r := range *al.Referrers() {
			if _, isMC := r.(*ssa.MakeClosure); isMC {
				captured = true
			}
		}
		if sv := SingleStore(al); sv != nil && !captured {
			return sv
		}
	}
	return v
}

// CapturedSingleStore resolves a captured variable to the one value it ever
// holds: the free variable is bound to a cell of an enclosing function, that
// cell is stored exactly once there, and no closure that captures it stores
// into it. nil when any of this is not the case.
func CapturedSingleStore(fv *ssa.FreeVar) ssa.Value {
	fn := fv.Parent()
	if fn == nil || fn.Parent() == nil {
		return nil
	}
	idx := -1
	for i, q := range fn.FreeVars {
		if q == fv {
			idx = i
		}
	}
	if idx < 0 {
		return nil
	}
	var cell ssa.Value
	for _, b := range fn.Parent().Blocks {
		for _, in := range b.Instrs {
			if mc, ok := in.(*ssa.MakeClosure); ok && mc.Fn == fn && idx < len(mc.Bindings) {
				if cell != nil && cell != mc.Bindings[idx] {
					return nil
				}
				cell = mc.Bindings[idx]
			}
		}
	}
	switch c := cell.(type) {
	case *ssa.FreeVar:
		if storesThroughCapture(fn.Parent(), c) {
			return nil
		}
		return CapturedSingleStore(c)
	case *ssa.Alloc:
		if storesThroughCapture(fn.Parent(), c) {
			return nil
		}
		return SingleStore(c)
	}
	return nil
}

// storesThroughCapture: some closure created in f (at any depth) that captures
// the cell stores into it.
func storesThroughCapture(f *ssa.Function, cell ssa.Value) bool {
	for _, b := range f.Blocks {
		for _, in := range b.Instrs {
			mc, ok := in.(*ssa.MakeClosure)
			if !ok {
				continue
			}
			g, _ := mc.Fn.(*ssa.Function)
			if g == nil {
				continue
			}
			for i, bd := range mc.Bindings {
				if bd != cell || i >= len(g.FreeVars) {
					continue
				}
				gfv := g.FreeVars[i]
				for _, r := range *gfv.Referrers() {
					if st, ok := r.(*ssa.Store); ok && st.Addr == gfv {
						return true
					}
				}
				if storesThroughCapture(g, gfv) {
					return true
				}
			}
		}
	}
	return false
}

// returnsFresh: result #idx of the call is, on every return of the (static
// module) callee, an object allocated by that call (or nil): a constructor
// helper. The object is then as fresh in the caller as if it had been built
// in place.
func returnsFresh(call *ssa.Call, idx, depth int) bool {
	g := call.Call.StaticCallee()
	if g == nil || !InModule(g) || depth > 2 {
		return false
	}
	found := false
	for _, b := range g.Blocks {
		ret, ok := b.Instrs[len(b.Instrs)-1].(*ssa.Return)
		if !ok || idx >= len(ret.Results) {
			continue
		}
		v := ret.Results[idx]
		if IsNilConst(v) {
			continue
		}
		switch x := v.(type) {
		case *ssa.Alloc:
			found = true
		case *ssa.Call:
			if !returnsFresh(x, 0, depth+1) {
				return false
			}
			found = true
		case *ssa.Extract:
			c2, ok := x.Tuple.(*ssa.Call)
			if !ok || !returnsFresh(c2, x.Index, depth+1) {
				return false
			}
			found = true
		default:
			return false
		}
	}
	return found
}

// InModuleType: t (through pointers) is a named type declared in the analysed module.
func InModuleType(t types.Type) bool {
	for {
		if p, ok := t.(*types.Pointer); ok {
			t = p.Elem()
			continue
		}
		break
	}
	nt, ok := t.(*types.Named)
	if !ok || nt.Obj().Pkg() == nil {
		return false
	}
	return strings.HasPrefix(nt.Obj().Pkg().Path(), "github.com/semafind/semadb")
}
