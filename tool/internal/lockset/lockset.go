// Package lockset explores, per function, the reachable (held locks, deferred
// actions) states over the SSA control-flow graph. It is disjunctive (a set of
// states per block, not a join), because the code base correlates branches
// with lock ownership (TryRLock, manual unlock on early exits).
package lockset

import (
	"fmt"
	"go/token"
	"go/types"
	"sort"
	"strings"

	"golang.org/x/tools/go/ssa"

	"semaverif/internal/load"
	"semaverif/internal/ssax"
)

type Mode int

const (
	None Mode = 0
	R    Mode = 1
	W    Mode = 2
)

func (m Mode) String() string { return [...]string{"-", "R", "W"}[m] }

type Lock struct {
	Key   string // access path of the mutex within the function
	Class string // (struct type, field) or local:<fn>:<var>
	Mode  Mode
	Fresh bool // the object holding the mutex was allocated in this function
	// Handed: the lock was still held when a helper returned, and on that helper's path its
	// owner had been registered (rule-defined tag "registered:<owner>"): a hand-over
	Handed bool
	// Via: the helper through which the lock came to be held here (nil if locked here)
	Via *ssa.Function
}

func (l Lock) String() string {
	s := l.Key + "(" + l.Mode.String() + ")"
	if l.Handed {
		s += "!"
	}
	return s
}

type deferred struct {
	unlock *Lock
	call   *ssa.Defer
}

type state struct {
	held   []Lock
	rel    []string // class/mode released on this path without having been acquired here
	defers []deferred
	tags   []string           // rule-defined events seen on this path (sorted set)
	facts  map[ssa.Value]bool // truth of parameter-valued branch conditions on this path
}

// Tagger lets a rule record path events (e.g. "this elem was registered").
type Tagger func(in ssa.Instruction) (tag string, ok bool)

func (s state) key() string {
	hs := make([]string, len(s.held))
	for i, h := range s.held {
		hs[i] = h.String()
	}
	sort.Strings(hs)
	var b strings.Builder
	b.WriteString(strings.Join(hs, ","))
	b.WriteByte('~')
	b.WriteString(strings.Join(s.rel, ","))
	b.WriteByte('|')
	for _, d := range s.defers {
		if d.unlock != nil {
			b.WriteString("u:" + d.unlock.String() + ";")
		} else {
			fmt.Fprintf(&b, "c:%p;", d.call)
		}
	}
	b.WriteByte('|')
	b.WriteString(strings.Join(s.tags, ","))
	b.WriteByte('|')
	var fs []string
	for v, t := range s.facts {
		fs = append(fs, fmt.Sprintf("%s=%v", v.Name(), t))
	}
	sort.Strings(fs)
	b.WriteString(strings.Join(fs, ","))
	return b.String()
}

func (s state) clone() state {
	n := state{held: append([]Lock(nil), s.held...), rel: append([]string(nil), s.rel...), defers: append([]deferred(nil), s.defers...), tags: append([]string(nil), s.tags...)}
	if len(s.facts) > 0 {
		n.facts = map[ssa.Value]bool{}
		for k, v := range s.facts {
			n.facts[k] = v
		}
	}
	return n
}

func (s *state) addTag(t string) {
	for _, x := range s.tags {
		if x == t {
			return
		}
	}
	s.tags = append(s.tags, t)
	sort.Strings(s.tags)
}

// Edge: lock class To was (or may be, in a callee) acquired by a blocking call
// while From was held.
type Edge struct {
	From, To  string
	FromMode  Mode
	Fn        *ssa.Function
	At        string
	Via       *ssa.Function // callee through which To is acquired, nil if direct
	AcqFresh  bool          // acquired lock is on an object allocated in Fn
	HeldFresh bool          // held lock is on an object allocated in Fn
}

// Leak: a return reached with locks still held.
type Leak struct {
	Fn   *ssa.Function
	Ret  *ssa.Return
	At   string
	Held []Lock
	Tags []string
	// Transfer: Fn is a helper (unexported or a literal, with static callers in the module):
	// the locks pass to its callers, where they are tracked on; not a leak of Fn itself
	Transfer bool
}

// retSummary: what a helper leaves behind for its caller.
type retSummary struct {
	held                     []Lock // locks held at every successful return (acquired in the helper)
	heldFail                 []Lock // locks held at every return that reports an error
	nOK                      int
	nFail                    int
	rel                      map[string]bool // "class/mode" released at every return without having been acquired there
	tryLike                  *Lock           // single bool result: true iff this lock is held on return
	heldTrue                 []Lock
	nTrue, nFalse, boolOther int
	falseHolds               bool
	unlocker                 map[int]Lock    // result #i is a bound Unlock/RUnlock of this lock
	ptags                    map[string]bool // "i|kind|suffix": on every return, tag kind:<param i><suffix> was set
	returns                  int
}

type Result struct {
	Edges     []Edge
	Leaks     []Leak
	Must      map[ssa.Instruction]map[string]Mode // classes held on every state reaching the instruction
	May       map[ssa.Instruction]map[string]bool
	Entry     map[*ssa.Function]map[string]Mode // classes held at entry on behalf of the function
	Acq       map[*ssa.Function]map[string]bool // classes acquired (blocking), transitively
	Undecided []string
	States    int
	Classes   map[string]bool
	LockSites int
	w         *load.World
	tagger    Tagger
	// AtomicMaps: guarded map field ("pkg.Type.field") -> lock class that guards it. A lookup of
	// such a map followed on the same path by an update of it must stay inside one critical
	// section of that lock (check-then-act atomicity); Splits lists the updates that do not.
	AtomicMaps map[string]string
	Splits     []Split
	Acts       []Split // every update that follows a lookup of the same map on its path
	// acqRel[g][T]: caller-held "class/mode" entries that g has released on every path before it
	// (or a callee of it) acquires class T: such a caller lock does not order before T
	acqRel     map[*ssa.Function]map[string]map[string]bool
	acqRelNext map[*ssa.Function]map[string]map[string]bool
	errHolds   map[ssa.Value][]Lock // error value of a helper call -> locks held iff it is nil
	sums       map[*ssa.Function]*retSummary
	next       map[*ssa.Function]*retSummary
	helper     map[*ssa.Function]bool
}

// Split: a map update that acts on a lookup made in an earlier critical section.
type Split struct {
	Fn    *ssa.Function
	At    string
	Field string
	In    ssa.Instruction
}

func guardedMapField(v ssa.Value) string {
	u, ok := v.(*ssa.UnOp)
	if !ok {
		return ""
	}
	fa, ok := u.X.(*ssa.FieldAddr)
	if !ok {
		return ""
	}
	st, ok := fa.X.Type().Underlying().(*types.Pointer)
	if !ok {
		return ""
	}
	n, ok := types.Unalias(st.Elem()).(*types.Named)
	if !ok {
		return ""
	}
	str, ok := n.Underlying().(*types.Struct)
	if !ok || n.Obj().Pkg() == nil {
		return ""
	}
	return n.Obj().Pkg().Name() + "." + n.Origin().Obj().Name() + "." + str.Field(fa.Field).Name()
}

func (s *state) dropTag(t string) {
	for i, x := range s.tags {
		if x == t {
			s.tags = append(s.tags[:i:i], s.tags[i+1:]...)
			return
		}
	}
}

func (s *state) hasTag(t string) bool {
	for _, x := range s.tags {
		if x == t {
			return true
		}
	}
	return false
}

type lockOp struct {
	kind string
	lock Lock
}

// LockClass of a mutex receiver value.
func LockClass(recv ssa.Value) string {
	switch x := recv.(type) {
	case *ssa.FieldAddr:
		return ssax.TypeName(x.X.Type()) + "." + ssax.StructOf(x.X.Type()).Field(x.Field).Name()
	case *ssa.Alloc:
		return "local:" + load.FnKey(x.Parent()) + ":" + x.Comment
	case *ssa.FreeVar:
		p := x.Parent()
		for p.Parent() != nil {
			p = p.Parent()
		}
		return "local:" + load.FnKey(p) + ":" + x.Name()
	case *ssa.UnOp:
		return LockClass(x.X)
	}
	return "?" + recv.String()
}

// AsLockOp recognises calls to sync.Mutex / sync.RWMutex methods.
func AsLockOp(c *ssa.CallCommon) (kind string, l Lock, ok bool) {
	fn := c.StaticCallee()
	if fn == nil || fn.Pkg == nil || fn.Pkg.Pkg.Path() != "sync" || fn.Signature.Recv() == nil {
		return
	}
	rt := fn.Signature.Recv().Type().String()
	if rt != "*sync.Mutex" && rt != "*sync.RWMutex" {
		return
	}
	m := W
	switch fn.Name() {
	case "Lock", "Unlock", "TryLock":
	case "RLock", "RUnlock", "TryRLock":
		m = R
	default:
		return
	}
	k, fresh := ssax.Path(c.Args[0])
	return fn.Name(), Lock{Key: k, Class: LockClass(c.Args[0]), Mode: m, Fresh: fresh}, true
}

func Analyze(w *load.World, tagger Tagger) *Result { return AnalyzeAtomic(w, tagger, nil) }

func AnalyzeAtomic(w *load.World, tagger Tagger, atomicMaps map[string]string) *Result {
	w.BuildCallGraph()
	r := &Result{tagger: tagger, AtomicMaps: atomicMaps,
		Must: map[ssa.Instruction]map[string]Mode{}, May: map[ssa.Instruction]map[string]bool{},
		Acq: map[*ssa.Function]map[string]bool{}, Classes: map[string]bool{}, w: w,
	}
	r.summaries()
	r.findHelpers()
	// helpers' return summaries feed their callers: iterate (call chains of helpers are short)
	r.sums = map[*ssa.Function]*retSummary{}
	for round := 0; round < 4; round++ {
		r.Edges, r.Leaks, r.Splits, r.Acts, r.Undecided, r.States = nil, nil, nil, nil, nil, 0
		r.Must, r.May = map[ssa.Instruction]map[string]Mode{}, map[ssa.Instruction]map[string]bool{}
		r.next = map[*ssa.Function]*retSummary{}
		r.errHolds = map[ssa.Value][]Lock{}
		r.acqRel, r.acqRelNext = r.acqRelNext, map[*ssa.Function]map[string]map[string]bool{}
		for _, f := range w.Fns {
			r.explore(f)
		}
		same := len(r.next) == len(r.sums)
		for f, n := range r.next {
			if o := r.sums[f]; o == nil || o.sig() != n.sig() {
				same = false
			}
		}
		r.sums = r.next
		if same {
			break
		}
	}
	r.entryHeld()
	return r
}

func (r *Result) summaries() {
	for _, f := range r.w.Fns {
		s := map[string]bool{}
		for _, b := range f.Blocks {
			for _, in := range b.Instrs {
				var cc *ssa.CallCommon
				switch x := in.(type) {
				case *ssa.Call:
					cc = x.Common()
				case *ssa.Defer:
					cc = x.Common()
				}
				if cc == nil {
					continue
				}
				if kind, l, ok := AsLockOp(cc); ok {
					r.Classes[l.Class] = true
					if kind == "Lock" || kind == "RLock" || kind == "TryLock" || kind == "TryRLock" {
						r.LockSites++
					}
					if (kind == "Lock" || kind == "RLock") && !l.Fresh {
						s[l.Class] = true
					}
				}
			}
		}
		r.Acq[f] = s
	}
	for changed := true; changed; {
		changed = false
		for _, f := range r.w.Fns {
			for _, b := range f.Blocks {
				for _, in := range b.Instrs {
					site, ok := in.(ssa.CallInstruction)
					if !ok {
						continue
					}
					if _, isGo := in.(*ssa.Go); isGo {
						continue
					}
					for _, g := range r.w.Callees(site, false) {
						for c := range r.Acq[g] {
							if !r.Acq[f][c] {
								r.Acq[f][c] = true
								changed = true
							}
						}
					}
				}
			}
		}
	}
}

func (r *Result) note(in ssa.Instruction, st state) {
	cur := map[string]Mode{}
	for _, h := range st.held {
		if h.Mode > cur[h.Class] {
			cur[h.Class] = h.Mode
		}
	}
	if r.May[in] == nil {
		r.May[in] = map[string]bool{}
		r.Must[in] = cur
	} else {
		for c, m := range r.Must[in] {
			cm := cur[c]
			if cm == None {
				delete(r.Must[in], c)
			} else if cm < m {
				r.Must[in][c] = cm
			}
		}
	}
	for c := range cur {
		r.May[in][c] = true
	}
}

func (r *Result) callEdges(f *ssa.Function, site ssa.CallInstruction, st state, at string) {
	if r.helper[f] {
		for _, g := range r.w.Callees(site, false) {
			for c := range r.Acq[g] {
				r.noteAcq(f, c, st)
			}
		}
	}
	if len(st.held) == 0 {
		return
	}
	for _, g := range r.w.Callees(site, false) {
		for c := range r.Acq[g] {
			for _, h := range st.held {
				if r.acqRel[g] != nil && r.acqRel[g][c] != nil && r.acqRel[g][c][h.Class+"/"+h.Mode.String()] {
					continue // the helper lets go of this lock before it takes that one
				}
				r.Edges = append(r.Edges, Edge{From: h.Class, FromMode: h.Mode, To: c, Fn: f, At: at, Via: g, HeldFresh: h.Fresh})
			}
		}
	}
}

// paramCond: cond is a bool parameter p (neg=false) or !p (neg=true).
func paramCond(v ssa.Value) (p ssa.Value, neg bool, ok bool) {
	switch x := v.(type) {
	case *ssa.Parameter:
		return x, false, true
	case *ssa.UnOp:
		if x.Op == token.NOT {
			q, n, ok := paramCond(x.X)
			return q, !n, ok
		}
		// a local flag ("locked := false ... locked = true ... if locked"): a bool variable that is
		// only ever assigned constants; its value on a path is what was last stored (tracked as a fact)
		if x.Op == token.MUL {
			if cell, ok := x.X.(*ssa.Alloc); ok {
				if flagCell(cell) {
					return cell, false, true
				}
				// a parameter that a literal captures is kept in a cell that is written once, at entry
				if sv := ssax.SingleStore(cell); sv != nil {
					if prm, isP := sv.(*ssa.Parameter); isP {
						return prm, false, true
					}
				}
			}
		}
	}
	return nil, false, false
}

// flagCell: a local bool variable all of whose assignments store constants.
func flagCell(cell *ssa.Alloc) bool {
	bt, ok := cell.Type().Underlying().(*types.Pointer).Elem().Underlying().(*types.Basic)
	if !ok || bt.Kind() != types.Bool {
		return false
	}
	var ok2 func(v ssa.Value, depth int) bool
	ok2 = func(v ssa.Value, depth int) bool {
		if v.Referrers() == nil || depth > 2 {
			return false
		}
		for _, r := range *v.Referrers() {
			switch x := r.(type) {
			case *ssa.Store:
				if x.Addr != v {
					return false
				}
				if _, isC := ssax.ConstBool(x.Val); !isC {
					return false
				}
			case *ssa.UnOp, *ssa.DebugRef:
			case *ssa.MakeClosure:
				// captured: the literal may read it, and may assign constants too
				lit, _ := x.Fn.(*ssa.Function)
				if lit == nil {
					return false
				}
				for i, b := range x.Bindings {
					if b == v && i < len(lit.FreeVars) {
						if !ok2(lit.FreeVars[i], depth+1) {
							return false
						}
					}
				}
			default:
				return false
			}
		}
		return true
	}
	return ok2(cell, 0)
}

func release(st *state, l Lock) {
	for i := len(st.held) - 1; i >= 0; i-- {
		if st.held[i].Key == l.Key && st.held[i].Mode == l.Mode {
			st.held = append(st.held[:i], st.held[i+1:]...)
			return
		}
	}
	// a lock that came through a helper has the helper's name for it: match by class
	for i := len(st.held) - 1; i >= 0; i-- {
		if st.held[i].Via != nil && st.held[i].Class == l.Class && st.held[i].Mode == l.Mode {
			st.held = append(st.held[:i], st.held[i+1:]...)
			return
		}
	}
	// not held here: the caller's lock (recorded for the helper's summary)
	k := l.Class + "/" + l.Mode.String()
	for _, x := range st.rel {
		if x == k {
			return
		}
	}
	st.rel = append(st.rel, k)
	sort.Strings(st.rel)
}

func releaseClass(st *state, class string, mode Mode) {
	for i := len(st.held) - 1; i >= 0; i-- {
		if st.held[i].Class == class && st.held[i].Mode == mode {
			st.held = append(st.held[:i], st.held[i+1:]...)
			return
		}
	}
	k := class + "/" + mode.String()
	for _, x := range st.rel {
		if x == k {
			return
		}
	}
	st.rel = append(st.rel, k)
	sort.Strings(st.rel)
}

func (s *retSummary) sig() string {
	var parts []string
	for _, h := range s.held {
		parts = append(parts, "h:"+h.Class+h.Mode.String()+fmt.Sprint(h.Handed))
	}
	for _, h := range s.heldFail {
		parts = append(parts, "f:"+h.Class+h.Mode.String()+fmt.Sprint(h.Handed))
	}
	for k := range s.rel {
		parts = append(parts, "r:"+k)
	}
	if s.tryLike != nil {
		parts = append(parts, "t:"+s.tryLike.Class+s.tryLike.Mode.String())
	}
	for i, l := range s.unlocker {
		parts = append(parts, fmt.Sprintf("u%d:%s%s", i, l.Class, l.Mode))
	}
	for k := range s.ptags {
		parts = append(parts, "pt:"+k)
	}
	sort.Strings(parts)
	return strings.Join(parts, ";")
}

// findHelpers: unexported functions and literals with a static caller in the module.
func (r *Result) findHelpers() {
	r.helper = map[*ssa.Function]bool{}
	for _, f := range r.w.Fns {
		for _, b := range f.Blocks {
			for _, in := range b.Instrs {
				site, ok := in.(ssa.CallInstruction)
				if !ok {
					continue
				}
				if _, isGo := in.(*ssa.Go); isGo {
					continue
				}
				g := staticTarget(site.Common())
				if g == nil || len(g.Blocks) == 0 || !load.InMod(g) {
					continue
				}
				name := g.Name()
				if g.Parent() != nil || (name != "" && name[0] >= 'a' && name[0] <= 'z') {
					r.helper[g] = true
				}
			}
		}
	}
}

// staticTarget: the function a call runs when that is known statically (a named function, a
// method, or a literal called directly).
func staticTarget(cc *ssa.CallCommon) *ssa.Function {
	if g := cc.StaticCallee(); g != nil {
		return g
	}
	if mc, ok := cc.Value.(*ssa.MakeClosure); ok {
		g, _ := mc.Fn.(*ssa.Function)
		return g
	}
	return nil
}

// boundUnlock: v is a method value mu.Unlock / mu.RUnlock.
func boundUnlock(v ssa.Value) (Lock, bool) {
	mc, ok := v.(*ssa.MakeClosure)
	if !ok || len(mc.Bindings) != 1 {
		return Lock{}, false
	}
	fn, _ := mc.Fn.(*ssa.Function)
	if fn == nil {
		return Lock{}, false
	}
	m := W
	switch fn.String() {
	case "(*sync.RWMutex).Unlock$bound", "(*sync.Mutex).Unlock$bound":
	case "(*sync.RWMutex).RUnlock$bound":
		m = R
	default:
		return Lock{}, false
	}
	k, fresh := ssax.Path(mc.Bindings[0])
	return Lock{Key: k, Class: LockClass(mc.Bindings[0]), Mode: m, Fresh: fresh}, true
}

// unlockerValue: calling v releases a lock: a bound unlock, or the result of a helper that
// returns one.
func (r *Result) unlockerValue(v ssa.Value) (Lock, bool) {
	if l, ok := boundUnlock(v); ok {
		return l, true
	}
	idx := 0
	var call *ssa.Call
	switch x := v.(type) {
	case *ssa.Extract:
		call, _ = x.Tuple.(*ssa.Call)
		idx = x.Index
	case *ssa.Call:
		call = x
	}
	if call == nil {
		return Lock{}, false
	}
	g := staticTarget(call.Common())
	if g == nil || r.sums[g] == nil {
		return Lock{}, false
	}
	l, ok := r.sums[g].unlocker[idx]
	if ok {
		l.Via = g
	}
	return l, ok
}

// applyCall: a helper's return summary takes effect in the caller.
func (r *Result) applyCall(st *state, site ssa.CallInstruction, tries map[ssa.Value]Lock) {
	g := staticTarget(site.Common())
	if g == nil || !r.helper[g] {
		return
	}
	sm := r.sums[g]
	if sm == nil {
		return
	}
	for k := range sm.rel {
		i := strings.LastIndex(k, "/")
		mode := map[string]Mode{"R": R, "W": W}[k[i+1:]]
		releaseClass(st, k[:i], mode)
	}
	inFail := func(h Lock) bool {
		if sm.nFail == 0 {
			return true
		}
		for _, x := range sm.heldFail {
			if x.Class == h.Class && x.Mode == h.Mode {
				return true
			}
		}
		return false
	}
	// path events the helper recorded about its parameters hold for the arguments
	if len(sm.ptags) > 0 {
		args := site.Common().Args
		for k := range sm.ptags {
			parts := strings.SplitN(k, "|", 3)
			if len(parts) != 3 {
				continue
			}
			i := 0
			fmt.Sscanf(parts[0], "%d", &i)
			if i < len(args) {
				ap, _ := ssax.Path(args[i])
				st.addTag(parts[1] + ":" + ap + parts[2])
			}
		}
	}
	for _, h := range sm.held {
		h.Key = "via:" + load.FnKey(g) + ":" + h.Class
		h.Via = g
		h.Fresh = false
		if !inFail(h) && tries != nil {
			// held only when the helper reports success: decided where its error is tested
			if ev := errResultOf(site); ev != nil {
				r.errHolds[ev] = append(r.errHolds[ev], h)
				continue
			}
		}
		st.held = append(st.held, h)
	}
	if sm.tryLike != nil && tries != nil {
		if v := site.Value(); v != nil {
			l := *sm.tryLike
			l.Key = "via:" + load.FnKey(g) + ":" + l.Class
			l.Via = g
			tries[v] = l
		}
	}
}

const stateCap = 4096

func (r *Result) explore(f *ssa.Function) {
	type item struct {
		b  *ssa.BasicBlock
		st state
	}
	seen := map[string]bool{}
	work := []item{{f.Blocks[0], state{}}}
	for len(work) > 0 {
		it := work[len(work)-1]
		work = work[:len(work)-1]
		k := fmt.Sprintf("%d/%s", it.b.Index, it.st.key())
		if seen[k] {
			continue
		}
		seen[k] = true
		r.States++
		if len(seen) > stateCap {
			r.Undecided = append(r.Undecided, "lock-state explosion in "+load.FnKey(f))
			return
		}
		st := it.st.clone()
		tries := map[ssa.Value]Lock{}
		for _, in := range it.b.Instrs {
			r.note(in, st)
			if r.tagger != nil {
				if t, ok := r.tagger(in); ok {
					st.addTag(t)
				}
			}
			if len(r.AtomicMaps) > 0 {
				switch x := in.(type) {
				case *ssa.Lookup:
					if fld := guardedMapField(x.X); fld != "" && r.AtomicMaps[fld] != "" {
						st.addTag("chk:" + fld)
						st.addTag("everchk:" + fld)
					}
				case *ssa.MapUpdate:
					if fld := guardedMapField(x.Map); fld != "" && r.AtomicMaps[fld] != "" {
						if st.hasTag("everchk:" + fld) {
							r.Acts = append(r.Acts, Split{f, r.w.At(in), fld, in})
							if !st.hasTag("chk:" + fld) {
								r.Splits = append(r.Splits, Split{f, r.w.At(in), fld, in})
							}
						}
					}
				}
			}
			switch x := in.(type) {
			case *ssa.Alloc:
				if flagCell(x) {
					if st.facts == nil {
						st.facts = map[ssa.Value]bool{}
					}
					st.facts[x] = false
				}
			case *ssa.Store:
				if cell, ok := x.Addr.(*ssa.Alloc); ok && flagCell(cell) {
					if cb, isC := ssax.ConstBool(x.Val); isC {
						if st.facts == nil {
							st.facts = map[ssa.Value]bool{}
						}
						st.facts[cell] = cb
					}
				}
			case *ssa.Defer:
				if kind, l, ok := AsLockOp(x.Common()); ok && (kind == "Unlock" || kind == "RUnlock") {
					ll := l
					st.defers = append(st.defers, deferred{unlock: &ll})
				} else if l, ok := r.unlockerValue(x.Call.Value); ok && !x.Call.IsInvoke() {
					ll := l
					st.defers = append(st.defers, deferred{unlock: &ll})
				} else {
					dup := false
					for _, d := range st.defers {
						if d.call == x {
							dup = true
						}
					}
					if !dup {
						st.defers = append(st.defers, deferred{call: x})
					}
				}
			case *ssa.RunDefers:
				for i := len(st.defers) - 1; i >= 0; i-- {
					d := st.defers[i]
					if d.unlock != nil {
						release(&st, *d.unlock)
					} else if r.inlineDeferred(f, d.call, &st) {
						// a deferred literal whose branches are decided by flags known on this path
					} else {
						r.callEdges(f, d.call, st, r.w.At(d.call)+" (deferred)")
						r.applyCall(&st, d.call, nil)
					}
				}
				st.defers = nil
			case *ssa.Call:
				if kind, l, ok := AsLockOp(x.Common()); ok {
					switch kind {
					case "Lock", "RLock":
						r.noteAcq(f, l.Class, st)
						for _, h := range st.held {
							r.Edges = append(r.Edges, Edge{From: h.Class, FromMode: h.Mode, To: l.Class, Fn: f, At: r.w.At(in), AcqFresh: l.Fresh, HeldFresh: h.Fresh})
						}
						st.held = append(st.held, l)
					case "TryLock", "TryRLock":
						tries[x] = l
					case "Unlock", "RUnlock":
						release(&st, l)
						for fld, cls := range r.AtomicMaps {
							if cls == l.Class {
								st.dropTag("chk:" + fld)
							}
						}
					}
					continue
				}
				// calling a bound unlock (or what a helper returned as one)
				if l, ok := r.unlockerValue(x.Call.Value); ok && !x.Call.IsInvoke() {
					release(&st, l)
					continue
				}
				r.callEdges(f, x, st, r.w.At(in))
				r.applyCall(&st, x, tries)
			case *ssa.Return:
				r.noteReturn(f, x, st)
				if len(st.held) > 0 {
					r.Leaks = append(r.Leaks, Leak{Fn: f, Ret: x, At: r.w.At(in), Held: append([]Lock(nil), st.held...), Tags: append([]string(nil), st.tags...), Transfer: r.helper[f]})
				}
			}
		}
		if ifi, ok := it.b.Instrs[len(it.b.Instrs)-1].(*ssa.If); ok {
			if l, isTry := tries[ifi.Cond]; isTry {
				t := st.clone()
				t.held = append(t.held, l)
				work = append(work, item{it.b.Succs[0], t}, item{it.b.Succs[1], st})
				continue
			}
			if bo, ok := ifi.Cond.(*ssa.BinOp); ok && (bo.Op == token.NEQ || bo.Op == token.EQL) {
				var ev ssa.Value
				switch {
				case ssax.IsNilConst(bo.Y):
					ev = bo.X
				case ssax.IsNilConst(bo.X):
					ev = bo.Y
				}
				if ls, ok := r.errHolds[ev]; ok && ev != nil {
					okState := st.clone()
					okState.held = append(okState.held, ls...)
					nilSucc := 1 // err != nil: the false edge is "no error"
					if bo.Op == token.EQL {
						nilSucc = 0
					}
					work = append(work, item{it.b.Succs[nilSucc], okState}, item{it.b.Succs[1-nilSucc], st})
					continue
				}
			}
			// parameter-valued conditions are immutable: stay consistent along a path
			if p, neg, isParam := paramCond(ifi.Cond); isParam {
				if known, seenBefore := st.facts[p]; seenBefore {
					if known != neg {
						work = append(work, item{it.b.Succs[0], st})
					} else {
						work = append(work, item{it.b.Succs[1], st})
					}
					continue
				}
				for _, tv := range []bool{true, false} {
					t := st.clone()
					if t.facts == nil {
						t.facts = map[ssa.Value]bool{}
					}
					t.facts[p] = tv
					if tv != neg {
						work = append(work, item{it.b.Succs[0], t})
					} else {
						work = append(work, item{it.b.Succs[1], t})
					}
				}
				continue
			}
		}
		for _, l := range tries { // result not branched on directly: may hold
			st.held = append(st.held, l)
		}
		for _, s := range it.b.Succs {
			work = append(work, item{s, st})
		}
	}
}

// ---- entry-held sets

// syncCallee: does the callee run a function-valued argument during the call
// (on the caller's goroutine)? Decided structurally for module functions and
// by a short allow-list for library ones.
func (r *Result) syncCallee(site ssa.CallInstruction, arg ssa.Value) bool {
	c := site.Common()
	if _, isGo := site.(*ssa.Go); isGo {
		return false
	}
	if _, isDefer := site.(*ssa.Defer); isDefer {
		return false
	}
	argIdx := -1
	for i, a := range c.Args {
		if a == arg {
			argIdx = i
		}
	}
	callees := r.w.Callees(site, true)
	if len(callees) == 0 {
		return false
	}
	for _, g := range callees {
		if !load.InMod(g) {
			s := g.String()
			ok := false
			for _, allow := range []string{"bbolt.DB).View", "bbolt.DB).Update", "bbolt.Bucket).ForEach", "slices.SortFunc", "(*sync.Once).Do"} {
				if strings.Contains(s, allow) {
					ok = true
				}
			}
			if !ok {
				return false
			}
			continue
		}
		if argIdx < 0 || !paramOnlyCalled(g, argIdx, c.IsInvoke(), map[*ssa.Function]bool{}) {
			return false
		}
	}
	return true
}

// paramOnlyCalled: within g, parameter #idx (of the call's argument list) is
// only called directly, captured by a literal that is itself run
// synchronously, or forwarded to callees for which the same holds.
func paramOnlyCalled(g *ssa.Function, idx int, invoke bool, seen map[*ssa.Function]bool) bool {
	if seen[g] {
		return true
	}
	seen[g] = true
	pi := idx
	if invoke {
		pi = idx + 1 // receiver is params[0] for methods called through an interface
	}
	if pi >= len(g.Params) || g.Blocks == nil {
		return false
	}
	return valueOnlyCalled(g.Params[pi], seen)
}

func valueOnlyCalled(v ssa.Value, seen map[*ssa.Function]bool) bool {
	if v.Referrers() == nil {
		return false
	}
	for _, ref := range *v.Referrers() {
		switch u := ref.(type) {
		case *ssa.DebugRef:
		case *ssa.Call:
			if u.Call.Value == v {
				continue // direct call
			}
			// forwarded as an argument
			f := u.Call.StaticCallee()
			if f == nil {
				// interface call: accept the known synchronous iteration methods
				if u.Call.IsInvoke() {
					switch u.Call.Method.Name() {
					case "ForEach", "PrefixScan", "RangeScan", "Read", "Write":
						continue
					}
				}
				return false
			}
			s := f.String()
			lib := false
			for _, allow := range []string{"bbolt.DB).View", "bbolt.DB).Update", "bbolt.Bucket).ForEach", "slices.SortFunc"} {
				if strings.Contains(s, allow) {
					lib = true
				}
			}
			if lib {
				continue
			}
			if !load.InMod(f) {
				return false
			}
			ai := -1
			for i, a := range u.Call.Args {
				if a == v {
					ai = i
				}
			}
			if ai < 0 || !paramOnlyCalled(f, ai, false, seen) {
				return false
			}
		case *ssa.MakeClosure:
			// captured by a literal: the literal must itself only be run synchronously
			fn := u.Fn.(*ssa.Function)
			for i, b := range u.Bindings {
				if b == v {
					if !valueOnlyCalled(fn.FreeVars[i], seen) {
						return false
					}
				}
			}
			if !closureSyncUse(u, seen) {
				return false
			}
		case *ssa.Store:
			// spilled into a cell: follow loads of the cell
			al, ok := u.Addr.(*ssa.Alloc)
			if !ok || u.Val != v {
				return false
			}
			for _, rr := range *al.Referrers() {
				switch l := rr.(type) {
				case *ssa.UnOp:
					if !valueOnlyCalled(l, seen) {
						return false
					}
				case *ssa.MakeClosure:
					fn := l.Fn.(*ssa.Function)
					for i, b := range l.Bindings {
						if b == al {
							for _, fr := range *fn.FreeVars[i].Referrers() {
								if ld, ok := fr.(*ssa.UnOp); ok {
									if !valueOnlyCalled(ld, seen) {
										return false
									}
								}
							}
						}
					}
					if !closureSyncUse(l, seen) {
						return false
					}
				case *ssa.Store, *ssa.DebugRef:
				default:
					return false
				}
			}
		default:
			return false
		}
	}
	return true
}

func closureSyncUse(mc *ssa.MakeClosure, seen map[*ssa.Function]bool) bool {
	for _, ref := range *mc.Referrers() {
		switch u := ref.(type) {
		case *ssa.Call:
			if u.Call.Value == mc {
				continue
			}
			// passed on: accept synchronous iteration interfaces and library allow-list
			if u.Call.IsInvoke() {
				switch u.Call.Method.Name() {
				case "ForEach", "PrefixScan", "RangeScan", "Read", "Write":
					continue
				}
				return false
			}
			f := u.Call.StaticCallee()
			if f == nil {
				return false
			}
			s := f.String()
			lib := false
			for _, allow := range []string{"bbolt.DB).View", "bbolt.DB).Update", "bbolt.Bucket).ForEach", "slices.SortFunc"} {
				if strings.Contains(s, allow) {
					lib = true
				}
			}
			if lib {
				continue
			}
			ai := -1
			for i, a := range u.Call.Args {
				if a == mc {
					ai = i
				}
			}
			if !load.InMod(f) || ai < 0 || !paramOnlyCalled(f, ai, false, seen) {
				return false
			}
		case *ssa.DebugRef:
		default:
			return false
		}
	}
	return true
}

func (r *Result) heldAt(in ssa.Instruction) map[string]Mode {
	m := map[string]Mode{}
	for c, md := range r.Must[in] {
		m[c] = md
	}
	for c, md := range r.Entry[in.Parent()] {
		if md > m[c] {
			m[c] = md
		}
	}
	return m
}

// HeldAt is the must-held set at an instruction including what the function
// inherits at entry.
func (r *Result) HeldAt(in ssa.Instruction) map[string]Mode { return r.heldAt(in) }

func (r *Result) entryHeld() {
	w := r.w
	type passing struct {
		site ssa.Instruction
		sync bool
	}
	closurePass := map[*ssa.Function][]passing{}
	callSites := map[*ssa.Function][]ssa.Instruction{}
	escaped := map[*ssa.Function]bool{}
	iface := map[*ssa.Function]bool{}
	for _, n := range w.CG.Nodes {
		for _, e := range n.Out {
			if e.Site != nil && e.Site.Common().IsInvoke() {
				iface[e.Callee.Func] = true
			}
		}
	}
	for _, f := range w.Fns {
		for _, b := range f.Blocks {
			for _, in := range b.Instrs {
				if mc, ok := in.(*ssa.MakeClosure); ok {
					fn := mc.Fn.(*ssa.Function)
					for _, ref := range *mc.Referrers() {
						switch u := ref.(type) {
						case *ssa.Call:
							if u.Call.Value == mc {
								closurePass[fn] = append(closurePass[fn], passing{u, true})
							} else {
								closurePass[fn] = append(closurePass[fn], passing{u, r.syncCallee(u, mc)})
							}
						case *ssa.DebugRef:
						default:
							closurePass[fn] = append(closurePass[fn], passing{ref, false})
						}
					}
				}
				if ci, ok := in.(ssa.CallInstruction); ok {
					if _, isGo := in.(*ssa.Go); isGo {
						if g := ci.Common().StaticCallee(); g != nil {
							escaped[g] = true
						}
					} else if _, isDefer := in.(*ssa.Defer); isDefer {
						if g := ci.Common().StaticCallee(); g != nil {
							escaped[g] = true
						}
					} else if g := ci.Common().StaticCallee(); g != nil && load.InMod(g) {
						callSites[g] = append(callSites[g], in)
					}
					for _, a := range ci.Common().Args {
						if g, ok := a.(*ssa.Function); ok {
							escaped[g] = true
						}
					}
				}
			}
		}
	}
	r.Entry = map[*ssa.Function]map[string]Mode{}
	for _, f := range w.Fns {
		m := map[string]Mode{}
		for c := range r.Classes {
			m[c] = W
		}
		r.Entry[f] = m
	}
	meet := func(dst map[string]Mode, src map[string]Mode) bool {
		ch := false
		for c, m := range dst {
			s := src[c]
			if s == None {
				delete(dst, c)
				ch = true
			} else if s < m {
				dst[c] = s
				ch = true
			}
		}
		return ch
	}
	empty := map[string]Mode{}
	for changed := true; changed; {
		changed = false
		for _, f := range w.Fns {
			var srcs []map[string]Mode
			if f.Parent() != nil {
				ps := closurePass[f]
				if len(ps) == 0 {
					srcs = append(srcs, empty)
				}
				for _, p := range ps {
					if p.sync {
						srcs = append(srcs, r.heldAt(p.site))
					} else {
						srcs = append(srcs, empty)
					}
				}
			} else {
				if escaped[f] || iface[f] || len(callSites[f]) == 0 {
					srcs = append(srcs, empty)
				}
				for _, s := range callSites[f] {
					srcs = append(srcs, r.heldAt(s))
				}
			}
			for _, s := range srcs {
				if meet(r.Entry[f], s) {
					changed = true
				}
			}
		}
	}
}

// noteReturn folds one return state into the function's summary for its callers.
func (r *Result) noteReturn(f *ssa.Function, ret *ssa.Return, st state) {
	if !r.helper[f] {
		return
	}
	sm := r.next[f]
	first := sm == nil
	if first {
		sm = &retSummary{rel: map[string]bool{}, unlocker: map[int]Lock{}}
		r.next[f] = sm
	}
	sm.returns++
	// held: with the hand-over mark decided on this path
	var held []Lock
	for _, h := range st.held {
		hh := h
		for _, t := range st.tags {
			if t == "registered:"+strings.TrimSuffix(h.Key, ".mu") {
				hh.Handed = true
			}
		}
		held = append(held, hh)
	}
	relNow := map[string]bool{}
	for _, k := range st.rel {
		relNow[k] = true
	}
	// tags about parameters, e.g. "registered:elem"
	tagsNow := map[string]bool{}
	for _, t := range st.tags {
		i := strings.Index(t, ":")
		if i < 0 {
			continue
		}
		kind, path := t[:i], t[i+1:]
		for pi, p := range f.Params {
			if path == p.Name() || strings.HasPrefix(path, p.Name()+".") || strings.HasPrefix(path, p.Name()+"*") {
				tagsNow[fmt.Sprintf("%d|%s|%s", pi, kind, path[len(p.Name()):])] = true
			}
		}
	}
	if first {
		sm.ptags = tagsNow
	} else {
		for k := range sm.ptags {
			if !tagsNow[k] {
				delete(sm.ptags, k)
			}
		}
	}
	// a single bool result that says whether the lock is held
	if len(ret.Results) == 1 && ret.Results[0].Type().String() == "bool" {
		if bv, isC := ssax.ConstBool(ret.Results[0]); !isC {
			sm.boolOther++
		} else if bv {
			if sm.nTrue == 0 {
				sm.heldTrue = append([]Lock(nil), held...)
			} else {
				var keep []Lock
				for _, h := range sm.heldTrue {
					for _, c := range held {
						if c.Class == h.Class && c.Mode == h.Mode {
							keep = append(keep, h)
							break
						}
					}
				}
				sm.heldTrue = keep
			}
			sm.nTrue++
		} else {
			sm.nFalse++
			if len(held) > 0 {
				sm.falseHolds = true
			}
		}
		if sm.boolOther == 0 && sm.nTrue > 0 && len(sm.heldTrue) == 1 && !sm.falseHolds {
			l := sm.heldTrue[0]
			sm.tryLike = &l
		} else {
			sm.tryLike = nil
		}
	}
	for i, res := range ret.Results {
		if l, ok := boundUnlock(res); ok {
			sm.unlocker[i] = l
			// the lock the unlocker releases is the caller's to hold
		}
	}
	failing := false
	if n := len(ret.Results); n > 0 {
		last := ret.Results[n-1]
		if types.Identical(last.Type(), types.Universe.Lookup("error").Type()) && !ssax.IsNilConst(last) {
			failing = true
		}
	}
	meet := func(acc []Lock, n int, cur []Lock) []Lock {
		if n == 0 {
			return cur
		}
		var keep []Lock
		for _, h := range acc {
			for _, c := range cur {
				if c.Class == h.Class && c.Mode == h.Mode {
					if !c.Handed {
						h.Handed = false
					}
					keep = append(keep, h)
					break
				}
			}
		}
		return keep
	}
	if failing {
		sm.heldFail = meet(sm.heldFail, sm.nFail, held)
		sm.nFail++
	} else {
		sm.held = meet(sm.held, sm.nOK, held)
		sm.nOK++
	}
	if first {
		sm.rel = relNow
		return
	}
	for k := range sm.rel {
		if !relNow[k] {
			delete(sm.rel, k)
		}
	}
}

// TransferConsistent: the locks a helper holds at this return are ones its callers are told about:
// held at every successful return (and, for a failing return, at every failing one too). A lock
// held at one return and released at its siblings is passed on to nobody: it is a leak of the
// helper itself.
func (r *Result) TransferConsistent(l Leak) bool {
	sm := r.sums[l.Fn]
	if sm == nil {
		return false
	}
	in := func(set []Lock, h Lock) bool {
		for _, x := range set {
			if x.Class == h.Class && x.Mode == h.Mode {
				return true
			}
		}
		return false
	}
	failing := false
	if n := len(l.Ret.Results); n > 0 {
		last := l.Ret.Results[n-1]
		if types.Identical(last.Type(), types.Universe.Lookup("error").Type()) && !ssax.IsNilConst(last) {
			failing = true
		}
	}
	for _, h := range l.Held {
		if sm.tryLike != nil && sm.tryLike.Class == h.Class {
			continue
		}
		isUnlocker := false
		for _, u := range sm.unlocker {
			if u.Class == h.Class {
				isUnlocker = true
			}
		}
		if isUnlocker {
			continue
		}
		switch {
		case !failing && in(sm.held, h):
		case failing && in(sm.heldFail, h) && (sm.nOK == 0 || in(sm.held, h)):
		default:
			return false
		}
	}
	return true
}

// errResultOf: the error result value of a call (the last result), if it has one.
func errResultOf(site ssa.CallInstruction) ssa.Value {
	v := site.Value()
	if v == nil {
		return nil
	}
	errT := types.Universe.Lookup("error").Type()
	if tup, ok := v.Type().(*types.Tuple); ok {
		n := tup.Len()
		if n == 0 || !types.Identical(tup.At(n-1).Type(), errT) {
			return nil
		}
		if refs := v.Referrers(); refs != nil {
			for _, r := range *refs {
				if ex, ok := r.(*ssa.Extract); ok && ex.Index == n-1 {
					return ex
				}
			}
		}
		return nil
	}
	if types.Identical(v.Type(), errT) {
		return v
	}
	return nil
}

// noteAcq records, for a helper, which caller locks it has already released when it acquires class c.
func (r *Result) noteAcq(f *ssa.Function, c string, st state) {
	if !r.helper[f] {
		return
	}
	m := r.acqRelNext[f]
	if m == nil {
		m = map[string]map[string]bool{}
		r.acqRelNext[f] = m
	}
	cur := map[string]bool{}
	for _, k := range st.rel {
		cur[k] = true
	}
	if old, ok := m[c]; ok {
		for k := range old {
			if !cur[k] {
				delete(old, k)
			}
		}
		return
	}
	m[c] = cur
}

// TryLikeOf: the helper returns a single bool that is true exactly when it comes back
// holding the lock (a wrapper of TryLock/TryRLock that does not release it again).
func (r *Result) TryLikeOf(f *ssa.Function) (Lock, bool) {
	if sm := r.sums[f]; sm != nil && sm.tryLike != nil {
		return *sm.tryLike, true
	}
	return Lock{}, false
}

// HeldOnReturnOf: the locks the helper holds at every successful return (acquired in it, for its caller).
func (r *Result) HeldOnReturnOf(f *ssa.Function) []Lock {
	if sm := r.sums[f]; sm != nil && sm.nOK > 0 {
		return sm.held
	}
	return nil
}

// inlineDeferred runs a deferred function literal on the current state when every branch in it
// tests a flag variable of the enclosing function whose value is known on this path
// ("defer func() { if locked { mu.Unlock() } }()"). Reports false when the literal is not of that
// kind (the caller then falls back to the literal's summary).
func (r *Result) inlineDeferred(f *ssa.Function, d *ssa.Defer, st *state) bool {
	mc, ok := d.Call.Value.(*ssa.MakeClosure)
	if !ok || len(d.Call.Args) != 0 {
		return false
	}
	lit, _ := mc.Fn.(*ssa.Function)
	if lit == nil || len(lit.Blocks) == 0 {
		return false
	}
	binding := func(fv *ssa.FreeVar) ssa.Value {
		for i, q := range lit.FreeVars {
			if q == fv && i < len(mc.Bindings) {
				return mc.Bindings[i]
			}
		}
		return nil
	}
	condFact := func(v ssa.Value) (bool, bool) {
		neg := false
		for i := 0; i < 4; i++ {
			u, ok := v.(*ssa.UnOp)
			if !ok {
				return false, false
			}
			if u.Op == token.NOT {
				neg, v = !neg, u.X
				continue
			}
			if u.Op != token.MUL {
				return false, false
			}
			fv, ok := u.X.(*ssa.FreeVar)
			if !ok {
				return false, false
			}
			cell := binding(fv)
			if cell == nil {
				return false, false
			}
			known, has := st.facts[cell]
			if !has {
				// a parameter of the enclosing function that the literal captures lives in a cell
				if al, isAl := cell.(*ssa.Alloc); isAl {
					if sv := ssax.SingleStore(al); sv != nil {
						known, has = st.facts[sv]
					}
				}
			}
			if !has {
				return false, false
			}
			return known != neg, true
		}
		return false, false
	}
	// run every path of the literal; branches on known flags (or on parameters whose value is
	// known on this path) are decided, others are taken both ways. The literal is accepted when all
	// its paths end in the same lock state.
	type frame struct {
		b     *ssa.BasicBlock
		st    state
		local []deferred
		steps int
	}
	var finals []state
	stack := []frame{{lit.Blocks[0], st.clone(), nil, 0}}
	for len(stack) > 0 {
		fr := stack[len(stack)-1]
		stack = stack[:len(stack)-1]
		if fr.steps > 64 || len(finals) > 16 {
			return false
		}
		work, local := fr.st, fr.local
		done := false
		for _, in := range fr.b.Instrs {
			switch x := in.(type) {
			case *ssa.Defer:
				if kind, l, ok := AsLockOp(x.Common()); ok && (kind == "Unlock" || kind == "RUnlock") {
					ll := l
					local = append(local, deferred{unlock: &ll})
				} else {
					local = append(local, deferred{call: x})
				}
			case *ssa.RunDefers:
				for i := len(local) - 1; i >= 0; i-- {
					if local[i].unlock != nil {
						releaseClass(&work, local[i].unlock.Class, local[i].unlock.Mode)
					} else {
						r.callEdges(f, local[i].call, work, r.w.At(local[i].call)+" (deferred)")
						r.applyCall(&work, local[i].call, nil)
					}
				}
				local = nil
			case *ssa.Call:
				if kind, l, ok := AsLockOp(x.Common()); ok {
					switch kind {
					case "Unlock", "RUnlock":
						releaseClass(&work, l.Class, l.Mode)
					default:
						return false
					}
					continue
				}
				r.callEdges(f, x, work, r.w.At(x))
				r.applyCall(&work, x, nil)
			case *ssa.Store:
				if fv, ok := x.Addr.(*ssa.FreeVar); ok {
					if cell := binding(fv); cell != nil {
						if cb, isC := ssax.ConstBool(x.Val); isC {
							if work.facts == nil {
								work.facts = map[ssa.Value]bool{}
							}
							work.facts[cell] = cb
						}
					}
				}
			case *ssa.Return:
				finals = append(finals, work)
				done = true
			case *ssa.Go, *ssa.Panic:
				return false
			}
			if done {
				break
			}
		}
		if done {
			continue
		}
		switch last := fr.b.Instrs[len(fr.b.Instrs)-1].(type) {
		case *ssa.If:
			if tv, ok := condFact(last.Cond); ok {
				s := 1
				if tv {
					s = 0
				}
				stack = append(stack, frame{fr.b.Succs[s], work, local, fr.steps + 1})
			} else {
				stack = append(stack, frame{fr.b.Succs[0], work.clone(), append([]deferred(nil), local...), fr.steps + 1}, frame{fr.b.Succs[1], work.clone(), append([]deferred(nil), local...), fr.steps + 1})
			}
		case *ssa.Jump:
			stack = append(stack, frame{fr.b.Succs[0], work, local, fr.steps + 1})
		default:
			return false
		}
	}
	if len(finals) == 0 {
		return false
	}
	for _, fs := range finals[1:] {
		if fs.key() != finals[0].key() {
			return false
		}
	}
	*st = finals[0]
	return true
}
