package rules

import (
	"fmt"
	"go/token"
	"strings"

	"golang.org/x/tools/go/ssa"

	"semaverif/internal/core"
	"semaverif/internal/load"
	"semaverif/internal/lockset"
	"semaverif/internal/ssax"
)

// ------------------------------------------------------------------- DEGREE
//
// "No node except the entry node has more edges than the configured degree
// bound" (C10). Edge lists of the graph index only grow through
// graphNode.AddNeighbour, so the clause holds iff every call site outside the
// node type itself is bounded. A site is bounded when
//
//	(a) the edge count returned by the call is compared with DegreeBound and the
//	    "reached" edge leaves the loop the site is in (robustPrune), or
//	(b) the site is dominated by the "fits" edge of a guard  L + k  <=  DegreeBound
//	    where L is a length (len(n.edges), set.Len()) and the slack k covers what is
//	    added: k >= 1 for a single add; k >= 0 for a loop over the items of the very
//	    set whose length is L, after the node's edges were cleared.
//
// The guard is normalised over >, >=, <, <= and operand order; an offset that
// weakens it (Len()-1 > bound) makes k negative and the site unbounded.

type degGuard struct {
	blk   *ssa.BasicBlock
	succ  int       // edge on which L + k <= B holds
	k     int64     // slack
	lenOf ssa.Value // the collection whose length is L (a slice value or a DistSet value/address)
}

func degreeGuards(f *ssa.Function) []degGuard {
	var out []degGuard
	for _, b := range f.Blocks {
		ifi, ok := b.Instrs[len(b.Instrs)-1].(*ssa.If)
		if !ok {
			continue
		}
		bo, ok := ifi.Cond.(*ssa.BinOp)
		if !ok {
			continue
		}
		isB := func(v ssa.Value) bool {
			if _, arith := v.(*ssa.BinOp); arith {
				return false
			}
			return ssax.Prov(v)["field:DegreeBound"]
		}
		x, y, op := bo.X, bo.Y, bo.Op
		if isB(x) && !isB(y) {
			x, y = y, x
			op = map[token.Token]token.Token{token.LSS: token.GTR, token.GTR: token.LSS, token.LEQ: token.GEQ, token.GEQ: token.LEQ}[op]
		}
		if !isB(y) || op == token.ILLEGAL {
			continue
		}
		// x = L + k
		k := int64(0)
		l := x
		if ab, ok := x.(*ssa.BinOp); ok {
			c, isC := ssax.ConstInt(ab.Y)
			if !isC {
				continue
			}
			switch ab.Op {
			case token.ADD:
				k, l = c, ab.X
			case token.SUB:
				k, l = -c, ab.X
			default:
				continue
			}
		}
		var coll ssa.Value
		if call, ok := l.(*ssa.Call); ok {
			if bi, ok := call.Call.Value.(*ssa.Builtin); ok && bi.Name() == "len" {
				coll = call.Call.Args[0]
			} else if g := call.Call.StaticCallee(); g != nil && g.Name() == "Len" && len(call.Call.Args) > 0 {
				coll = call.Call.Args[0]
			}
		}
		if coll == nil {
			continue
		}
		// which edge establishes L + k <= B ?
		switch op {
		case token.GTR: // L+k > B  : false edge
			out = append(out, degGuard{b, 1, k, coll})
		case token.GEQ: // L+k >= B : false edge gives L+k <= B-1
			out = append(out, degGuard{b, 1, k + 1, coll})
		case token.LEQ:
			out = append(out, degGuard{b, 0, k, coll})
		case token.LSS:
			out = append(out, degGuard{b, 0, k + 1, coll})
		}
	}
	return out
}

func inLoop(b *ssa.BasicBlock) bool {
	for _, s := range b.Succs {
		if ssax.Reaches(s, b) {
			return true
		}
	}
	return false
}

func Degree(w *load.World, ls *lockset.Result, c *core.Collector) {
	props := []string{"C10"}
	// a node that loses neighbours to a deletion gets its edge list rebuilt: every successful way through
	// pruneDeleteNeighbour replaces the old list (ClearNeighbours, directly or by robustPrune). A way
	// out that keeps the old list keeps the edges to the points that are being deleted.
	if pd := findFn(w, "(*shard/index/vamana.IndexVamana).pruneDeleteNeighbour"); pd != nil {
		var banned []ssax.Edge
		for _, b := range pd.Blocks {
			for _, in := range b.Instrs {
				if callsNamed(in, "ClearNeighbours", 0) {
					for i := range b.Succs {
						banned = append(banned, ssax.Edge{From: b, Succ: i})
					}
				}
			}
		}
		bad := ""
		for _, ex := range successExits(pd) {
			if reachableWithoutEdges(pd, banned, ex.In.Block()) {
				clearedHere := false
				for _, in := range ex.In.Block().Instrs {
					if callsNamed(in, "ClearNeighbours", 0) {
						clearedHere = true
					}
				}
				if !clearedHere {
					bad = w.At(ex.In)
				}
			}
		}
		if bad != "" || len(banned) == 0 {
			c.Add("DEGREE", "prune-delete-rewrites", core.Violation, w.Position(pd.Pos()), "pruneDeleteNeighbour can return successfully without having replaced the node's edge list: the edges to the deleted points stay and are flushed, the next search that follows one of them fails on a missing node", props...)
		} else {
			c.Add("DEGREE", "prune-delete-rewrites", core.OK, w.Position(pd.Pos()), "", props...)
		}
	} else {
		c.Add("DEGREE", "anchor:pruneDeleteNeighbour", core.Undecided, "", "pruneDeleteNeighbour not found", props...)
	}
	n := 0
	for _, f := range w.Fns {
		if load.PkgPath(f) != load.Mod+"/shard/index/vamana" {
			continue
		}
		if f.Signature.Recv() != nil && ssax.TypeName(f.Signature.Recv().Type()) == "vamana.graphNode" {
			continue // the node's own methods (AddNeighbourIfNotExists is the entry node's rescue edge)
		}
		guards := degreeGuards(f)
		site := 0
		for _, b := range f.Blocks {
			for _, in := range b.Instrs {
				call, ok := in.(*ssa.Call)
				if !ok {
					continue
				}
				g := call.Call.StaticCallee()
				if g == nil || load.FnKey(g) != "(*shard/index/vamana.graphNode).AddNeighbour" {
					continue
				}
				n++
				site++
				key := fmt.Sprintf("bounded-add:%s#%d", load.FnKey(f), site)
				loop := inLoop(b)
				bounded, how := false, ""
				// (a) result compared with the bound, leaving the loop
				for _, r := range *call.Referrers() {
					bo, ok := r.(*ssa.BinOp)
					if !ok {
						continue
					}
					other := bo.Y
					if bo.X != ssa.Value(call) {
						other = bo.X
					}
					if !ssax.Prov(other)["field:DegreeBound"] {
						continue
					}
					if _, arith := other.(*ssa.BinOp); arith {
						continue
					}
					okOp := (bo.X == ssa.Value(call) && (bo.Op == token.GEQ || bo.Op == token.EQL)) || (bo.Y == ssa.Value(call) && (bo.Op == token.LEQ || bo.Op == token.EQL))
					if !okOp {
						continue
					}
					for _, rr := range *bo.Referrers() {
						if ifi, ok := rr.(*ssa.If); ok {
							exit := ifi.Block().Succs[0]
							if !ssax.Reaches(exit, b) {
								bounded, how = true, "edge count checked against the bound after each add"
							}
						}
					}
				}
				// (b) dominated by a guard with enough slack
				if !bounded {
					for _, gd := range guards {
						if !ssax.OnlyViaEdge(gd.blk, gd.succ, b) {
							continue
						}
						need := int64(1)
						// a guard that is re-evaluated before every add (it lies inside the same loop) bounds a single add
						if loop && !ssax.Reaches(b, gd.blk) {
							need = 0
							// the loop must range over the items of the guarded collection, after a clear
							if !loopOver(b, gd.lenOf) || !clearedBefore(f, call) {
								continue
							}
						}
						if need == 1 {
							// the guarded length must be that of the node the edge is added to
							rp, _ := ssax.Path(call.Call.Args[0])
							lp, _ := ssax.Path(gd.lenOf)
							if !strings.HasPrefix(strings.TrimSuffix(lp, "*"), strings.TrimSuffix(rp, "*")) {
								how = "the guard in front of it measures another node's edge list"
								continue
							}
						}
						// check and act in one critical section: the length must be read with the node's
						// edge lock held for writing, as it is at the add (a decision taken under the read
						// lock is stale once the lock is re-taken for writing)
						if ls != nil {
							const cls = "vamana.graphNode.edgesMu"
							addMode := ls.HeldAt(call)[cls]
							var lenInstr ssa.Instruction
							if li, ok := gd.lenOf.(ssa.Instruction); ok {
								lenInstr = li
							}
							if addMode == lockset.W && lenInstr != nil && ls.HeldAt(lenInstr)[cls] != lockset.W {
								how = "the length that decides whether the node is full is read without the node's edge lock held for writing, the edge is added under the write lock: two workers can both see room and both add"
								continue
							}
						}
						if gd.k >= need {
							bounded, how = true, fmt.Sprintf("behind a guard with slack %d", gd.k)
						} else {
							how = fmt.Sprintf("the guard in front of it has slack %d but %d is needed: the node can end up with more edges than the degree bound", gd.k, need)
						}
					}
				}
				if bounded {
					c.Add("DEGREE", key, core.OK, w.At(in), how, props...)
				} else {
					if how == "" {
						how = "no comparison with the degree bound limits how many edges this site adds"
					}
					c.Add("DEGREE", key, core.Violation, w.At(in), how, props...)
				}
			}
		}
	}
	c.Count("edge_add_sites", n)
	if n < 3 {
		c.Add("DEGREE", "anchor:sites", core.Undecided, "", fmt.Sprintf("found %d call sites of graphNode.AddNeighbour outside the node type, expected at least 3", n), props...)
	}
}

// loopOver: the loop containing b iterates over elements of coll (or of a field of it).
func loopOver(b *ssa.BasicBlock, coll ssa.Value) bool {
	cp, _ := ssax.Path(coll)
	cp = strings.TrimSuffix(cp, "*")
	f := b.Parent()
	for _, lb := range f.Blocks {
		if !ssax.Reaches(lb, b) || !ssax.Reaches(b, lb) {
			continue
		}
		for _, in := range lb.Instrs {
			ia, ok := in.(*ssa.IndexAddr)
			if !ok {
				continue
			}
			p, _ := ssax.Path(ia.X)
			p = strings.TrimSuffix(p, "*")
			if p == cp || strings.HasPrefix(p, cp+".") || strings.HasPrefix(p, cp+"*.") {
				return true
			}
		}
	}
	return false
}

// clearedBefore: a ClearNeighbours call on the same node dominates the add.
func clearedBefore(f *ssa.Function, add *ssa.Call) bool {
	for _, b := range f.Blocks {
		for _, in := range b.Instrs {
			call, ok := in.(*ssa.Call)
			if !ok {
				continue
			}
			g := call.Call.StaticCallee()
			if g == nil || g.Name() != "ClearNeighbours" {
				continue
			}
			if call.Call.Args[0] == add.Call.Args[0] && ssax.Precedes(call, add) {
				return true
			}
		}
	}
	return false
}

// ------------------------------------------------------- PUBLISH / MONOTONE
//
// Two small ordering clauses of the graph index that concurrent readers rely on:
//
//	publish-after-init  a node's "neighbours are loaded" flag is set only after the neighbour list has
//	                    been stored (readers test the flag without a lock and then use the list): every
//	                    Store(true) / CompareAndSwap(_, true) on graphNode.isNeighLoaded is dominated by
//	                    a store to graphNode.neighbours of the same node in the same function  (C09)
//	max-id-monotone     the recorded maximum node id only ever grows: outside the constructor every
//	                    Store on IndexVamana.maxNodeId is behind `x > maxNodeId.Load()` for the value
//	                    stored, or stores max(x, Load())                                             (C10)

func GraphOrdering(w *load.World, c *core.Collector) {
	nFlag, nMax := 0, 0
	for _, f := range w.Fns {
		if load.PkgPath(f) != load.Mod+"/shard/index/vamana" {
			continue
		}
		for _, b := range f.Blocks {
			for _, in := range b.Instrs {
				call, ok := in.(*ssa.Call)
				if !ok {
					continue
				}
				g := call.Call.StaticCallee()
				if g == nil || len(call.Call.Args) == 0 {
					continue
				}
				fld := fieldOfAddr(call.Call.Args[0])
				switch {
				case fld == "vamana.graphNode.isNeighLoaded" && (g.String() == "(*sync/atomic.Bool).Store" || g.String() == "(*sync/atomic.Bool).CompareAndSwap" || g.String() == "(*sync/atomic.Bool).Swap"):
					setsTrue := false
					for _, a := range call.Call.Args[1:] {
						if v, isC := ssax.ConstBool(a); isC && v {
							setsTrue = true
						}
					}
					if !setsTrue {
						continue
					}
					nFlag++
					node := call.Call.Args[0].(*ssa.FieldAddr).X
					published := false
					for _, bb := range f.Blocks {
						for _, ii := range bb.Instrs {
							st, ok := ii.(*ssa.Store)
							if !ok || fieldOfAddr(st.Addr) != "vamana.graphNode.neighbours" {
								continue
							}
							if st.Addr.(*ssa.FieldAddr).X == node && ssax.Precedes(ii, in) {
								published = true
							}
						}
					}
					// where the function loads the list (it calls the vector store), every return that did
					// not load is behind the flag: "the list is not empty" is no substitute — a node read
					// from disk that was given one neighbour before its list was ever loaded has a
					// one-element list and a complete edge list
					loads := false
					for _, bb := range f.Blocks {
						for _, ii := range bb.Instrs {
							if lc, ok := ii.(*ssa.Call); ok && lc.Call.IsInvoke() && lc.Call.Method.Name() == "GetMany" {
								loads = true
							}
						}
					}
					if loads {
						var flagEdges []ssax.Edge
						for _, bb := range f.Blocks {
							ifi, ok := bb.Instrs[len(bb.Instrs)-1].(*ssa.If)
							if !ok {
								continue
							}
							cond, neg := ifi.Cond, false
							if u, ok := cond.(*ssa.UnOp); ok && u.Op == token.NOT {
								cond, neg = u.X, true
							}
							if lc, ok := cond.(*ssa.Call); ok && lc.Call.StaticCallee() != nil && lc.Call.StaticCallee().String() == "(*sync/atomic.Bool).Load" && fieldOfAddr(lc.Call.Args[0]) == "vamana.graphNode.isNeighLoaded" {
								s := 0
								if neg {
									s = 1
								}
								flagEdges = append(flagEdges, ssax.Edge{From: bb, Succ: s})
							}
						}
						badSkip := ""
						for _, ex := range successExits(f) {
							if ssax.Precedes(in, ex.In) {
								continue
							}
							if !onlyViaAny(flagEdges, ex.In.Block()) {
								badSkip = w.At(ex.In)
							}
						}
						k2 := "loaded-only-by-flag:" + load.FnKey(f)
						if badSkip != "" {
							c.Add("ORDERING", k2, core.Violation, badSkip, "the neighbour list is taken for loaded on a path that has not seen the loaded flag set (for instance because the list is not empty): a node that got one neighbour before its list was loaded keeps a one-element list in the warm cache while its edge list on disk is complete — warm answers differ from cold ones", "C08", "C09")
						} else {
							c.Add("ORDERING", k2, core.OK, w.Position(f.Pos()), "", "C08", "C09")
						}
					}
					key := "publish-after-init:" + load.FnKey(f)
					if published {
						c.Add("ORDERING", key, core.OK, w.At(in), "", "C09")
					} else {
						c.Add("ORDERING", key, core.Violation, w.At(in), "the node's neighbours-loaded flag is set before its neighbour list has been stored: another goroutine that sees the flag uses an empty or half-built list", "C09")
					}
				case fld == "vamana.IndexVamana.maxNodeId" && g.String() == "(*sync/atomic.Uint64).Store":
					if _, fresh := ssax.Path(call.Call.Args[0]); fresh {
						continue // constructor
					}
					// a helper that only the constructor calls, on the object it is building
					if len(f.Params) > 0 && f.Signature.Recv() != nil {
						sites := staticCallSites(w, f)
						onlyFresh := len(sites) > 0
						for _, site := range sites {
							if len(site.Common().Args) == 0 {
								onlyFresh = false
								continue
							}
							if _, fr := ssax.Path(site.Common().Args[0]); !fr {
								onlyFresh = false
							}
						}
						if fa, ok := call.Call.Args[0].(*ssa.FieldAddr); ok && peelToParam(fa.X) == ssa.Value(f.Params[0]) && onlyFresh {
							continue
						}
					}
					nMax++
					val := call.Call.Args[1]
					okMono := false
					// behind `val > maxNodeId.Load()`
					for _, bb := range f.Blocks {
						ifi, ok := bb.Instrs[len(bb.Instrs)-1].(*ssa.If)
						if !ok {
							continue
						}
						bo, ok := ifi.Cond.(*ssa.BinOp)
						if !ok {
							continue
						}
						isLoad := func(v ssa.Value) bool {
							lc, ok := v.(*ssa.Call)
							return ok && lc.Call.StaticCallee() != nil && lc.Call.StaticCallee().String() == "(*sync/atomic.Uint64).Load" && fieldOfAddr(lc.Call.Args[0]) == "vamana.IndexVamana.maxNodeId"
						}
						same := func(a, b ssa.Value) bool {
							if a == b {
								return true
							}
							pa, _ := ssax.Path(a)
							pb, _ := ssax.Path(b)
							return pa == pb
						}
						edge := -1
						switch {
						case bo.Op == token.GTR && same(bo.X, val) && isLoad(bo.Y), bo.Op == token.LSS && isLoad(bo.X) && same(bo.Y, val):
							edge = 0
						case bo.Op == token.LEQ && same(bo.X, val) && isLoad(bo.Y), bo.Op == token.GEQ && isLoad(bo.X) && same(bo.Y, val):
							edge = 1
						}
						if edge >= 0 && ssax.OnlyViaEdge(bb, edge, b) {
							okMono = true
						}
					}
					if mc, ok := val.(*ssa.Call); ok {
						if bi, ok := mc.Call.Value.(*ssa.Builtin); ok && bi.Name() == "max" {
							for _, a := range mc.Call.Args {
								if lc, ok := a.(*ssa.Call); ok && lc.Call.StaticCallee() != nil && lc.Call.StaticCallee().String() == "(*sync/atomic.Uint64).Load" {
									okMono = true
								}
							}
						}
					}
					key := "max-id-monotone:" + load.FnKey(f)
					if okMono {
						c.Add("ORDERING", key, core.OK, w.At(in), "", "C10")
					} else {
						c.Add("ORDERING", key, core.Violation, w.At(in), "the recorded maximum node id is overwritten without having been compared with the value it replaces: a batch of small ids lowers it below ids that are in use", "C10")
					}
				}
			}
		}
	}
	c.Count("neighbour_flag_sets", nFlag)
	c.Count("max_node_id_stores", nMax)
	if nFlag < 2 {
		c.Add("ORDERING", "anchor:neighbour-flag", core.Undecided, "", fmt.Sprintf("found %d sets of the neighbours-loaded flag, expected at least 2", nFlag), "C09")
	}
	if nMax < 1 {
		c.Add("ORDERING", "anchor:max-node-id", core.Undecided, "", "no update of the recorded maximum node id found", "C10")
	}
}

// countIsLength: where robust pruning (or any code of the graph package) compares the result of a
// node method with the degree bound, that result is the length of the node's edge list on every
// return of the method. A method changed to return the position of the neighbour (len-1, or the
// index where it was found) makes "count >= bound" stop one edge late: nodes are persisted with
// bound+1 edges.
func countIsLength(w *load.World, c *core.Collector) {
	props := []string{"C10"}
	n := 0
	done := map[*ssa.Function]bool{}
	for _, f := range w.Fns {
		if load.PkgPath(f) != load.Mod+"/shard/index/vamana" {
			continue
		}
		for _, b := range f.Blocks {
			for _, in := range b.Instrs {
				bo, ok := in.(*ssa.BinOp)
				if !ok {
					continue
				}
				switch bo.Op {
				case token.LSS, token.LEQ, token.GTR, token.GEQ, token.EQL, token.NEQ:
				default:
					continue
				}
				for _, pr := range [][2]ssa.Value{{bo.X, bo.Y}, {bo.Y, bo.X}} {
					if !ssax.Prov(pr[1])["field:DegreeBound"] && !deepHas(w, pr[1], "field:DegreeBound") {
						continue
					}
					call, ok := pr[0].(*ssa.Call)
					if !ok {
						continue
					}
					g := call.Call.StaticCallee()
					if g == nil || !ssax.InModule(g) || done[g] || len(g.Blocks) == 0 {
						continue
					}
					done[g] = true
					n++
					bad := ""
					for _, gb := range g.Blocks {
						ret, ok := gb.Instrs[len(gb.Instrs)-1].(*ssa.Return)
						if !ok || len(ret.Results) != 1 {
							continue
						}
						isLen := false
						if lc, ok := ret.Results[0].(*ssa.Call); ok {
							if bi, ok := lc.Call.Value.(*ssa.Builtin); ok && bi.Name() == "len" {
								isLen = true
							}
						}
						if !isLen {
							bad = w.At(ret)
						}
					}
					key := "count-is-length:" + load.FnKey(g)
					if bad != "" {
						c.Add("DEGREE", key, core.Violation, bad, "a value that is compared with the degree bound is not the length of the edge list on this return (a position, or a length less one): the comparison stops one edge late and the node is stored with more edges than the bound", props...)
					} else {
						c.Add("DEGREE", key, core.OK, w.Position(g.Pos()), "", props...)
					}
				}
			}
		}
	}
	if n == 0 {
		c.Add("DEGREE", "count-is-length:none", core.OK, "", "no method result is compared with the degree bound", props...)
	}
}
