package rules

import (
	"fmt"
	"sort"
	"strings"

	"semaverif/internal/core"
	"semaverif/internal/load"
)

// Path-sensitive register flow of an AVX kernel (forward dataflow over the
// instruction CFG, joins by meet):
//
//	vector registers   zero (VXORPS r,r,r) | acc (partial sum) | data (loaded values, differences)
//	                   an accumulate (VFMADD231*) or a reduction (VADDPS, VHADDPS, VEXTRACTF128,
//	                   MOVSS to the result) may only read partial sums from zero/acc registers
//	count register     the fact "count == 0" is established on the taken edge of CMPQ count,$0;JE
//	                   and of SUBQ/DECQ count;JE, killed by any write; it must hold at every RET
//	                   (every element was consumed on every path to the result)
//
// This is what makes a shortcut jump that skips the zeroing of the tail
// accumulator, or that leaves the loops with elements left over, visible.

type regKind int

const (
	rkUnknown regKind = iota // never written on this path
	rkZero
	rkAcc
	rkData
	rkMixed   // different kinds on different paths
	rkAccWide // a packed partial sum that uses lanes above bit 127 (written through a Y register)
)

func (k regKind) String() string {
	return []string{"never written", "zero", "partial sum", "data", "data on some paths", "256-bit packed partial sum"}[k]
}

func joinKind(a, b regKind) regKind {
	isAcc := func(k regKind) bool { return k == rkZero || k == rkAcc || k == rkAccWide }
	switch {
	case a == b:
		return a
	case isAcc(a) && isAcc(b):
		if a == rkAccWide || b == rkAccWide {
			return rkAccWide
		}
		return rkAcc
	}
	return rkMixed
}

type asmState struct {
	regs      map[string]regKind // canonical vector register number ("0".."15")
	countZero bool
	reached   bool
}

func (s asmState) clone() asmState {
	n := asmState{regs: map[string]regKind{}, countZero: s.countZero, reached: s.reached}
	for k, v := range s.regs {
		n.regs[k] = v
	}
	return n
}

func vreg(a string) (string, bool) {
	if len(a) >= 2 && (a[0] == 'X' || a[0] == 'Y') && a[1] >= '0' && a[1] <= '9' {
		return a[1:], true
	}
	return "", false
}

func checkRegisterFlow(w *load.World, c *core.Collector, f *asmFunc, cnt string, props []string) {
	rel := strings.TrimPrefix(strings.TrimPrefix(f.file, w.Dir), "/")
	at := func(i int) string { return fmt.Sprintf("%s:%d", rel, f.ins[i].line) }
	n := len(f.ins)
	isCond := func(op string) bool {
		return len(op) >= 2 && op[0] == 'J' && op != "JMP"
	}
	succs := func(i int) (fall int, target int) {
		in := f.ins[i]
		fall, target = i+1, -1
		if in.op == "RET" {
			return -1, -1
		}
		if in.op == "JMP" || isCond(in.op) {
			if t, ok := f.label[in.args[0]]; ok {
				target = t
			}
			if in.op == "JMP" {
				fall = -1
			}
		}
		if fall >= n {
			fall = -1
		}
		return
	}
	states := make([]asmState, n)
	var problems []string
	seenProb := map[string]bool{}
	report := func(i int, msg string) {
		m := at(i) + ": " + msg
		if !seenProb[m] {
			seenProb[m] = true
			problems = append(problems, m)
		}
	}
	work := []int{0}
	states[0] = asmState{regs: map[string]regKind{}, reached: true}
	merge := func(to int, s asmState) {
		if to < 0 || to >= n {
			return
		}
		if !states[to].reached {
			states[to] = s.clone()
			states[to].reached = true
			work = append(work, to)
			return
		}
		changed := false
		old := states[to]
		for k, v := range s.regs {
			j := joinKind(old.regs[k], v)
			if _, ok := old.regs[k]; !ok {
				j = joinKind(rkUnknown, v)
			}
			if j != old.regs[k] {
				old.regs[k] = j
				changed = true
			}
		}
		for k, v := range old.regs {
			if _, ok := s.regs[k]; !ok {
				j := joinKind(v, rkUnknown)
				if j != v {
					old.regs[k] = j
					changed = true
				}
			}
		}
		if old.countZero && !s.countZero {
			old.countZero = false
			changed = true
		}
		states[to] = old
		if changed {
			work = append(work, to)
		}
	}
	steps := 0
	for len(work) > 0 && steps < 20000 {
		steps++
		i := work[len(work)-1]
		work = work[:len(work)-1]
		in := f.ins[i]
		s := states[i].clone()
		readAcc := func(a string) {
			if r, ok := vreg(a); ok {
				if k := s.regs[r]; k != rkZero && k != rkAcc && k != rkAccWide {
					report(i, fmt.Sprintf("%s %s reads %s as a partial sum but it holds %s on a path reaching here", in.op, strings.Join(in.args, ", "), a, k))
				}
			}
		}
		setKind := func(a string, k regKind) {
			if r, ok := vreg(a); ok {
				s.regs[r] = k
			}
		}
		last := ""
		if len(in.args) > 0 {
			last = in.args[len(in.args)-1]
		}
		takenZero := false // does the taken edge of a following JE establish count == 0?
		switch {
		case in.op == "VXORPS" && len(in.args) == 3 && in.args[0] == in.args[1] && in.args[1] == in.args[2]:
			setKind(last, rkZero)
		case (in.op == "VMOVSHDUP" || in.op == "VMOVSLDUP" || in.op == "VMOVHLPS" || in.op == "VMOVLHPS") && len(in.args) >= 2:
			// a shuffle of register lanes: what comes out is of the kind that went in (a shuffled
			// partial sum is a partial sum; the lane bookkeeping is the horizontal-sum clause's)
			k := rkZero
			for _, a := range in.args[:len(in.args)-1] {
				if r, ok := vreg(a); ok {
					k = joinKind(k, s.regs[r])
					if s.regs[r] == rkAccWide {
						k = rkAcc
					}
				}
			}
			if k == rkZero {
				k = rkAcc
			}
			setKind(last, k)
		case strings.HasPrefix(in.op, "VMOV") || in.op == "MOVSS" || in.op == "MOVUPS":
			if _, isReg := vreg(last); isReg {
				setKind(last, rkData)
			} else if len(in.args) == 2 {
				// store of the result
				readAcc(in.args[0])
			}
		case strings.HasPrefix(in.op, "VSUB") || strings.HasPrefix(in.op, "VMUL"):
			setKind(last, rkData)
		case strings.HasPrefix(in.op, "VFMADD"):
			readAcc(last)
			scalar := strings.HasSuffix(in.op, "SS") || strings.HasSuffix(in.op, "SD")
			if r, ok := vreg(last); ok && scalar && s.regs[r] == rkAccWide {
				report(i, fmt.Sprintf("%s %s accumulates a scalar into %s, which holds a 256-bit packed partial sum on a path reaching here: a VEX-encoded scalar instruction zeroes bits 255:128 of its destination, so the upper lanes of that sum are lost", in.op, strings.Join(in.args, ", "), last))
			}
			switch {
			case scalar:
				setKind(last, rkAcc)
			case strings.HasPrefix(last, "Y"):
				setKind(last, rkAccWide)
			default:
				if r, ok := vreg(last); ok && s.regs[r] == rkAccWide {
					// a 128-bit packed VEX write also clears the upper half
					report(i, fmt.Sprintf("%s writes the X view of %s, which holds a 256-bit packed partial sum: the upper lanes are cleared", in.op, last))
				}
				setKind(last, rkAcc)
			}
		case strings.HasPrefix(in.op, "VADD") || strings.HasPrefix(in.op, "VHADD"):
			for _, a := range in.args[:len(in.args)-1] {
				readAcc(a)
			}
			setKind(last, rkAcc)
		case strings.HasPrefix(in.op, "VEXTRACT"):
			if len(in.args) == 3 {
				readAcc(in.args[1])
			}
			setKind(last, rkAcc)
		case in.op == "SUBQ" || in.op == "ADDQ" || in.op == "DECQ" || in.op == "INCQ" || in.op == "MOVQ" || in.op == "SHRQ" || in.op == "ANDQ":
			if last == cnt {
				s.countZero = false
			}
		case in.op == "CMPQ", in.op == "TESTQ", in.op == "RET", in.op == "JMP", isCond(in.op), in.op == "VZEROUPPER":
		default:
			if _, ok := vreg(last); ok {
				report(i, "instruction "+in.op+" is outside the vocabulary of the register-flow analysis")
				setKind(last, rkMixed)
			}
		}
		if in.op == "RET" && !s.countZero && cnt != "" {
			report(i, "the result can be returned on a path on which the element count was never seen to reach zero: elements are left unprocessed")
		}
		fall, target := succs(i)
		if isCond(in.op) && i > 0 {
			prev := f.ins[i-1]
			zeroSetter := (prev.op == "CMPQ" && len(prev.args) == 2 && prev.args[0] == cnt && prev.args[1] == "$0x00000000") ||
				(prev.op == "CMPQ" && len(prev.args) == 2 && prev.args[0] == cnt && func() bool { v, ok := imm(prev.args[1]); return ok && v == 0 }()) ||
				(prev.op == "TESTQ" && len(prev.args) == 2 && prev.args[0] == cnt && prev.args[1] == cnt) ||
				((prev.op == "SUBQ" || prev.op == "DECQ") && prev.args[len(prev.args)-1] == cnt)
			if zeroSetter && (in.op == "JE" || in.op == "JEQ" || in.op == "JZ") {
				takenZero = true
			}
			if zeroSetter && (in.op == "JNE" || in.op == "JNZ") {
				// fall-through edge knows count == 0
				fs := s.clone()
				fs.countZero = true
				merge(fall, fs)
				merge(target, s)
				continue
			}
		}
		if target >= 0 {
			ts := s.clone()
			if takenZero {
				ts.countZero = true
			}
			merge(target, ts)
		}
		merge(fall, s)
	}
	sort.Strings(problems)
	key := f.name + ":register-flow"
	if len(problems) > 0 {
		c.Add("ASM", key, core.Violation, rel, strings.Join(problems, "; "), props...)
	} else {
		c.Add("ASM", key, core.OK, rel, fmt.Sprintf("%d instructions, fixpoint after %d steps", n, steps), props...)
	}
}
