package rules

import (
	"fmt"
	"os"
	"go/token"
	"go/types"
	"strings"

	"golang.org/x/tools/go/ssa"

	"semaverif/internal/core"
	"semaverif/internal/load"
	"semaverif/internal/ssax"
)

// -------------------------------------------------------------------- MERGE
//
// Composite queries (C06) are merged in indexManager.searchParallel, explicit
// sort keys are applied by utils.SortSearchResults and paging by the final
// slice of Shard.SearchPoints. Structural clauses:
//
//	set-algebra      the disjunction flag selects the union of the sub-results, its absence the intersection
//	dedupe-sum       a result is appended only when its node id was not seen before; otherwise its hybrid
//	                 score is added to the entry already held
//	conjunction-gate in a conjunction a ranked result outside the intersection is never appended
//	order            every success return that hands back merged ranked results comes after a sort by
//	                 hybrid score, highest first
//	paging           the returned slice is results[min(offset,len) : min(offset+limit,len)]
//	sort-keys        the comparator puts a point that lacks the key after one that has it, and swaps the
//	                 operands — for that key only — when the key is descending

func Merge(w *load.World, c *core.Collector) {
	props := []string{"C06"}
	f := findFn(w, "(shard/index.indexManager).searchParallel")
	if f == nil {
		c.Add("MERGE", "anchor:searchParallel", core.Undecided, "", "indexManager.searchParallel not found", props...)
	} else {
		mergeParallel(w, c, f, props)
	}
	mergePaging(w, c, props)
	mergeSortKeys(w, c, props)
}

func mergeParallel(w *load.World, c *core.Collector, f *ssa.Function, props []string) {
	// the disjunction parameter: the only bool parameter
	var disj *ssa.Parameter
	for _, p := range f.Params {
		if p.Type().String() == "bool" {
			disj = p
		}
	}
	if disj == nil {
		c.Add("MERGE", "anchor:disjunction-flag", core.Undecided, w.Position(f.Pos()), "no bool parameter", props...)
		return
	}
	var or, and *ssa.Call
	var sortCall, sortInner *ssa.Call // the call in this function, and the slices.SortFunc call that does the work
	for _, b := range f.Blocks {
		for _, in := range b.Instrs {
			if call, ok := in.(*ssa.Call); ok {
				if g := call.Call.StaticCallee(); g != nil {
					switch {
					case strings.HasSuffix(g.String(), "roaring64.FastOr") || strings.HasSuffix(g.String(), "roaring64.Or"):
						or = call
					case strings.HasSuffix(g.String(), "roaring64.FastAnd") || strings.HasSuffix(g.String(), "roaring64.And"):
						and = call
					case strings.HasPrefix(g.String(), "slices.SortFunc") || strings.HasPrefix(g.String(), "slices.SortStableFunc"):
						if isSearchResultSlice(call.Call.Args[0].Type()) {
							sortCall, sortInner = call, call
						}
					case ssax.InModule(g):
						// a helper that sorts the result slice it is given
						for i, a := range call.Call.Args {
							if !isSearchResultSlice(a.Type()) || i >= len(g.Params) {
								continue
							}
							for _, gb := range g.Blocks {
								for _, gi := range gb.Instrs {
									if ic, ok := gi.(*ssa.Call); ok && ic.Call.StaticCallee() != nil && (strings.HasPrefix(ic.Call.StaticCallee().String(), "slices.SortFunc") || strings.HasPrefix(ic.Call.StaticCallee().String(), "slices.SortStableFunc")) && ic.Call.Args[0] == ssa.Value(g.Params[i]) {
										sortCall, sortInner = call, ic
									}
								}
							}
						}
						// a helper that builds the merged list, sorts it and returns it
						if isSearchResultSlice(call.Type()) {
							for _, gb := range g.Blocks {
								for _, gi := range gb.Instrs {
									ic, ok := gi.(*ssa.Call)
									if !ok || ic.Call.StaticCallee() == nil || !(strings.HasPrefix(ic.Call.StaticCallee().String(), "slices.SortFunc") || strings.HasPrefix(ic.Call.StaticCallee().String(), "slices.SortStableFunc")) {
										continue
									}
									if !isSearchResultSlice(ic.Call.Args[0].Type()) {
										continue
									}
									// the sort precedes every return of a non-empty list
									okAll := true
									for _, rb := range g.Blocks {
										if r, isRet := rb.Instrs[len(rb.Instrs)-1].(*ssa.Return); isRet && len(r.Results) > 0 && !ssax.IsNilConst(r.Results[0]) && !ssax.Precedes(ic, r) {
											okAll = false
										}
									}
									if okAll {
										sortCall, sortInner = call, ic
									}
								}
							}
						}
					}
				}
			}
		}
	}
	disjTrue, disjFalse := flagEdges(f, disj, false)
	if or == nil || and == nil {
		// the choice may live in a helper that receives the flag
		for _, b := range f.Blocks {
			for _, in := range b.Instrs {
				h := ssax.StaticModuleCallee(in)
				if h == nil || len(h.Blocks) == 0 {
					continue
				}
				var hp *ssa.Parameter
				inverted := false
				for i, a := range in.(ssa.CallInstruction).Common().Args {
					if i >= len(h.Params) {
						break
					}
					if a == ssa.Value(disj) {
						hp = h.Params[i]
					}
					if u, ok := a.(*ssa.UnOp); ok && u.Op == token.NOT && u.X == ssa.Value(disj) {
						hp, inverted = h.Params[i], true
					}
				}
				if hp == nil {
					continue
				}
				var hor, hand *ssa.Call
				for _, hb := range h.Blocks {
					for _, hin := range hb.Instrs {
						if call, ok := hin.(*ssa.Call); ok {
							if g := call.Call.StaticCallee(); g != nil {
								switch {
								case strings.HasSuffix(g.String(), "roaring64.FastOr") || strings.HasSuffix(g.String(), "roaring64.Or"):
									hor = call
								case strings.HasSuffix(g.String(), "roaring64.FastAnd") || strings.HasSuffix(g.String(), "roaring64.And"):
									hand = call
								}
							}
						}
					}
				}
				if hor == nil || hand == nil {
					continue
				}
				ht, hf := flagEdges(h, hp, inverted)
				if onlyViaAny(ht, hor.Block()) && onlyViaAny(hf, hand.Block()) {
					c.Add("MERGE", "set-algebra", core.OK, w.At(hor), "", props...)
				} else {
					c.Add("MERGE", "set-algebra", core.Violation, w.At(hor), "_or does not select the union of the sub-results, or _and not their intersection", props...)
				}
				or, and = hor, hand
				goto algebraDone
			}
		}
	}
	if or == nil && and == nil {
		// "combine := roaring64.FastAnd; if disjunction { combine = roaring64.FastOr }; combine(sets...)"
		for _, b := range f.Blocks {
			for _, in := range b.Instrs {
				call, ok := in.(*ssa.Call)
				if !ok {
					continue
				}
				phi, ok := call.Call.Value.(*ssa.Phi)
				if !ok {
					continue
				}
				okAll, nOr, nAnd := true, 0, 0
				for i, e := range phi.Edges {
					g, _ := e.(*ssa.Function)
					pred := phi.Block().Preds[i]
					switch {
					case g != nil && (strings.HasSuffix(g.String(), "roaring64.FastOr") || strings.HasSuffix(g.String(), "roaring64.Or")):
						nOr++
						if !edgeOnlyVia(disjTrue, pred, phi.Block()) {
							okAll = false
						}
					case g != nil && (strings.HasSuffix(g.String(), "roaring64.FastAnd") || strings.HasSuffix(g.String(), "roaring64.And")):
						nAnd++
						if !edgeOnlyVia(disjFalse, pred, phi.Block()) {
							okAll = false
						}
					default:
						okAll = false
					}
				}
				if nOr == 0 || nAnd == 0 {
					continue
				}
				if okAll {
					c.Add("MERGE", "set-algebra", core.OK, w.At(call), "", props...)
				} else {
					c.Add("MERGE", "set-algebra", core.Violation, w.At(call), "_or does not select the union of the sub-results, or _and not their intersection", props...)
				}
				goto algebraDone
			}
		}
	}
	switch {
	case or == nil || and == nil:
		c.Add("MERGE", "set-algebra", core.Violation, w.Position(f.Pos()), "the merge does not compute both a union and an intersection of the sub-results", props...)
	case onlyViaAny(disjTrue, or.Block()) && onlyViaAny(disjFalse, and.Block()):
		c.Add("MERGE", "set-algebra", core.OK, w.At(or), "", props...)
	default:
		c.Add("MERGE", "set-algebra", core.Violation, w.At(or), "_or does not select the union of the sub-results, or _and not their intersection", props...)
	}
algebraDone:
	// dedupe and gate: in the function that appends the merged results (a helper of this one after
	// a refactoring), with the disjunction flag followed into it
	orig := f
	hasAppend := func(g *ssa.Function) bool {
		for _, wr := range resultWrites(g) {
			if _, ok := wr.(*ssa.Call); ok {
				return true
			}
		}
		return false
	}
	if m := homeOf(f, hasAppend); m != f {
		// which parameter of the helper carries the flag, and with which polarity
		var mp *ssa.Parameter
		inverted := false
		for _, b := range f.Blocks {
			for _, in := range b.Instrs {
				if ssax.StaticModuleCallee(in) != m {
					continue
				}
				for i, a := range in.(ssa.CallInstruction).Common().Args {
					if i >= len(m.Params) {
						break
					}
					if a == ssa.Value(disj) {
						mp, inverted = m.Params[i], false
					}
					if u, ok := a.(*ssa.UnOp); ok && u.Op == token.NOT && u.X == ssa.Value(disj) {
						mp, inverted = m.Params[i], true
					}
				}
			}
		}
		if mp != nil {
			f = m
			disjTrue, disjFalse = flagEdges(f, mp, inverted)
		} else {
			// the helper is not told the flag but handed "the set to keep within", nil for a
			// disjunction: inside it, "keep == nil" is the disjunction
			for _, b := range f.Blocks {
				for _, in := range b.Instrs {
					if ssax.StaticModuleCallee(in) != m {
						continue
					}
					for i, a := range in.(ssa.CallInstruction).Common().Args {
						if i >= len(m.Params) || !strings.HasSuffix(a.Type().String(), "roaring64.Bitmap") {
							continue
						}
						phi, ok := a.(*ssa.Phi)
						if !ok || len(phi.Edges) != 2 {
							continue
						}
						okNil := false
						for k, e := range phi.Edges {
							if ssax.IsNilConst(e) && edgeOnlyVia(disjTrue, phi.Block().Preds[k], phi.Block()) && edgeOnlyVia(disjFalse, phi.Block().Preds[1-k], phi.Block()) {
								okNil = true
							}
						}
						if !okNil {
							continue
						}
						prm := m.Params[i]
						var nt, nf []ssax.Edge
						for _, mb := range m.Blocks {
							ifi, ok := mb.Instrs[len(mb.Instrs)-1].(*ssa.If)
							if !ok {
								continue
							}
							bo, ok := ifi.Cond.(*ssa.BinOp)
							if !ok || (bo.Op != token.EQL && bo.Op != token.NEQ) {
								continue
							}
							if !((bo.X == ssa.Value(prm) && ssax.IsNilConst(bo.Y)) || (bo.Y == ssa.Value(prm) && ssax.IsNilConst(bo.X))) {
								continue
							}
							t, e := 0, 1
							if bo.Op == token.NEQ {
								t, e = 1, 0
							}
							nt = append(nt, ssax.Edge{From: mb, Succ: t})
							nf = append(nf, ssax.Edge{From: mb, Succ: e})
						}
						if len(nt) > 0 {
							f = m
							disjTrue, disjFalse = nt, nf
						}
					}
				}
			}
		}
	}
	writes := resultWrites(f)
	var seenFalse []ssax.Edge // edges on which the node id was not in the de-duplication map
	var seenTrue []ssax.Edge
	for _, b := range f.Blocks {
		ifi, ok := b.Instrs[len(b.Instrs)-1].(*ssa.If)
		if !ok {
			continue
		}
		cond, neg := ifi.Cond, false
		if u, ok := cond.(*ssa.UnOp); ok && u.Op == token.NOT {
			cond, neg = u.X, true
		}
		ex, ok := cond.(*ssa.Extract)
		if !ok || ex.Index != 1 {
			continue
		}
		if lk, ok := ex.Tuple.(*ssa.Lookup); !ok || !ssax.Prov(lk.Index)["field:NodeId"] {
			continue
		}
		t, e := 0, 1
		if neg {
			t, e = 1, 0
		}
		seenTrue = append(seenTrue, ssax.Edge{From: b, Succ: t})
		seenFalse = append(seenFalse, ssax.Edge{From: b, Succ: e})
	}
	var contains []ssax.Edge
	for _, b := range f.Blocks {
		ifi, ok := b.Instrs[len(b.Instrs)-1].(*ssa.If)
		if !ok {
			continue
		}
		cond, neg := ifi.Cond, false
		if u, ok := cond.(*ssa.UnOp); ok && u.Op == token.NOT {
			cond, neg = u.X, true
		}
		if call, ok := cond.(*ssa.Call); ok {
			if g := call.Call.StaticCallee(); g != nil && g.Name() == "Contains" && strings.Contains(g.String(), "roaring64") {
				e := 0
				if neg {
					e = 1
				}
				contains = append(contains, ssax.Edge{From: b, Succ: e})
			}
		}
	}
	// "valid := isDisjunction || set.Contains(id)": the condition is a phi whose incoming values are
	// the constant true on the disjunction edge and the membership test otherwise
	contains = append(contains, phiCondEdges(f, append(append([]ssax.Edge{}, disjTrue...), contains...), func(v ssa.Value) bool {
		call, ok := v.(*ssa.Call)
		if !ok {
			return false
		}
		g := call.Call.StaticCallee()
		return g != nil && g.Name() == "Contains" && strings.Contains(g.String(), "roaring64")
	})...)
	// "isKept := func(id) bool { return isDisjunction || finalSet.Contains(id) }": a literal whose
	// every result is true on the disjunction edge or a membership test; a branch on its result
	for _, b := range f.Blocks {
		ifi, ok := b.Instrs[len(b.Instrs)-1].(*ssa.If)
		if !ok {
			continue
		}
		cond, neg := ifi.Cond, false
		if u, ok := cond.(*ssa.UnOp); ok && u.Op == token.NOT {
			cond, neg = u.X, true
		}
		call, ok := cond.(*ssa.Call)
		if !ok || call.Call.IsInvoke() {
			continue
		}
		lits := funcValuesOf(w, call.Call.Value, 0)
		if g := call.Call.StaticCallee(); g != nil {
			lits = []*ssa.Function{g}
		}
		for _, lit := range lits {
			if lit.Parent() == nil {
				continue
			}
			lt, _ := flagEdges(lit, disj, false)
			isContains := func(v ssa.Value) bool {
				cc, ok := v.(*ssa.Call)
				if !ok {
					return false
				}
				g := cc.Call.StaticCallee()
				return g != nil && g.Name() == "Contains" && strings.Contains(g.String(), "roaring64")
			}
			okLit, nRet := true, 0
			for _, lb := range lit.Blocks {
				ret, isRet := lb.Instrs[len(lb.Instrs)-1].(*ssa.Return)
				if !isRet || len(ret.Results) != 1 {
					continue
				}
				nRet++
				var check func(v ssa.Value, at *ssa.BasicBlock, pred *ssa.BasicBlock) bool
				check = func(v ssa.Value, at, pred *ssa.BasicBlock) bool {
					if cb, isC := ssax.ConstBool(v); isC {
						if !cb {
							return true
						}
						if pred != nil {
							return edgeOnlyVia(lt, pred, at)
						}
						return onlyViaAny(lt, at)
					}
					if isContains(v) {
						return true
					}
					if phi, ok := v.(*ssa.Phi); ok {
						for i, e := range phi.Edges {
							if !check(e, phi.Block(), phi.Block().Preds[i]) {
								return false
							}
						}
						return true
					}
					return false
				}
				if !check(ret.Results[0], lb, nil) {
					okLit = false
				}
			}
			if okLit && nRet > 0 {
				e := 0
				if neg {
					e = 1
				}
				contains = append(contains, ssax.Edge{From: b, Succ: e})
			}
		}
	}
	nApp := 0
	for _, wr := range writes {
		call, isAppend := wr.(*ssa.Call)
		if !isAppend {
			continue
		}
		_ = call
		nApp++
		if onlyViaAny(seenFalse, wr.Block()) {
			c.Add("MERGE", fmt.Sprintf("dedupe#%d", nApp), core.OK, w.At(wr), "", props...)
		} else {
			c.Add("MERGE", fmt.Sprintf("dedupe#%d", nApp), core.Violation, w.At(wr), "a merged result can be appended without its node id having been looked up in the de-duplication map: a point found by several sub-queries appears more than once", props...)
		}
		// the appended result is registered in the de-duplication map before the next result is
		// looked at: from the append no further append and no return is reached without an
		// update of a map from node ids to positions
		{
			regs := map[*ssa.BasicBlock]bool{}
			for _, mb := range f.Blocks {
				for _, mi := range mb.Instrs {
					if mu, ok := mi.(*ssa.MapUpdate); ok {
						if mt, ok := mu.Map.Type().Underlying().(*types.Map); ok {
							if kb, ok := mt.Key().Underlying().(*types.Basic); ok && kb.Kind() == types.Uint64 && (ssax.Prov(mu.Key)["field:NodeId"] || deepHas(w, mu.Key, "field:NodeId")) {
								regs[mb] = true
							}
						}
					}
				}
			}
			A := wr.Block()
			skipped := false
			if !regs[A] {
				seenB := map[*ssa.BasicBlock]bool{}
				stack := append([]*ssa.BasicBlock{}, A.Succs...)
				for len(stack) > 0 && !skipped {
					x := stack[len(stack)-1]
					stack = stack[:len(stack)-1]
					if seenB[x] || regs[x] {
						continue
					}
					seenB[x] = true
					if x == A {
						skipped = true
					}
					if _, isRet := x.Instrs[len(x.Instrs)-1].(*ssa.Return); isRet {
						skipped = true
					}
					stack = append(stack, x.Succs...)
				}
			}
			if skipped {
				c.Add("MERGE", fmt.Sprintf("dedupe-registers#%d", nApp), core.Violation, w.At(wr), "a merged result is appended and the next one can be looked at without the appended one having been entered in the de-duplication map: a point that a later sub-query finds again is appended a second time, each entry with part of the score", props...)
			} else {
				c.Add("MERGE", fmt.Sprintf("dedupe-registers#%d", nApp), core.OK, w.At(wr), "", props...)
			}
		}
		gate := append(append([]ssax.Edge{}, disjTrue...), contains...)
		if !reachableWithoutEdges(f, gate, wr.Block()) {
			c.Add("MERGE", fmt.Sprintf("conjunction-gate#%d", nApp), core.OK, w.At(wr), "", props...)
		} else {
			c.Add("MERGE", fmt.Sprintf("conjunction-gate#%d", nApp), core.Violation, w.At(wr), "in a conjunction a ranked result can be appended although it is not in the intersection of the sub-results", props...)
		}
	}
	if nApp == 0 {
		c.Add("MERGE", "anchor:appends", core.Undecided, w.Position(f.Pos()), "no append of merged results found", props...)
	}
	// sum of hybrid scores on the "seen" edge
	sumOK := false
	// … possibly inside a helper called on that edge, in which the sum is on every path
	for _, b := range f.Blocks {
		if !onlyViaAny(seenTrue, b) {
			continue
		}
		for _, in := range b.Instrs {
			h := ssax.StaticModuleCallee(in)
			if h == nil || len(h.Blocks) == 0 {
				continue
			}
			for _, hb := range h.Blocks {
				for _, hin := range hb.Instrs {
					st, ok := hin.(*ssa.Store)
					if !ok || fieldOfAddr(st.Addr) != "models.SearchResult.HybridScore" {
						continue
					}
					bo, ok := st.Val.(*ssa.BinOp)
					if !ok || bo.Op != token.ADD {
						continue
					}
					isOld := func(v ssa.Value) bool {
						u, ok := v.(*ssa.UnOp)
						if !ok || u.Op != token.MUL {
							return false
						}
						a, ok1 := u.X.(*ssa.FieldAddr)
						t, ok2 := st.Addr.(*ssa.FieldAddr)
						return ok1 && ok2 && a.Field == t.Field && a.X == t.X
					}
					other := bo.Y
					if !isOld(bo.X) {
						if !isOld(bo.Y) {
							continue
						}
						other = bo.X
					}
					if ssax.Prov(other)["field:HybridScore"] && (hb == h.Blocks[0] || !exitReachableAvoiding(h.Blocks[0], hb)) {
						sumOK = true
					}
				}
			}
		}
	}
	for _, b := range f.Blocks {
		for _, in := range b.Instrs {
			st, ok := in.(*ssa.Store)
			if !ok || fieldOfAddr(st.Addr) != "models.SearchResult.HybridScore" {
				continue
			}
			bo, ok := st.Val.(*ssa.BinOp)
			if !ok || bo.Op != token.ADD {
				continue
			}
			loadsSame := func(v ssa.Value) bool {
				u, ok := v.(*ssa.UnOp)
				if !ok || u.Op != token.MUL {
					return false
				}
				if u.X == st.Addr {
					return true
				}
				a, ok1 := u.X.(*ssa.FieldAddr)
				b, ok2 := st.Addr.(*ssa.FieldAddr)
				if !ok1 || !ok2 || a.Field != b.Field {
					return false
				}
				pa, _ := ssax.Path(a.X)
				pb, _ := ssax.Path(b.X)
				return a.X == b.X || pa == pb
			}
			other := bo.Y
			if !loadsSame(bo.X) {
				if !loadsSame(bo.Y) {
					continue
				}
				other = bo.X
			}
			if ssax.Prov(other)["field:HybridScore"] && onlyViaAny(seenTrue, b) {
				sumOK = true
			}
		}
	}
	if sumOK {
		c.Add("MERGE", "sum-on-duplicate", core.OK, w.Position(f.Pos()), "", props...)
	} else {
		c.Add("MERGE", "sum-on-duplicate", core.Violation, w.Position(f.Pos()), "when a point was already found by another sub-query its hybrid score is not added to the entry held: the contributions of the sub-queries are not summed", props...)
	}
	f = orig
	// order: every success return of merged ranked results (more than the single-query shortcut) is sorted descending
	if sortCall == nil {
		c.Add("MERGE", "order", core.Violation, w.Position(f.Pos()), "merged results are not sorted by hybrid score", props...)
		return
	}
	desc, ok := comparatorDescending(sortInner, "HybridScore")
	switch {
	case !ok:
		c.Add("MERGE", "order", core.Undecided, w.At(sortCall), "the comparator is not cmp.Compare over the two operands' HybridScore", props...)
	case !desc:
		c.Add("MERGE", "order", core.Violation, w.At(sortCall), "merged results are sorted by ascending hybrid score", props...)
	default:
		c.Add("MERGE", "order", core.OK, w.At(sortCall), "", props...)
	}
	// returns of a result list that did not pass the sort: allowed only for the single sub-query
	// shortcut (len(queries) == 1), where there is nothing to merge
	for _, b := range f.Blocks {
		ret, isRet := b.Instrs[len(b.Instrs)-1].(*ssa.Return)
		if !isRet || b == f.Recover || len(ret.Results) < 3 {
			continue
		}
		if nonNilError(ssax.ReturnOperand(ret, 2), b) {
			continue
		}
		if ssax.IsNilConst(ssax.ReturnOperand(ret, 1)) {
			continue
		}
		if ssax.Precedes(sortCall, ret) {
			continue
		}
		// the shortcut: behind len(queries) == 1
		single := false
		for _, bb := range f.Blocks {
			ifi, ok := bb.Instrs[len(bb.Instrs)-1].(*ssa.If)
			if !ok {
				continue
			}
			bo, ok := ifi.Cond.(*ssa.BinOp)
			if !ok || bo.Op != token.EQL {
				continue
			}
			if one, isC := ssax.ConstInt(bo.Y); isC && one == 1 {
				if lc, ok := bo.X.(*ssa.Call); ok {
					if bi, ok := lc.Call.Value.(*ssa.Builtin); ok && bi.Name() == "len" {
						if _, isParam := peelToParam(lc.Call.Args[0]).(*ssa.Parameter); isParam && ssax.OnlyViaEdge(bb, 0, b) {
							single = true
						}
					}
				}
			}
		}
		key := "order:unsorted-return"
		if single {
			c.Add("MERGE", key, core.OK, w.At(ret), "single sub-query shortcut", props...)
		} else {
			c.Add("MERGE", key, core.Violation, w.At(ret), "merged ranked results are returned on a path that skips the sort by hybrid score (and the de-duplication): their order is whatever the sub-query produced", props...)
		}
	}
}

func mergePaging(w *load.World, c *core.Collector, props []string) {
	f := findFn(w, "(*shard.Shard).SearchPoints")
	if f == nil {
		c.Add("MERGE", "anchor:SearchPoints", core.Undecided, "", "Shard.SearchPoints not found", props...)
		return
	}
	// the slice whose result is returned (in SearchPoints or in a helper that cuts the page)
	hasPage := func(g *ssa.Function) bool {
		for _, b := range g.Blocks {
			for _, in := range b.Instrs {
				if sl, ok := in.(*ssa.Slice); ok && isSearchResultSlice(sl.Type()) && sl.High != nil && sl.Low != nil {
					return true
				}
			}
		}
		return false
	}
	f = homeOf(f, hasPage)
	var page *ssa.Slice
	for _, b := range f.Blocks {
		for _, in := range b.Instrs {
			if sl, ok := in.(*ssa.Slice); ok && isSearchResultSlice(sl.Type()) && sl.High != nil && sl.Low != nil {
				page = sl
			}
		}
	}
	if page == nil {
		c.Add("MERGE", "paging", core.Violation, w.Position(f.Pos()), "the results are not cut to [offset, offset+limit)", props...)
		return
	}
	isLenRes := func(x ssa.Value) bool {
		lc, ok := x.(*ssa.Call)
		if !ok {
			return false
		}
		lb, ok := lc.Call.Value.(*ssa.Builtin)
		return ok && lb.Name() == "len" && isSearchResultSlice(lc.Call.Args[0].Type())
	}
	hasLabelMain := func(v ssa.Value, l string) bool { return ssax.Prov(v)[l] || deepHas(w, v, l) }
	probs := pageBounds(f, page.Low, page.High, isLenRes, hasLabelMain)
	// the bounds may be computed by a helper that is handed the offset, the limit and the number of
	// results: the same requirements, read inside the helper in terms of its parameters
	if len(probs) > 0 {
		lx, ok1 := page.Low.(*ssa.Extract)
		hx, ok2 := page.High.(*ssa.Extract)
		if ok1 && ok2 && lx.Tuple == hx.Tuple {
			if hc, ok := lx.Tuple.(*ssa.Call); ok {
				if h := hc.Call.StaticCallee(); h != nil && ssax.InModule(h) && len(h.Blocks) > 0 {
					argOf := func(v ssa.Value) ssa.Value {
						if prm, ok := v.(*ssa.Parameter); ok {
							for i, q := range h.Params {
								if q == prm && i < len(hc.Call.Args) {
									return hc.Call.Args[i]
								}
							}
						}
						return nil
					}
					isLenH := func(v ssa.Value) bool {
						a := argOf(v)
						return a != nil && isLenRes(a)
					}
					hasLabelH := func(v ssa.Value, l string) bool {
						for k := range ssax.Prov(v) {
							if !strings.HasPrefix(k, "param:") {
								continue
							}
							for i, q := range h.Params {
								if "param:"+q.Name() == k && i < len(hc.Call.Args) && hasLabelMain(hc.Call.Args[i], l) {
									return true
								}
							}
						}
						return false
					}
					var rets []*ssa.Return
					for _, hb := range h.Blocks {
						if r, ok := hb.Instrs[len(hb.Instrs)-1].(*ssa.Return); ok {
							rets = append(rets, r)
						}
					}
					if len(rets) == 1 && lx.Index < len(rets[0].Results) && hx.Index < len(rets[0].Results) {
						probs = pageBounds(h, ssax.ReturnOperand(rets[0], lx.Index), ssax.ReturnOperand(rets[0], hx.Index), isLenH, hasLabelH)
					}
				}
			}
		}
	}
	// the page cut also carries the crash clause of C18 (an unbounded offset must not overflow)
	props = append(append([]string{}, props...), "C18")
	if len(probs) > 0 {
		c.Add("MERGE", "paging", core.Violation, w.At(page), strings.Join(probs, "; "), props...)
	} else {
		c.Add("MERGE", "paging", core.OK, w.At(page), "", props...)
	}
	// every successful return of a non-empty result list in that function hands back the page: the
	// uncut list can only take a way on which nothing but the offset and the limit were tested
	var offLim []ssax.Edge
	for _, b := range f.Blocks {
		ifi, ok := b.Instrs[len(b.Instrs)-1].(*ssa.If)
		if !ok {
			continue
		}
		bo, _, ok := condBinOp(ifi.Cond, 0)
		if !ok {
			continue
		}
		only := func(v ssa.Value) bool {
			if _, isC := v.(*ssa.Const); isC {
				return true
			}
			o := ssax.Prov(v)
			if len(o) == 0 {
				return false
			}
			for k := range o {
				if k != "field:Offset" && k != "field:Limit" && k != "const" && !strings.HasPrefix(k, "param:") {
					return false
				}
			}
			return deepHas(w, v, "field:Offset") || deepHas(w, v, "field:Limit") || o["const"]
		}
		if only(bo.X) && only(bo.Y) {
			offLim = append(offLim, ssax.Edge{From: b, Succ: 0}, ssax.Edge{From: b, Succ: 1})
		}
	}
	bad := ""
	nRet := 0
	for _, ex := range successExits(f) {
		r, ok := ex.In.(*ssa.Return)
		if !ok || len(r.Results) == 0 || !isSearchResultSlice(r.Results[0].Type()) {
			continue
		}
		nRet++
		seen := map[*ssa.Phi]bool{}
		var walk func(v ssa.Value, pred, succ *ssa.BasicBlock)
		walk = func(v ssa.Value, pred, succ *ssa.BasicBlock) {
			switch x := v.(type) {
			case *ssa.Slice:
				if x == page {
					return
				}
				if _, isAlloc := x.X.(*ssa.Alloc); isAlloc {
					return // an array literal turned into a slice
				}
			case *ssa.Const:
				return
			case *ssa.Phi:
				if seen[x] {
					return
				}
				seen[x] = true
				for i, e := range x.Edges {
					walk(e, x.Block().Preds[i], x.Block())
				}
				return
			case *ssa.MakeSlice:
				if ln, isC := ssax.ConstInt(x.Len); isC && ln == 0 {
					return
				}
			}
			if pred != nil && edgeOnlyVia(offLim, pred, succ) {
				return
			}
			bad = w.At(r)
		}
		walk(ssax.ReturnOperand(r, 0), nil, nil)
	}
	if nRet > 0 {
		if bad != "" {
			c.Add("MERGE", "paging-on-every-return", core.Violation, bad, "a list of results can be returned here that did not go through the cut to [offset, offset+limit) (on a way that tests more than the offset and the limit): a client pages through results that overlap or skip", props...)
		} else {
			c.Add("MERGE", "paging-on-every-return", core.OK, w.At(page), "", props...)
		}
	}
}

func mergeSortKeys(w *load.World, c *core.Collector, props []string) {
	f := w.Func("/utils", "SortSearchResults")
	if f == nil || len(f.AnonFuncs) == 0 {
		c.Add("MERGE", "anchor:SortSearchResults", core.Undecided, "", "utils.SortSearchResults or its comparator not found", props...)
		return
	}
	cmpFn := f.AnonFuncs[0]
	if len(cmpFn.Params) != 2 {
		c.Add("MERGE", "anchor:sort-comparator", core.Undecided, w.Position(cmpFn.Pos()), "comparator does not take two operands", props...)
		return
	}
	pa, pb := cmpFn.Params[0], cmpFn.Params[1]
	// the per-key decision may live in a helper the comparator calls with its two operands
	hasCompare := func(g *ssa.Function) bool {
		for _, b := range g.Blocks {
			for _, in := range b.Instrs {
				if call, ok := in.(*ssa.Call); ok {
					if h := call.Call.StaticCallee(); h != nil && h.Name() == "CompareAny" {
						return true
					}
				}
			}
		}
		return false
	}
	if home := homeOf(cmpFn, hasCompare); home != cmpFn {
		var ha, hb *ssa.Parameter
		for _, b := range cmpFn.Blocks {
			for _, in := range b.Instrs {
				if ssax.StaticModuleCallee(in) != home {
					continue
				}
				for i, a := range in.(ssa.CallInstruction).Common().Args {
					if i >= len(home.Params) {
						break
					}
					switch peelToParam(a) {
					case ssa.Value(pa):
						ha = home.Params[i]
					case ssa.Value(pb):
						hb = home.Params[i]
					}
				}
			}
		}
		if ha != nil && hb != nil {
			cmpFn, pa, pb = home, ha, hb
		}
	}
	// the two "present" flags: second results of the nested-property accessor applied to a's and b's data
	var aok, bok ssa.Value
	for _, b := range cmpFn.Blocks {
		for _, in := range b.Instrs {
			ex, ok := in.(*ssa.Extract)
			if !ok || ex.Index != 1 || ex.Type().String() != "bool" {
				continue
			}
			call, ok := ex.Tuple.(*ssa.Call)
			if !ok || len(call.Call.Args) == 0 {
				continue
			}
			o := ssax.Prov(call.Call.Args[0])
			switch {
			case o["param:"+pa.Name()] && !o["param:"+pb.Name()]:
				aok = ex
			case o["param:"+pb.Name()] && !o["param:"+pa.Name()]:
				bok = ex
			}
		}
	}
	if aok == nil || bok == nil {
		c.Add("MERGE", "sort-keys:missing-last", core.Undecided, w.Position(cmpFn.Pos()), "presence flags of the two operands not found", props...)
		return
	}
	// evaluate the comparator with the presence flags (and, later, the descending flag) fixed
	predOf := map[*ssa.BasicBlock]*ssa.BasicBlock{}
	run := func(av, bv bool, desc *bool) (rets []ssa.Value, cmpCalls []*ssa.Call) {
		type frame struct {
			b     *ssa.BasicBlock
			steps int
			from  *ssa.BasicBlock
		}
		for k := range predOf {
			delete(predOf, k)
		}
		var evalB func(v ssa.Value, depth int) (bool, bool)
		evalB = func(v ssa.Value, depth int) (bool, bool) {
			if depth > 6 {
				return false, false
			}
			if b, ok := ssax.ConstBool(v); ok {
				return b, true
			}
			switch {
			case v == aok:
				return av, true
			case v == bok:
				return bv, true
			}
			switch x := v.(type) {
			case *ssa.UnOp:
				if x.Op == token.NOT {
					if b, ok := evalB(x.X, depth+1); ok {
						return !b, true
					}
				}
				if x.Op == token.MUL && desc != nil && fieldOfAddr(x.X) == "models.SortOption.Descending" {
					return *desc, true
				}
			case *ssa.Field:
				if desc != nil && ssax.StructOf(x.X.Type()).Field(x.Field).Name() == "Descending" {
					return *desc, true
				}
			}
			return false, false
		}
		seen := map[*ssa.BasicBlock]bool{}
		work := []frame{{cmpFn.Blocks[0], 0, nil}}
		for len(work) > 0 {
			fr := work[len(work)-1]
			work = work[:len(work)-1]
			if seen[fr.b] || fr.steps > 100 {
				continue
			}
			seen[fr.b] = true
			predOf[fr.b] = fr.from
			for _, in := range fr.b.Instrs {
				if call, ok := in.(*ssa.Call); ok {
					if g := call.Call.StaticCallee(); g != nil && g.Name() == "CompareAny" {
						cmpCalls = append(cmpCalls, call)
					}
				}
			}
			switch last := fr.b.Instrs[len(fr.b.Instrs)-1].(type) {
			case *ssa.Return:
				rets = append(rets, last.Results[0])
			case *ssa.Jump:
				work = append(work, frame{fr.b.Succs[0], fr.steps + 1, fr.b})
			case *ssa.If:
				if b, ok := evalB(last.Cond, 0); ok {
					if b {
						work = append(work, frame{fr.b.Succs[0], fr.steps + 1, fr.b})
					} else {
						work = append(work, frame{fr.b.Succs[1], fr.steps + 1, fr.b})
					}
				} else {
					work = append(work, frame{fr.b.Succs[0], fr.steps + 1, fr.b}, frame{fr.b.Succs[1], fr.steps + 1, fr.b})
				}
			}
		}
		return
	}
	firstConst := func(rets []ssa.Value) (int64, bool) {
		// the first return reached with the flags fixed is in the first iteration: take constants only
		for _, r := range rets {
			if v, ok := ssax.ConstInt(r); ok && v != 0 {
				return v, true
			}
		}
		return 0, false
	}
	r1, _ := run(true, false, nil)
	r2, _ := run(false, true, nil)
	v1, ok1 := firstConst(r1)
	v2, ok2 := firstConst(r2)
	switch {
	case !ok1 || !ok2:
		c.Add("MERGE", "sort-keys:missing-last", core.Violation, w.Position(cmpFn.Pos()), "the comparator does not decide the order of a point that has the sort key against one that lacks it", props...)
	case v1 < 0 && v2 > 0:
		c.Add("MERGE", "sort-keys:missing-last", core.OK, w.Position(cmpFn.Pos()), "", props...)
	default:
		c.Add("MERGE", "sort-keys:missing-last", core.Violation, w.Position(cmpFn.Pos()), "points that lack the sort key are not ordered after those that have it", props...)
	}
	// descending: with both present, the value comparison takes (b, a) iff the key is descending
	for _, d := range []bool{true, false} {
		dd := d
		_, calls := run(true, true, &dd)
		name := map[bool]string{true: "descending", false: "ascending"}[d]
		okDir := len(calls) > 0
		// an operand chosen by a swap (`first, second = bv, av`) is a phi: with the flags fixed the
		// walk took one predecessor, which selects the phi's edge
		resolve := func(v ssa.Value) ssa.Value {
			for i := 0; i < 4; i++ {
				phi, ok := v.(*ssa.Phi)
				if !ok {
					break
				}
				from := predOf[phi.Block()]
				picked := false
				for k, p := range phi.Block().Preds {
					if p == from && k < len(phi.Edges) {
						v, picked = phi.Edges[k], true
					}
				}
				if !picked {
					break
				}
			}
			return v
		}
		for _, call := range calls {
			o0, o1 := ssax.Prov(resolve(call.Call.Args[0])), ssax.Prov(resolve(call.Call.Args[1]))
			firstIsA := o0["param:"+pa.Name()] && !o0["param:"+pb.Name()] && o1["param:"+pb.Name()]
			firstIsB := o0["param:"+pb.Name()] && !o0["param:"+pa.Name()] && o1["param:"+pa.Name()]
			if d && !firstIsB || !d && !firstIsA {
				okDir = false
			}
		}
		// the direction must be decided per key: no value that outlives one loop iteration may carry it
		if okDir {
			c.Add("MERGE", "sort-keys:"+name, core.OK, w.Position(cmpFn.Pos()), "", props...)
		} else {
			c.Add("MERGE", "sort-keys:"+name, core.Violation, w.Position(cmpFn.Pos()), "for an "+name+" key the two values are not compared in the order that key asks for", props...)
		}
	}
}

// flagEdges: the edges of fn on which the boolean flag is true resp. false. The
// flag may be tested directly, negated, compared with a constant (`switch flag
// { case true: ...`), or through a local that holds its negation; inverted says
// that flag carries the negation of the property asked for.
func flagEdges(fn *ssa.Function, flag ssa.Value, inverted bool) (onTrue, onFalse []ssax.Edge) {
	var meaning func(v ssa.Value, depth int) (neg bool, ok bool)
	meaning = func(v ssa.Value, depth int) (bool, bool) {
		if depth > 4 {
			return false, false
		}
		if v == flag {
			return false, true
		}
		switch x := v.(type) {
		case *ssa.UnOp:
			if x.Op == token.NOT {
				n, ok := meaning(x.X, depth+1)
				return !n, ok
			}
			// the flag kept in a variable that a literal captures: a load of the cell it was stored into
			// once, here or in the enclosing function
			if x.Op == token.MUL {
				switch cell := x.X.(type) {
				case *ssa.Alloc:
					if sv := ssax.SingleStore(cell); sv != nil {
						return meaning(sv, depth+1)
					}
				case *ssa.FreeVar:
					if sv := ssax.CapturedSingleStore(cell); sv != nil {
						return meaning(sv, depth+1)
					}
				}
			}
		case *ssa.BinOp:
			if x.Op == token.EQL || x.Op == token.NEQ {
				for _, pr := range [][2]ssa.Value{{x.X, x.Y}, {x.Y, x.X}} {
					if cb, isC := ssax.ConstBool(pr[1]); isC {
						if n, ok := meaning(pr[0], depth+1); ok {
							// (v == true) keeps, (v == false) negates; NEQ flips
							neg := n != !cb
							if x.Op == token.NEQ {
								neg = !neg
							}
							return neg, true
						}
					}
				}
			}
		}
		return false, false
	}
	for _, b := range fn.Blocks {
		ifi, ok := b.Instrs[len(b.Instrs)-1].(*ssa.If)
		if !ok {
			continue
		}
		neg, ok := meaning(ifi.Cond, 0)
		if !ok {
			continue
		}
		t, e := 0, 1
		if neg != inverted {
			t, e = 1, 0
		}
		onTrue = append(onTrue, ssax.Edge{From: b, Succ: t})
		onFalse = append(onFalse, ssax.Edge{From: b, Succ: e})
	}
	return
}

// edgeOnlyVia: the control-flow edge pred->succ is taken only after one of the given edges: it is
// one of them, or pred itself is reached only through one.
func edgeOnlyVia(edges []ssax.Edge, pred, succ *ssa.BasicBlock) bool {
	for _, e := range edges {
		if e.From == pred && e.Succ < len(pred.Succs) && pred.Succs[e.Succ] == succ {
			return true
		}
	}
	return onlyViaAny(edges, pred)
}

// phiCondEdges: for branches on a boolean phi (the lowering of "a || b" and "a && b" stored in a
// variable), the edges that are taken only when a gate holds: every incoming value of the phi
// either is the opposite constant (that path never takes the edge), satisfies leaf (the value
// being true implies the gate), or is the matching constant arriving over an edge that is itself
// taken only after one of the base edges.
func phiCondEdges(f *ssa.Function, base []ssax.Edge, leaf func(ssa.Value) bool) []ssax.Edge {
	var out []ssax.Edge
	for _, b := range f.Blocks {
		ifi, ok := b.Instrs[len(b.Instrs)-1].(*ssa.If)
		if !ok {
			continue
		}
		cond, neg := ifi.Cond, false
		if u, ok := cond.(*ssa.UnOp); ok && u.Op == token.NOT {
			cond, neg = u.X, true
		}
		phi, ok := cond.(*ssa.Phi)
		if !ok {
			continue
		}
		okAll, any := true, false
		for i, e := range phi.Edges {
			if cb, isC := ssax.ConstBool(e); isC {
				if !cb {
					continue
				}
				if !edgeOnlyVia(base, phi.Block().Preds[i], phi.Block()) {
					okAll = false
				}
				continue
			}
			if leaf(e) {
				any = true
				continue
			}
			okAll = false
		}
		if !okAll || !any {
			continue
		}
		s := 0
		if neg {
			s = 1
		}
		out = append(out, ssax.Edge{From: b, Succ: s})
	}
	return out
}

// pageBounds: the problems with results[lo:hi] as a page: both bounds clamped to the number of
// results (min(x, len) or the if-form), lo the offset, hi offset + limit. isLen recognises the
// number of results, hasLabel the request's Offset and Limit, in the function fn the bounds are
// computed in.
func pageBounds(fn *ssa.Function, low, high ssa.Value, isLen func(ssa.Value) bool, hasLabel func(ssa.Value, string) bool) []string {
	clamp := func(v ssa.Value) (inner ssa.Value, clamped bool) {
		// `if x > len(results) { x = len(results) }`: a phi of x and len chosen by that very test
		if phi, ok := v.(*ssa.Phi); ok && len(phi.Edges) == 2 {
			for i := 0; i < 2; i++ {
				if !isLen(phi.Edges[i]) {
					continue
				}
				x := phi.Edges[1-i]
				via := phi.Block().Preds[i] // the block that assigned len
				for _, tb := range fn.Blocks {
					ifi, ok := tb.Instrs[len(tb.Instrs)-1].(*ssa.If)
					if !ok {
						continue
					}
					bo, ok := ifi.Cond.(*ssa.BinOp)
					if !ok {
						continue
					}
					over := -1
					switch {
					case (bo.Op == token.GTR || bo.Op == token.GEQ) && bo.X == x && isLen(bo.Y), (bo.Op == token.LSS || bo.Op == token.LEQ) && isLen(bo.X) && bo.Y == x:
						over = 0
					case (bo.Op == token.LEQ || bo.Op == token.LSS) && bo.X == x && isLen(bo.Y), (bo.Op == token.GEQ || bo.Op == token.GTR) && isLen(bo.X) && bo.Y == x:
						over = 1
					}
					if over >= 0 && (tb.Succs[over] == via || via == tb && tb.Succs[over] == phi.Block()) {
						return x, true
					}
				}
			}
		}
		call, ok := v.(*ssa.Call)
		if !ok {
			return v, false
		}
		bi, ok := call.Call.Value.(*ssa.Builtin)
		if !ok || bi.Name() != "min" || len(call.Call.Args) != 2 {
			return v, false
		}
		switch {
		case isLen(call.Call.Args[1]):
			return call.Call.Args[0], true
		case isLen(call.Call.Args[0]):
			return call.Call.Args[1], true
		}
		return v, false
	}
	lo, loC := clamp(low)
	hi, hiC := clamp(high)
	var probs []string
	if _, arith := lo.(*ssa.BinOp); arith || !hasLabel(lo, "field:Offset") || hasLabel(lo, "field:Limit") {
		probs = append(probs, "the page does not start at the requested offset")
	}
	// the offset as it may enter a sum: clamped to the number of results first (the page's own
	// lower bound, or another min(offset, len)). The request's offset has no upper bound: added to
	// the limit unclamped, an offset near the largest integer wraps to a negative sum, which passes
	// min(…, len) and panics in the slice expression.
	clampedOffset := func(v ssa.Value) bool {
		if v == low && loC {
			return true
		}
		in, c := clamp(v)
		_, arith := in.(*ssa.BinOp)
		return c && !arith && hasLabel(in, "field:Offset") && !hasLabel(in, "field:Limit")
	}
	plainLimit := func(v ssa.Value) bool {
		_, arith := v.(*ssa.BinOp)
		return !arith && v != low && hasLabel(v, "field:Limit")
	}
	rawOffset := func(v ssa.Value) bool {
		_, arith := v.(*ssa.BinOp)
		_, c := clamp(v)
		return !arith && !c && v != low && hasLabel(v, "field:Offset") && !hasLabel(v, "field:Limit")
	}
	okHi, overflow := false, false
	sum := func(v ssa.Value) (x, y ssa.Value, ok bool) {
		bo, isBo := v.(*ssa.BinOp)
		if !isBo || bo.Op != token.ADD {
			return nil, nil, false
		}
		return bo.X, bo.Y, true
	}
	if x, y, ok := sum(hi); ok && hiC {
		// min(start + limit, len)
		for _, pr := range [][2]ssa.Value{{x, y}, {y, x}} {
			switch {
			case clampedOffset(pr[0]) && plainLimit(pr[1]):
				okHi = true
			case rawOffset(pr[0]) && plainLimit(pr[1]):
				overflow = true
			}
		}
	} else if x, y, ok := sum(high); ok {
		// start + min(limit, len - start): never beyond len, no clamp needed
		for _, pr := range [][2]ssa.Value{{x, y}, {y, x}} {
			if !clampedOffset(pr[0]) {
				continue
			}
			call, isCall := pr[1].(*ssa.Call)
			if !isCall {
				continue
			}
			if bi, isBi := call.Call.Value.(*ssa.Builtin); !isBi || bi.Name() != "min" || len(call.Call.Args) != 2 {
				continue
			}
			for _, ar := range [][2]ssa.Value{{call.Call.Args[0], call.Call.Args[1]}, {call.Call.Args[1], call.Call.Args[0]}} {
				rest, isSub := ar[1].(*ssa.BinOp)
				if plainLimit(ar[0]) && isSub && rest.Op == token.SUB && isLen(rest.X) && rest.Y == pr[0] {
					okHi, hiC = true, true
				}
			}
		}
	}
	if os.Getenv("SEMA_DEBUG") != "" {
		fmt.Fprintf(os.Stderr, "pageBounds %s low=%v high=%v lo=%v loC=%v hi=%v hiC=%v okHi=%v\n", fn, low, high, lo, loC, hi, hiC, okHi)
		if x, y, ok := sum(hi); ok {
			fmt.Fprintf(os.Stderr, "  x=%v y=%v clampedOffset(x)=%v plainLimit(y)=%v clampedOffset(y)=%v plainLimit(x)=%v Lim(y)=%v Off(y)=%v\n", x, y, clampedOffset(x), plainLimit(y), clampedOffset(y), plainLimit(x), hasLabel(y, "field:Limit"), hasLabel(y, "field:Offset"))
		}
	}
	if !loC || !hiC {
		probs = append(probs, "a bound of the page is not clamped to the number of results (min(…, len)): an offset beyond the results panics")
	}
	switch {
	case overflow:
		probs = append(probs, "offset + limit is computed from the unclamped offset: the request's offset has no upper bound, for one near the largest integer the sum wraps to a negative number, passes the clamp and the slice expression panics (on a goroutine without recovery)")
	case !okHi:
		probs = append(probs, "the page does not end at offset + limit")
	}
	return probs
}
