package rules

import (
	"fmt"
	"strings"

	"golang.org/x/tools/go/ssa"

	"semaverif/internal/core"
	"semaverif/internal/load"
	"semaverif/internal/ssax"
)

// ------------------------------------------------------------------- SORTED
//
// A binary search answers correctly only on a slice that is sorted as a whole.
// The failed-point bookkeeping of the multi-shard fan-out (C17) decides "was
// this id processed by some shard" by binary search over the concatenation of
// the per-shard answers. For every binary-search call in package cluster the
// searched slice must have been sorted, as that very slice value, on every path
// to the search: a dominating slices.Sort*/sort.* call on the same SSA value
// (an append yields a new value, so sorting the pieces before concatenating
// them does not count). For a parameter, every call site is checked instead.

func isSortCall(in ssa.Instruction) (ssa.Value, bool) {
	call, ok := in.(*ssa.Call)
	if !ok {
		return nil, false
	}
	g := call.Call.StaticCallee()
	if g == nil || len(call.Call.Args) == 0 {
		return nil, false
	}
	n := g.String()
	for _, p := range []string{"slices.Sort", "slices.SortFunc", "slices.SortStableFunc", "sort.Slice", "sort.SliceStable", "sort.Strings", "sort.Ints", "sort.Sort", "sort.Stable"} {
		if n == p || strings.HasPrefix(n, p+"[") {
			return call.Call.Args[0], true
		}
	}
	return nil, false
}

func isBinarySearch(in ssa.Instruction) (ssa.Value, bool) {
	call, ok := in.(*ssa.Call)
	if !ok {
		return nil, false
	}
	g := call.Call.StaticCallee()
	if g == nil || len(call.Call.Args) == 0 {
		return nil, false
	}
	n := g.String()
	for _, p := range []string{"slices.BinarySearch", "slices.BinarySearchFunc", "sort.SearchStrings", "sort.SearchInts"} {
		if n == p || strings.HasPrefix(n, p+"[") {
			return call.Call.Args[0], true
		}
	}
	return nil, false
}

func peelIface(v ssa.Value) ssa.Value {
	for {
		switch x := v.(type) {
		case *ssa.MakeInterface:
			v = x.X
		case *ssa.ChangeType:
			v = x.X
		case *ssa.ChangeInterface:
			v = x.X
		default:
			return v
		}
	}
}

// sortedAt: slice value v is sorted as a whole whenever instruction at runs.
func sortedAt(w *load.World, v ssa.Value, at ssa.Instruction, depth int) (bool, string) {
	v = peelIface(v)
	f := at.Parent()
	for _, b := range f.Blocks {
		for _, in := range b.Instrs {
			if s, ok := isSortCall(in); ok && peelIface(s) == v && ssax.Precedes(in, at) {
				return true, ""
			}
		}
	}
	if p, ok := v.(*ssa.Parameter); ok && depth < 2 {
		pi := -1
		for i, q := range f.Params {
			if q == p {
				pi = i
			}
		}
		sites := 0
		for _, g := range w.Fns {
			for _, b := range g.Blocks {
				for _, in := range b.Instrs {
					call, ok := in.(*ssa.Call)
					if !ok || call.Call.StaticCallee() != f || pi >= len(call.Call.Args) {
						continue
					}
					sites++
					if ok2, why := sortedAt(w, call.Call.Args[pi], call, depth+1); !ok2 {
						return false, "call site " + w.At(in) + ": " + why
					}
				}
			}
		}
		if sites > 0 {
			return true, ""
		}
		return false, "the slice is a parameter and no call site was found"
	}
	return false, fmt.Sprintf("no sort of this very slice value dominates the search (the value is %s)", describeValue(v))
}

func describeValue(v ssa.Value) string {
	switch x := v.(type) {
	case *ssa.Call:
		if b, ok := x.Call.Value.(*ssa.Builtin); ok {
			return "the result of " + b.Name()
		}
		return "the result of " + ssax.CalleeName(x.Common())
	case *ssa.UnOp:
		p, _ := ssax.Path(x)
		return "loaded from " + p
	case *ssa.Parameter:
		return "parameter " + x.Name()
	}
	return v.Name()
}

func Sorted(w *load.World, c *core.Collector) {
	props := []string{"C17"}
	n := 0
	for _, f := range clusterFns(w) {
		for _, b := range f.Blocks {
			for _, in := range b.Instrs {
				s, ok := isBinarySearch(in)
				if !ok {
					continue
				}
				n++
				key := "binary-search:" + load.FnKey(f)
				if ok2, why := sortedAt(w, s, in, 0); ok2 {
					c.Add("SORTED", key, core.OK, w.At(in), "", props...)
				} else {
					c.Add("SORTED", key, core.Violation, w.At(in), "binary search over a slice that is not sorted as a whole on every path: "+why+" — ids that a shard did process would be reported as failed", props...)
				}
			}
		}
	}
	c.Count("binary_searches_in_cluster", n)
	if n == 0 {
		// membership by map or linear scan needs no order: nothing to require
		c.Add("SORTED", "no-binary-search", core.OK, "", "no binary search in the cluster package", props...)
	}
	// the fan-out bookkeeping may also be rewritten with a map or a linear scan, which needs no order:
	// the rule only fires when a binary search is present.
}
