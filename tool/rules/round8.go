package rules

import (
	"fmt"
	"go/token"
	"go/types"
	"sort"
	"strings"

	"golang.org/x/tools/go/ssa"

	"semaverif/internal/core"
	"semaverif/internal/load"
	"semaverif/internal/ssax"
)

// Clauses added after the eighth blind round.

var _ = fmt.Sprintf
var _ = sort.Strings
var _ types.Type

// scanFns: the implementations of a scan method of the storage buckets.
func scanFns(w *load.World, name string) []*ssa.Function {
	var out []*ssa.Function
	for _, f := range w.Fns {
		if load.PkgPath(f) == load.Mod+"/diskstore" && f.Name() == name && f.Signature.Recv() != nil && f.Synthetic == "" && len(f.Blocks) > 0 {
			out = append(out, f)
		}
	}
	sort.Slice(out, func(i, j int) bool { return load.FnKey(out[i]) < load.FnKey(out[j]) })
	return out
}

// prefixScanGated: every key a PrefixScan hands to its callback was found to carry the prefix: the
// call of the callback lies behind the true edge of a prefix test (bytes.HasPrefix, or an equality
// of the key's head with the prefix). A scan that tests only the keys after the first (do-while)
// hands out the key Seek landed on — the next tenant's record when the asking one has none.
func prefixScanGated(w *load.World, c *core.Collector) {
	props := []string{"C16", "C08", "C02"}
	fns := scanFns(w, "PrefixScan")
	if len(fns) < 2 {
		c.Add("SCAN", "anchor:prefix-scans", core.Undecided, "", fmt.Sprintf("found %d PrefixScan implementations in diskstore, expected 2", len(fns)), props...)
		return
	}
	for _, f := range fns {
		if len(f.Params) < 3 {
			continue
		}
		prefix, cb := f.Params[1], f.Params[2]
		isPrefixTest := func(v ssa.Value) bool {
			switch x := v.(type) {
			case *ssa.Call:
				n := staticName(x)
				if (n == "bytes.HasPrefix" || n == "strings.HasPrefix") && len(x.Call.Args) == 2 {
					return ssax.Prov(x.Call.Args[1])["param:"+prefix.Name()]
				}
			case *ssa.BinOp:
				if x.Op == token.EQL {
					_, lx := x.X.Type().Underlying().(*types.Basic)
					if lx && (ssax.Prov(x.X)["param:"+prefix.Name()] || ssax.Prov(x.Y)["param:"+prefix.Name()]) {
						if b, ok := x.X.Type().Underlying().(*types.Basic); ok && b.Info()&types.IsString != 0 {
							return true
						}
					}
				}
			}
			return false
		}
		n, bad := 0, ""
		for _, b := range f.Blocks {
			for _, in := range b.Instrs {
				call, ok := in.(*ssa.Call)
				if !ok || call.Call.Value != ssa.Value(cb) {
					continue
				}
				n++
				gated := false
				for _, tb := range f.Blocks {
					ifi, ok := tb.Instrs[len(tb.Instrs)-1].(*ssa.If)
					if !ok {
						continue
					}
					cond, edge := ifi.Cond, 0
					if un, ok := cond.(*ssa.UnOp); ok && un.Op == token.NOT {
						cond, edge = un.X, 1
					}
					if isPrefixTest(cond) && ssax.OnlyViaEdge(tb, edge, b) {
						gated = true
					}
				}
				if !gated {
					bad = w.At(in)
				}
			}
		}
		key := "prefix-scan-gated:" + load.FnKey(f)
		switch {
		case n == 0:
			c.Add("SCAN", key, core.OK, w.Position(f.Pos()), "hands out no key", props...)
		case bad != "":
			c.Add("SCAN", key, core.Violation, bad, "the callback can be handed a key that was not tested for the prefix (the key the cursor landed on): a scan for a prefix nothing carries yields the next key of the bucket — another user's collection record", props...)
		default:
			c.Add("SCAN", key, core.OK, w.Position(f.Pos()), "", props...)
		}
	}
}

// rangeBoundsByNil: "no bound" is the nil slice. The key of the empty string is an empty, non-nil
// slice and a legal bound: a RangeScan that tests len(bound) == 0 reads it as no bound at all.
func rangeBoundsByNil(w *load.World, c *core.Collector) {
	props := []string{"C19", "C02", "C08"}
	fns := scanFns(w, "RangeScan")
	if len(fns) < 2 {
		c.Add("SCAN", "anchor:range-scans", core.Undecided, "", fmt.Sprintf("found %d RangeScan implementations in diskstore, expected 2", len(fns)), props...)
		return
	}
	for _, f := range fns {
		if len(f.Params) < 3 {
			continue
		}
		bounds := map[ssa.Value]bool{f.Params[1]: true, f.Params[2]: true}
		bad := ""
		for _, g := range append([]*ssa.Function{f}, f.AnonFuncs...) {
			for _, b := range g.Blocks {
				for _, in := range b.Instrs {
					bo, ok := in.(*ssa.BinOp)
					if !ok {
						continue
					}
					for _, pr := range [][2]ssa.Value{{bo.X, bo.Y}, {bo.Y, bo.X}} {
						lc, ok := pr[0].(*ssa.Call)
						if !ok {
							continue
						}
						bi, ok := lc.Call.Value.(*ssa.Builtin)
						if !ok || bi.Name() != "len" {
							continue
						}
						arg := lc.Call.Args[0]
						if fv, ok := arg.(*ssa.FreeVar); ok && g != f {
							_ = fv
						}
						if !bounds[arg] {
							continue
						}
						if k, ok := pr[1].(*ssa.Const); ok && k.Value != nil && k.Int64() == 0 {
							bad = w.At(in)
						}
					}
				}
			}
		}
		key := "bounds-by-nil:" + load.FnKey(f)
		if bad != "" {
			c.Add("SCAN", key, core.Violation, bad, "a bound of the range scan is tested by its length: the key of the empty string is empty but not nil and is a legal bound; read as no bound, a query for values below \"\" returns every point", props...)
		} else {
			c.Add("SCAN", key, core.OK, w.Position(f.Pos()), "", props...)
		}
	}
}

// WalkSkip: a directory walk that returns SkipDir/SkipAll leaves whole subtrees unvisited. The
// first levels under the data root are user and collection ids, arbitrary strings: skipping by
// name (dot directories) skips a tenant's shards at the start-up sync.
func WalkSkip(w *load.World, c *core.Collector) {
	per := map[string][]lintHit{}
	seen := map[string]bool{}
	for _, f := range w.Fns {
		if !load.InMod(f) || f.Synthetic != "" {
			continue
		}
		pkg := load.PkgPath(f)
		seen[pkg] = true
		for _, b := range f.Blocks {
			for _, in := range b.Instrs {
				ld, ok := in.(*ssa.UnOp)
				if !ok || ld.Op != token.MUL {
					continue
				}
				g, ok := ld.X.(*ssa.Global)
				if !ok || g.Pkg == nil {
					continue
				}
				if (g.Name() == "SkipDir" || g.Name() == "SkipAll") && (g.Pkg.Pkg.Path() == "io/fs" || g.Pkg.Pkg.Path() == "path/filepath") {
					per[pkg] = append(per[pkg], lintHit{w.At(in), "a directory walk skips a subtree (" + g.Name() + "): directory names under the data root are user and collection ids, whatever is skipped by name is never found, moved or removed"})
				}
			}
		}
	}
	emitLint(c, "WALKSKIP", "walk-skips-subtree", seen, per, func(p string) []string {
		if strings.HasSuffix(p, "/cluster") {
			return []string{"C14"}
		}
		return nil
	})
}

// decoderKeepsId: a ReadFrom(id, bucket) of a cached item whose type has an id field stores the id
// it was asked for into what it returns. An item decoded without it has id 0: every guard that
// compares ids (no edge to oneself, filter membership) silently stops working for items that came
// from disk, while items created in the process are fine.
func decoderKeepsId(w *load.World, c *core.Collector) {
	props := []string{"C10", "C08", "C03"}
	n := 0
	for _, f := range w.Fns {
		if !load.InMod(f) || f.Name() != "ReadFrom" || f.Signature.Recv() == nil || f.Synthetic != "" || len(f.Params) < 2 || len(f.Blocks) == 0 {
			continue
		}
		id := f.Params[1]
		// the result type and its id field
		res := f.Signature.Results()
		if res.Len() == 0 {
			continue
		}
		st := ssax.StructOf(res.At(0).Type())
		if st == nil {
			continue
		}
		idField := -1
		for i := 0; i < st.NumFields(); i++ {
			nm := strings.ToLower(st.Field(i).Name())
			if (nm == "id" || nm == "nodeid") && types.Identical(st.Field(i).Type(), id.Type()) {
				idField = i
			}
		}
		if idField < 0 {
			continue
		}
		n++
		stored := false
		for _, b := range f.Blocks {
			for _, in := range b.Instrs {
				s, ok := in.(*ssa.Store)
				if !ok {
					continue
				}
				fa, ok := s.Addr.(*ssa.FieldAddr)
				if !ok || fa.Field != idField || ssax.StructOf(fa.X.Type()) != st {
					continue
				}
				v := s.Val
				for i := 0; i < 3; i++ {
					if ct, ok := v.(*ssa.ChangeType); ok {
						v = ct.X
					}
				}
				if v == ssa.Value(id) {
					stored = true
				}
			}
		}
		key := "decoder-keeps-id:" + load.FnKey(f)
		if stored {
			c.Add("LAYOUT", key, core.OK, w.Position(f.Pos()), "", props...)
		} else {
			c.Add("LAYOUT", key, core.Violation, w.Position(f.Pos()), "the item read from the bucket is returned without the id it was asked for in its "+st.Field(idField).Name()+" field: items that come from disk have id 0 and every comparison of ids (the self-edge guards of pruning, membership in a filter) goes wrong for them", props...)
		}
	}
	if n == 0 {
		c.Add("LAYOUT", "anchor:decoder-keeps-id", core.Undecided, "", "no ReadFrom of an item type with an id field found", props...)
	}
}

// DivGuard: an integer division or remainder by the length of a collection lies behind a test of
// that length (an edge on which it is not zero). A collection has no shards until it received
// points; a modulo by that count on a goroutine without recovery ends the process.
func DivGuard(w *load.World, c *core.Collector) {
	per := map[string][]lintHit{}
	seen := map[string]bool{}
	lenOf := func(v ssa.Value) ssa.Value {
		for i := 0; i < 3; i++ {
			switch x := v.(type) {
			case *ssa.Convert:
				v = x.X
				continue
			case *ssa.ChangeType:
				v = x.X
				continue
			}
			break
		}
		lc, ok := v.(*ssa.Call)
		if !ok {
			return nil
		}
		bi, ok := lc.Call.Value.(*ssa.Builtin)
		if !ok || bi.Name() != "len" {
			return nil
		}
		return lc.Call.Args[0]
	}
	same := func(a, b ssa.Value) bool {
		if a == b {
			return true
		}
		pa, _ := ssax.Path(a)
		pb, _ := ssax.Path(b)
		return pa != "" && pa == pb
	}
	for _, f := range w.Fns {
		if !load.InMod(f) || f.Synthetic != "" {
			continue
		}
		pkg := load.PkgPath(f)
		if !strings.HasPrefix(pkg, load.Mod+"/cluster") && !strings.HasPrefix(pkg, load.Mod+"/shard") && !strings.HasPrefix(pkg, load.Mod+"/httpapi") && !strings.HasPrefix(pkg, load.Mod+"/models") {
			continue
		}
		seen[pkg] = true
		for _, b := range f.Blocks {
			for _, in := range b.Instrs {
				bo, ok := in.(*ssa.BinOp)
				if !ok || (bo.Op != token.REM && bo.Op != token.QUO) {
					continue
				}
				if bt, ok := bo.Type().Underlying().(*types.Basic); !ok || bt.Info()&types.IsInteger == 0 {
					continue
				}
				coll := lenOf(bo.Y)
				if coll == nil {
					continue
				}
				if _, isArr := coll.Type().Underlying().(*types.Array); isArr {
					continue
				}
				guarded := false
				for _, tb := range f.Blocks {
					ifi, ok := tb.Instrs[len(tb.Instrs)-1].(*ssa.If)
					if !ok {
						continue
					}
					// conjunctions are chains of blocks: each conjunct is an If of its own
					cb, neg, ok := condBinOp(ifi.Cond, 0)
					if !ok {
						continue
					}
					for _, pr := range [][2]ssa.Value{{cb.X, cb.Y}, {cb.Y, cb.X}} {
						cc := lenOf(pr[0])
						if cc == nil || !same(cc, coll) {
							continue
						}
						k, isK := pr[1].(*ssa.Const)
						if !isK || k.Value == nil {
							continue
						}
						kv := k.Int64()
						op := cb.Op
						if pr[0] == cb.Y { // const OP len  ->  len OP' const
							switch op {
							case token.LSS:
								op = token.GTR
							case token.LEQ:
								op = token.GEQ
							case token.GTR:
								op = token.LSS
							case token.GEQ:
								op = token.LEQ
							}
						}
						// the edge on which len != 0 is known
						edge := -1
						switch {
						case op == token.GTR && kv >= 0, op == token.GEQ && kv >= 1, op == token.NEQ && kv == 0:
							edge = 0
						case op == token.EQL && kv == 0, op == token.LSS && kv <= 1 && kv >= 0, op == token.LEQ && kv == 0:
							edge = 1
						}
						if edge < 0 {
							continue
						}
						if neg {
							edge = 1 - edge
						}
						if ssax.OnlyViaEdge(tb, edge, b) {
							guarded = true
						}
					}
				}
				// inside a loop over that very collection the length is not zero
				if !guarded {
					for _, tb := range f.Blocks {
						for _, ti := range tb.Instrs {
							if rg, ok := ti.(*ssa.Range); ok && same(rg.X, coll) && tb.Dominates(b) && tb != b {
								guarded = true
							}
						}
					}
				}
				if !guarded {
					per[pkg] = append(per[pkg], lintHit{w.At(in), "integer division or remainder by the length of a collection without a test that it is not empty on the way: with no element (a collection that has no shards yet) this is a division by zero"})
				}
			}
		}
	}
	emitLint(c, "DIVGUARD", "division-by-length-guarded", seen, per, func(p string) []string {
		return []string{"C18"}
	})
}

// corpusSize: the number of documents of a text index is a statistic: it enters the idf formula
// and is counted up and down, nothing is decided by comparing with it (a term "that every document
// has" still contributes — its idf is negative, not zero); and it is counted up only for a
// document that has tokens (behind the edge on which the analysed length is not zero), because only
// such a document gets a record.
func corpusSize(w *load.World, c *core.Collector) {
	props := []string{"C05"}
	isNumDocs := func(v ssa.Value) bool {
		for i := 0; i < 4; i++ {
			switch x := v.(type) {
			case *ssa.Convert:
				v = x.X
				continue
			case *ssa.ChangeType:
				v = x.X
				continue
			}
			break
		}
		ld, ok := v.(*ssa.UnOp)
		if !ok || ld.Op != token.MUL {
			return false
		}
		fa, ok := ld.X.(*ssa.FieldAddr)
		return ok && strings.HasSuffix(fieldOf(fa), ".numDocs")
	}
	nCmp, nInc := 0, 0
	badCmp, badInc := "", ""
	for _, f := range w.Fns {
		if load.PkgPath(f) != load.Mod+"/shard/index/text" || f.Synthetic != "" {
			continue
		}
		for _, b := range f.Blocks {
			for _, in := range b.Instrs {
				bo, ok := in.(*ssa.BinOp)
				if !ok {
					continue
				}
				switch bo.Op {
				case token.EQL, token.NEQ, token.LSS, token.LEQ, token.GTR, token.GEQ:
					if isNumDocs(bo.X) || isNumDocs(bo.Y) {
						nCmp++
						badCmp = w.At(in)
					}
				case token.ADD:
					_, isK := bo.Y.(*ssa.Const)
					if !isNumDocs(bo.X) || !isK {
						continue
					}
					nInc++
					gated := false
					for _, tb := range f.Blocks {
						ifi, ok := tb.Instrs[len(tb.Instrs)-1].(*ssa.If)
						if !ok {
							continue
						}
						cb, neg, ok := condBinOp(ifi.Cond, 0)
						if !ok {
							continue
						}
						var other ssa.Value
						switch {
						case ssax.Prov(cb.X)["field:Length"]:
							other = cb.Y
						case ssax.Prov(cb.Y)["field:Length"]:
							other = cb.X
						default:
							continue
						}
						z, isZ := other.(*ssa.Const)
						if !isZ || z.Value == nil || z.Int64() != 0 {
							continue
						}
						edge := -1
						switch cb.Op {
						case token.GTR, token.NEQ, token.LSS: // len > 0, len != 0, 0 < len
							edge = 0
						case token.EQL, token.LEQ, token.GEQ: // len == 0, len <= 0, 0 >= len
							edge = 1
						}
						if edge < 0 {
							continue
						}
						if neg {
							edge = 1 - edge
						}
						if ssax.OnlyViaEdge(tb, edge, b) {
							gated = true
						}
					}
					if !gated {
						badInc = w.At(in)
					}
				}
			}
		}
	}
	if badCmp != "" {
		c.Add("RANK", "text:corpus-size-not-a-gate", core.Violation, badCmp, "something is decided by comparing with the number of documents: the corpus size is a statistic of the idf formula; a term that occurs in every document has a negative idf (log of N/(N+1)), not none, and skipping it changes scores and order", props...)
	} else {
		c.Add("RANK", "text:corpus-size-not-a-gate", core.OK, "", "", props...)
	}
	switch {
	case nInc == 0:
		c.Add("RANK", "text:count-follows-record", core.Undecided, "", "no increment of the text index's document count found", props...)
	case badInc != "":
		c.Add("RANK", "text:count-follows-record", core.Violation, badInc, "the number of documents is counted up on a way that has not tested that the analysed document has tokens: a document without tokens gets no record, is counted all the same and inflates the corpus size of every idf from then on", props...)
	default:
		c.Add("RANK", "text:count-follows-record", core.OK, "", "", props...)
	}
}

// finalOrderByRequestOnly: Shard.SearchPoints orders its final list (ranked results first, then
// the filter-only points) by the sort keys of the request and by nothing else: a sort by score
// there puts filter-only points (score 0) before ranked ones (minus weight times distance).
func finalOrderByRequestOnly(w *load.World, c *core.Collector) {
	props := []string{"C06"}
	f := findFn(w, "(*shard.Shard).SearchPoints")
	if f == nil {
		return // MERGE reports the missing anchor
	}
	bad := ""
	var walk func(g *ssa.Function, depth int)
	seen := map[*ssa.Function]bool{}
	walk = func(g *ssa.Function, depth int) {
		if g == nil || seen[g] || depth > 2 || len(g.Blocks) == 0 {
			return
		}
		seen[g] = true
		for _, a := range g.AnonFuncs {
			walk(a, depth)
		}
		for _, b := range g.Blocks {
			for _, in := range b.Instrs {
				call, ok := in.(*ssa.Call)
				if !ok {
					continue
				}
				h := call.Call.StaticCallee()
				if h == nil {
					continue
				}
				hp := ""
				if h.Pkg != nil {
					hp = h.Pkg.Pkg.Path()
				} else if o := h.Origin(); o != nil && o.Pkg != nil {
					hp = o.Pkg.Pkg.Path()
				}
				if (hp == "slices" || hp == "sort") && strings.Contains(h.Name(), "Sort") || hp == "sort" && (h.Name() == "Slice" || h.Name() == "SliceStable" || h.Name() == "Stable") {
					if len(call.Call.Args) > 0 && isSearchResultSlice(call.Call.Args[0].Type()) {
						bad = w.At(in)
					}
					continue
				}
				if load.PkgPath(h) == load.Mod+"/shard" {
					walk(h, depth+1)
				}
			}
		}
	}
	walk(f, 0)
	if bad != "" {
		c.Add("MERGE", "final-order-by-request-only", core.Violation, bad, "the shard's final result list is sorted by something other than the request's sort keys: the list is ranked results followed by filter-only points, and a sort by score moves the filter-only points (score 0) in front of ranked ones (negative scores)", props...)
	} else {
		c.Add("MERGE", "final-order-by-request-only", core.OK, w.Position(f.Pos()), "", props...)
	}
}

// QueryReadOnly: the executor does not rewrite the query it was given. A store into an option
// block of a query (operator, value, the sub-query lists) outside the models package changes what
// is asked: notEquals turned into equals for a set difference also matches points without the field.
func QueryReadOnly(w *load.World, c *core.Collector) {
	per := map[string][]lintHit{}
	seen := map[string]bool{}
	isQueryType := func(t types.Type) bool {
		for {
			if p, ok := t.Underlying().(*types.Pointer); ok {
				t = p.Elem()
				continue
			}
			break
		}
		nt, ok := t.(*types.Named)
		if !ok || nt.Obj().Pkg() == nil || nt.Obj().Pkg().Path() != load.Mod+"/models" {
			return false
		}
		n := nt.Obj().Name()
		return n == "Query" || (strings.HasPrefix(n, "Search") && strings.HasSuffix(n, "Options"))
	}
	for _, f := range w.Fns {
		if !load.InMod(f) || f.Synthetic != "" {
			continue
		}
		pkg := load.PkgPath(f)
		if !strings.HasPrefix(pkg, load.Mod+"/shard") {
			continue
		}
		seen[pkg] = true
		for _, b := range f.Blocks {
			for _, in := range b.Instrs {
				s, ok := in.(*ssa.Store)
				if !ok {
					continue
				}
				fa, ok := s.Addr.(*ssa.FieldAddr)
				if !ok || !isQueryType(fa.X.Type()) {
					continue
				}
				// a block the function builds itself (a literal it fills in) is its own
				if _, fresh := ssax.Path(fa.X); fresh {
					continue
				}
				st := ssax.StructOf(fa.X.Type())
				per[pkg] = append(per[pkg], lintHit{w.At(in), "the executor assigns to the field " + st.Field(fa.Field).Name() + " of a query it was given: the query that is answered is no longer the one that was asked"})
			}
		}
	}
	emitLint(c, "QUERYRO", "query-rewritten", seen, per, nil)
}

// combinatorOnlyAndOr: the executor of _and/_or combines the sub-queries' sets by intersection
// and union only. A set difference (A and x != v computed as A minus {x == v}) keeps the points
// that have no field x at all, which the conjunction of the sub-queries does not.
func combinatorOnlyAndOr(w *load.World, c *core.Collector) {
	props := []string{"C02", "C06"}
	bad := ""
	n := 0
	takes := map[string]bool{"AndNot": true, "Xor": true, "Remove": true, "RemoveRange": true, "Flip": true, "CheckedRemove": true, "ParAndNot": true}
	for _, f := range w.Fns {
		if load.PkgPath(f) != load.Mod+"/shard/index" || f.Synthetic != "" {
			continue
		}
		for _, b := range f.Blocks {
			for _, in := range b.Instrs {
				call, ok := in.(*ssa.Call)
				if !ok {
					continue
				}
				g := call.Call.StaticCallee()
				if g == nil || g.Pkg == nil || !strings.HasSuffix(g.Pkg.Pkg.Path(), "roaring/roaring64") {
					continue
				}
				n++
				if takes[g.Name()] {
					bad = w.At(in)
				}
			}
		}
	}
	switch {
	case n == 0:
		c.Add("MERGE", "set-algebra:only-and-or", core.Undecided, "", "no bitmap operation found in the query executor", props...)
	case bad != "":
		c.Add("MERGE", "set-algebra:only-and-or", core.Violation, bad, "the query executor takes elements away from a set (difference, xor, remove): _and is the intersection and _or the union of the sub-queries' sets; a notEquals answered as 'the rest minus equals' also matches the points that lack the field", props...)
	default:
		c.Add("MERGE", "set-algebra:only-and-or", core.OK, "", "", props...)
	}
}
