package rules

import (
	"fmt"
	"go/token"
	"go/types"
	"sort"
	"strings"

	"golang.org/x/tools/go/ssa"

	"semaverif/internal/core"
	"semaverif/internal/load"
	"semaverif/internal/ssax"
)

// Clauses added after the eighth blind round.

var _ = fmt.Sprintf
var _ = sort.Strings
var _ types.Type

// scanFns: the implementations of a scan method of the storage buckets.
func scanFns(w *load.World, name string) []*ssa.Function {
	var out []*ssa.Function
	for _, f := range w.Fns {
		if load.PkgPath(f) == load.Mod+"/diskstore" && f.Name() == name && f.Signature.Recv() != nil && f.Synthetic == "" && len(f.Blocks) > 0 {
			out = append(out, f)
		}
	}
	sort.Slice(out, func(i, j int) bool { return load.FnKey(out[i]) < load.FnKey(out[j]) })
	return out
}

// prefixScanGated: every key a PrefixScan hands to its callback was found to carry the prefix: the
// call of the callback lies behind the true edge of a prefix test (bytes.HasPrefix, or an equality
// of the key's head with the prefix). A scan that tests only the keys after the first (do-while)
// hands out the key Seek landed on — the next tenant's record when the asking one has none.
func prefixScanGated(w *load.World, c *core.Collector) {
	props := []string{"C16", "C08", "C02"}
	fns := scanFns(w, "PrefixScan")
	if len(fns) < 2 {
		c.Add("SCAN", "anchor:prefix-scans", core.Undecided, "", fmt.Sprintf("found %d PrefixScan implementations in diskstore, expected 2", len(fns)), props...)
		return
	}
	for _, f := range fns {
		if len(f.Params) < 3 {
			continue
		}
		prefix, cb := f.Params[1], f.Params[2]
		isPrefixTest := func(v ssa.Value) bool {
			switch x := v.(type) {
			case *ssa.Call:
				n := staticName(x)
				if (n == "bytes.HasPrefix" || n == "strings.HasPrefix") && len(x.Call.Args) == 2 {
					return ssax.Prov(x.Call.Args[1])["param:"+prefix.Name()]
				}
				// the head of the key compared with the whole prefix
				if (n == "bytes.Equal" || n == "slices.Equal") && len(x.Call.Args) == 2 {
					return x.Call.Args[0] == ssa.Value(prefix) || x.Call.Args[1] == ssa.Value(prefix)
				}
			case *ssa.BinOp:
				if x.Op == token.EQL {
					// bytes.Compare(head, prefix) == 0
					for _, pr := range [][2]ssa.Value{{x.X, x.Y}, {x.Y, x.X}} {
						if cc, ok := pr[0].(*ssa.Call); ok && staticName(cc) == "bytes.Compare" && len(cc.Call.Args) == 2 {
							if k, ok := pr[1].(*ssa.Const); ok && k.Value != nil && k.Int64() == 0 {
								return cc.Call.Args[0] == ssa.Value(prefix) || cc.Call.Args[1] == ssa.Value(prefix)
							}
						}
					}
					_, lx := x.X.Type().Underlying().(*types.Basic)
					if lx && (ssax.Prov(x.X)["param:"+prefix.Name()] || ssax.Prov(x.Y)["param:"+prefix.Name()]) {
						if b, ok := x.X.Type().Underlying().(*types.Basic); ok && b.Info()&types.IsString != 0 {
							return true
						}
					}
				}
			}
			return false
		}
		n, bad := 0, ""
		for _, b := range f.Blocks {
			for _, in := range b.Instrs {
				call, ok := in.(*ssa.Call)
				if !ok || call.Call.Value != ssa.Value(cb) {
					continue
				}
				n++
				gated := false
				for _, tb := range f.Blocks {
					ifi, ok := tb.Instrs[len(tb.Instrs)-1].(*ssa.If)
					if !ok {
						continue
					}
					cond, edge := ifi.Cond, 0
					if un, ok := cond.(*ssa.UnOp); ok && un.Op == token.NOT {
						cond, edge = un.X, 1
					}
					if isPrefixTest(cond) && ssax.OnlyViaEdge(tb, edge, b) {
						gated = true
					}
				}
				if !gated {
					bad = w.At(in)
				}
			}
		}
		key := "prefix-scan-gated:" + load.FnKey(f)
		switch {
		case n == 0:
			c.Add("SCAN", key, core.OK, w.Position(f.Pos()), "hands out no key", props...)
		case bad != "":
			c.Add("SCAN", key, core.Violation, bad, "the callback can be handed a key that was not tested for the prefix (the key the cursor landed on): a scan for a prefix nothing carries yields the next key of the bucket — another user's collection record", props...)
		default:
			c.Add("SCAN", key, core.OK, w.Position(f.Pos()), "", props...)
		}
	}
}

// rangeBoundsByNil: "no bound" is the nil slice. The key of the empty string is an empty, non-nil
// slice and a legal bound: a RangeScan that tests len(bound) == 0 reads it as no bound at all.
func rangeBoundsByNil(w *load.World, c *core.Collector) {
	props := []string{"C19", "C02", "C08"}
	fns := scanFns(w, "RangeScan")
	if len(fns) < 2 {
		c.Add("SCAN", "anchor:range-scans", core.Undecided, "", fmt.Sprintf("found %d RangeScan implementations in diskstore, expected 2", len(fns)), props...)
		return
	}
	for _, f := range fns {
		if len(f.Params) < 3 {
			continue
		}
		bounds := map[ssa.Value]bool{f.Params[1]: true, f.Params[2]: true}
		bad := ""
		for _, g := range append([]*ssa.Function{f}, f.AnonFuncs...) {
			for _, b := range g.Blocks {
				for _, in := range b.Instrs {
					bo, ok := in.(*ssa.BinOp)
					if !ok {
						continue
					}
					for _, pr := range [][2]ssa.Value{{bo.X, bo.Y}, {bo.Y, bo.X}} {
						lc, ok := pr[0].(*ssa.Call)
						if !ok {
							continue
						}
						bi, ok := lc.Call.Value.(*ssa.Builtin)
						if !ok || bi.Name() != "len" {
							continue
						}
						arg := lc.Call.Args[0]
						if fv, ok := arg.(*ssa.FreeVar); ok && g != f {
							_ = fv
						}
						if !bounds[arg] {
							continue
						}
						if k, ok := pr[1].(*ssa.Const); ok && k.Value != nil && k.Int64() == 0 {
							bad = w.At(in)
						}
					}
				}
			}
		}
		key := "bounds-by-nil:" + load.FnKey(f)
		if bad != "" {
			c.Add("SCAN", key, core.Violation, bad, "a bound of the range scan is tested by its length: the key of the empty string is empty but not nil and is a legal bound; read as no bound, a query for values below \"\" returns every point", props...)
		} else {
			c.Add("SCAN", key, core.OK, w.Position(f.Pos()), "", props...)
		}
	}
}

// WalkSkip: a directory walk that returns SkipDir/SkipAll leaves whole subtrees unvisited. The
// first levels under the data root are user and collection ids, arbitrary strings: skipping by
// name (dot directories) skips a tenant's shards at the start-up sync.
func WalkSkip(w *load.World, c *core.Collector) {
	per := map[string][]lintHit{}
	seen := map[string]bool{}
	for _, f := range w.Fns {
		if !load.InMod(f) || f.Synthetic != "" {
			continue
		}
		pkg := load.PkgPath(f)
		seen[pkg] = true
		for _, b := range f.Blocks {
			for _, in := range b.Instrs {
				ld, ok := in.(*ssa.UnOp)
				if !ok || ld.Op != token.MUL {
					continue
				}
				g, ok := ld.X.(*ssa.Global)
				if !ok || g.Pkg == nil {
					continue
				}
				if (g.Name() == "SkipDir" || g.Name() == "SkipAll") && (g.Pkg.Pkg.Path() == "io/fs" || g.Pkg.Pkg.Path() == "path/filepath") {
					per[pkg] = append(per[pkg], lintHit{w.At(in), "a directory walk skips a subtree (" + g.Name() + "): directory names under the data root are user and collection ids, whatever is skipped by name is never found, moved or removed"})
				}
			}
		}
	}
	emitLint(c, "WALKSKIP", "walk-skips-subtree", seen, per, func(p string) []string {
		if strings.HasSuffix(p, "/cluster") {
			return []string{"C14"}
		}
		return nil
	})
}

// decoderKeepsId: a ReadFrom(id, bucket) of a cached item whose type has an id field stores the id
// it was asked for into what it returns. An item decoded without it has id 0: every guard that
// compares ids (no edge to oneself, filter membership) silently stops working for items that came
// from disk, while items created in the process are fine.
func decoderKeepsId(w *load.World, c *core.Collector) {
	props := []string{"C10", "C08", "C03"}
	n := 0
	for _, f := range w.Fns {
		if !load.InMod(f) || f.Name() != "ReadFrom" || f.Signature.Recv() == nil || f.Synthetic != "" || len(f.Params) < 2 || len(f.Blocks) == 0 {
			continue
		}
		id := f.Params[1]
		// the result type and its id field
		res := f.Signature.Results()
		if res.Len() == 0 {
			continue
		}
		st := ssax.StructOf(res.At(0).Type())
		if st == nil {
			continue
		}
		idField := -1
		for i := 0; i < st.NumFields(); i++ {
			nm := strings.ToLower(st.Field(i).Name())
			if (nm == "id" || nm == "nodeid") && types.Identical(st.Field(i).Type(), id.Type()) {
				idField = i
			}
		}
		if idField < 0 {
			continue
		}
		n++
		stored := false
		for _, b := range f.Blocks {
			for _, in := range b.Instrs {
				s, ok := in.(*ssa.Store)
				if !ok {
					continue
				}
				fa, ok := s.Addr.(*ssa.FieldAddr)
				if !ok || fa.Field != idField || ssax.StructOf(fa.X.Type()) != st {
					continue
				}
				v := s.Val
				for i := 0; i < 3; i++ {
					if ct, ok := v.(*ssa.ChangeType); ok {
						v = ct.X
					}
				}
				if v == ssa.Value(id) {
					stored = true
				}
			}
		}
		// a constructor that is handed the id and puts it there
		storesParam := func(h *ssa.Function, pi int) bool {
			if h == nil || !ssax.InModule(h) || pi >= len(h.Params) {
				return false
			}
			for _, hb := range h.Blocks {
				for _, hi := range hb.Instrs {
					s, ok := hi.(*ssa.Store)
					if !ok {
						continue
					}
					fa, ok := s.Addr.(*ssa.FieldAddr)
					if !ok || fa.Field != idField || ssax.StructOf(fa.X.Type()) != st {
						continue
					}
					if s.Val == ssa.Value(h.Params[pi]) {
						return true
					}
				}
			}
			return false
		}
		for _, b := range f.Blocks {
			for _, in := range b.Instrs {
				call, ok := in.(*ssa.Call)
				if !ok || call.Call.IsInvoke() {
					continue
				}
				for ai, a := range call.Call.Args {
					if a == ssa.Value(id) && storesParam(call.Call.StaticCallee(), ai) {
						stored = true
					}
				}
			}
		}
		key := "decoder-keeps-id:" + load.FnKey(f)
		if stored {
			c.Add("LAYOUT", key, core.OK, w.Position(f.Pos()), "", props...)
		} else {
			c.Add("LAYOUT", key, core.Violation, w.Position(f.Pos()), "the item read from the bucket is returned without the id it was asked for in its "+st.Field(idField).Name()+" field: items that come from disk have id 0 and every comparison of ids (the self-edge guards of pruning, membership in a filter) goes wrong for them", props...)
		}
	}
	if n == 0 {
		c.Add("LAYOUT", "anchor:decoder-keeps-id", core.Undecided, "", "no ReadFrom of an item type with an id field found", props...)
	}
}

// DivGuard: an integer division or remainder by the length of a collection lies behind a test of
// that length (an edge on which it is not zero). A collection has no shards until it received
// points; a modulo by that count on a goroutine without recovery ends the process.
func DivGuard(w *load.World, c *core.Collector) {
	per := map[string][]lintHit{}
	seen := map[string]bool{}
	lenOf := func(v ssa.Value) ssa.Value {
		for i := 0; i < 3; i++ {
			switch x := v.(type) {
			case *ssa.Convert:
				v = x.X
				continue
			case *ssa.ChangeType:
				v = x.X
				continue
			}
			break
		}
		lc, ok := v.(*ssa.Call)
		if !ok {
			return nil
		}
		bi, ok := lc.Call.Value.(*ssa.Builtin)
		if !ok || bi.Name() != "len" {
			return nil
		}
		return lc.Call.Args[0]
	}
	same := func(a, b ssa.Value) bool {
		if a == b {
			return true
		}
		pa, _ := ssax.Path(a)
		pb, _ := ssax.Path(b)
		return pa != "" && pa == pb
	}
	for _, f := range w.Fns {
		if !load.InMod(f) || f.Synthetic != "" {
			continue
		}
		pkg := load.PkgPath(f)
		if !strings.HasPrefix(pkg, load.Mod+"/cluster") && !strings.HasPrefix(pkg, load.Mod+"/shard") && !strings.HasPrefix(pkg, load.Mod+"/httpapi") && !strings.HasPrefix(pkg, load.Mod+"/models") {
			continue
		}
		seen[pkg] = true
		for _, b := range f.Blocks {
			for _, in := range b.Instrs {
				bo, ok := in.(*ssa.BinOp)
				if !ok || (bo.Op != token.REM && bo.Op != token.QUO) {
					continue
				}
				if bt, ok := bo.Type().Underlying().(*types.Basic); !ok || bt.Info()&types.IsInteger == 0 {
					continue
				}
				coll := lenOf(bo.Y)
				if coll == nil {
					continue
				}
				if _, isArr := coll.Type().Underlying().(*types.Array); isArr {
					continue
				}
				guarded := false
				for _, tb := range f.Blocks {
					ifi, ok := tb.Instrs[len(tb.Instrs)-1].(*ssa.If)
					if !ok {
						continue
					}
					// conjunctions are chains of blocks: each conjunct is an If of its own
					cb, neg, ok := condBinOp(ifi.Cond, 0)
					if !ok {
						continue
					}
					for _, pr := range [][2]ssa.Value{{cb.X, cb.Y}, {cb.Y, cb.X}} {
						cc := lenOf(pr[0])
						if cc == nil || !same(cc, coll) {
							continue
						}
						k, isK := pr[1].(*ssa.Const)
						if !isK || k.Value == nil {
							continue
						}
						kv := k.Int64()
						op := cb.Op
						if pr[0] == cb.Y { // const OP len  ->  len OP' const
							switch op {
							case token.LSS:
								op = token.GTR
							case token.LEQ:
								op = token.GEQ
							case token.GTR:
								op = token.LSS
							case token.GEQ:
								op = token.LEQ
							}
						}
						// the edge on which len != 0 is known
						edge := -1
						switch {
						case op == token.GTR && kv >= 0, op == token.GEQ && kv >= 1, op == token.NEQ && kv == 0:
							edge = 0
						case op == token.EQL && kv == 0, op == token.LSS && kv <= 1 && kv >= 0, op == token.LEQ && kv == 0:
							edge = 1
						}
						if edge < 0 {
							continue
						}
						if neg {
							edge = 1 - edge
						}
						if ssax.OnlyViaEdge(tb, edge, b) {
							guarded = true
						}
					}
				}
				// inside a loop over that very collection the length is not zero
				if !guarded {
					for _, tb := range f.Blocks {
						for _, ti := range tb.Instrs {
							if rg, ok := ti.(*ssa.Range); ok && same(rg.X, coll) && tb.Dominates(b) && tb != b {
								guarded = true
							}
						}
					}
				}
				if !guarded {
					per[pkg] = append(per[pkg], lintHit{w.At(in), "integer division or remainder by the length of a collection without a test that it is not empty on the way: with no element (a collection that has no shards yet) this is a division by zero"})
				}
			}
		}
	}
	emitLint(c, "DIVGUARD", "division-by-length-guarded", seen, per, func(p string) []string {
		return []string{"C18"}
	})
}

// lengthGated: block b of f lies behind an edge on which the analysed document's length is not
// zero — in f, or at every call site of f (the counting moved into "insertDoc").
func lengthGated(w *load.World, f *ssa.Function, b *ssa.BasicBlock, depth int) bool {
	for _, tb := range f.Blocks {
		ifi, ok := tb.Instrs[len(tb.Instrs)-1].(*ssa.If)
		if !ok {
			continue
		}
		cb, neg, ok := condBinOp(ifi.Cond, 0)
		if !ok {
			continue
		}
		var other ssa.Value
		switch {
		case ssax.Prov(cb.X)["field:Length"]:
			other = cb.Y
		case ssax.Prov(cb.Y)["field:Length"]:
			other = cb.X
		default:
			continue
		}
		z, isZ := other.(*ssa.Const)
		if !isZ || z.Value == nil || z.Int64() != 0 {
			continue
		}
		edge := -1
		switch cb.Op {
		case token.GTR, token.NEQ, token.LSS: // len > 0, len != 0, 0 < len
			edge = 0
		case token.EQL, token.LEQ, token.GEQ: // len == 0, len <= 0, 0 >= len
			edge = 1
		}
		if edge < 0 {
			continue
		}
		if neg {
			edge = 1 - edge
		}
		if ssax.OnlyViaEdge(tb, edge, b) {
			return true
		}
	}
	if depth >= 2 {
		return false
	}
	sites := staticCallSites(w, f)
	if len(sites) == 0 {
		return false
	}
	for _, s := range sites {
		if !lengthGated(w, s.Parent(), s.Block(), depth+1) {
			return false
		}
	}
	return true
}

// corpusSize: the number of documents of a text index is a statistic: it enters the idf formula
// and is counted up and down, nothing is decided by comparing with it (a term "that every document
// has" still contributes — its idf is negative, not zero); and it is counted up only for a
// document that has tokens (behind the edge on which the analysed length is not zero), because only
// such a document gets a record.
func corpusSize(w *load.World, c *core.Collector) {
	props := []string{"C05"}
	isNumDocs := func(v ssa.Value) bool {
		for i := 0; i < 4; i++ {
			switch x := v.(type) {
			case *ssa.Convert:
				v = x.X
				continue
			case *ssa.ChangeType:
				v = x.X
				continue
			}
			break
		}
		ld, ok := v.(*ssa.UnOp)
		if !ok || ld.Op != token.MUL {
			return false
		}
		fa, ok := ld.X.(*ssa.FieldAddr)
		return ok && strings.HasSuffix(fieldOf(fa), ".numDocs")
	}
	nCmp, nInc := 0, 0
	badCmp, badInc := "", ""
	for _, f := range w.Fns {
		if load.PkgPath(f) != load.Mod+"/shard/index/text" || f.Synthetic != "" {
			continue
		}
		for _, b := range f.Blocks {
			for _, in := range b.Instrs {
				bo, ok := in.(*ssa.BinOp)
				if !ok {
					continue
				}
				switch bo.Op {
				case token.EQL, token.NEQ, token.LSS, token.LEQ, token.GTR, token.GEQ:
					if isNumDocs(bo.X) || isNumDocs(bo.Y) {
						nCmp++
						badCmp = w.At(in)
					}
				case token.ADD:
					_, isK := bo.Y.(*ssa.Const)
					if !isNumDocs(bo.X) || !isK {
						continue
					}
					nInc++
					gated := lengthGated(w, f, b, 0)
					if !gated {
						badInc = w.At(in)
					}
				}
			}
		}
	}
	if badCmp != "" {
		c.Add("RANK", "text:corpus-size-not-a-gate", core.Violation, badCmp, "something is decided by comparing with the number of documents: the corpus size is a statistic of the idf formula; a term that occurs in every document has a negative idf (log of N/(N+1)), not none, and skipping it changes scores and order", props...)
	} else {
		c.Add("RANK", "text:corpus-size-not-a-gate", core.OK, "", "", props...)
	}
	switch {
	case nInc == 0:
		c.Add("RANK", "text:count-follows-record", core.Undecided, "", "no increment of the text index's document count found", props...)
	case badInc != "":
		c.Add("RANK", "text:count-follows-record", core.Violation, badInc, "the number of documents is counted up on a way that has not tested that the analysed document has tokens: a document without tokens gets no record, is counted all the same and inflates the corpus size of every idf from then on", props...)
	default:
		c.Add("RANK", "text:count-follows-record", core.OK, "", "", props...)
	}
}

// finalOrderByRequestOnly: Shard.SearchPoints orders its final list (ranked results first, then
// the filter-only points) by the sort keys of the request and by nothing else: a sort by score
// there puts filter-only points (score 0) before ranked ones (minus weight times distance).
func finalOrderByRequestOnly(w *load.World, c *core.Collector) {
	props := []string{"C06"}
	f := findFn(w, "(*shard.Shard).SearchPoints")
	if f == nil {
		return // MERGE reports the missing anchor
	}
	bad := ""
	var walk func(g *ssa.Function, depth int)
	seen := map[*ssa.Function]bool{}
	walk = func(g *ssa.Function, depth int) {
		if g == nil || seen[g] || depth > 2 || len(g.Blocks) == 0 {
			return
		}
		seen[g] = true
		for _, a := range g.AnonFuncs {
			walk(a, depth)
		}
		for _, b := range g.Blocks {
			for _, in := range b.Instrs {
				call, ok := in.(*ssa.Call)
				if !ok {
					continue
				}
				h := call.Call.StaticCallee()
				if h == nil {
					continue
				}
				hp := ""
				if h.Pkg != nil {
					hp = h.Pkg.Pkg.Path()
				} else if o := h.Origin(); o != nil && o.Pkg != nil {
					hp = o.Pkg.Pkg.Path()
				}
				if (hp == "slices" || hp == "sort") && strings.Contains(h.Name(), "Sort") || hp == "sort" && (h.Name() == "Slice" || h.Name() == "SliceStable" || h.Name() == "Stable") {
					if len(call.Call.Args) > 0 && isSearchResultSlice(call.Call.Args[0].Type()) {
						bad = w.At(in)
					}
					continue
				}
				if load.PkgPath(h) == load.Mod+"/shard" {
					walk(h, depth+1)
				}
			}
		}
	}
	walk(f, 0)
	if bad != "" {
		c.Add("MERGE", "final-order-by-request-only", core.Violation, bad, "the shard's final result list is sorted by something other than the request's sort keys: the list is ranked results followed by filter-only points, and a sort by score moves the filter-only points (score 0) in front of ranked ones (negative scores)", props...)
	} else {
		c.Add("MERGE", "final-order-by-request-only", core.OK, w.Position(f.Pos()), "", props...)
	}
}

// QueryReadOnly: the executor does not rewrite the query it was given. A store into an option
// block of a query (operator, value, the sub-query lists) outside the models package changes what
// is asked: notEquals turned into equals for a set difference also matches points without the field.
func QueryReadOnly(w *load.World, c *core.Collector) {
	per := map[string][]lintHit{}
	seen := map[string]bool{}
	isQueryType := func(t types.Type) bool {
		for {
			if p, ok := t.Underlying().(*types.Pointer); ok {
				t = p.Elem()
				continue
			}
			break
		}
		nt, ok := t.(*types.Named)
		if !ok || nt.Obj().Pkg() == nil || nt.Obj().Pkg().Path() != load.Mod+"/models" {
			return false
		}
		n := nt.Obj().Name()
		return n == "Query" || (strings.HasPrefix(n, "Search") && strings.HasSuffix(n, "Options"))
	}
	for _, f := range w.Fns {
		if !load.InMod(f) || f.Synthetic != "" {
			continue
		}
		pkg := load.PkgPath(f)
		if !strings.HasPrefix(pkg, load.Mod+"/shard") {
			continue
		}
		seen[pkg] = true
		for _, b := range f.Blocks {
			for _, in := range b.Instrs {
				s, ok := in.(*ssa.Store)
				if !ok {
					continue
				}
				fa, ok := s.Addr.(*ssa.FieldAddr)
				if !ok || !isQueryType(fa.X.Type()) {
					continue
				}
				// a block the function builds itself (a literal it fills in) is its own
				if _, fresh := ssax.Path(fa.X); fresh {
					continue
				}
				st := ssax.StructOf(fa.X.Type())
				per[pkg] = append(per[pkg], lintHit{w.At(in), "the executor assigns to the field " + st.Field(fa.Field).Name() + " of a query it was given: the query that is answered is no longer the one that was asked"})
			}
		}
	}
	emitLint(c, "QUERYRO", "query-rewritten", seen, per, nil)
}

// combinatorOnlyAndOr: the executor of _and/_or combines the sub-queries' sets by intersection
// and union only. A set difference (A and x != v computed as A minus {x == v}) keeps the points
// that have no field x at all, which the conjunction of the sub-queries does not.
func combinatorOnlyAndOr(w *load.World, c *core.Collector) {
	props := []string{"C02", "C06"}
	bad := ""
	n := 0
	takes := map[string]bool{"AndNot": true, "Xor": true, "Remove": true, "RemoveRange": true, "Flip": true, "CheckedRemove": true, "ParAndNot": true}
	for _, f := range w.Fns {
		if load.PkgPath(f) != load.Mod+"/shard/index" || f.Synthetic != "" {
			continue
		}
		for _, b := range f.Blocks {
			for _, in := range b.Instrs {
				call, ok := in.(*ssa.Call)
				if !ok {
					continue
				}
				g := call.Call.StaticCallee()
				if g == nil || g.Pkg == nil || !strings.HasSuffix(g.Pkg.Pkg.Path(), "roaring/roaring64") {
					continue
				}
				n++
				if takes[g.Name()] {
					bad = w.At(in)
				}
			}
		}
	}
	switch {
	case n == 0:
		c.Add("MERGE", "set-algebra:only-and-or", core.Undecided, "", "no bitmap operation found in the query executor", props...)
	case bad != "":
		c.Add("MERGE", "set-algebra:only-and-or", core.Violation, bad, "the query executor takes elements away from a set (difference, xor, remove): _and is the intersection and _or the union of the sub-queries' sets; a notEquals answered as 'the rest minus equals' also matches the points that lack the field", props...)
	default:
		c.Add("MERGE", "set-algebra:only-and-or", core.OK, "", "", props...)
	}
}

// registeredOnlyOpen: a shard is put into the registry when nothing can fail any more. An entry
// registered before the open succeeded stays behind when the open fails: it has no shard and no
// clean-up routine, every later request finds it and is told the shard is closed, forever.
func registeredOnlyOpen(w *load.World, c *core.Collector) {
	props := []string{"C12"}
	n := 0
	for _, f := range w.Fns {
		if load.PkgPath(f) != load.Mod+"/cluster" || f.Synthetic != "" {
			continue
		}
		for _, b := range f.Blocks {
			for i, in := range b.Instrs {
				mu, ok := in.(*ssa.MapUpdate)
				if !ok || !isShardRegistry(mu.Map) {
					continue
				}
				n++
				bad := ""
				check := func(r *ssa.Return, rb *ssa.BasicBlock) {
					if len(r.Results) == 0 {
						return
					}
					last := ssax.ReturnOperand(r, len(r.Results)-1)
					if !types.Identical(last.Type(), types.Universe.Lookup("error").Type()) {
						return
					}
					if nonNilError(last, rb) {
						bad = w.At(r)
					}
				}
				for _, later := range b.Instrs[i+1:] {
					if r, ok := later.(*ssa.Return); ok {
						check(r, b)
					}
				}
				for _, rb := range f.Blocks {
					if rb == b || !ssax.Reaches(b, rb) {
						continue
					}
					if r, ok := rb.Instrs[len(rb.Instrs)-1].(*ssa.Return); ok {
						check(r, rb)
					}
				}
				key := "registered-only-open:" + load.FnKey(f)
				if bad != "" {
					c.Add("LIFECYCLE", key, core.Violation, bad, "the function can still fail after it has put the shard into the registry: the entry of a shard whose open failed stays registered without a shard and without a clean-up routine, and every later request for that shard is refused", props...)
				} else {
					c.Add("LIFECYCLE", key, core.OK, w.At(in), "", props...)
				}
			}
		}
	}
	if n == 0 {
		c.Add("LIFECYCLE", "anchor:registry-insert", core.Undecided, "", "no insertion into the shard registry found", props...)
	}
}

// callbackRuns: a function that is handed an operation on a shard and reports success has run it.
// A retry loop that falls through returns nil without the callback: the insert "succeeded", the
// points are in no shard.
func callbackRuns(w *load.World, c *core.Collector) {
	props := []string{"C15", "C12", "C17"}
	n := 0
	for _, f := range w.Fns {
		if load.PkgPath(f) != load.Mod+"/cluster" || f.Synthetic != "" || len(f.Blocks) == 0 {
			continue
		}
		var cb *ssa.Parameter
		for _, p := range f.Params {
			sig, ok := p.Type().Underlying().(*types.Signature)
			if !ok || sig.Params().Len() != 1 || sig.Results().Len() != 1 {
				continue
			}
			if strings.HasSuffix(ssax.TypeName(sig.Params().At(0).Type()), "shard.Shard") {
				cb = p
			}
		}
		if cb == nil {
			continue
		}
		n++
		calls := map[*ssa.BasicBlock]bool{}
		for _, b := range f.Blocks {
			for _, in := range b.Instrs {
				call, ok := in.(ssa.CallInstruction)
				if !ok {
					continue
				}
				if call.Common().Value == ssa.Value(cb) {
					calls[b] = true
				}
				// handed on to a function of the package that takes such an operation itself (and has
				// its own obligation here)
				if h := call.Common().StaticCallee(); h != nil && load.PkgPath(h) == load.Mod+"/cluster" && len(h.Blocks) > 0 {
					for _, a := range call.Common().Args {
						if a == ssa.Value(cb) {
							calls[b] = true
						}
					}
				}
			}
		}
		// blocks reachable from the entry without passing a call of the callback
		reach := map[*ssa.BasicBlock]bool{}
		var stack []*ssa.BasicBlock
		if !calls[f.Blocks[0]] {
			reach[f.Blocks[0]] = true
			stack = append(stack, f.Blocks[0])
		}
		for len(stack) > 0 {
			b := stack[len(stack)-1]
			stack = stack[:len(stack)-1]
			for _, s := range b.Succs {
				if !reach[s] && !calls[s] {
					reach[s] = true
					stack = append(stack, s)
				}
			}
		}
		bad := ""
		for _, ex := range successExits(f) {
			if r, ok := ex.In.(*ssa.Return); ok && reach[r.Block()] {
				bad = w.At(r)
			}
		}
		key := "callback-runs:" + load.FnKey(f)
		switch {
		case len(calls) == 0:
			c.Add("LIFECYCLE", key, core.Violation, w.Position(f.Pos()), "the operation handed in is never called", props...)
		case bad != "":
			c.Add("LIFECYCLE", key, core.Violation, bad, "the function can report success without having run the operation it was handed (a way from the entry to this return passes no call of it): the request is acknowledged and nothing was done", props...)
		default:
			c.Add("LIFECYCLE", key, core.OK, w.Position(f.Pos()), "", props...)
		}
	}
	if n == 0 {
		c.Add("LIFECYCLE", "anchor:callback-runs", core.Undecided, "", "no function of the cluster package takes an operation on a shard", props...)
	}
}

// replyReadAfterSuccess: what a shard answered is read only when the call succeeded. The reply of
// a failed call is whatever the handler had filled in before it failed — ids of points of a batch
// that was then rolled back.
func replyReadAfterSuccess(w *load.World, c *core.Collector) {
	props := []string{"C17", "C15"}
	n := 0
	var bads []string
	for _, f := range w.Fns {
		if load.PkgPath(f) != load.Mod+"/cluster" || f.Synthetic != "" {
			continue
		}
		for _, b := range f.Blocks {
			for _, in := range b.Instrs {
				call, ok := in.(*ssa.Call)
				if !ok {
					continue
				}
				g := call.Call.StaticCallee()
				if g == nil || !strings.HasPrefix(g.Name(), "RPC") || load.PkgPath(g) != load.Mod+"/cluster" || len(call.Call.Args) < 3 {
					continue
				}
				resp, ok := call.Call.Args[len(call.Call.Args)-1].(*ssa.Alloc)
				if !ok || ssax.StructOf(resp.Type()) == nil {
					continue
				}
				_, isNil := ssax.NilTests(f, call)
				if len(isNil) == 0 {
					continue
				}
				n++
				for _, rb := range f.Blocks {
					for _, ri := range rb.Instrs {
						ld, ok := ri.(*ssa.UnOp)
						if !ok || ld.Op != token.MUL {
							continue
						}
						fa, ok := ld.X.(*ssa.FieldAddr)
						if !ok || fa.X != ssa.Value(resp) {
							continue
						}
						if !(rb == b && ssax.Precedes(in, ri)) && !(rb != b && ssax.Reaches(b, rb)) {
							continue
						}
						okRead := false
						for _, e := range isNil {
							if ssax.OnlyViaEdge(e.From, e.Succ, rb) {
								okRead = true
							}
						}
						if !okRead {
							bads = append(bads, w.At(ri))
						}
					}
				}
			}
		}
	}
	switch {
	case n < 3:
		c.Add("FANOUT", "anchor:reply-read-after-success", core.Undecided, "", fmt.Sprintf("found %d shard calls whose error is tested and whose reply is a local, expected at least 3", n), props...)
	case len(bads) > 0:
		sort.Strings(bads)
		c.Add("FANOUT", "reply-read-after-success", core.Violation, bads[0], "the reply of a shard call is read on a way that has not seen the call succeed ("+strings.Join(dedupe(bads), ", ")+"): after a failed call it holds what the handler had collected before it failed, for instance the ids of a batch that was rolled back", props...)
	default:
		c.Add("FANOUT", "reply-read-after-success", core.OK, "", fmt.Sprintf("%d calls", n), props...)
	}
}

// schemaVisitsBothLists: Query.ValidateSchema checks the sub-queries of _and and of _or, each list
// read from its own field. The executor runs the list its property names; a validator that looks
// at "the" sub-queries (one list if it is non-empty, else the other) leaves the executed list of a
// query that carries both unchecked: a vector of the wrong length reaches the kernels.
func schemaVisitsBothLists(w *load.World, c *core.Collector) {
	props := []string{"C18"}
	f := w.Method("/models", "Query", "ValidateSchema")
	if f == nil {
		c.Add("VALID", "anchor:ValidateSchema", core.Undecided, "", "models.Query.ValidateSchema not found", props...)
		return
	}
	var origin func(v ssa.Value, depth int) map[string]bool
	origin = func(v ssa.Value, depth int) map[string]bool {
		out := map[string]bool{}
		if depth > 6 || v == nil {
			return out
		}
		switch x := v.(type) {
		case *ssa.UnOp:
			return origin(x.X, depth+1)
		case *ssa.IndexAddr:
			return origin(x.X, depth+1)
		case *ssa.Index:
			return origin(x.X, depth+1)
		case *ssa.Extract:
			return origin(x.Tuple, depth+1)
		case *ssa.Next:
			return origin(x.Iter, depth+1)
		case *ssa.Range:
			return origin(x.X, depth+1)
		case *ssa.Slice:
			return origin(x.X, depth+1)
		case *ssa.Alloc:
			for _, r := range *x.Referrers() {
				if st, ok := r.(*ssa.Store); ok && st.Addr == ssa.Value(x) {
					for k := range origin(st.Val, depth+1) {
						out[k] = true
					}
				}
			}
		case *ssa.Phi:
			for _, e := range x.Edges {
				for k := range origin(e, depth+1) {
					out[k] = true
				}
			}
		case *ssa.Field:
			if st := ssax.StructOf(x.X.Type()); st != nil && strings.HasSuffix(ssax.TypeName(x.X.Type()), "models.Query") {
				out[st.Field(x.Field).Name()] = true
			}
		case *ssa.FieldAddr:
			if st := ssax.StructOf(x.X.Type()); st != nil && strings.HasSuffix(ssax.TypeName(x.X.Type()), "models.Query") {
				out[st.Field(x.Field).Name()] = true
			}
		case *ssa.Call:
			if g := x.Call.StaticCallee(); g != nil && ssax.InModule(g) {
				for _, gb := range g.Blocks {
					if r, ok := gb.Instrs[len(gb.Instrs)-1].(*ssa.Return); ok && len(r.Results) > 0 {
						for k := range origin(ssax.ReturnOperand(r, 0), depth+1) {
							out[k] = true
						}
					}
				}
			}
		}
		return out
	}
	covered := map[string]bool{}
	bad := ""
	// a merge of the two lists is fine when the property selects: the _and list on the way on which
	// the property was found to be "_and", the _or list on the "_or" way
	byProperty := func(phi *ssa.Phi) bool {
		fn := phi.Parent()
		for i, e := range phi.Edges {
			o := origin(e, 0)
			var ks []string
			for k := range o {
				if k == "And" || k == "Or" {
					ks = append(ks, k)
				}
			}
			if len(ks) == 0 {
				continue
			}
			if len(ks) > 1 {
				return false
			}
			want := "_" + strings.ToLower(ks[0])
			pred := phi.Block().Preds[i]
			okEdge := false
			for _, tb := range fn.Blocks {
				ifi, isIf := tb.Instrs[len(tb.Instrs)-1].(*ssa.If)
				if !isIf {
					continue
				}
				cb, neg, isBo := condBinOp(ifi.Cond, 0)
				if !isBo || cb.Op != token.EQL && cb.Op != token.NEQ {
					continue
				}
				var other ssa.Value
				switch {
				case ssax.Prov(cb.X)["field:Property"]:
					other = cb.Y
				case ssax.Prov(cb.Y)["field:Property"]:
					other = cb.X
				default:
					continue
				}
				if str, isStr := ssax.ConstString(other); !isStr || str != want {
					continue
				}
				edge := 0
				if (cb.Op == token.NEQ) != neg {
					edge = 1
				}
				if ssax.OnlyViaEdge(tb, edge, pred) || (tb == pred && tb.Succs[edge] == phi.Block()) {
					okEdge = true
				}
			}
			if !okEdge {
				return false
			}
		}
		return true
	}
	judge := func(v ssa.Value, at string) {
		o := origin(v, 0)
		var ks []string
		for k := range o {
			if k == "And" || k == "Or" {
				ks = append(ks, k)
			}
		}
		sort.Strings(ks)
		switch len(ks) {
		case 0: // the filter of an option block, not a list
		case 1:
			covered[ks[0]] = true
		default:
			// find the merge
			x := v
			for i := 0; i < 8 && x != nil; i++ {
				switch y := x.(type) {
				case *ssa.UnOp:
					x = y.X
					continue
				case *ssa.IndexAddr:
					x = y.X
					continue
				case *ssa.Index:
					x = y.X
					continue
				case *ssa.Slice:
					x = y.X
					continue
				}
				break
			}
			if phi, isPhi := x.(*ssa.Phi); isPhi && byProperty(phi) {
				covered["And"], covered["Or"] = true, true
				return
			}
			bad = at
		}
	}
	inModels := func(g *ssa.Function) bool { return load.PkgPath(g) == load.PkgPath(f) }
	for _, g := range w.Fns {
		if !inModels(g) || g.Synthetic != "" {
			continue
		}
		for _, b := range g.Blocks {
			for _, in := range b.Instrs {
				call, ok := in.(*ssa.Call)
				if !ok || call.Call.StaticCallee() != f || len(call.Call.Args) == 0 {
					continue
				}
				recv := call.Call.Args[0]
				root := g
				for root.Parent() != nil {
					root = root.Parent()
				}
				if root == f {
					judge(recv, w.At(in))
					continue
				}
				// in a helper ("validateSchemaAll(list, schema)"): per call of the helper, what it is handed
				x := recv
				var par *ssa.Parameter
				for i := 0; i < 8 && x != nil && par == nil; i++ {
					switch y := x.(type) {
					case *ssa.Parameter:
						par = y
					case *ssa.UnOp:
						x = y.X
					case *ssa.IndexAddr:
						x = y.X
					case *ssa.Index:
						x = y.X
					case *ssa.Slice:
						x = y.X
					case *ssa.Extract:
						x = y.Tuple
					case *ssa.Next:
						x = y.Iter
					case *ssa.Range:
						x = y.X
					case *ssa.Alloc:
						x = ssax.SingleStore(y)
					default:
						x = nil
					}
				}
				if par == nil || par.Parent() != g {
					continue
				}
				idx := -1
				for i, q := range g.Params {
					if q == par {
						idx = i
					}
				}
				for _, cs := range staticCallSites(w, g) {
					if idx >= 0 && idx < len(cs.Common().Args) {
						judge(cs.Common().Args[idx], w.At(cs))
					}
				}
			}
		}
	}
	switch {
	case bad != "":
		c.Add("VALID", "schema-visits-both-lists", core.Violation, bad, "the sub-queries that are checked against the schema here come from \"one of\" the _and and _or lists, not from a list of their own: a query that carries both has the list its property executes left unchecked", props...)
	case !covered["And"] || !covered["Or"]:
		c.Add("VALID", "schema-visits-both-lists", core.Violation, w.Position(f.Pos()), "ValidateSchema does not descend into both the _and and the _or list of a query", props...)
	default:
		c.Add("VALID", "schema-visits-both-lists", core.OK, w.Position(f.Pos()), "", props...)
	}
}

// allocatorMonotone: the next free id of an id allocator only counts up. Ids below it are in use
// or on the free list; an allocator that is wound back ("the shard is empty now") hands the ids of
// whatever was still alive out again and the new points overwrite the old ones' keys.
func allocatorMonotone(w *load.World, c *core.Collector) {
	props := []string{"C01", "C10"}
	n := 0
	bad := ""
	for _, f := range w.Fns {
		if load.PkgPath(f) != load.Mod+"/shard" || f.Synthetic != "" {
			continue
		}
		for _, b := range f.Blocks {
			for _, in := range b.Instrs {
				s, ok := in.(*ssa.Store)
				if !ok {
					continue
				}
				fa, ok := s.Addr.(*ssa.FieldAddr)
				if !ok || fieldOf(fa) != "shard.IdCounter.nextFreeId" {
					continue
				}
				if _, fresh := ssax.Path(fa.X); fresh {
					continue // the constructor fills in what it decoded
				}
				n++
				okStep := false
				if bo, isBo := s.Val.(*ssa.BinOp); isBo && bo.Op == token.ADD {
					if ld, isLd := bo.X.(*ssa.UnOp); isLd && ld.Op == token.MUL {
						if fb, isFa := ld.X.(*ssa.FieldAddr); isFa && fieldOf(fb) == "shard.IdCounter.nextFreeId" {
							if k, isK := bo.Y.(*ssa.Const); isK && k.Value != nil && k.Uint64() >= 1 {
								okStep = true
							}
						}
					}
				}
				if !okStep {
					bad = w.At(in)
				}
			}
		}
	}
	switch {
	case n == 0:
		c.Add("PAIR", "allocator-monotone", core.Undecided, "", "no assignment to the id allocator's next free id found", props...)
	case bad != "":
		c.Add("PAIR", "allocator-monotone", core.Violation, bad, "the id allocator's next free id is set to something other than itself plus a positive constant: an allocator that is wound back hands out again the node ids of points that are still stored, and the new points overwrite their keys", props...)
	default:
		c.Add("PAIR", "allocator-monotone", core.OK, "", "", props...)
	}
}

// reportedDistanceVerbatim: the distance a vector search reports for a point is the one the index
// computed, not a function of it (clamped at zero, rounded): under the dot metric distances are
// negative by definition, and the hybrid score is minus weight times that very number.
func reportedDistanceVerbatim(w *load.World, c *core.Collector) {
	props := []string{"C03", "C04"}
	n := 0
	bad := ""
	isArith := func(v ssa.Value) bool {
		switch x := v.(type) {
		case *ssa.BinOp:
			return true
		case *ssa.Call:
			if bi, ok := x.Call.Value.(*ssa.Builtin); ok {
				return bi.Name() == "max" || bi.Name() == "min"
			}
			if g := x.Call.StaticCallee(); g != nil && g.Pkg != nil && g.Pkg.Pkg.Path() == "math" {
				return true
			}
		}
		return false
	}
	for _, f := range w.Fns {
		p := load.PkgPath(f)
		if (p != load.Mod+"/shard/index/vamana" && p != load.Mod+"/shard/index/flat") || f.Synthetic != "" {
			continue
		}
		for _, b := range f.Blocks {
			for _, in := range b.Instrs {
				s, ok := in.(*ssa.Store)
				if !ok {
					continue
				}
				fa, ok := s.Addr.(*ssa.FieldAddr)
				if !ok || fieldOf(fa) != "models.SearchResult.Distance" {
					continue
				}
				n++
				al, ok := s.Val.(*ssa.Alloc)
				if !ok {
					continue // the address of the element's own field
				}
				for _, r := range *al.Referrers() {
					if st, ok := r.(*ssa.Store); ok && st.Addr == ssa.Value(al) && isArith(st.Val) {
						bad = w.At(st)
					}
				}
			}
		}
	}
	switch {
	case n < 2:
		c.Add("RANK", "anchor:reported-distance", core.Undecided, "", fmt.Sprintf("found %d places where a vector search fills in the distance of a result, expected at least 2", n), props...)
	case bad != "":
		c.Add("RANK", "reported-distance-verbatim", core.Violation, bad, "the distance reported for a result is computed from the index's distance (clamped, rounded) instead of being it: under the dot metric every distance is negative, a clamp at zero reports 0 for all of them and a hybrid score of 0", props...)
	default:
		c.Add("RANK", "reported-distance-verbatim", core.OK, "", "", props...)
	}
}

// floatExit: a block of the natural loop of hdr that leaves the loop on something other than the
// loop's own counting (a branch on integers — the index against its bound, also at the bottom of
// a rotated loop) or an error: a branch on a floating-point value, or no branch at all.
func floatExit(f *ssa.Function, hdr *ssa.BasicBlock) *ssa.BasicBlock {
	in := map[*ssa.BasicBlock]bool{}
	var stack []*ssa.BasicBlock
	for _, p := range hdr.Preds {
		if hdr.Dominates(p) && p != hdr && !in[p] {
			in[p] = true
			stack = append(stack, p)
		}
	}
	for len(stack) > 0 {
		b := stack[len(stack)-1]
		stack = stack[:len(stack)-1]
		for _, p := range b.Preds {
			if p != hdr && !in[p] && hdr.Dominates(p) {
				in[p] = true
				stack = append(stack, p)
			}
		}
	}
	in[hdr] = true
	var blocks []*ssa.BasicBlock
	for b := range in {
		blocks = append(blocks, b)
	}
	sort.Slice(blocks, func(i, j int) bool { return blocks[i].Index < blocks[j].Index })
	for _, b := range blocks {
		for _, s := range b.Succs {
			if in[s] {
				continue
			}
			if ret, ok := s.Instrs[len(s.Instrs)-1].(*ssa.Return); ok && len(ret.Results) > 0 && nonNilError(ssax.ReturnOperand(ret, len(ret.Results)-1), s) {
				continue
			}
			ifi, ok := b.Instrs[len(b.Instrs)-1].(*ssa.If)
			if !ok {
				return b
			}
			cond := ifi.Cond
			if un, ok := cond.(*ssa.UnOp); ok && un.Op == token.NOT {
				cond = un.X
			}
			bo, ok := cond.(*ssa.BinOp)
			if !ok {
				return b
			}
			if bt, ok := bo.X.Type().Underlying().(*types.Basic); !ok || bt.Info()&types.IsInteger == 0 {
				return b
			}
		}
	}
	return nil
}

// argminComplete: a loop that keeps a running minimum of distances (the nearest centroid of a
// sub-vector) looks at every candidate: it has no way out before the end other than an error. "A
// distance of 0 cannot be beaten" holds for euclidean; under the dot metric distances are negative.
func argminComplete(w *load.World, c *core.Collector) {
	props := []string{"C04", "C20", "C08"}
	n := 0
	for _, f := range w.Fns {
		if load.PkgPath(f) != load.Mod+"/shard/vectorstore" || f.Synthetic != "" {
			continue
		}
		done := map[*ssa.BasicBlock]bool{}
		for _, b := range f.Blocks {
			ifi, ok := b.Instrs[len(b.Instrs)-1].(*ssa.If)
			if !ok {
				continue
			}
			bo, ok := ifi.Cond.(*ssa.BinOp)
			if !ok || (bo.Op != token.LSS && bo.Op != token.GTR && bo.Op != token.LEQ && bo.Op != token.GEQ) {
				continue
			}
			if bt, ok := bo.X.Type().Underlying().(*types.Basic); !ok || bt.Info()&types.IsFloat == 0 {
				continue
			}
			// one side is the loop-carried best value: a phi at a loop header that dominates this
			// block and whose back-edge value is the other side
			for _, pr := range [][2]ssa.Value{{bo.X, bo.Y}, {bo.Y, bo.X}} {
				phi, ok := pr[0].(*ssa.Phi)
				if !ok || done[phi.Block()] || !phi.Block().Dominates(b) || !ssax.Reaches(b, phi.Block()) {
					continue
				}
				carries := false
				for _, e := range phi.Edges {
					if e == pr[1] {
						carries = true
					}
					if p2, ok := e.(*ssa.Phi); ok {
						for _, e2 := range p2.Edges {
							if e2 == pr[1] {
								carries = true
							}
						}
					}
				}
				if !carries {
					continue
				}
				done[phi.Block()] = true
				n++
				key := fmt.Sprintf("argmin-complete:%s#%d", load.FnKey(f), n)
				if ex := floatExit(f, phi.Block()); ex != nil {
					c.Add("COVERAGE", key, core.Violation, w.At(ex.Instrs[len(ex.Instrs)-1]), "the loop that keeps the smallest distance can be left before the last candidate: whatever stops it early (\"a distance of 0 cannot be beaten\") is wrong for a metric whose distances are negative (dot), and the wrong centroid is stored", props...)
				} else {
					c.Add("COVERAGE", key, core.OK, w.Position(phi.Pos()), "", props...)
				}
			}
		}
	}
	if n == 0 {
		c.Add("COVERAGE", "anchor:argmin", core.Undecided, "", "no running-minimum loop found in the vector stores", props...)
	}
}

// foldsBehindFlag: whatever equates spellings (ToLower, ToUpper, EqualFold, a Unicode case folder)
// in the string indexes happens behind the edge on which the index is not case sensitive — in the
// function itself, or at every place the function or literal that does it is called or created. A
// change that is "the same under folding" is a change for a case-sensitive index.
func foldsBehindFlag(w *load.World, c *core.Collector) {
	props := []string{"C02"}
	isFold := func(call *ssa.Call) bool {
		switch staticName(call) {
		case "strings.ToLower", "strings.ToUpper", "strings.EqualFold", "strings.ToTitle", "bytes.ToLower", "bytes.ToUpper", "bytes.EqualFold", "unicode.ToLower", "unicode.ToUpper", "unicode.SimpleFold":
			return true
		}
		if g := call.Call.StaticCallee(); g != nil && g.Pkg != nil && strings.HasPrefix(g.Pkg.Pkg.Path(), "golang.org/x/text/cases") {
			return true
		}
		return false
	}
	guardedAt := func(f *ssa.Function, b *ssa.BasicBlock) bool {
		for _, tb := range f.Blocks {
			ifi, ok := tb.Instrs[len(tb.Instrs)-1].(*ssa.If)
			if !ok {
				continue
			}
			cond, edge := ifi.Cond, 1 // the edge on which CaseSensitive is false
			if un, ok := cond.(*ssa.UnOp); ok && un.Op == token.NOT {
				cond, edge = un.X, 0
			}
			if !ssax.Prov(cond)["field:CaseSensitive"] {
				continue
			}
			if _, isBo := cond.(*ssa.BinOp); isBo {
				continue
			}
			if ssax.OnlyViaEdge(tb, edge, b) {
				return true
			}
		}
		return false
	}
	var siteOK func(f *ssa.Function, b *ssa.BasicBlock, depth int) bool
	siteOK = func(f *ssa.Function, b *ssa.BasicBlock, depth int) bool {
		if guardedAt(f, b) {
			return true
		}
		if depth > 3 {
			return false
		}
		// a literal: where it is created
		if f.Parent() != nil {
			for _, pb := range f.Parent().Blocks {
				for _, in := range pb.Instrs {
					if mc, ok := in.(*ssa.MakeClosure); ok && mc.Fn == ssa.Value(f) {
						return siteOK(f.Parent(), pb, depth+1)
					}
				}
			}
			// without captures the literal is referred to directly
			for _, pb := range f.Parent().Blocks {
				for _, in := range pb.Instrs {
					for _, op := range in.Operands(nil) {
						if *op == ssa.Value(f) {
							return siteOK(f.Parent(), pb, depth+1)
						}
					}
				}
			}
			return false
		}
		type place struct {
			fn *ssa.Function
			b  *ssa.BasicBlock
		}
		var places []place
		for _, s := range staticCallSites(w, f) {
			places = append(places, place{s.Parent(), s.Block()})
		}
		// a named function handed on as a value ("Transform(ctx, in, lowerCaseChange)")
		for _, g := range w.Fns {
			if load.PkgPath(g) != load.PkgPath(f) {
				continue
			}
			for _, gb := range g.Blocks {
				for _, gi := range gb.Instrs {
					if ci, ok := gi.(ssa.CallInstruction); ok && ci.Common().StaticCallee() == f {
						continue
					}
					for _, op := range gi.Operands(nil) {
						if *op == ssa.Value(f) {
							places = append(places, place{g, gb})
						}
					}
				}
			}
		}
		if len(places) == 0 {
			return false
		}
		for _, pl := range places {
			if !siteOK(pl.fn, pl.b, depth+1) {
				return false
			}
		}
		return true
	}
	n := 0
	var bads []string
	for _, f := range w.Fns {
		if load.PkgPath(f) != load.Mod+"/shard/index/inverted" || f.Synthetic != "" {
			continue
		}
		for _, b := range f.Blocks {
			for _, in := range b.Instrs {
				call, ok := in.(*ssa.Call)
				if !ok || !isFold(call) {
					continue
				}
				n++
				if !siteOK(f, b, 0) {
					bads = append(bads, w.At(in))
				}
			}
		}
	}
	switch {
	case n < 4:
		c.Add("FOLD", "anchor:folds-behind-flag", core.Undecided, "", fmt.Sprintf("found %d case folds in the inverted indexes, expected at least 4", n), props...)
	case len(bads) > 0:
		sort.Strings(bads)
		c.Add("FOLD", "folds-behind-flag", core.Violation, bads[0], "spellings are equated (lower-casing, EqualFold) on a way that has not found the index to be case insensitive ("+strings.Join(bads, ", ")+"): for a case-sensitive index \"Abc\" and \"ABC\" are different values, an update from one to the other must reach the index", props...)
	default:
		c.Add("FOLD", "folds-behind-flag", core.OK, "", fmt.Sprintf("%d folds", n), props...)
	}
}

// quotaOverAllShards: the points of a collection are summed, for the quota, over the list of
// shards as it was fetched. A list that was filtered first (the full shards dropped because they
// take no more points) undercounts exactly when it matters.
func quotaOverAllShards(w *load.World, c *core.Collector) {
	props := []string{"C15"}
	f := findFn(w, "(*cluster.ClusterNode).InsertPoints")
	if f == nil {
		c.Add("QUOTA", "anchor:InsertPoints", core.Undecided, "", "ClusterNode.InsertPoints not found", props...)
		return
	}
	n := 0
	bad := ""
	// the function, its literals, and helpers of the package that are handed a list of shards
	scope := append([]*ssa.Function{f}, f.AnonFuncs...)
	handed := map[*ssa.Function][]ssa.CallInstruction{}
	for _, g := range append([]*ssa.Function{f}, f.AnonFuncs...) {
		for _, b := range g.Blocks {
			for _, in := range b.Instrs {
				h := ssax.StaticModuleCallee(in)
				if h == nil || load.PkgPath(h) != load.PkgPath(f) || len(h.Blocks) == 0 {
					continue
				}
				if len(handed[h]) == 0 {
					scope = append(scope, h)
				}
				handed[h] = append(handed[h], in.(ssa.CallInstruction))
			}
		}
	}
	for _, g := range scope {
		for _, b := range g.Blocks {
			for _, in := range b.Instrs {
				bo, ok := in.(*ssa.BinOp)
				if !ok || bo.Op != token.ADD {
					continue
				}
				// total += shard.PointCount
				var elem ssa.Value
				for _, op := range []ssa.Value{bo.X, bo.Y} {
					if tn, fn := fieldOfValue(op); fn == "PointCount" && strings.HasSuffix(tn, "shardInfo") {
						elem = op
					}
				}
				if elem == nil {
					continue
				}
				n++
				// the collection the element is taken from
				v := elem
				var coll ssa.Value
				for i := 0; i < 10 && v != nil && coll == nil; i++ {
					switch x := v.(type) {
					case *ssa.UnOp:
						v = x.X
					case *ssa.Field:
						v = x.X
					case *ssa.FieldAddr:
						v = x.X
					case *ssa.IndexAddr:
						coll = x.X
					case *ssa.Index:
						coll = x.X
					case *ssa.Alloc:
						v = ssax.SingleStore(x)
					case *ssa.Extract:
						if nx, ok := x.Tuple.(*ssa.Next); ok {
							if rg, ok := nx.Iter.(*ssa.Range); ok {
								coll = rg.X
							}
						}
						v = nil
					default:
						v = nil
					}
				}
				if coll == nil {
					if bad == "" {
						bad = w.At(in) + " (the list the count is taken from was not identified)"
					}
					continue
				}
				for i := 0; i < 4; i++ {
					if ld, ok := coll.(*ssa.UnOp); ok && ld.Op == token.MUL {
						if al, ok := ld.X.(*ssa.Alloc); ok {
							if sv := ssax.SingleStore(al); sv != nil {
								coll = sv
								continue
							}
							bad = w.At(in) + " (the list is assigned more than once)"
						}
					}
					break
				}
				// in a helper: what its callers hand it for that parameter
				if par, isPar := coll.(*ssa.Parameter); isPar && len(handed[g]) > 0 {
					idx := -1
					for i, q := range g.Params {
						if q == par {
							idx = i
						}
					}
					var args []ssa.Value
					for _, cs := range handed[g] {
						if idx >= 0 && idx < len(cs.Common().Args) {
							args = append(args, cs.Common().Args[idx])
						}
					}
					if len(args) != 1 {
						if bad == "" {
							bad = w.At(in) + " (the helper that sums is handed more than one list)"
						}
						continue
					}
					coll = args[0]
					for i := 0; i < 4; i++ {
						if ld, ok := coll.(*ssa.UnOp); ok && ld.Op == token.MUL {
							if al, ok := ld.X.(*ssa.Alloc); ok {
								if sv := ssax.SingleStore(al); sv != nil {
									coll = sv
									continue
								}
								bad = w.At(in) + " (the list is assigned more than once)"
							}
						}
						break
					}
				}
				src := coll
				if ex, ok := src.(*ssa.Extract); ok {
					src = ex.Tuple
				}
				call, ok := src.(*ssa.Call)
				if !ok {
					if bad == "" {
						bad = w.At(in)
					}
					continue
				}
				if h := call.Call.StaticCallee(); h == nil || load.PkgPath(h) != load.Mod+"/cluster" {
					bad = w.At(in)
				}
			}
		}
	}
	switch {
	case n == 0:
		c.Add("QUOTA", "sum-over-all-shards", core.Undecided, w.Position(f.Pos()), "the sum of the shards' point counts was not found in InsertPoints", props...)
	case bad != "":
		c.Add("QUOTA", "sum-over-all-shards", core.Violation, bad, "the points that count against the quota are summed over a list that is not the list of shards as it was fetched (it went through a filter or a rebuild first): the points of the shards that were dropped no longer count and requests over the quota are accepted", props...)
	default:
		c.Add("QUOTA", "sum-over-all-shards", core.OK, w.Position(f.Pos()), "", props...)
	}
}

// errorValue: the error a call returns (the call itself, or the extract of its last result).
func errorValueOf(call *ssa.Call) ssa.Value {
	res := call.Call.Signature().Results()
	if res.Len() == 0 {
		return nil
	}
	errT := types.Universe.Lookup("error").Type()
	if !types.Identical(res.At(res.Len()-1).Type(), errT) {
		return nil
	}
	if res.Len() == 1 {
		return call
	}
	for _, r := range *call.Referrers() {
		if ex, ok := r.(*ssa.Extract); ok && ex.Index == res.Len()-1 {
			return ex
		}
	}
	return nil
}

// ErrLoop: an error that is assigned inside a loop and looked at only after it. Every iteration
// overwrites the previous one's error; only the last call's failure is ever seen (deleting a
// point's three keys in a loop reports a fault on the third only).
// ErrSkip: a function returns success between a failing call and the test of its error: the
// early return was added above the check ("nothing else to persist") and swallows the failure.
func ErrLoop(w *load.World, c *core.Collector) {
	perLoop := map[string][]lintHit{}
	perSkip := map[string][]lintHit{}
	seen := map[string]bool{}
	for _, f := range w.Fns {
		if !load.InMod(f) || f.Synthetic != "" || len(f.Blocks) == 0 {
			continue
		}
		pkg := load.PkgPath(f)
		seen[pkg] = true
		for _, b := range f.Blocks {
			for _, in := range b.Instrs {
				call, ok := in.(*ssa.Call)
				if !ok {
					continue
				}
				e := errorValueOf(call)
				if e == nil {
					continue
				}
				refs := e.Referrers()
				if refs == nil {
					continue
				}
				// --- overwritten in a loop
				var hdrPhi *ssa.Phi
				onlyPhis := len(*refs) > 0
				for _, r := range *refs {
					switch x := r.(type) {
					case *ssa.Phi:
						if x.Block().Dominates(b) && x.Block() != b && ssax.Reaches(b, x.Block()) {
							hdrPhi = x
						}
					case *ssa.DebugRef:
					default:
						onlyPhis = false
					}
				}
				if onlyPhis && hdrPhi != nil {
					// the merged value is not looked at inside the loop either
					testedInLoop := false
					for _, r := range *hdrPhi.Referrers() {
						ri, ok := r.(ssa.Instruction)
						if !ok {
							continue
						}
						if _, isPhi := r.(*ssa.Phi); isPhi {
							continue
						}
						rb := ri.Block()
						if rb != nil && hdrPhi.Block().Dominates(rb) && ssax.Reaches(rb, hdrPhi.Block()) {
							testedInLoop = true
						}
					}
					if !testedInLoop {
						perLoop[pkg] = append(perLoop[pkg], lintHit{w.At(in), "the error of this call is assigned inside a loop and not looked at before the next iteration overwrites it: only the last iteration's failure is seen after the loop"})
					}
				}
				// --- success returned between the call and the test of its error
				nn, isNil := ssax.NilTests(f, e)
				if len(nn)+len(isNil) == 0 {
					continue
				}
				tests := map[*ssa.BasicBlock]bool{}
				for _, ed := range nn {
					tests[ed.From] = true
				}
				for _, ed := range isNil {
					tests[ed.From] = true
				}
				// blocks whose branch depends on the error in some other way
				for _, tb := range f.Blocks {
					if ifi, ok := tb.Instrs[len(tb.Instrs)-1].(*ssa.If); ok {
						var deps func(v ssa.Value, d int) bool
						deps = func(v ssa.Value, d int) bool {
							if v == e {
								return true
							}
							if d > 4 {
								return false
							}
							if ins, ok := v.(ssa.Instruction); ok {
								for _, op := range ins.Operands(nil) {
									if *op != nil && deps(*op, d+1) {
										return true
									}
								}
							}
							return false
						}
						if deps(ifi.Cond, 0) {
							tests[tb] = true
						}
					}
				}
				if tests[b] {
					continue // tested at once
				}
				reach := map[*ssa.BasicBlock]bool{b: true}
				stack := []*ssa.BasicBlock{b}
				for len(stack) > 0 {
					x := stack[len(stack)-1]
					stack = stack[:len(stack)-1]
					for _, s := range x.Succs {
						if !reach[s] && !tests[s] {
							reach[s] = true
							stack = append(stack, s)
						}
					}
				}
				for rb := range reach {
					r, ok := rb.Instrs[len(rb.Instrs)-1].(*ssa.Return)
					if !ok || len(r.Results) == 0 {
						continue
					}
					if rb == b && !ssax.Precedes(in, r) {
						continue
					}
					last := ssax.ReturnOperand(r, len(r.Results)-1)
					k, isK := last.(*ssa.Const)
					if !isK || !k.IsNil() || !types.Identical(last.Type(), types.Universe.Lookup("error").Type()) {
						continue
					}
					perSkip[pkg] = append(perSkip[pkg], lintHit{w.At(r), "success is returned here although the error of the call at " + w.At(in) + " has not been looked at yet (its test comes later): a failure of that call is swallowed on this way"})
				}
			}
		}
	}
	extra := func(p string) []string {
		if strings.Contains(p, "/shard") || strings.HasSuffix(p, "/diskstore") {
			return []string{"C07"}
		}
		return nil
	}
	emitLint(c, "ERRLOOP", "error-overwritten-in-loop", seen, perLoop, extra)
	emitLint(c, "ERRLOOP", "success-before-error-test", seen, perSkip, extra)
}

// pqTableFromMetric: the query's lookup table of a product quantiser holds, per sub-vector and
// centroid, the distance of the configured metric between the two — the result of the quantiser's
// distance function, not an algebraic rewrite of it (|x|²−2<x,c>+|c|² cancels catastrophically for
// large, close vectors; a clamp hides the sign).
func pqTableFromMetric(w *load.World, c *core.Collector) {
	props := []string{"C20", "C04", "C08"}
	n := 0
	bad := ""
	for _, f := range w.Fns {
		if load.PkgPath(f) != load.Mod+"/shard/vectorstore" || f.Synthetic != "" || f.Name() != "DistanceFromFloat" || f.Signature.Recv() == nil || !strings.HasSuffix(ssax.TypeName(f.Signature.Recv().Type()), "productQuantizer") {
			continue
		}
		// the function, its literals, and the helpers of the package they call (the table may be
		// filled by a method of its own)
		scope := []*ssa.Function{}
		seenFn := map[*ssa.Function]bool{}
		var collect func(g *ssa.Function, depth int)
		collect = func(g *ssa.Function, depth int) {
			if g == nil || seenFn[g] || depth > 2 || len(g.Blocks) == 0 {
				return
			}
			seenFn[g] = true
			scope = append(scope, g)
			for _, a := range g.AnonFuncs {
				collect(a, depth)
			}
			for _, gb := range g.Blocks {
				for _, gi := range gb.Instrs {
					if h := ssax.StaticModuleCallee(gi); h != nil && load.PkgPath(h) == load.PkgPath(f) {
						collect(h, depth+1)
					}
				}
			}
		}
		collect(f, 0)
		for _, g := range scope {
			for _, b := range g.Blocks {
				for _, in := range b.Instrs {
					s, ok := in.(*ssa.Store)
					if !ok {
						continue
					}
					ia, ok := s.Addr.(*ssa.IndexAddr)
					if !ok {
						continue
					}
					base := ia.X
					for i := 0; i < 3; i++ {
						if sl, isSl := base.(*ssa.Slice); isSl {
							base = sl.X // a row of the table
							continue
						}
						break
					}
					if ld, isLd := base.(*ssa.UnOp); isLd && ld.Op == token.MUL {
						if al, isAl := ld.X.(*ssa.Alloc); isAl {
							if sv := ssax.SingleStore(al); sv != nil {
								base = sv
							}
						} else if fv, isFv := ld.X.(*ssa.FreeVar); isFv {
							if cell := capturedCell(fv); cell != nil {
								if sv := ssax.SingleStore(cell); sv != nil {
									base = sv
								}
							}
						}
					}
					if _, isMake := base.(*ssa.MakeSlice); !isMake {
						continue
					}
					if bt, ok := s.Val.Type().Underlying().(*types.Basic); !ok || bt.Kind() != types.Float32 {
						continue
					}
					n++
					okVal := false
					if call, isCall := s.Val.(*ssa.Call); isCall && !call.Call.IsInvoke() {
						if ld, isLd := call.Call.Value.(*ssa.UnOp); isLd && ld.Op == token.MUL {
							if fa, isFa := ld.X.(*ssa.FieldAddr); isFa && strings.HasSuffix(fieldOf(fa), ".distFn") {
								okVal = true
							}
						}
					}
					if !okVal {
						bad = w.At(in)
					}
				}
			}
		}
	}
	switch {
	case n == 0:
		c.Add("QDIST", "pq-table-from-metric", core.Undecided, "", "the lookup table of the product quantiser's query distance was not found", props...)
	case bad != "":
		c.Add("QDIST", "pq-table-from-metric", core.Violation, bad, "an entry of the product quantiser's query table is not the result of the configured distance function on the sub-vector and the centroid (it is computed some other way: an expansion by norms, a clamp): the reported distances differ from the metric's, catastrophically for large vectors that are close together", props...)
	default:
		c.Add("QDIST", "pq-table-from-metric", core.OK, "", "", props...)
	}
}
