package rules

import (
	"semaverif/internal/core"
	"semaverif/internal/load"
)

// RunAll runs the rules that do not need the lockset engine.
func RunAll(w *load.World, c *core.Collector) {
	TxState(w, c)
	Scrap(w, c)
	Join(w, c)
	Errs(w, c)
	Keys(w, c)
	Flush(w, c)
	Dirty(w, c)
	ItemFlags(w, c)
	Pair(w, c)
	DocFlow(w, c)
	GraphOrdering(w, c)
	Enum(w, c)
	Limits(w, c)
	Tagged(w, c)
	Fold(w, c)
	Purity(w, c)
	Route(w, c)
	Fanout(w, c)
	RetryLoop(w, c)
	Sorted(w, c)
	Rank(w, c)
	Merge(w, c)
	QDist(w, c)
	Transfer(w, c)
	Quota(w, c)
	Lifecycle(w, c)
	Valid(w, c)
	VecLen(w, c)
	HandBuilt(w, c)
	Tenant(w, c)
	OpTable(w, c)
	Scan(w, c)
	TypeTab(w, c)
	Sortable(w, c)
	Layout(w, c)
	BitPack(w, c)
	Coverage(w, c)
	Asm(w, c)
	Borrow(w, c)
}
