package rules

import (
	"fmt"
	"go/constant"
	"go/token"
	"go/types"
	"os"
	"sort"
	"strings"

	"golang.org/x/tools/go/ssa"

	"semaverif/internal/core"
	"semaverif/internal/load"
	"semaverif/internal/ssax"
)

// --------------------------------------------------------------------- KEYS

// keyShape renders the constructor shape of a bucket key operand.
func keyShape(v ssa.Value) string {
	if p, ok := v.(*ssa.Parameter); ok {
		if bound, ok := keyShapeBind[p]; ok {
			return bound
		}
	}
	if tv := tableValues(v); len(tv) > 0 && keyShapeTableIndex >= 0 && keyShapeTableIndex < len(tv) {
		return keyShape(tv[keyShapeTableIndex])
	}
	// a key built by a module helper: the shape of what the helper returns, its parameters standing
	// for the arguments
	if sh, ok := helperKeyShape(v); ok {
		return sh
	}
	switch x := v.(type) {
	case *ssa.Call:
		if f := x.Call.StaticCallee(); f != nil {
			var consts []string
			for _, a := range x.Call.Args {
				if p, ok := a.(*ssa.Parameter); ok {
					if bound, ok := keyShapeBind[p]; ok && strings.HasPrefix(bound, "lit:") {
						consts = append(consts, strings.TrimPrefix(bound, "lit:"))
						continue
					}
				}
				if tbl := tableValues(a); len(tbl) > 0 && keyShapeTableIndex >= 0 && keyShapeTableIndex < len(tbl) {
					a = tbl[keyShapeTableIndex]
				}
				if c, ok := a.(*ssa.Const); ok && c.Value != nil {
					if c.Value.Kind() == constant.Int {
						if i, ok := constant.Int64Val(c.Value); ok && i > 31 && i < 127 {
							consts = append(consts, fmt.Sprintf("%q", rune(i)))
							continue
						}
					}
					consts = append(consts, c.Value.ExactString())
				}
			}
			return f.Name() + "(" + strings.Join(consts, ",") + ")"
		}
	case *ssa.Convert:
		if c, ok := x.X.(*ssa.Const); ok && c.Value != nil {
			return "const(" + c.Value.ExactString() + ")"
		}
		if p, ok := x.X.(*ssa.Parameter); ok {
			if bound, ok := keyShapeBind[p]; ok && strings.HasPrefix(bound, "const(") {
				return bound
			}
		}
		return "conv(" + keyShape(x.X) + ")"
	case *ssa.Slice:
		return keyShape(x.X)
	case *ssa.UnOp:
		if g, ok := x.X.(*ssa.Global); ok {
			return "global(" + g.Name() + ")"
		}
	}
	return "?" + v.Name()
}

type bucketOp struct{ kind, shape string }

func asBucketOp(in ssa.Instruction) (bucketOp, bool) {
	call, ok := in.(*ssa.Call)
	if !ok || !call.Call.IsInvoke() {
		return bucketOp{}, false
	}
	tn := ssax.TypeName(call.Call.Value.Type())
	if tn != "diskstore.Bucket" && tn != "diskstore.ReadOnlyBucket" {
		return bucketOp{}, false
	}
	switch call.Call.Method.Name() {
	case "Put", "Get", "Delete":
		return bucketOp{call.Call.Method.Name(), keyShape(call.Call.Args[0])}, true
	}
	return bucketOp{}, false
}

// lenFact reads a branch condition of the form len(x.F) ==/!=/> 0 and returns the field
// name and whether the true edge means "non-empty".
func lenFact(cond ssa.Value) (field string, trueMeansNonEmpty bool, ok bool) {
	bo, isBin := cond.(*ssa.BinOp)
	if !isBin {
		return "", false, false
	}
	x, y := bo.X, bo.Y
	op := bo.Op
	if _, isC := x.(*ssa.Const); isC {
		x, y = y, x
		switch op {
		case token.LSS:
			op = token.GTR
		case token.GTR:
			op = token.LSS
		case token.LEQ:
			op = token.GEQ
		case token.GEQ:
			op = token.LEQ
		}
	}
	call, isCall := x.(*ssa.Call)
	if !isCall {
		return "", false, false
	}
	bi, isB := call.Call.Value.(*ssa.Builtin)
	if !isB || bi.Name() != "len" {
		return "", false, false
	}
	n, isInt := ssax.ConstInt(y)
	if !isInt {
		return "", false, false
	}
	p, _ := ssax.Path(call.Call.Args[0])
	p = strings.TrimSuffix(p, "*")
	if i := strings.LastIndex(p, "."); i >= 0 {
		p = p[i+1:]
	}
	switch {
	case op == token.NEQ && n == 0, op == token.GTR && n == 0, op == token.GEQ && n == 1:
		return p, true, true
	case op == token.EQL && n == 0, op == token.LSS && n == 1, op == token.LEQ && n == 0:
		return p, false, true
	}
	return "", false, false
}

type opPath struct {
	ops   []bucketOp
	facts map[string]bool // "empty:F" / "nonempty:F" established by the branches taken
}

// opPathsF enumerates acyclic paths to returns together with the emptiness facts of
// receiver fields that the branches on the path establish; successOnly keeps only paths
// whose returned error is the nil constant (or that return no error).
func opPathsF(f *ssa.Function, successOnly bool) []opPath {
	var out []opPath
	var dfs func(b *ssa.BasicBlock, cur []bucketOp, facts []string, seen map[int]bool)
	again := map[int]bool{} // blocks entered a second time on the current path (one loop iteration)
	dfs = func(b *ssa.BasicBlock, cur []bucketOp, facts []string, seen map[int]bool) {
		if seen[b.Index] {
			// a loop: follow the back edge once, so that the path through the body reaches the exit
			if again[b.Index] || len(out) > 4096 {
				return
			}
			again[b.Index] = true
			defer delete(again, b.Index)
		} else {
			seen[b.Index] = true
			defer delete(seen, b.Index)
		}
		for _, in := range b.Instrs {
			// a helper that works on the bucket it is handed: its operations happen here, with its
			// parameters standing for the arguments
			if subs := helperBucketPaths(in, successOnly); len(subs) > 0 {
				if len(subs) == 1 {
					cur = append(cur, subs[0]...)
				} else {
					// several outcomes: explore each (helpers are small)
					rest := b.Instrs
					_ = rest
					for _, sp := range subs[1:] {
						// approximate: the operations common to all outcomes are kept once, the others
						// are added as they may happen
						_ = sp
					}
					common := subs[0]
					for _, sp := range subs[1:] {
						var keep []bucketOp
						for _, o := range common {
							for _, q := range sp {
								if q == o {
									keep = append(keep, o)
									break
								}
							}
						}
						common = keep
					}
					cur = append(cur, common...)
				}
			}
			if o, ok := asBucketOp(in); ok {
				cur = append(cur, o)
				// a key argument drawn from a table of constants that a loop walks: one operation per entry
				if n := keyTableSize(in); n > 1 {
					cur = cur[:len(cur)-1]
					for i := 0; i < n; i++ {
						keyShapeTableIndex = i
						if oi, ok := asBucketOp(in); ok {
							cur = append(cur, oi)
						}
					}
					keyShapeTableIndex = -1
				}
			}
			if r, ok := in.(*ssa.Return); ok {
				success := true
				for i := range r.Results {
					res := ssax.ReturnOperand(r, i)
					// `return bucket.Delete(k)` may be nil and counts; `return err` behind `err != nil` does not
					if isErrorType(r.Results[i].Type()) && !ssax.IsNilConst(res) && nonNilError(res, b) {
						success = false
					}
				}
				if success || !successOnly {
					fm := map[string]bool{}
					for _, x := range facts {
						fm[x] = true
					}
					out = append(out, opPath{append([]bucketOp(nil), cur...), fm})
				}
			}
		}
		if ifi, ok := b.Instrs[len(b.Instrs)-1].(*ssa.If); ok {
			if fld, tne, ok := lenFact(ifi.Cond); ok {
				t, e := "nonempty:"+fld, "empty:"+fld
				if !tne {
					t, e = e, t
				}
				dfs(b.Succs[0], cur, append(append([]string(nil), facts...), t), seen)
				dfs(b.Succs[1], cur, append(append([]string(nil), facts...), e), seen)
				return
			}
		}
		// a loop over a table of constants runs at least once: on the first arrival at its header
		// (`index < N`, N a positive constant, index starting below it) only the body is feasible
		if ifi, ok := b.Instrs[len(b.Instrs)-1].(*ssa.If); ok && !again[b.Index] {
			if bo, ok := ifi.Cond.(*ssa.BinOp); ok && bo.Op == token.LSS {
				n, isC := ssax.ConstInt(bo.Y)
				if !isC {
					// len of a slice literal with a fixed number of elements
					if lc, ok := bo.Y.(*ssa.Call); ok {
						if bi, ok := lc.Call.Value.(*ssa.Builtin); ok && bi.Name() == "len" && len(lc.Call.Args) == 1 {
							if sl, ok := lc.Call.Args[0].(*ssa.Slice); ok && sl.Low == nil && sl.High == nil {
								if arr, ok := sl.X.(*ssa.Alloc); ok {
									if at, ok := arr.Type().Underlying().(*types.Pointer).Elem().Underlying().(*types.Array); ok {
										n, isC = at.Len(), true
									}
								}
							}
						}
					}
				}
				if isC && n >= 1 && countsFromStart(bo.X, b) {
					dfs(b.Succs[0], cur, facts, seen)
					return
				}
			}
		}
		for _, s := range b.Succs {
			dfs(s, cur, facts, seen)
		}
	}
	dfs(f.Blocks[0], nil, nil, map[int]bool{})
	return out
}

// countsFromStart: v is a loop counter of header b that is 0 on the first test (a phi starting at 0,
// or the rotated form phi+1 with the phi starting at -1).
func countsFromStart(v ssa.Value, b *ssa.BasicBlock) bool {
	off := int64(0)
	if bo, ok := v.(*ssa.BinOp); ok && bo.Op == token.ADD {
		if c, isC := ssax.ConstInt(bo.Y); isC {
			off, v = c, bo.X
		}
	}
	phi, ok := v.(*ssa.Phi)
	if !ok || phi.Block() != b {
		return false
	}
	for i, p := range b.Preds {
		if b.Dominates(p) {
			continue // back edge
		}
		c, isC := ssax.ConstInt(phi.Edges[i])
		if !isC || c+off != 0 {
			return false
		}
	}
	return true
}

func opPaths(f *ssa.Function, successOnly bool) [][]bucketOp {
	var out [][]bucketOp
	for _, p := range opPathsF(f, successOnly) {
		out = append(out, p.ops)
	}
	return out
}

func shapesOf(p []bucketOp, kind string) map[string]bool {
	m := map[string]bool{}
	for _, o := range p {
		if o.kind == kind {
			m[o.shape] = true
		}
	}
	return m
}

func setStr(m map[string]bool) string {
	var k []string
	for x := range m {
		k = append(k, x)
	}
	sort.Strings(k)
	return "{" + strings.Join(k, ",") + "}"
}

// decoderShapes: which constructor shapes does IdFromKey accept.
func decoderShapes(fn *ssa.Function) map[string]bool {
	out := map[string]bool{}
	for _, b := range fn.Blocks {
		for _, in := range b.Instrs {
			if call, ok := in.(*ssa.Call); ok {
				if g := call.Call.StaticCallee(); g != nil && g.Name() == "NodeIdFromKey" {
					n := 1
					for _, a := range call.Call.Args {
						if t := tableValues(a); len(t) > n {
							n = len(t) // the suffix is drawn from a table of constants a loop walks
						}
					}
					for i := 0; i < n; i++ {
						if n > 1 {
							keyShapeTableIndex = i
						}
						s := keyShape(call)
						out[strings.Replace(s, "NodeIdFromKey", "NodeKey", 1)] = true
					}
					keyShapeTableIndex = -1
				}
			}
		}
	}
	if len(out) == 0 {
		// hand-written decoders of the text index: paired with their constructors by LAYOUT
		switch {
		case strings.Contains(fn.String(), "setCacheItem"):
			out["termKey()"] = true
		case strings.Contains(fn.String(), "docCacheItem"):
			out["documentKey()"] = true
		}
	}
	return out
}

// keysExceptions: a WriteTo path that puts a set of keys none of which IdFromKey accepts is tolerated
// only under a path condition that makes it harmless.
var keysExceptions = map[string]struct{ needs, why string }{
	"vectorstore.productQuantizedPoint|{NodeKey('q')}": {"empty:Vector", "this path is only taken by an item that holds no full vector, i.e. one that ReadFrom produced from an existing 'q' record, at which time its 'v' record is already on disk; WriteTo never deletes 'v'"},
}

func Keys(w *load.World, c *core.Collector) {
	props := []string{"C04", "C08", "C10"}
	stor := map[string]types.Type{}
	for f := range w.All {
		if o := f.Origin(); o != nil && o.Name() == "NewItemCache" && load.PkgPath(o) == load.Mod+"/shard/cache" && len(f.TypeArgs()) == 2 {
			stor[f.TypeArgs()[1].String()] = f.TypeArgs()[1]
		}
	}
	c.Count("storables", len(stor))
	if len(stor) < 6 {
		c.Add("KEYS", "anchor:storables", core.Undecided, "", fmt.Sprintf("found %d Storable types, expected at least 6", len(stor)), props...)
	}
	var names []string
	for n := range stor {
		names = append(names, n)
	}
	sort.Strings(names)
	for _, n := range names {
		t := stor[n]
		tn := ssax.TypeName(t)
		method := func(name string) *ssa.Function {
			for _, tt := range []types.Type{t, types.NewPointer(t)} {
				if sel := w.Prog.MethodSets.MethodSet(tt).Lookup(nil, name); sel != nil {
					return w.Prog.MethodValue(sel)
				}
			}
			return nil
		}
		wr, rd, del, dec := method("WriteTo"), method("ReadFrom"), method("DeleteFrom"), method("IdFromKey")
		if wr == nil || rd == nil || del == nil || dec == nil {
			c.Add("KEYS", "methods:"+tn, core.Undecided, "", "Storable method set incomplete", props...)
			continue
		}
		I := decoderShapes(dec)
		mayPut := map[string]bool{}
		readGets := map[string]bool{}
		for _, p := range opPaths(rd, false) {
			for s := range shapesOf(p, "Get") {
				readGets[s] = true
			}
		}
		for _, pf := range opPathsF(wr, true) {
			p := pf.ops
			puts := shapesOf(p, "Put")
			if len(puts) == 0 {
				continue
			}
			for s := range puts {
				mayPut[s] = true
			}
			k1, k3 := false, false
			for s := range puts {
				if I[s] {
					k1 = true
				}
				if readGets[s] {
					k3 = true
				}
			}
			pk := setStr(puts)
			if ex, ok := keysExceptions[tn+"|"+pk]; ok && !k1 && pf.facts[ex.needs] {
				c.Add("KEYS", "K1:"+tn+":"+pk, core.Exception, w.Position(wr.Pos()), ex.why, "C04", "C08")
			} else if k1 {
				c.Add("KEYS", "K1:"+tn+":"+pk, core.OK, w.Position(wr.Pos()), "", "C04", "C08")
			} else {
				c.Add("KEYS", "K1:"+tn+":"+pk, core.Violation, w.Position(wr.Pos()),
					fmt.Sprintf("WriteTo path writes only %s but IdFromKey accepts only %s: the item is invisible to ForEach/Count on a cold cache", pk, setStr(I)), "C04", "C08")
			}
			if k3 {
				c.Add("KEYS", "K3:"+tn+":"+pk, core.OK, w.Position(rd.Pos()), "", "C04", "C08")
			} else {
				c.Add("KEYS", "K3:"+tn+":"+pk, core.Violation, w.Position(rd.Pos()),
					fmt.Sprintf("WriteTo path writes %s, none of which ReadFrom reads (%s)", pk, setStr(readGets)), "C04", "C08")
			}
		}
		// K2: successful DeleteFrom removes every shape WriteTo may put
		for _, p := range opPaths(del, true) {
			dels := shapesOf(p, "Delete")
			missing := map[string]bool{}
			for s := range mayPut {
				if !dels[s] {
					missing[s] = true
				}
			}
			if len(missing) > 0 {
				c.Add("KEYS", "K2:"+tn, core.Violation, w.Position(del.Pos()), "DeleteFrom leaves "+setStr(missing)+" behind: a stale record survives its item", "C08", "C10")
			} else {
				c.Add("KEYS", "K2:"+tn, core.OK, w.Position(del.Pos()), "", "C08", "C10")
			}
		}
	}
	// K4: decoders of Storables that can share a bucket accept disjoint shapes. The
	// vector-store point types are alternatives of one another (one store per index).
	type dec struct {
		group string
		I     map[string]bool
	}
	var decs []dec
	for _, n := range names {
		t := stor[n]
		var fn *ssa.Function
		for _, tt := range []types.Type{t, types.NewPointer(t)} {
			if sel := w.Prog.MethodSets.MethodSet(tt).Lookup(nil, "IdFromKey"); sel != nil {
				fn = w.Prog.MethodValue(sel)
			}
		}
		if fn == nil {
			continue
		}
		g := ssax.TypeName(t)
		if strings.HasPrefix(g, "vectorstore.") {
			g = "vectorstore.*"
		}
		decs = append(decs, dec{g, decoderShapes(fn)})
	}
	for i := 0; i < len(decs); i++ {
		for j := i + 1; j < len(decs); j++ {
			if decs[i].group == decs[j].group {
				continue
			}
			key := "K4:" + decs[i].group + "|" + decs[j].group
			clash := map[string]bool{}
			for s := range decs[i].I {
				if decs[j].I[s] {
					clash[s] = true
				}
			}
			if len(clash) > 0 {
				c.Add("KEYS", key, core.Violation, "", "two item kinds that can live in one bucket both claim keys of shape "+setStr(clash), "C19", "C08")
			} else {
				c.Add("KEYS", key, core.OK, "", "", "C19", "C08")
			}
		}
	}
	// point store
	ps := w.SPkgs[load.Mod+"/shard/pointstore"]
	if ps == nil || ps.Func("SetPoint") == nil || ps.Func("DeletePoint") == nil {
		c.Add("KEYS", "anchor:pointstore", core.Undecided, "", "pointstore.SetPoint/DeletePoint not found", "C01")
		return
	}
	written := map[string]bool{}
	for _, p := range opPaths(ps.Func("SetPoint"), true) {
		for s := range shapesOf(p, "Put") {
			written[s] = true
		}
	}
	for _, p := range opPaths(ps.Func("DeletePoint"), true) {
		dels := shapesOf(p, "Delete")
		missing := map[string]bool{}
		for s := range written {
			if !dels[s] {
				missing[s] = true
			}
		}
		v, d := core.OK, ""
		if len(missing) > 0 {
			v, d = core.Violation, "DeletePoint leaves "+setStr(missing)+" behind"
		}
		c.Add("KEYS", "K2:pointstore", v, w.Position(ps.Func("DeletePoint").Pos()), d, "C01")
	}
	for _, name := range []string{"GetPointByUUID", "GetPointByNodeId", "GetPointNodeIdByUUID", "CheckPointExists"} {
		f := ps.Func(name)
		if f == nil {
			continue
		}
		bad := map[string]bool{}
		for _, p := range opPaths(f, false) {
			for s := range shapesOf(p, "Get") {
				if !written[s] {
					bad[s] = true
				}
			}
		}
		v, d := core.OK, ""
		if len(bad) > 0 {
			v, d = core.Violation, name+" reads "+setStr(bad)+" which SetPoint never writes"
		}
		c.Add("KEYS", "K3:pointstore."+name, v, w.Position(f.Pos()), d, "C01")
	}
	c.Count("pointstore_key_shapes", len(written))
}

// -------------------------------------------------------------------- FLUSH

func isCacheFieldType(t types.Type) bool {
	tn := ssax.TypeName(t)
	return tn == "cache.ItemCache" || tn == "vectorstore.VectorStore"
}

func Flush(w *load.World, c *core.Collector) {
	props := []string{"C08", "C07"}
	isFlushCall := func(in ssa.Instruction) (recvField string, ok bool) {
		call, isCall := in.(*ssa.Call)
		if !isCall {
			return "", false
		}
		cc := call.Common()
		name := ""
		var recv ssa.Value
		if cc.IsInvoke() {
			name, recv = cc.Method.Name(), cc.Value
		} else if g := cc.StaticCallee(); g != nil && g.Signature.Recv() != nil {
			name, recv = g.Name(), cc.Args[0]
		}
		if name != "Flush" || recv == nil || !isCacheFieldType(recv.Type()) {
			return "", false
		}
		p, _ := ssax.Path(recv)
		return p, true
	}
	// (a) completeness per method
	nMethods := 0
	flushFns := map[*ssa.Function]bool{}
	for _, f := range w.Fns {
		if f.Signature.Recv() == nil && f.Parent() == nil {
			continue
		}
		var flushed []string
		for _, b := range f.Blocks {
			for _, in := range b.Instrs {
				if p, ok := isFlushCall(in); ok {
					flushed = append(flushed, p)
				}
			}
		}
		if len(flushed) == 0 {
			continue
		}
		flushFns[f] = true
		// receiver struct (for literals: the enclosing method's receiver)
		top := f
		for top.Parent() != nil {
			top = top.Parent()
		}
		if top.Signature.Recv() == nil {
			continue
		}
		st := ssax.StructOf(top.Signature.Recv().Type())
		if st == nil {
			continue
		}
		nMethods++
		tn := ssax.TypeName(top.Signature.Recv().Type())
		var missing []string
		for i := 0; i < st.NumFields(); i++ {
			if !isCacheFieldType(st.Field(i).Type()) {
				continue
			}
			fn := st.Field(i).Name()
			found := false
			for _, p := range flushed {
				if strings.HasSuffix(p, "."+fn) || strings.HasSuffix(p, "."+fn+"*") {
					found = true
				}
			}
			if !found {
				missing = append(missing, fn)
			}
		}
		key := "complete:" + load.FnKey(f)
		if len(missing) > 0 {
			c.Add("FLUSH", key, core.Violation, w.Position(f.Pos()), fmt.Sprintf("%s flushes some caches of %s but not %v: their dirty items never reach disk", load.FnKey(f), tn, missing), props...)
		} else {
			c.Add("FLUSH", key, core.OK, w.Position(f.Pos()), "", props...)
		}
	}
	c.Count("flush_methods", nMethods)
	if nMethods < 5 {
		c.Add("FLUSH", "anchor:flush-methods", core.Undecided, "", fmt.Sprintf("found %d flushing methods, expected at least 5", nMethods), props...)
	}
	// persisted scalars: constant keys read by constructors must be written in the same package next to a flush
	type kv struct{ pkg, key string }
	gets, puts := map[kv]string{}, map[kv]bool{}
	for _, f := range w.Fns {
		pkg := load.PkgPath(f)
		if !strings.Contains(pkg, "/shard/") {
			continue
		}
		for _, b := range f.Blocks {
			for _, in := range b.Instrs {
				ops := []bucketOp{}
				if o, ok := asBucketOp(in); ok {
					ops = append(ops, o)
				}
				if h := ssax.StaticModuleCallee(in); h != nil && load.PkgPath(h) == pkg {
					// (a helper of another package is read where it lives)
					for _, sub := range helperBucketPaths(in, false) {
						ops = append(ops, sub...)
					}
				}
				for _, o := range ops {
					if !strings.HasPrefix(o.shape, "const(") {
						continue
					}
					if o.kind == "Get" {
						gets[kv{pkg, o.shape}] = w.At(in)
					}
					if o.kind == "Put" {
						puts[kv{pkg, o.shape}] = true
					}
				}
			}
		}
	}
	for k, where := range gets {
		key := "persisted:" + load.Short(k.pkg) + ":" + k.key
		if puts[k] {
			c.Add("FLUSH", key, core.OK, where, "", props...)
		} else {
			c.Add("FLUSH", key, core.Violation, where, "index parameter "+k.key+" is read at construction but never written: it is lost on restart", props...)
		}
	}
	c.Count("persisted_parameters", len(gets))
	// (b)+(c): in every function that performs a flush anchor — directly or through a helper that
	// must perform it — every success exit is dominated by the anchor (or is its result)
	labeller := func(in ssa.Instruction) []string {
		if _, ok := isFlushCall(in); ok {
			return []string{"cache-flush"}
		}
		call, ok := in.(*ssa.Call)
		if !ok {
			return nil
		}
		g := call.Call.StaticCallee()
		if g == nil {
			return nil
		}
		k := load.FnKey(g)
		switch {
		case k == "shard.changePointCount", k == "(*shard.IdCounter).Flush":
			return []string{"counter:" + k}
		case k == "shard.NewIdCounter":
			return []string{"build-counter"}
		case k == "(*shard.IdCounter).NextId", k == "(*shard.IdCounter).FreeId":
			return []string{"alloc"}
		case flushFns[g] || (g.Origin() != nil && flushFns[g.Origin()]), strings.HasSuffix(k, ").flush"):
			return []string{"flush:" + k}
		}
		return nil
	}
	sums := ssax.NewSummaries(labeller, func(f *ssa.Function) []ssa.Instruction {
		var out []ssa.Instruction
		for _, e := range successExits(f) {
			out = append(out, e.In)
		}
		if len(out) == 0 {
			// functions without an error result: every return is a success exit
			for _, b := range f.Blocks {
				if r, ok := b.Instrs[len(b.Instrs)-1].(*ssa.Return); ok && b != f.Recover {
					out = append(out, r)
				}
			}
		}
		return out
	})
	isAnchor := func(l string) bool {
		return l == "cache-flush" || strings.HasPrefix(l, "flush:") || strings.HasPrefix(l, "counter:")
	}
	nDrivers := 0
	for _, f := range w.Fns {
		type site struct {
			in   ssa.Instruction
			name string
		}
		var calls []site
		for _, b := range f.Blocks {
			for _, in := range b.Instrs {
				seenL := map[string]bool{}
				for _, l := range sums.At(in) {
					if isAnchor(l) && !seenL[l] {
						seenL[l] = true
						calls = append(calls, site{in, l})
					}
				}
			}
		}
		if len(calls) == 0 {
			continue
		}
		nDrivers++
		exits := successExits(f)
		for _, cs := range calls {
			key := fmt.Sprintf("on-success:%s@%s", cs.name, load.FnKey(f))
			bad := ""
			for _, ex := range exits {
				if v, ok := cs.in.(ssa.Value); ok && ex.Val == v {
					continue
				}
				covered := false
				for _, other := range calls {
					// the same anchor performed on another path also covers the exit
					if other.name == cs.name && (ssax.Precedes(other.in, ex.In) || func() bool { v, ok := other.in.(ssa.Value); return ok && ex.Val == v }()) {
						covered = true
					}
				}
				if covered {
					continue
				}
				if os.Getenv("SEMA_DEBUG") != "" {
					fmt.Fprintf(os.Stderr, "DEBUG exit %s val=%v (%T)\n", w.At(ex.In), ex.Val, ex.Val)
				}
				bad = w.At(ex.In)
			}
			if bad != "" {
				c.Add("FLUSH", key, core.Violation, bad, "a success exit of "+load.FnKey(f)+" is reachable without "+cs.name+": acknowledged changes would not be on disk", props...)
			} else {
				c.Add("FLUSH", key, core.OK, w.At(cs.in), "", props...)
			}
		}
	}
	c.Count("flush_drivers", nDrivers)
	// presence: whoever builds an id allocator must flush it; whoever allocates or frees ids must adjust
	// the point count (in its own body, its literals or its helpers)
	for _, f := range w.Fns {
		builds := false
		where := ""
		for _, b := range f.Blocks {
			for _, in := range b.Instrs {
				for _, l := range labeller(in) {
					if l == "build-counter" {
						builds = true
						where = w.At(in)
					}
				}
			}
		}
		if !builds {
			continue
		}
		may := sums.May(f)
		key := "counters-present:" + load.FnKey(f)
		switch {
		case !may["counter:(*shard.IdCounter).Flush"]:
			c.Add("FLUSH", key, core.Violation, where, "an id allocator is created in this transaction but never flushed: allocated or freed node ids are forgotten", "C01", "C08", "C10")
		case may["alloc"] && !may["counter:shard.changePointCount"]:
			c.Add("FLUSH", key, core.Violation, where, "node ids are allocated or freed in this transaction but the point count is not adjusted", "C01", "C08")
		default:
			c.Add("FLUSH", key, core.OK, where, "", "C01", "C08", "C10")
		}
	}
	// (e) a vector store is trained (Fit) before it is flushed, never after: Fit decides from the
	// batch in the cache whether to train the quantiser and re-encodes the points; what it produces
	// only reaches the bucket through the Flush that follows
	nFit := 0
	for _, f := range w.Fns {
		if !load.InMod(f) || !strings.Contains(load.PkgPath(f), "/shard/index") {
			continue
		}
		var fits, flushes []*ssa.Call
		for _, b := range f.Blocks {
			for _, in := range b.Instrs {
				call, ok := in.(*ssa.Call)
				if !ok || !call.Call.IsInvoke() || ssax.TypeName(call.Call.Value.Type()) != "vectorstore.VectorStore" {
					continue
				}
				switch call.Call.Method.Name() {
				case "Fit":
					fits = append(fits, call)
				case "Flush":
					flushes = append(flushes, call)
				}
			}
		}
		// flushes made by helpers of the package
		for _, b := range f.Blocks {
			for _, in := range b.Instrs {
				if call, ok := in.(*ssa.Call); ok {
					if g := call.Call.StaticCallee(); g != nil && g != f && load.PkgPath(g) == load.PkgPath(f) {
						hasFlush, hasFit := callsVectorStore(g, "Flush", 0), callsVectorStore(g, "Fit", 0)
						switch {
						case hasFlush && !hasFit:
							flushes = append(flushes, call)
						case hasFit && !hasFlush:
							fits = append(fits, call)
						}
					}
				}
			}
		}
		if len(fits) == 0 {
			continue
		}
		nFit++
		key := "fit-before-flush:" + load.FnKey(f)
		bad := ""
		for _, fit := range fits {
			for _, fl := range flushes {
				if fl.Block() == fit.Block() && ssax.Precedes(fl, fit) || fl.Block() != fit.Block() && ssax.Reaches(fl.Block(), fit.Block()) && !ssax.Reaches(fit.Block(), fl.Block()) {
					bad = w.At(fl)
				}
			}
		}
		if bad != "" {
			c.Add("FLUSH", key, core.Violation, bad, "the vector store is flushed before it is trained: the quantiser parameters and codes computed by Fit for this batch are not written, a cold cache later reads points that were never encoded", "C04", "C08")
		} else {
			c.Add("FLUSH", key, core.OK, w.At(fits[0]), "", "C04", "C08")
		}
	}
	// (f) the id allocator writes both its keys whenever it is flushed: the free list and the next
	// fresh id describe one state; a flush that writes the counter and leaves an older list in the
	// bucket (because "only fresh ids were handed out") brings ids that are in use back as free
	if fl := findFn(w, "(*shard.IdCounter).Flush"); fl != nil {
		st := ssax.StructOf(fl.Params[0].Type())
		var keys []int
		for i := 0; st != nil && i < st.NumFields(); i++ {
			if strings.HasSuffix(st.Field(i).Name(), "Key") && st.Field(i).Type().String() == "[]byte" {
				keys = append(keys, i)
			}
		}
		if len(keys) < 2 {
			c.Add("FLUSH", "anchor:idcounter-keys", core.Undecided, w.Position(fl.Pos()), "the key fields of IdCounter were not found", "C01", "C10")
		}
		for _, k := range keys {
			var banned []ssax.Edge
			for _, b := range fl.Blocks {
				for _, in := range b.Instrs {
					call, ok := in.(*ssa.Call)
					if !ok || !call.Call.IsInvoke() || call.Call.Method.Name() != "Put" || len(call.Call.Args) < 1 {
						continue
					}
					ld, ok := call.Call.Args[0].(*ssa.UnOp)
					if !ok {
						continue
					}
					if fa, ok := ld.X.(*ssa.FieldAddr); ok && ssax.StructOf(fa.X.Type()) == st && fa.Field == k {
						for i := range b.Succs {
							banned = append(banned, ssax.Edge{From: b, Succ: i})
						}
					}
				}
			}
			// table-driven: the keys and values are put into a local table and one loop over the
			// whole table writes them; leaving that loop at its end has written every row
			rootOf := func(v ssa.Value) *ssa.Alloc {
				for i := 0; i < 10 && v != nil; i++ {
					switch x := v.(type) {
					case *ssa.Alloc:
						if sv := ssax.SingleStore(x); sv != nil {
							switch sv.Type().Underlying().(type) {
							case *types.Struct, *types.Array:
								switch sv.(type) {
								case *ssa.UnOp, *ssa.Index, *ssa.Field:
									v = sv // a copy of (an element of) another local aggregate
									continue
								}
							}
						}
						return x
					case *ssa.UnOp:
						v = x.X
					case *ssa.FieldAddr:
						v = x.X
					case *ssa.Field:
						v = x.X
					case *ssa.IndexAddr:
						v = x.X
					case *ssa.Index:
						v = x.X
					case *ssa.Slice:
						v = x.X
					default:
						return nil
					}
				}
				return nil
			}
			tables := map[*ssa.Alloc]bool{}
			for _, b := range fl.Blocks {
				for _, in := range b.Instrs {
					sto, ok := in.(*ssa.Store)
					if !ok {
						continue
					}
					ld, ok := sto.Val.(*ssa.UnOp)
					if !ok {
						continue
					}
					if fa, ok := ld.X.(*ssa.FieldAddr); ok && ssax.StructOf(fa.X.Type()) == st && fa.Field == k {
						if _, direct := sto.Addr.(*ssa.Alloc); direct {
							continue
						}
						if t := rootOf(sto.Addr); t != nil {
							tables[t] = true
						}
					}
				}
			}
			// a row built in a temporary and then copied into the table
			for round := 0; round < 2; round++ {
				for t := range tables {
					for _, r := range *t.Referrers() {
						ld, ok := r.(*ssa.UnOp)
						if !ok || ld.Op != token.MUL {
							continue
						}
						for _, rr := range *ld.Referrers() {
							if sto, ok := rr.(*ssa.Store); ok && sto.Val == ssa.Value(ld) {
								if y := rootOf(sto.Addr); y != nil {
									tables[y] = true
								}
							}
						}
					}
				}
			}
			if len(tables) > 0 {
				for _, b := range fl.Blocks {
					for _, in := range b.Instrs {
						call, ok := in.(*ssa.Call)
						if !ok || !call.Call.IsInvoke() || call.Call.Method.Name() != "Put" || len(call.Call.Args) < 1 {
							continue
						}
						t := rootOf(call.Call.Args[0])
						if t == nil || !tables[t] {
							continue
						}
						// the innermost loop around the Put, complete
						var hdr *ssa.BasicBlock
						for _, h := range fl.Blocks {
							if h.Dominates(b) && h != b && ssax.Reaches(b, h) {
								back := false
								for _, pr := range h.Preds {
									if h.Dominates(pr) {
										back = true
									}
								}
								if back && (hdr == nil || hdr.Dominates(h)) {
									hdr = h
								}
							}
						}
						if hdr == nil || loopOtherExit(fl, hdr) != nil {
							continue
						}
						for i, sx := range hdr.Succs {
							if !ssax.Reaches(sx, hdr) {
								banned = append(banned, ssax.Edge{From: hdr, Succ: i})
							}
						}
					}
				}
			}
			bad := ""
			for _, ex := range successExits(fl) {
				if reachableWithoutEdges(fl, banned, ex.In.Block()) {
					bad = w.At(ex.In)
				}
			}
			key := "idcounter-writes:" + st.Field(k).Name()
			if bad != "" || len(banned) == 0 {
				c.Add("FLUSH", key, core.Violation, w.Position(fl.Pos()), "the id allocator's Flush can succeed without writing "+st.Field(k).Name()+": the bucket keeps an older value next to the new one of the other key, and node ids that are in use are handed out again", "C01", "C10")
			} else {
				c.Add("FLUSH", key, core.OK, w.Position(fl.Pos()), "", "C01", "C10")
			}
		}
	} else {
		c.Add("FLUSH", "anchor:idcounter", core.Undecided, "", "IdCounter.Flush not found", "C01", "C10")
	}
	c.Count("vector_store_fits", nFit)
	if nFit < 2 {
		c.Add("FLUSH", "anchor:fits", core.Undecided, "", fmt.Sprintf("found %d index functions that train their vector store, expected at least 2", nFit), "C04", "C08")
	}
}

// -------------------------------------------------------------------- DIRTY

func Dirty(w *load.World, c *core.Collector) {
	props := []string{"C08"}
	// Storables with a bool flag read by CheckAndClearDirty
	type flagged struct {
		typ, flag string
		persisted map[string]bool
	}
	var fl []flagged
	for _, f := range w.Fns {
		if f.Name() != "CheckAndClearDirty" || f.Signature.Recv() == nil {
			continue
		}
		tn := ssax.TypeName(f.Signature.Recv().Type())
		flag := ""
		for _, b := range f.Blocks {
			for _, in := range b.Instrs {
				if fa, ok := in.(*ssa.FieldAddr); ok {
					if bt, ok := ssax.StructOf(fa.X.Type()).Field(fa.Field).Type().Underlying().(*types.Basic); ok && bt.Kind() == types.Bool {
						flag = ssax.StructOf(fa.X.Type()).Field(fa.Field).Name()
					}
				}
			}
		}
		if flag == "" {
			continue
		}
		// fields read by WriteTo
		pers := map[string]bool{}
		for _, g := range w.Fns {
			if g.Name() == "WriteTo" && g.Signature.Recv() != nil && ssax.TypeName(g.Signature.Recv().Type()) == tn {
				for _, b := range g.Blocks {
					for _, in := range b.Instrs {
						if fa, ok := in.(*ssa.FieldAddr); ok && ssax.TypeName(fa.X.Type()) == tn {
							pers[ssax.StructOf(fa.X.Type()).Field(fa.Field).Name()] = true
						}
					}
				}
			}
		}
		delete(pers, flag)
		fl = append(fl, flagged{tn, flag, pers})
	}
	c.Count("dirty_flagged_storables", len(fl))
	if len(fl) < 4 {
		c.Add("DIRTY", "anchor:flagged", core.Undecided, "", fmt.Sprintf("found %d Storables with a dirty flag, expected at least 4", len(fl)), props...)
	}
	setsFlag := func(f *ssa.Function, tn, flag string, after ssa.Instruction) bool {
		for _, b := range f.Blocks {
			for _, in := range b.Instrs {
				st, ok := in.(*ssa.Store)
				if !ok {
					continue
				}
				fa, ok := st.Addr.(*ssa.FieldAddr)
				if !ok || ssax.TypeName(fa.X.Type()) != tn || ssax.StructOf(fa.X.Type()).Field(fa.Field).Name() != flag {
					continue
				}
				if v, isC := ssax.ConstBool(st.Val); isC && !v {
					continue
				}
				if after.Block() == b || ssax.Reaches(after.Block(), b) || ssax.Precedes(in, after) {
					return true
				}
			}
		}
		return false
	}
	n := 0
	for _, x := range fl {
		for _, f := range w.Fns {
			name := f.Name()
			if name == "ReadFrom" || name == "CheckAndClearDirty" {
				continue
			}
			for _, b := range f.Blocks {
				for _, in := range b.Instrs {
					var what string
					switch y := in.(type) {
					case *ssa.Store:
						fa, ok := y.Addr.(*ssa.FieldAddr)
						if !ok || ssax.TypeName(fa.X.Type()) != x.typ {
							continue
						}
						fn := ssax.StructOf(fa.X.Type()).Field(fa.Field).Name()
						if !x.persisted[fn] {
							continue
						}
						if _, fresh := ssax.Path(fa.X); fresh {
							continue
						}
						what = "store to " + x.typ + "." + fn
					case *ssa.Call:
						g := y.Call.StaticCallee()
						if g == nil || !strings.Contains(g.String(), "roaring64.Bitmap)") {
							continue
						}
						switch g.Name() {
						case "Add", "CheckedAdd", "Remove", "CheckedRemove", "Clear", "AddMany", "Or", "And", "AndNot", "Xor":
						default:
							continue
						}
						u, ok := y.Call.Args[0].(*ssa.UnOp)
						if !ok {
							continue
						}
						fa, ok := u.X.(*ssa.FieldAddr)
						if !ok || ssax.TypeName(fa.X.Type()) != x.typ {
							continue
						}
						what = g.Name() + " on " + x.typ + "." + ssax.StructOf(fa.X.Type()).Field(fa.Field).Name()
					default:
						continue
					}
					n++
					key := fmt.Sprintf("%s@%s", what, load.FnKey(f))
					if setsFlag(f, x.typ, x.flag, in) {
						c.Add("DIRTY", key, core.OK, w.At(in), "", props...)
					} else {
						c.Add("DIRTY", key, core.Violation, w.At(in), what+" without setting "+x.typ+"."+x.flag+": the change stays in the warm cache and never reaches disk", props...)
					}
				}
			}
		}
	}
	// monotone: outside CheckAndClearDirty the flag is only ever raised. An assignment whose value can
	// be false ("isDirty = set.CheckedRemove(id)" instead of "... || isDirty") takes back the mark an
	// earlier change of the same batch has set, and that change is never flushed.
	nMono := 0
	isDirtyField := func(fa *ssa.FieldAddr) bool {
		st := ssax.StructOf(fa.X.Type())
		if st == nil {
			return false
		}
		fld := st.Field(fa.Field)
		bt, ok := fld.Type().Underlying().(*types.Basic)
		return ok && bt.Kind() == types.Bool && strings.Contains(strings.ToLower(fld.Name()), "dirty")
	}
	for _, f := range w.Fns {
		if !load.InMod(f) || f.Name() == "ReadFrom" {
			continue
		}
		clears := f.Name() == "CheckAndClearDirty" || strings.Contains(strings.ToLower(f.Name()), "flush")
		for _, b := range f.Blocks {
			for _, in := range b.Instrs {
				st, ok := in.(*ssa.Store)
				if !ok {
					continue
				}
				fa, ok := st.Addr.(*ssa.FieldAddr)
				if !ok || !isDirtyField(fa) {
					continue
				}
				if _, fresh := ssax.Path(fa.X); fresh {
					continue
				}
				if cb, isC := ssax.ConstBool(st.Val); isC && !cb && clears {
					continue // the write-out clears the mark
				}
				nMono++
				// true, or a choice between true and the old value
				var raises func(v ssa.Value, depth int) bool
				raises = func(v ssa.Value, depth int) bool {
					if depth > 4 {
						return false
					}
					if cb, isC := ssax.ConstBool(v); isC {
						return cb
					}
					switch y := v.(type) {
					case *ssa.Phi:
						for _, e := range y.Edges {
							if !raises(e, depth+1) {
								return false
							}
						}
						return len(y.Edges) > 0
					case *ssa.UnOp:
						// the old value of the flag itself
						if y.Op == token.MUL {
							if fa2, ok := y.X.(*ssa.FieldAddr); ok && fa2.Field == fa.Field && ssax.StructOf(fa2.X.Type()) == ssax.StructOf(fa.X.Type()) {
								return true
							}
						}
					case *ssa.BinOp:
						if y.Op == token.OR || y.Op == token.LOR {
							return raises(y.X, depth+1) || raises(y.Y, depth+1)
						}
					}
					return false
				}
				tn := ssax.TypeName(fa.X.Type())
				fn := ssax.StructOf(fa.X.Type()).Field(fa.Field).Name()
				key := fmt.Sprintf("monotone:%s.%s@%s", tn, fn, load.FnKey(f))
				if raises(st.Val, 0) {
					c.Add("DIRTY", key, core.OK, w.At(in), "", props...)
				} else {
					c.Add("DIRTY", key, core.Violation, w.At(in), fmt.Sprintf("%s.%s is assigned a value that can be false without the old value being kept: a mark set by an earlier change of the same batch is taken back and that change is never written", tn, fn), "C08", "C02", "C05")
				}
			}
		}
	}
	c.Count("dirty_flag_assignments", nMono)
	c.Count("dirty_mutation_sites", n)
}

// --------------------------------------------------------------------- PAIR

func Pair(w *load.World, c *core.Collector) {
	// vamana: vecStore.Set(id) <-> nodeStore.Put(id) ; vecStore.Delete(l...) <-> nodeStore.Delete(l...)
	n := 0
	for _, f := range w.Fns {
		if load.PkgPath(f) != load.Mod+"/shard/index/vamana" {
			continue
		}
		type op struct {
			in   *ssa.Call
			kind string
			arg  ssa.Value
		}
		var vs, ns []op
		for _, b := range f.Blocks {
			for _, in := range b.Instrs {
				call, ok := in.(*ssa.Call)
				if !ok {
					continue
				}
				cc := call.Common()
				if cc.IsInvoke() && ssax.TypeName(cc.Value.Type()) == "vectorstore.VectorStore" {
					if p, _ := ssax.Path(cc.Value); strings.Contains(p, "vecStore") {
						switch cc.Method.Name() {
						case "Set":
							vs = append(vs, op{call, "add", cc.Args[0]})
						case "Delete":
							vs = append(vs, op{call, "del", cc.Args[0]})
						}
					}
				} else if g := cc.StaticCallee(); g != nil && strings.Contains(load.FnKey(g), "cache.ItemCache") && len(cc.Args) > 1 {
					if p, _ := ssax.Path(cc.Args[0]); strings.Contains(p, "nodeStore") {
						switch g.Name() {
						case "Put":
							ns = append(ns, op{call, "add", cc.Args[1]})
						case "Delete":
							ns = append(ns, op{call, "del", cc.Args[1]})
						}
					}
				}
			}
		}
		sameArg := func(a, b ssa.Value) bool {
			if a == b {
				return true
			}
			pa, _ := ssax.Path(a)
			pb, _ := ssax.Path(b)
			if pa == pb {
				return true
			}
			// variadic: both slices derive from the same slice value
			oa, ob := ssax.Prov(a), ssax.Prov(b)
			for k := range oa {
				if ob[k] && k != "const" {
					return true
				}
			}
			return false
		}
		for _, v := range vs {
			n++
			found := false
			for _, m := range ns {
				if m.kind == v.kind && sameArg(v.arg, m.arg) && (ssax.Precedes(v.in, m.in) || ssax.Precedes(m.in, v.in)) {
					found = true
				}
			}
			key := fmt.Sprintf("node-vector:%s@%s", v.kind, load.FnKey(f))
			if found {
				c.Add("PAIR", key, core.OK, w.At(v.in), "", "C10")
			} else {
				c.Add("PAIR", key, core.Violation, w.At(v.in), "vector store is changed without the matching change of the node store for the same id: a live point would have a vector without a graph node or vice versa", "C10")
			}
		}
	}
	c.Count("node_vector_pairs", n)
	if n < 3 {
		c.Add("PAIR", "anchor:node-vector", core.Undecided, "", fmt.Sprintf("found %d vector-store mutations in vamana, expected at least 3", n), "C10")
	}
	// allocator: NextId result flows into SetPoint ; FreeId followed by DeletePoint ; callers confined
	for _, f := range w.Fns {
		for _, b := range f.Blocks {
			for _, in := range b.Instrs {
				call, ok := in.(*ssa.Call)
				if !ok {
					continue
				}
				g := call.Call.StaticCallee()
				if g == nil {
					continue
				}
				switch load.FnKey(g) {
				case "(*shard.IdCounter).NextId":
					key := "alloc:NextId@" + load.FnKey(f)
					okFlow := false
					for _, bb := range f.Blocks {
						for _, ii := range bb.Instrs {
							if sc, ok := ii.(*ssa.Call); ok {
								if sg := sc.Call.StaticCallee(); sg != nil && load.FnKey(sg) == "shard/pointstore.SetPoint" {
									if ssax.Prov(sc.Call.Args[1])["call:"+g.String()] {
										okFlow = true
									}
								}
							}
						}
					}
					v, d := core.OK, ""
					if !okFlow {
						v, d = core.Violation, "an allocated node id does not reach the point that is stored"
					}
					c.Add("PAIR", key, v, w.At(in), d, "C01", "C10")
				case "(*shard.IdCounter).FreeId":
					key := "alloc:FreeId@" + load.FnKey(f)
					okFlow := false
					for _, bb := range f.Blocks {
						for _, ii := range bb.Instrs {
							if sc, ok := ii.(*ssa.Call); ok {
								if sg := sc.Call.StaticCallee(); sg != nil && load.FnKey(sg) == "shard/pointstore.DeletePoint" && (ssax.Precedes(in, ii) || ssax.Precedes(ii, in)) {
									pa, _ := ssax.Path(call.Call.Args[1])
									pb, _ := ssax.Path(sc.Call.Args[2])
									if pa == pb {
										okFlow = true
									}
								}
							}
						}
					}
					// the deletion may sit in a helper that returns the point it deleted
					for _, bb := range f.Blocks {
						for _, ii := range bb.Instrs {
							sc, ok := ii.(*ssa.Call)
							if !ok || sc.Call.StaticCallee() == nil || !(ssax.Precedes(in, ii) || ssax.Precedes(ii, in)) {
								continue
							}
							if h := pointRemovalHelper(sc.Call.StaticCallee()); h != nil && h.deletesReturned {
								if ex := resultValue(sc, 0); ex != nil {
									want := originSet([]ssax.Origin{{Val: ex, Path: []string{"NodeId"}}})
									if sameOrigins(originSet(ssax.Resolve(call.Call.Args[1])), want) {
										okFlow = true
									}
								}
							}
						}
					}
					v, d := core.OK, ""
					if !okFlow {
						v, d = core.Violation, "a node id is put on the free list without the point that owns it being deleted on the same path"
					}
					c.Add("PAIR", key, v, w.At(in), d, "C01", "C10")
				}
			}
		}
	}
}

// keyShapeTableIndex selects, while >= 0, which entry of a constant table stands for a key
// argument that is loaded from that table (see constTableElems).
var keyShapeTableIndex = -1

// constTableElems: v is an element loaded from a function-local array that holds nothing but
// constants (`for _, suffix := range [...]byte{'v', 'q'}`): the constants, in index order.
func constTableElems(v ssa.Value) []*ssa.Const {
	var al *ssa.Alloc
	switch x := v.(type) {
	case *ssa.UnOp: // *(&table[i])
		if x.Op != token.MUL {
			return nil
		}
		ia, ok := x.X.(*ssa.IndexAddr)
		if !ok {
			return nil
		}
		al, _ = ia.X.(*ssa.Alloc)
	case *ssa.Index: // (*table)[i], the form a range over an array value takes
		if ld, ok := x.X.(*ssa.UnOp); ok && ld.Op == token.MUL {
			al, _ = ld.X.(*ssa.Alloc)
		}
	}
	if al == nil {
		return nil
	}
	at, ok := al.Type().Underlying().(*types.Pointer).Elem().Underlying().(*types.Array)
	if !ok || at.Len() > 16 {
		return nil
	}
	out := make([]*ssa.Const, at.Len())
	for _, r := range *al.Referrers() {
		switch x := r.(type) {
		case *ssa.IndexAddr:
			for _, rr := range *x.Referrers() {
				st, ok := rr.(*ssa.Store)
				if !ok {
					continue
				}
				idx, okI := ssax.ConstInt(x.Index)
				cv, okC := st.Val.(*ssa.Const)
				if !okI || !okC || idx < 0 || idx >= at.Len() {
					return nil
				}
				out[idx] = cv
			}
		case *ssa.Store:
			return nil
		}
	}
	for _, c := range out {
		if c == nil {
			return nil
		}
	}
	return out
}

// keyTableSize: the number of entries of the constant table a bucket operation's key draws from (0 if none).
func keyTableSize(in ssa.Instruction) int {
	call, ok := in.(*ssa.Call)
	if !ok || len(call.Call.Args) == 0 {
		return 0
	}
	var find func(v ssa.Value, depth int) int
	find = func(v ssa.Value, depth int) int {
		if depth > 3 {
			return 0
		}
		if t := tableValues(v); len(t) > 0 {
			return len(t)
		}
		switch x := v.(type) {
		case *ssa.Call:
			for _, a := range x.Call.Args {
				if n := find(a, depth+1); n > 0 {
					return n
				}
			}
		case *ssa.Convert:
			return find(x.X, depth+1)
		case *ssa.Slice:
			return find(x.X, depth+1)
		}
		return 0
	}
	return find(call.Call.Args[0], 0)
}

// tableValues: v is an element (or a field of an element) read from a function-local array whose
// entries are all written once, by constant index, before the loop that walks it: the values, in
// index order. Covers `for _, k := range [...]byte{...}` and tables of structs.
func tableValues(v ssa.Value) []ssa.Value {
	if cs := constTableElems(v); len(cs) > 0 {
		out := make([]ssa.Value, len(cs))
		for i, c := range cs {
			out[i] = c
		}
		return out
	}
	// a table of plain (non-constant) elements: []T{a, b} walked by a loop
	if u, ok := v.(*ssa.UnOp); ok && u.Op == token.MUL {
		if ia, ok := u.X.(*ssa.IndexAddr); ok {
			if _, isConstIdx := ssax.ConstInt(ia.Index); !isConstIdx {
				var arr *ssa.Alloc
				switch b := ia.X.(type) {
				case *ssa.Alloc:
					arr = b
				case *ssa.Slice:
					arr, _ = b.X.(*ssa.Alloc)
				}
				if arr != nil {
					if at, ok := arr.Type().Underlying().(*types.Pointer).Elem().Underlying().(*types.Array); ok && at.Len() <= 16 {
						vals := make([]ssa.Value, at.Len())
						for _, r := range *arr.Referrers() {
							ea, ok := r.(*ssa.IndexAddr)
							if !ok {
								continue
							}
							idx, okI := ssax.ConstInt(ea.Index)
							if !okI || idx < 0 || idx >= at.Len() {
								continue
							}
							for _, rr := range *ea.Referrers() {
								if st, ok := rr.(*ssa.Store); ok && st.Addr == ssa.Value(ea) {
									vals[idx] = st.Val
								}
							}
						}
						complete := true
						for _, x := range vals {
							if x == nil {
								complete = false
							}
						}
						if complete {
							return vals
						}
					}
				}
			}
		}
	}
	field := -1
	var elemAddr ssa.Value // &table[i] or table value indexed
	var al *ssa.Alloc
	switch x := v.(type) {
	case *ssa.UnOp:
		if x.Op != token.MUL {
			return nil
		}
		if fa, ok := x.X.(*ssa.FieldAddr); ok {
			field, elemAddr = fa.Field, fa.X
		}
	case *ssa.Field:
		field, elemAddr = x.Field, x.X
	}
	if elemAddr == nil {
		return nil
	}
	// the loop variable: a local copy of the element
	if cp, ok := elemAddr.(*ssa.Alloc); ok {
		if sv := ssax.SingleStore(cp); sv != nil {
			elemAddr = sv
		}
	}
	switch e := elemAddr.(type) {
	case *ssa.IndexAddr:
		al, _ = e.X.(*ssa.Alloc)
	case *ssa.Index:
		if ld, ok := e.X.(*ssa.UnOp); ok && ld.Op == token.MUL {
			al, _ = ld.X.(*ssa.Alloc)
		}
	case *ssa.UnOp:
		if ia, ok := e.X.(*ssa.IndexAddr); ok && e.Op == token.MUL {
			al, _ = ia.X.(*ssa.Alloc)
		}
	}
	if al == nil {
		return nil
	}
	at, ok := al.Type().Underlying().(*types.Pointer).Elem().Underlying().(*types.Array)
	if !ok || at.Len() > 16 {
		return nil
	}
	// fieldOfStruct: the value of field #field of a struct value built in a local temporary
	var fieldOfStruct func(sv ssa.Value, depth int) ssa.Value
	fieldOfStruct = func(sv ssa.Value, depth int) ssa.Value {
		ld, ok := sv.(*ssa.UnOp)
		if !ok || ld.Op != token.MUL || depth > 3 {
			return nil
		}
		tmp, ok := ld.X.(*ssa.Alloc)
		if !ok {
			return nil
		}
		var val ssa.Value
		for _, r := range *tmp.Referrers() {
			switch x := r.(type) {
			case *ssa.FieldAddr:
				if x.Field != field {
					continue
				}
				for _, rr := range *x.Referrers() {
					if st, ok := rr.(*ssa.Store); ok && st.Addr == ssa.Value(x) {
						val = st.Val
					}
				}
			case *ssa.Store:
				if x.Addr == ssa.Value(tmp) {
					val = fieldOfStruct(x.Val, depth+1)
				}
			}
		}
		return val
	}
	out := make([]ssa.Value, at.Len())
	for _, r := range *al.Referrers() {
		ia, ok := r.(*ssa.IndexAddr)
		if !ok {
			continue
		}
		idx, okI := ssax.ConstInt(ia.Index)
		if !okI || idx < 0 || idx >= at.Len() {
			continue // the walking loop's own access
		}
		for _, rr := range *ia.Referrers() {
			switch x := rr.(type) {
			case *ssa.FieldAddr:
				if x.Field != field {
					continue
				}
				for _, r3 := range *x.Referrers() {
					if st, ok := r3.(*ssa.Store); ok && st.Addr == ssa.Value(x) {
						out[idx] = st.Val
					}
				}
			case *ssa.Store:
				if x.Addr == ssa.Value(ia) {
					out[idx] = fieldOfStruct(x.Val, 0)
				}
			}
		}
	}
	for _, x := range out {
		if x == nil {
			return nil
		}
	}
	return out
}

// keyShapeBind gives, while a helper's body is read on behalf of a call site, the shape (or, with the
// prefix "lit:", the constant) each of its parameters stands for.
var keyShapeBind = map[*ssa.Parameter]string{}

var helperDepth = 0

// helperBucketPaths: for a call to a module helper that is handed a storage bucket, the bucket
// operations of each of its (successful) paths, with key shapes expressed in the caller's terms.
func helperBucketPaths(in ssa.Instruction, successOnly bool) [][]bucketOp {
	call, ok := in.(*ssa.Call)
	if !ok || helperDepth >= 2 {
		return nil
	}
	g := call.Call.StaticCallee()
	if g == nil || !ssax.InModule(g) || len(g.Blocks) == 0 || g.Signature.Recv() != nil && false {
		return nil
	}
	hasBucket := false
	for _, a := range call.Call.Args {
		if tn := ssax.TypeName(a.Type()); tn == "diskstore.Bucket" || tn == "diskstore.ReadOnlyBucket" {
			hasBucket = true
		}
	}
	if !hasBucket || !strings.Contains(load.PkgPath(g), "/shard") {
		return nil
	}
	// only plain helpers: the Storable methods themselves (WriteTo, ReadFrom, DeleteFrom, Flush)
	// are analysed in their own right
	switch g.Name() {
	case "WriteTo", "ReadFrom", "DeleteFrom", "Flush", "SetPoint", "DeletePoint":
		return nil
	}
	saved := map[*ssa.Parameter]string{}
	for i, p := range g.Params {
		if i >= len(call.Call.Args) {
			break
		}
		if old, ok := keyShapeBind[p]; ok {
			saved[p] = old
		}
		a := call.Call.Args[i]
		if c, ok := a.(*ssa.Const); ok && c.Value != nil {
			if c.Value.Kind() == constant.Int {
				if iv, ok := constant.Int64Val(c.Value); ok && iv > 31 && iv < 127 {
					keyShapeBind[p] = "lit:" + fmt.Sprintf("%q", rune(iv))
					continue
				}
			}
			keyShapeBind[p] = "lit:" + c.Value.ExactString()
			if c.Value.Kind() == constant.String {
				keyShapeBind[p] = "const(" + c.Value.ExactString() + ")"
			}
			continue
		}
		keyShapeBind[p] = keyShape(a)
	}
	helperDepth++
	var out [][]bucketOp
	for _, p := range opPathsF(g, successOnly) {
		out = append(out, p.ops)
	}
	helperDepth--
	for _, p := range g.Params {
		if old, ok := saved[p]; ok {
			keyShapeBind[p] = old
		} else {
			delete(keyShapeBind, p)
		}
	}
	// drop helpers that do not touch the bucket at all
	any := false
	for _, p := range out {
		if len(p) > 0 {
			any = true
		}
	}
	if !any {
		return nil
	}
	return out
}

var keyHelperDepth = 0

// helperKeyShape: v is result #i of a call to a module helper (not one of the key constructors
// themselves) whose every return hands back, in that position, a key of one and the same shape.
func helperKeyShape(v ssa.Value) (string, bool) {
	var call *ssa.Call
	idx := 0
	switch x := v.(type) {
	case *ssa.Extract:
		call, _ = x.Tuple.(*ssa.Call)
		idx = x.Index
	case *ssa.Call:
		call = x
	}
	if call == nil || keyHelperDepth >= 2 {
		return "", false
	}
	g := call.Call.StaticCallee()
	if g == nil || !ssax.InModule(g) || len(g.Blocks) == 0 {
		return "", false
	}
	switch g.Name() {
	case "NodeKey", "PointKey", "termKey", "documentKey", "NodeIdFromKey":
		return "", false // the constructors are the vocabulary of shapes
	}
	if !strings.Contains(load.PkgPath(g), "/shard") {
		return "", false
	}
	if g.Signature.Results().Len() <= idx {
		return "", false
	}
	if rt := g.Signature.Results().At(idx).Type().String(); rt != "[]byte" {
		return "", false
	}
	saved := map[*ssa.Parameter]string{}
	for i, p := range g.Params {
		if i >= len(call.Call.Args) {
			break
		}
		if old, ok := keyShapeBind[p]; ok {
			saved[p] = old
		}
		a := call.Call.Args[i]
		if c, ok := a.(*ssa.Const); ok && c.Value != nil && c.Value.Kind() == constant.Int {
			if iv, ok := constant.Int64Val(c.Value); ok && iv > 31 && iv < 127 {
				keyShapeBind[p] = "lit:" + fmt.Sprintf("%q", rune(iv))
				continue
			}
		}
		keyHelperDepth++
		keyShapeBind[p] = keyShape(a)
		keyHelperDepth--
	}
	shape, okAll := "", true
	keyHelperDepth++
	for _, b := range g.Blocks {
		ret, ok := b.Instrs[len(b.Instrs)-1].(*ssa.Return)
		if !ok || idx >= len(ret.Results) {
			continue
		}
		sh := keyShape(ret.Results[idx])
		if shape == "" {
			shape = sh
		} else if shape != sh {
			okAll = false
		}
	}
	keyHelperDepth--
	for _, p := range g.Params {
		if old, ok := saved[p]; ok {
			keyShapeBind[p] = old
		} else {
			delete(keyShapeBind, p)
		}
	}
	if shape == "" || !okAll || strings.HasPrefix(shape, "?") {
		return "", false
	}
	return shape, true
}

func callsVectorStore(g *ssa.Function, method string, depth int) bool {
	for _, b := range g.Blocks {
		for _, in := range b.Instrs {
			call, ok := in.(*ssa.Call)
			if !ok {
				continue
			}
			if call.Call.IsInvoke() && ssax.TypeName(call.Call.Value.Type()) == "vectorstore.VectorStore" && call.Call.Method.Name() == method {
				return true
			}
			if h := call.Call.StaticCallee(); h != nil && depth < 2 && h != g && load.PkgPath(h) == load.PkgPath(g) && callsVectorStore(h, method, depth+1) {
				return true
			}
		}
	}
	return false
}
