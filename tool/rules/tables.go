package rules

import (
	"fmt"
	"go/ast"
	"go/constant"
	"go/token"
	"go/types"
	"os"
	"reflect"
	"sort"
	"strconv"
	"strings"

	"golang.org/x/tools/go/ssa"

	"semaverif/internal/core"
	"semaverif/internal/load"
	"semaverif/internal/ssax"
)

// ------------------------------------------------------------------- enums

type enumFamily struct {
	Prefix string
	Values map[string]string // value -> constant name
}

func enums(w *load.World) map[string]*enumFamily {
	fams := map[string]*enumFamily{}
	for _, pre := range []string{"IndexType", "Distance", "Operator", "Quantizer"} {
		fams[pre] = &enumFamily{Prefix: pre, Values: map[string]string{}}
	}
	p := w.ByPath[load.Mod+"/models"]
	if p == nil {
		return fams
	}
	sc := p.Types.Scope()
	for _, n := range sc.Names() {
		cst, ok := sc.Lookup(n).(*types.Const)
		if !ok || cst.Val().Kind() != constant.String {
			continue
		}
		for pre, f := range fams {
			if strings.HasPrefix(n, pre) {
				f.Values[constant.StringVal(cst.Val())] = n
			}
		}
	}
	return fams
}

// comparedConsts: string constants a function compares something with.
func comparedConsts(f *ssa.Function) map[string]bool { return comparedConstsN(f, 0) }

// comparedConstsN also looks into predicate helpers of the module that f hands a string to
// (an `isValidX(s string) bool` extracted from a validator still enumerates the same constants).
func comparedConstsN(f *ssa.Function, depth int) map[string]bool {
	out := map[string]bool{}
	if depth < 2 {
		for _, b := range f.Blocks {
			for _, in := range b.Instrs {
				g := ssax.StaticModuleCallee(in)
				if g == nil || g == f || load.PkgPath(g) != load.PkgPath(f) {
					continue
				}
				// constants handed to a helper (a variadic list of further accepted values)
				for _, a := range in.(ssa.CallInstruction).Common().Args {
					for _, cv := range constStringsIn(a, 0) {
						out[cv] = true
					}
				}
				hasString := false
				for i := 0; i < g.Signature.Params().Len(); i++ {
					if bt, ok := g.Signature.Params().At(i).Type().Underlying().(*types.Basic); ok && bt.Info()&types.IsString != 0 {
						hasString = true
					}
				}
				if hasString {
					for k := range comparedConstsN(g, depth+1) {
						out[k] = true
					}
				}
			}
		}
	}
	for _, b := range f.Blocks {
		for _, in := range b.Instrs {
			bo, ok := in.(*ssa.BinOp)
			if !ok || (bo.Op != token.EQL && bo.Op != token.NEQ) {
				continue
			}
			for _, v := range []ssa.Value{bo.X, bo.Y} {
				if s, ok := ssax.ConstString(v); ok {
					out[s] = true
				}
			}
		}
	}
	return out
}

func famSubset(f *enumFamily, consts map[string]bool) map[string]bool {
	out := map[string]bool{}
	for v := range consts {
		if _, ok := f.Values[v]; ok {
			out[v] = true
		}
	}
	return out
}

func Enum(w *load.World, c *core.Collector) {
	props := []string{"C18", "C02"}
	fams := enums(w)
	want := map[string]int{"IndexType": 7, "Distance": 6, "Operator": 11, "Quantizer": 3}
	for pre, n := range want {
		c.Count("enum:"+pre, len(fams[pre].Values))
		if len(fams[pre].Values) < n {
			c.Add("ENUM", "anchor:"+pre, core.Undecided, "", fmt.Sprintf("enum %s has %d members, expected at least %d", pre, len(fams[pre].Values), n), props...)
		}
	}
	byKey := map[string]map[string]bool{}
	origins := map[string]*ssa.Function{}
	for _, f := range w.Fns {
		if f.Origin() != nil && f.Origin() != f {
			// analyse generic origins once, through any instance
		}
		k := load.FnKey(f)
		cs := comparedConsts(f)
		if byKey[k] == nil {
			byKey[k] = map[string]bool{}
			origins[k] = f
		}
		for s := range cs {
			byKey[k][s] = true
		}
	}
	var keys []string
	for k := range byKey {
		keys = append(keys, k)
	}
	sort.Strings(keys)
	missing := func(f *enumFamily, have map[string]bool) []string {
		var m []string
		for v := range f.Values {
			if !have[v] {
				m = append(m, v)
			}
		}
		sort.Strings(m)
		return m
	}
	// IndexType and Quantizer: every dispatcher is exhaustive
	for _, pre := range []string{"IndexType", "Quantizer"} {
		n := 0
		for _, k := range keys {
			have := famSubset(fams[pre], byKey[k])
			if len(have) < 2 {
				continue
			}
			n++
			key := "exhaustive:" + pre + "@" + k
			if m := missing(fams[pre], have); len(m) > 0 && delegated(w, origins[k], func(g *ssa.Function) bool {
				return len(missing(fams[pre], famSubset(fams[pre], byKey[load.FnKey(g)]))) == 0
			}) {
				// a sub-dispatcher: every caller is itself an exhaustive dispatcher that hands over a subset
				c.Add("ENUM", key, core.OK, w.Position(origins[k].Pos()), "", props...)
			} else if len(m) > 0 {
				c.Add("ENUM", key, core.Violation, w.Position(origins[k].Pos()), fmt.Sprintf("%s dispatches on %s but has no branch for %v", k, pre, m), props...)
			} else {
				c.Add("ENUM", key, core.OK, w.Position(origins[k].Pos()), "", props...)
			}
		}
		c.Count("dispatchers:"+pre, n)
		floor := map[string]int{"IndexType": 5, "Quantizer": 2}[pre]
		if n < floor {
			c.Add("ENUM", "anchor:dispatchers:"+pre, core.Undecided, "", fmt.Sprintf("found %d dispatchers on %s, expected at least %d", n, pre, floor), props...)
		}
	}
	// Distance: validators exhaustive, registries cover the enum together
	union := map[string]bool{}
	for _, k := range []string{"distance.GetFloatDistanceFn", "distance.GetBitDistanceFn"} {
		if byKey[k] == nil {
			c.Add("ENUM", "anchor:"+k, core.Undecided, "", "distance registry function not found", "C04", "C18")
			continue
		}
		for v := range famSubset(fams["Distance"], byKey[k]) {
			union[v] = true
		}
	}
	if m := missing(fams["Distance"], union); len(m) > 0 {
		c.Add("ENUM", "distance-registry", core.Violation, "", fmt.Sprintf("no distance function is registered for %v", m), "C04", "C18")
	} else {
		c.Add("ENUM", "distance-registry", core.OK, "", "", "C04", "C18")
	}
	for _, k := range []string{"(models.IndexVectorFlatParameters).Validate", "(models.IndexVectorVamanaParameters).Validate"} {
		have := famSubset(fams["Distance"], byKey[k])
		if m := missing(fams["Distance"], have); len(m) > 0 || byKey[k] == nil {
			c.Add("ENUM", "exhaustive:Distance@"+k, core.Violation, "", fmt.Sprintf("schema validation does not know the metrics %v", m), "C04", "C18")
		} else {
			c.Add("ENUM", "exhaustive:Distance@"+k, core.OK, "", "", "C04", "C18")
		}
	}
	// every metric a validator accepts is routed by vectorstore.New: bit metrics by name, the rest via the float registry
	if vs := byKey["shard/vectorstore.New"]; vs != nil {
		bit := famSubset(fams["Distance"], byKey["distance.GetBitDistanceFn"])
		bad := []string{}
		for v := range bit {
			if !vs[v] {
				bad = append(bad, v)
			}
		}
		if len(bad) > 0 {
			c.Add("ENUM", "distance-routing", core.Violation, "", fmt.Sprintf("vectorstore.New does not route the bit metrics %v to the binary store", bad), "C04", "C18")
		} else {
			c.Add("ENUM", "distance-routing", core.OK, "", "", "C04", "C18")
		}
	}
	// Operators: validator ⊆ handler
	pairs := [][2]string{
		{"(models.SearchStringOptions).Validate", "(*shard/index/inverted.IndexInverted[T]).Search"},
		{"(models.SearchIntegerOptions).Validate", "(*shard/index/inverted.IndexInverted[T]).Search"},
		{"(models.SearchFloatOptions).Validate", "(*shard/index/inverted.IndexInverted[T]).Search"},
		{"(models.SearchStringArrayOptions).Validate", "(*shard/index/inverted.IndexInvertedArray[T]).Search"},
	}
	for _, p := range pairs {
		v, h := byKey[p[0]], byKey[p[1]]
		key := "operators:" + p[0] + "<=" + p[1]
		if v == nil || h == nil {
			c.Add("ENUM", key, core.Undecided, "", "validator or handler not found", props...)
			continue
		}
		var m []string
		for op := range famSubset(fams["Operator"], v) {
			if !h[op] {
				m = append(m, op)
			}
		}
		sort.Strings(m)
		if len(m) > 0 {
			c.Add("ENUM", key, core.Violation, w.Position(origins[p[1]].Pos()), fmt.Sprintf("validation accepts the operators %v which the index search does not handle", m), props...)
		} else {
			c.Add("ENUM", key, core.OK, w.Position(origins[p[1]].Pos()), "", props...)
		}
	}
	// numeric validators must not accept startsWith
	for _, k := range []string{"(models.SearchIntegerOptions).Validate", "(models.SearchFloatOptions).Validate"} {
		if byKey[k]["startsWith"] {
			c.Add("ENUM", "operators:no-prefix-on-numbers@"+k, core.Violation, "", "prefix scan accepted on order-encoded numeric keys", props...)
		} else {
			c.Add("ENUM", "operators:no-prefix-on-numbers@"+k, core.OK, "", "", props...)
		}
	}
}

// ------------------------------------------------------------------- LIMITS

// funcDeclIndex maps function objects of the module to their declarations (for looking through helpers).
func funcDeclIndex(w *load.World) map[types.Object]*funcDeclInfo {
	out := map[types.Object]*funcDeclInfo{}
	for _, p := range w.ByPath {
		for _, f := range p.Syntax {
			for _, d := range f.Decls {
				if fd, ok := d.(*ast.FuncDecl); ok && fd.Body != nil {
					if obj := p.TypesInfo.Defs[fd.Name]; obj != nil {
						out[obj] = &funcDeclInfo{fd, p.TypesInfo}
					}
				}
			}
		}
	}
	return out
}

type funcDeclInfo struct {
	decl *ast.FuncDecl
	info *types.Info
}

var limitsHelpers map[types.Object]*funcDeclInfo

func Limits(w *load.World, c *core.Collector) {
	props := []string{"C18"}
	total := 0
	limitsHelpers = funcDeclIndex(w)
	var paths []string
	for p := range w.ByPath {
		paths = append(paths, p)
	}
	sort.Strings(paths)
	for _, path := range paths {
		p := w.ByPath[path]
		if strings.Contains(path, "/internal/") {
			continue
		}
		validate := map[string]*ast.FuncDecl{}
		for _, f := range p.Syntax {
			for _, d := range f.Decls {
				fd, ok := d.(*ast.FuncDecl)
				if !ok || fd.Recv == nil || fd.Name.Name != "Validate" || fd.Body == nil {
					continue
				}
				t := fd.Recv.List[0].Type
				if st, ok := t.(*ast.StarExpr); ok {
					t = st.X
				}
				if id, ok := t.(*ast.Ident); ok {
					validate[id.Name] = fd
				}
			}
		}
		for _, f := range p.Syntax {
			ast.Inspect(f, func(n ast.Node) bool {
				ts, ok := n.(*ast.TypeSpec)
				if !ok {
					return true
				}
				st, ok := ts.Type.(*ast.StructType)
				if !ok {
					return true
				}
				for _, fl := range st.Fields.List {
					if fl.Tag == nil || len(fl.Names) == 0 {
						continue
					}
					tagv, _ := strconv.Unquote(fl.Tag.Value)
					binding := reflect.StructTag(tagv).Get("binding")
					if binding == "" {
						continue
					}
					field := fl.Names[0].Name
					type want struct {
						v    constant.Value
						desc string
					}
					var wants []want
					for _, part := range strings.Split(binding, ",") {
						switch {
						case strings.HasPrefix(part, "min="), strings.HasPrefix(part, "max="):
							lit := part[4:]
							tok := token.INT
							if strings.Contains(lit, ".") {
								tok = token.FLOAT
							}
							wants = append(wants, want{constant.MakeFromLiteral(lit, tok, 0), part})
						case strings.HasPrefix(part, "oneof="):
							for _, v := range strings.Fields(part[6:]) {
								wants = append(wants, want{constant.MakeString(v), "oneof:" + v})
							}
						}
					}
					if len(wants) == 0 {
						continue
					}
					fd := validate[ts.Name.Name]
					recv := ""
					if fd != nil && len(fd.Recv.List[0].Names) > 0 {
						recv = fd.Recv.List[0].Names[0].Name
					}
					var got []constant.Value
					if fd != nil {
						got = comparedWithField(p.TypesInfo, fd.Body, recv, field)
					}
					// the other direction for enumerations: Validate accepts nothing the documentation does not list
					var documented []string
					for _, wv := range wants {
						if strings.HasPrefix(wv.desc, "oneof:") {
							documented = append(documented, constant.StringVal(wv.v))
						}
					}
					if len(documented) > 0 && fd != nil {
						var extra []string
						for _, g := range got {
							if g.Kind() != constant.String || constant.StringVal(g) == "" {
								continue
							}
							known := false
							for _, d := range documented {
								if d == constant.StringVal(g) {
									known = true
								}
							}
							if !known {
								extra = append(extra, constant.StringVal(g))
							}
						}
						sort.Strings(extra)
						key := fmt.Sprintf("%s.%s.%s:oneof-only", p.Name, ts.Name.Name, field)
						if len(extra) > 0 {
							c.Add("LIMITS", key, core.Violation, w.Position(fl.Pos()), fmt.Sprintf("Validate of %s lets %s be one of %v, which the documented enumeration %v does not list", ts.Name.Name, field, dedupe(extra), documented), props...)
						} else {
							c.Add("LIMITS", key, core.OK, w.Position(fl.Pos()), "", props...)
						}
					}
					for _, wv := range wants {
						total++
						key := fmt.Sprintf("%s.%s.%s:%s", p.Name, ts.Name.Name, field, wv.desc)
						where := w.Position(fl.Pos())
						if fd == nil {
							c.Add("LIMITS", key, core.Violation, where, "documented limit but the type has no Validate method", props...)
							continue
						}
						ok := false
						for _, g := range got {
							if g.Kind() == constant.String || wv.v.Kind() == constant.String {
								ok = ok || (g.Kind() == constant.String && wv.v.Kind() == constant.String && constant.StringVal(g) == constant.StringVal(wv.v))
								continue
							}
							a, _ := constant.Float64Val(constant.ToFloat(g))
							b, _ := constant.Float64Val(constant.ToFloat(wv.v))
							if a == b || float32(a) == float32(b) {
								ok = true
							}
						}
						if ok {
							c.Add("LIMITS", key, core.OK, where, "", props...)
						} else {
							c.Add("LIMITS", key, core.Violation, where, fmt.Sprintf("the documented limit %s of %s.%s is not enforced by Validate", wv.desc, ts.Name.Name, field), props...)
						}
					}
				}
				return true
			})
		}
	}
	c.Count("documented_limits", total)
	if total < 100 {
		c.Add("LIMITS", "anchor:tags", core.Undecided, "", fmt.Sprintf("found %d documented limits, expected at least 100", total), props...)
	}
}

func comparedWithField(info *types.Info, body *ast.BlockStmt, recv, field string) []constant.Value {
	mentions := func(e ast.Expr) bool {
		found := false
		ast.Inspect(e, func(n ast.Node) bool {
			if se, ok := n.(*ast.SelectorExpr); ok && se.Sel.Name == field {
				if id, ok := se.X.(*ast.Ident); ok && id.Name == recv {
					found = true
				}
			}
			return true
		})
		return found
	}
	// local aliases: `for _, r := range req.Id` makes r stand for the field
	alias := map[string]bool{}
	ast.Inspect(body, func(n ast.Node) bool {
		if rs, ok := n.(*ast.RangeStmt); ok && mentions(rs.X) {
			if id, ok := rs.Value.(*ast.Ident); ok {
				alias[id.Name] = true
			}
		}
		return true
	})
	// ... and "n := len(req.Id)" makes n stand for it
	for round := 0; round < 2; round++ {
		ast.Inspect(body, func(n ast.Node) bool {
			if as, ok := n.(*ast.AssignStmt); ok && len(as.Lhs) == len(as.Rhs) {
				for i := range as.Rhs {
					id, ok := as.Lhs[i].(*ast.Ident)
					if !ok {
						continue
					}
					hit := mentions(as.Rhs[i])
					ast.Inspect(as.Rhs[i], func(m ast.Node) bool {
						if x, ok := m.(*ast.Ident); ok && alias[x.Name] {
							hit = true
						}
						return true
					})
					// only values derived from the field, not calls that merely take it (err := f(req.Id))
					if _, isCall := as.Rhs[i].(*ast.CallExpr); isCall {
						if ce := as.Rhs[i].(*ast.CallExpr); len(ce.Args) != 1 {
							hit = false
						} else if fid, ok := ce.Fun.(*ast.Ident); !ok || (fid.Name != "len" && fid.Name != "cap") {
							hit = false
						}
					}
					if hit {
						alias[id.Name] = true
					}
				}
			}
			return true
		})
	}
	mentionsOrAlias := func(e ast.Expr) bool {
		if mentions(e) {
			return true
		}
		found := false
		ast.Inspect(e, func(n ast.Node) bool {
			if id, ok := n.(*ast.Ident); ok && alias[id.Name] {
				found = true
			}
			return true
		})
		return found
	}
	var got []constant.Value
	constOf := func(e ast.Expr) (constant.Value, bool) {
		if tv, ok := info.Types[e]; ok && tv.Value != nil {
			return tv.Value, true
		}
		return nil, false
	}
	ast.Inspect(body, func(n ast.Node) bool {
		switch x := n.(type) {
		case *ast.CallExpr:
			// the field handed to a helper of the module: what the helper compares its parameter with
			var callee types.Object
			switch fn := x.Fun.(type) {
			case *ast.Ident:
				callee = info.Uses[fn]
			case *ast.SelectorExpr:
				callee = info.Uses[fn.Sel]
			}
			hd := limitsHelpers[callee]
			if hd == nil || hd.decl.Body == body {
				break
			}
			passesField := false
			for _, a := range x.Args {
				if mentionsOrAlias(a) {
					passesField = true
				}
			}
			if passesField {
				// constants handed to the helper next to the field: further values it accepts
				for _, a := range x.Args {
					named := false
					switch e := a.(type) {
					case *ast.Ident:
						_, named = info.Uses[e].(*types.Const)
					case *ast.SelectorExpr:
						_, named = info.Uses[e.Sel].(*types.Const)
					}
					if cv, ok := constOf(a); ok && named && cv.Kind() == constant.String {
						got = append(got, cv)
					}
				}
			}
			for i, a := range x.Args {
				if !mentionsOrAlias(a) {
					continue
				}
				// the i-th parameter's name
				k := 0
				for _, pf := range hd.decl.Type.Params.List {
					for _, nm := range pf.Names {
						if k == i {
							got = append(got, comparedWithIdent(hd.info, hd.decl.Body, nm.Name)...)
						}
						k++
					}
				}
			}
		case *ast.BinaryExpr:
			switch x.Op {
			case token.EQL, token.NEQ, token.LSS, token.GTR, token.LEQ, token.GEQ:
				if mentionsOrAlias(x.X) {
					if cv, ok := constOf(x.Y); ok {
						got = append(got, cv)
					}
				}
				if mentionsOrAlias(x.Y) {
					if cv, ok := constOf(x.X); ok {
						got = append(got, cv)
					}
				}
			}
		case *ast.SwitchStmt:
			if x.Tag != nil && mentionsOrAlias(x.Tag) {
				for _, cc := range x.Body.List {
					for _, e := range cc.(*ast.CaseClause).List {
						if cv, ok := constOf(e); ok {
							got = append(got, cv)
						}
					}
				}
			}
		}
		return true
	})
	return got
}

// comparedWithIdent: constants that identifier name (a parameter of a helper) is compared with, switched
// over, or looked up among (composite literals passed to slices.Contains / used as a set).
func comparedWithIdent(info *types.Info, body *ast.BlockStmt, name string) []constant.Value {
	// the parameter itself, an expression over it (len(v)), or a local that was assigned one ("n := len(v)")
	names := map[string]bool{name: true}
	mentionsName := func(e ast.Expr) bool {
		found := false
		ast.Inspect(e, func(n ast.Node) bool {
			if id, ok := n.(*ast.Ident); ok && names[id.Name] {
				found = true
			}
			return true
		})
		return found
	}
	for round := 0; round < 2; round++ {
		ast.Inspect(body, func(n ast.Node) bool {
			if as, ok := n.(*ast.AssignStmt); ok && len(as.Lhs) == len(as.Rhs) {
				for i := range as.Rhs {
					if id, ok := as.Lhs[i].(*ast.Ident); ok && mentionsName(as.Rhs[i]) {
						names[id.Name] = true
					}
				}
			}
			return true
		})
	}
	is := func(e ast.Expr) bool {
		if _, isLit := e.(*ast.BasicLit); isLit {
			return false
		}
		return mentionsName(e)
	}
	constOf := func(e ast.Expr) (constant.Value, bool) {
		if tv, ok := info.Types[e]; ok && tv.Value != nil {
			return tv.Value, true
		}
		return nil, false
	}
	var got []constant.Value
	ast.Inspect(body, func(n ast.Node) bool {
		switch x := n.(type) {
		case *ast.BinaryExpr:
			switch x.Op {
			case token.EQL, token.NEQ, token.LSS, token.GTR, token.LEQ, token.GEQ:
				if is(x.X) {
					if cv, ok := constOf(x.Y); ok {
						got = append(got, cv)
					}
				}
				if is(x.Y) {
					if cv, ok := constOf(x.X); ok {
						got = append(got, cv)
					}
				}
			}
		case *ast.SwitchStmt:
			if x.Tag != nil && is(x.Tag) {
				for _, cc := range x.Body.List {
					for _, e := range cc.(*ast.CaseClause).List {
						if cv, ok := constOf(e); ok {
							got = append(got, cv)
						}
					}
				}
			}
		case *ast.CallExpr:
			// slices.Contains(list, name) with a literal list
			for _, a := range x.Args {
				if is(a) {
					for _, b := range x.Args {
						if cl, ok := b.(*ast.CompositeLit); ok {
							for _, e := range cl.Elts {
								if cv, ok := constOf(e); ok {
									got = append(got, cv)
								}
							}
						}
					}
				}
			}
		}
		return true
	})
	return got
}

// ------------------------------------------------------------------- TAGGED

var unionTypes = map[string]bool{"models.IndexSchemaValue": true, "models.Quantizer": true, "models.Query": true}

func payloadLoad(v ssa.Value) (owner ssa.Value, st *types.Struct, idx int, ok bool) {
	switch x := v.(type) {
	case *ssa.UnOp:
		if x.Op != token.MUL {
			return
		}
		if fa, isFA := x.X.(*ssa.FieldAddr); isFA && unionTypes[ssax.TypeName(fa.X.Type())] {
			s := ssax.StructOf(fa.X.Type())
			if _, isPtr := s.Field(fa.Field).Type().Underlying().(*types.Pointer); isPtr {
				return fa.X, s, fa.Field, true
			}
		}
	case *ssa.Field:
		if unionTypes[ssax.TypeName(x.X.Type())] {
			s := ssax.StructOf(x.X.Type())
			if _, isPtr := s.Field(x.Field).Type().Underlying().(*types.Pointer); isPtr {
				return x.X, s, x.Field, true
			}
		}
	}
	return
}

func jsonName(st *types.Struct, i int) string {
	return strings.Split(reflect.StructTag(st.Tag(i)).Get("json"), ",")[0]
}

func tagGuards(cond ssa.Value, taken bool, ownerPath string, st *types.Struct, idx int) bool {
	b, ok := cond.(*ssa.BinOp)
	if !ok {
		return false
	}
	if (b.Op == token.NEQ && taken) || (b.Op == token.EQL && !taken) {
		for _, pr := range [][2]ssa.Value{{b.X, b.Y}, {b.Y, b.X}} {
			if ssax.IsNilConst(pr[1]) {
				if o, s, i, ok := payloadLoad(pr[0]); ok && s == st && i == idx {
					if p, _ := ssax.Path(o); p == ownerPath {
						return true
					}
				}
			}
		}
	}
	if (b.Op == token.EQL && taken) || (b.Op == token.NEQ && !taken) {
		for _, pr := range [][2]ssa.Value{{b.X, b.Y}, {b.Y, b.X}} {
			s, ok := ssax.ConstString(pr[1])
			if !ok || s != jsonName(st, idx) {
				continue
			}
			tp, _ := ssax.Path(pr[0])
			tp = strings.ReplaceAll(tp, "*", "")
			if tp == strings.ReplaceAll(ownerPath, "*", "")+".Type" {
				return true
			}
		}
	}
	return false
}

func guardedAt(f *ssa.Function, at *ssa.BasicBlock, ownerPath string, st *types.Struct, idx int) bool {
	for _, b := range f.Blocks {
		ifi, ok := b.Instrs[len(b.Instrs)-1].(*ssa.If)
		if !ok {
			continue
		}
		for e, taken := range []bool{true, false} {
			if tagGuards(ifi.Cond, taken, ownerPath, st, idx) && ssax.OnlyViaEdge(b, e, at) {
				return true
			}
		}
	}
	return false
}

func liftGuard(f *ssa.Function, op string, st *types.Struct, idx int) bool {
	name := strings.TrimPrefix(strings.SplitN(op, ".", 2)[0], "fv:")
	name = strings.TrimSuffix(name, "*")
	rest := ""
	if i := strings.Index(op, "."); i >= 0 {
		rest = op[i:]
	}
	fvIdx := -1
	for i, fv := range f.FreeVars {
		if fv.Name() == name {
			fvIdx = i
		}
	}
	p := f.Parent()
	if fvIdx < 0 || p == nil {
		return false
	}
	ok := false
	for _, b := range p.Blocks {
		for _, in := range b.Instrs {
			mc, is := in.(*ssa.MakeClosure)
			if !is || mc.Fn != f {
				continue
			}
			bp, _ := ssax.Path(mc.Bindings[fvIdx])
			bpParam := ""
			if cell, ok := mc.Bindings[fvIdx].(*ssa.Alloc); ok {
				// a parameter captured by reference lives in a cell: the owner is the parameter
				if sv := ssax.SingleStore(cell); sv != nil {
					if prm, ok := sv.(*ssa.Parameter); ok {
						bpParam = prm.Name()
					}
				}
			}
			// the binding is the address of the variable: its content is the owner
			g := false
			for _, cand := range []string{bp + rest, bp + "*" + rest} {
				if guardedAtNormalized(p, b, cand, st, idx) {
					g = true
				}
			}
			if !g && strings.HasPrefix(bp, "fv:") {
				g = liftGuard(p, bp+rest, st, idx)
			}
			if !g {
				g = liftGuardParam(p, bp+rest, st, idx, 0)
			}
			if !g && bpParam != "" {
				g = liftGuardParam(p, bpParam+rest, st, idx, 0)
			}
			if !g {
				return false
			}
			ok = true
		}
	}
	return ok
}

// guardedAtNormalized compares owner paths ignoring dereference marks.
func guardedAtNormalized(f *ssa.Function, at *ssa.BasicBlock, ownerPath string, st *types.Struct, idx int) bool {
	norm := func(s string) string { return strings.ReplaceAll(s, "*", "") }
	for _, b := range f.Blocks {
		ifi, ok := b.Instrs[len(b.Instrs)-1].(*ssa.If)
		if !ok {
			continue
		}
		bo, ok := ifi.Cond.(*ssa.BinOp)
		if !ok {
			continue
		}
		for e, taken := range []bool{true, false} {
			matched := false
			// nil test
			if (bo.Op == token.NEQ && taken) || (bo.Op == token.EQL && !taken) {
				for _, pr := range [][2]ssa.Value{{bo.X, bo.Y}, {bo.Y, bo.X}} {
					if ssax.IsNilConst(pr[1]) {
						if o, s, i, ok := payloadLoad(pr[0]); ok && s == st && i == idx {
							if p, _ := ssax.Path(o); norm(p) == norm(ownerPath) {
								matched = true
							}
						}
					}
				}
			}
			if (bo.Op == token.EQL && taken) || (bo.Op == token.NEQ && !taken) {
				for _, pr := range [][2]ssa.Value{{bo.X, bo.Y}, {bo.Y, bo.X}} {
					if s, ok := ssax.ConstString(pr[1]); ok && s == jsonName(st, idx) {
						if tp, _ := ssax.Path(pr[0]); norm(tp) == norm(ownerPath)+".Type" {
							matched = true
						} else if prm, isP := peelToParam(pr[0]).(*ssa.Parameter); isP && tagParamOf(f, prm, ownerPath) {
							matched = true
						}
					}
				}
			}
			if matched && ssax.OnlyViaEdge(b, e, at) {
				return true
			}
		}
	}
	return false
}

func Tagged(w *load.World, c *core.Collector) {
	props := []string{"C18"}
	n := 0
	for _, f := range w.Fns {
		for _, b := range f.Blocks {
			for _, in := range b.Instrs {
				var base ssa.Value
				switch x := in.(type) {
				case *ssa.FieldAddr:
					base = x.X
				case *ssa.UnOp:
					if x.Op == token.MUL {
						if _, isPtr := x.X.Type().Underlying().(*types.Pointer); isPtr {
							base = x.X
						}
					}
				}
				if base == nil {
					continue
				}
				owner, st, idx, ok := payloadLoad(base)
				if !ok {
					continue
				}
				n++
				op, _ := ssax.Path(owner)
				taggedWorld = w
				g := guardedAtNormalized(f, b, op, st, idx)
				if !g && strings.HasPrefix(op, "fv:") {
					g = liftGuard(f, op, st, idx)
				}
				if !g {
					g = liftGuardParam(f, op, st, idx, 0)
				}
				key := fmt.Sprintf("deref:%s@%s", st.Field(idx).Name(), load.FnKey(f))
				if os.Getenv("SEMA_DEBUG") != "" {
					fmt.Fprintf(os.Stderr, "TAGGED %s op=%q g=%v at %s\n", key, op, g, w.At(in))
				}
				if g {
					c.Add("TAGGED", key, core.OK, w.At(in), "", props...)
				} else {
					c.Add("TAGGED", key, core.Violation, w.At(in),
						fmt.Sprintf("the optional payload %s is dereferenced without a nil test or a test that the owner's type tag is %q: a stored collection of another kind makes this a nil dereference", st.Field(idx).Name(), jsonName(st, idx)), props...)
				}
			}
		}
	}
	// helpers that hand out a payload pointer, or nil when the owner is of another kind: every use of
	// such a result as the base of a field access is behind a nil test of that result
	nh := 0
	for _, f := range w.Fns {
		if !load.InMod(f) {
			continue
		}
		for _, b := range f.Blocks {
			for _, in := range b.Instrs {
				call, ok := in.(*ssa.Call)
				if !ok {
					continue
				}
				g := call.Call.StaticCallee()
				if g == nil || !ssax.InModule(g) || g.Signature.Results().Len() != 1 {
					continue
				}
				pt, isPtr := g.Signature.Results().At(0).Type().Underlying().(*types.Pointer)
				if !isPtr || !strings.HasPrefix(ssax.TypeName(pt), "models.") {
					continue
				}
				mayNil := false
				for _, gb := range g.Blocks {
					if r, ok := gb.Instrs[len(gb.Instrs)-1].(*ssa.Return); ok && ssax.IsNilConst(r.Results[0]) {
						mayNil = true
					}
				}
				if !mayNil {
					continue
				}
				nonNil, _ := ssax.NilTests(f, call)
				for _, r := range *call.Referrers() {
					var ub *ssa.BasicBlock
					switch x := r.(type) {
					case *ssa.FieldAddr:
						if x.X == ssa.Value(call) {
							ub = x.Block()
						}
					case *ssa.UnOp:
						if x.Op == token.MUL && x.X == ssa.Value(call) {
							ub = x.Block()
						}
					}
					if ub == nil {
						continue
					}
					nh++
					key := fmt.Sprintf("nullable-result:%s@%s", load.FnKey(g), load.FnKey(f))
					if onlyViaAny(nonNil, ub) {
						c.Add("TAGGED", key, core.OK, w.At(r), "", props...)
					} else {
						c.Add("TAGGED", key, core.Violation, w.At(r), "the result of "+load.FnKey(g)+" is nil for an owner of another kind, and it is dereferenced here without a nil test", props...)
					}
				}
			}
		}
	}
	c.Count("nullable_payload_results_dereferenced", nh)
	c.Count("tagged_union_dereferences", n)
	if n < 60 {
		c.Add("TAGGED", "anchor:derefs", core.Undecided, "", fmt.Sprintf("found %d payload dereferences, expected at least 60", n), props...)
	}
}

// --------------------------------------------------------------------- FOLD

type fieldOrigin struct{ structT, field string }

// partialFoldHelpers: module functions that return a folded string on some paths and an unfolded one on others.
var partialFoldHelpers = map[string]bool{}

func foldSlice(v ssa.Value, seen map[ssa.Value]bool, fields map[fieldOrigin]bool, lowered *bool) {
	if v == nil || seen[v] {
		return
	}
	seen[v] = true
	switch x := v.(type) {
	case *ssa.Call:
		if f := x.Call.StaticCallee(); f != nil && ssax.InModule(f) && len(seen) < 400 {
			// a folding helper of the module: it folds only if every one of its returns is a folded value
			all, any := true, false
			for _, b := range f.Blocks {
				ret, ok := b.Instrs[len(b.Instrs)-1].(*ssa.Return)
				if !ok || b == f.Recover || len(ret.Results) == 0 {
					continue
				}
				var l bool
				foldSlice(ret.Results[0], map[ssa.Value]bool{}, map[fieldOrigin]bool{}, &l)
				if l {
					any = true
				} else if !onlyOnCaseSensitive(f, b) {
					// an unfolded return is what the case-sensitive configuration asks for
					all = false
				}
			}
			if any && all {
				*lowered = true
			}
			if any && !all {
				partialFoldHelpers[f.String()] = true
			}
		}
		if f := x.Call.StaticCallee(); f != nil {
			switch f.String() {
			case "strings.ToLower", "strings.ToUpper", "strings.ToLowerSpecial", "strings.ToValidUTF8":
				if strings.HasPrefix(f.Name(), "ToLower") || strings.HasPrefix(f.Name(), "ToUpper") {
					*lowered = true
				}
			}
			if strings.Contains(f.String(), "golang.org/x/text/cases") {
				*lowered = true
			}
		}
		for _, a := range x.Call.Args {
			foldSlice(a, seen, fields, lowered)
		}
	case *ssa.Phi:
		for _, e := range x.Edges {
			foldSlice(e, seen, fields, lowered)
		}
	case *ssa.Field:
		fields[fieldOrigin{ssax.TypeName(x.X.Type()), ssax.StructOf(x.X.Type()).Field(x.Field).Name()}] = true
	case *ssa.FieldAddr:
		fields[fieldOrigin{ssax.TypeName(x.X.Type()), ssax.StructOf(x.X.Type()).Field(x.Field).Name()}] = true
	case *ssa.UnOp:
		foldSlice(x.X, seen, fields, lowered)
		if al, ok := x.X.(*ssa.Alloc); ok {
			for _, r := range *al.Referrers() {
				if s, ok := r.(*ssa.Store); ok && s.Addr == al {
					foldSlice(s.Val, seen, fields, lowered)
				}
			}
		}
	case *ssa.IndexAddr:
		foldSlice(x.X, seen, fields, lowered)
	case *ssa.Slice:
		foldSlice(x.X, seen, fields, lowered)
	}
}

// foldsParamInPlace: h lower-cases every element of its slice parameter i in place (a loop over
// the whole parameter that stores the folded element back); -1 if it does no such thing.
func foldsParamInPlace(h *ssa.Function) int {
	if h == nil || len(h.Blocks) == 0 {
		return -1
	}
	for _, b := range h.Blocks {
		if !inLoop(b) {
			continue
		}
		for _, in := range b.Instrs {
			st, ok := in.(*ssa.Store)
			if !ok {
				continue
			}
			ia, ok := st.Addr.(*ssa.IndexAddr)
			if !ok {
				continue
			}
			var lowered bool
			foldSlice(st.Val, map[ssa.Value]bool{}, map[fieldOrigin]bool{}, &lowered)
			if !lowered {
				continue
			}
			for i, p := range h.Params {
				if ia.X == ssa.Value(p) {
					return i
				}
			}
		}
	}
	return -1
}

func inPlaceFold(f *ssa.Function, s ssa.Value) bool {
	fb := map[fieldOrigin]bool{}
	var dummy bool
	foldSlice(s, map[ssa.Value]bool{}, fb, &dummy)
	for _, b := range f.Blocks {
		for _, in := range b.Instrs {
			// a helper that folds its argument in place, called on the same field
			if call, ok := in.(*ssa.Call); ok {
				if h := call.Call.StaticCallee(); h != nil && ssax.InModule(h) {
					if pi := foldsParamInPlace(h); pi >= 0 && pi < len(call.Call.Args) {
						fa := map[fieldOrigin]bool{}
						foldSlice(call.Call.Args[pi], map[ssa.Value]bool{}, fa, &dummy)
						for o := range fa {
							if fb[o] {
								return true
							}
						}
						if call.Call.Args[pi] == s {
							return true
						}
					}
				}
			}
			st, ok := in.(*ssa.Store)
			if !ok {
				continue
			}
			ia, ok := st.Addr.(*ssa.IndexAddr)
			if !ok {
				continue
			}
			fa := map[fieldOrigin]bool{}
			foldSlice(ia.X, map[ssa.Value]bool{}, fa, &dummy)
			same := false
			for o := range fa {
				if fb[o] {
					same = true
				}
			}
			var lowered bool
			foldSlice(st.Val, map[ssa.Value]bool{}, map[fieldOrigin]bool{}, &lowered)
			if same && lowered {
				return true
			}
		}
	}
	return false
}

func isKeyType(t types.Type) bool {
	switch x := t.(type) {
	case *types.TypeParam:
		return true
	case *types.Slice:
		_, ok := x.Elem().(*types.TypeParam)
		return ok
	case *types.Pointer:
		_, ok := x.Elem().(*types.TypeParam)
		return ok
	}
	return false
}

func Fold(w *load.World, c *core.Collector) {
	props := []string{"C02"}
	n := 0
	partialFoldHelpers = map[string]bool{}
	foldsIn := map[*ssa.Function]bool{} // top-level methods that contain (or whose literals contain) a fold site
	topOf := func(f *ssa.Function) *ssa.Function {
		for f.Parent() != nil {
			f = f.Parent()
		}
		return f
	}
	defer func() {
		// presence: every method of a case-aware wrapper that hands key operands to its inner index folds them
		np := 0
		for _, f := range w.Fns {
			if load.PkgPath(f) != load.Mod+"/shard/index/inverted" || f.Parent() != nil || f.Signature.Recv() == nil {
				continue
			}
			st := ssax.StructOf(f.Signature.Recv().Type())
			if st == nil {
				continue
			}
			caseAware := false
			var hasCase func(t types.Type, depth int) bool
			hasCase = func(t types.Type, depth int) bool {
				ps := ssax.StructOf(t)
				if ps == nil || depth > 3 {
					return false
				}
				for j := 0; j < ps.NumFields(); j++ {
					if ps.Field(j).Name() == "CaseSensitive" || hasCase(ps.Field(j).Type(), depth+1) {
						return true
					}
				}
				return false
			}
			for i := 0; i < st.NumFields(); i++ {
				if hasCase(st.Field(i).Type(), 0) {
					caseAware = true
				}
			}
			if !caseAware {
				continue
			}
			// does the method (or a literal of it) call into the inner generic index with key-typed operands?
			forwards := false
			var visit func(g *ssa.Function)
			visit = func(g *ssa.Function) {
				for _, b := range g.Blocks {
					for _, in := range b.Instrs {
						if call, ok := in.(*ssa.Call); ok {
							if callee := call.Call.StaticCallee(); callee != nil && callee.Origin() != nil && callee.Signature.Recv() != nil && load.PkgPath(callee) == load.Mod+"/shard/index/inverted" {
								osig := callee.Origin().Signature
								for i := 0; i < osig.Params().Len(); i++ {
									t := osig.Params().At(i).Type()
									if isKeyType(t) {
										forwards = true
									}
									if ch, ok := t.Underlying().(*types.Chan); ok {
										if nt, ok := ch.Elem().(*types.Named); ok && nt.TypeArgs().Len() > 0 {
											forwards = true
										}
									}
								}
							}
						}
					}
				}
				for _, a := range g.AnonFuncs {
					visit(a)
				}
			}
			visit(f)
			if !forwards {
				continue
			}
			np++
			key := "presence:" + load.FnKey(f)
			if foldsIn[f] {
				c.Add("FOLD", key, core.OK, w.Position(f.Pos()), "", props...)
			} else {
				msg := "this method of a case-aware index hands key operands to the inner index without folding them on the case-insensitive branch: values that differ only in case are diffed, stored or looked up as different keys"
				var hs []string
				for h := range partialFoldHelpers {
					hs = append(hs, load.Short(h))
				}
				sort.Strings(hs)
				if len(hs) > 0 {
					msg += fmt.Sprintf(" (the helper(s) %v fold on some paths only: they return their argument unfolded on others)", hs)
				}
				c.Add("FOLD", key, core.Violation, w.Position(f.Pos()), msg, props...)
			}
		}
		c.Count("case_aware_forwarding_methods", np)
		if np < 4 {
			c.Add("FOLD", "anchor:case-aware-methods", core.Undecided, "", fmt.Sprintf("found %d methods of case-aware wrappers that forward key operands, expected at least 4", np), props...)
		}
	}()
	for _, f := range w.Fns {
		if load.PkgPath(f) != load.Mod+"/shard/index/inverted" {
			continue
		}
		// only wrapper code that actually folds something is of interest
		for _, b := range f.Blocks {
			for _, in := range b.Instrs {
				call, ok := in.(*ssa.Call)
				if !ok {
					continue
				}
				callee := call.Call.StaticCallee()
				if callee == nil || callee.Origin() == nil || callee.Signature.Recv() == nil {
					continue
				}
				osig := callee.Origin().Signature
				type member struct {
					fields  []string
					lowered bool
					rawAlt  bool // the operand is a choice between the folded and the unfolded value
				}
				var ms []member
				for i := 0; i < osig.Params().Len(); i++ {
					if !isKeyType(osig.Params().At(i).Type()) {
						continue
					}
					arg := call.Call.Args[i+1]
					fields := map[fieldOrigin]bool{}
					var lowered bool
					foldSlice(arg, map[ssa.Value]bool{}, fields, &lowered)
					if !lowered {
						lowered = inPlaceFold(f, arg)
					}
					var fs []string
					for o := range fields {
						fs = append(fs, o.structT+"."+o.field)
					}
					sort.Strings(fs)
					rawAlt := false
					if phi, ok := arg.(*ssa.Phi); ok {
						for _, e := range phi.Edges {
							var l bool
							foldSlice(e, map[ssa.Value]bool{}, map[fieldOrigin]bool{}, &l)
							if !l {
								rawAlt = true
							}
						}
					}
					ms = append(ms, member{fs, lowered, rawAlt})
				}
				any, all := false, true
				for _, m := range ms {
					any = any || m.lowered
					all = all && m.lowered
				}
				if !any {
					continue
				}
				n++
				foldsIn[topOf(f)] = true
				key := "siblings:" + load.FnKey(f) + "->" + load.FnKey(callee)
				// folded under the same condition: an operand that is folded whatever the index's case
				// sensitivity next to one that is folded only when the index is case-insensitive
				condMismatch := ""
				for _, m := range ms {
					for _, m2 := range ms {
						if m.lowered && m2.lowered && m.rawAlt && !m2.rawAlt {
							condMismatch = strings.Join(m2.fields, "+")
						}
					}
				}
				if all && condMismatch != "" {
					c.Add("FOLD", key, core.Violation, w.At(in), fmt.Sprintf("%s is case-folded unconditionally while its sibling operands are folded only when the index is case-insensitive: on a case-sensitive index it no longer lines up with the stored keys", condMismatch), props...)
				} else if all {
					c.Add("FOLD", key, core.OK, w.At(in), "", props...)
				} else {
					var raw []string
					for _, m := range ms {
						if !m.lowered {
							raw = append(raw, strings.Join(m.fields, "+"))
						}
					}
					c.Add("FOLD", key, core.Violation, w.At(in), fmt.Sprintf("some key operands are case-folded before reaching the index but %v are passed raw", raw), props...)
				}
			}
		}
		// literals (or named transformers) that fold fields of a generic change struct
		if len(f.Params) == 1 && f.Signature.Recv() == nil {
			nt, ok := f.Params[0].Type().(*types.Named)
			if !ok || nt.TypeArgs().Len() == 0 {
				continue
			}
			ost, ok := nt.Origin().Underlying().(*types.Struct)
			if !ok {
				continue
			}
			var keyFields []string
			for i := 0; i < ost.NumFields(); i++ {
				if isKeyType(ost.Field(i).Type()) {
					keyFields = append(keyFields, ost.Field(i).Name())
				}
			}
			folded := map[string]bool{}
			for _, b := range f.Blocks {
				for _, in := range b.Instrs {
					if call, ok := in.(*ssa.Call); ok {
						if h := call.Call.StaticCallee(); h != nil && ssax.InModule(h) {
							if pi := foldsParamInPlace(h); pi >= 0 && pi < len(call.Call.Args) {
								fields := map[fieldOrigin]bool{}
								var dummy bool
								foldSlice(call.Call.Args[pi], map[ssa.Value]bool{}, fields, &dummy)
								for o := range fields {
									folded[o.field] = true
								}
							}
						}
					}
					st, ok := in.(*ssa.Store)
					if !ok {
						continue
					}
					var lowered bool
					foldSlice(st.Val, map[ssa.Value]bool{}, map[fieldOrigin]bool{}, &lowered)
					if !lowered {
						continue
					}
					fields := map[fieldOrigin]bool{}
					var dummy bool
					foldSlice(st.Addr, map[ssa.Value]bool{}, fields, &dummy)
					for o := range fields {
						folded[o.field] = true
					}
				}
			}
			if len(folded) == 0 {
				continue
			}
			n++
			foldsIn[topOf(f)] = true
			if f.Parent() == nil {
				// a named transformer: the methods that hand it on are the ones that fold
				for _, m := range w.Fns {
					for _, mb := range m.Blocks {
						for _, mi := range mb.Instrs {
							for _, op := range mi.Operands(nil) {
								if *op == ssa.Value(f) {
									foldsIn[topOf(m)] = true
								}
							}
						}
					}
				}
			}
			key := "siblings:" + load.FnKey(f)
			var raw []string
			for _, k := range keyFields {
				if !folded[k] {
					raw = append(raw, k)
				}
			}
			if len(raw) == 0 {
				c.Add("FOLD", key, core.OK, w.Position(f.Pos()), "", props...)
			} else {
				c.Add("FOLD", key, core.Violation, w.Position(f.Pos()), fmt.Sprintf("the change is folded for some key fields but not for %v: postings written under one case are looked up or removed under another", raw), props...)
			}
		}
	}
	c.Count("fold_sites", n)
	if n < 4 {
		c.Add("FOLD", "anchor:fold-sites", core.Undecided, "", fmt.Sprintf("found %d case-folding sites, expected at least 4", n), props...)
	}
}

// constStringsIn: string constants in an argument expression (directly, or as the elements of a
// slice literal built for a variadic parameter).
func constStringsIn(v ssa.Value, depth int) []string {
	if depth > 3 {
		return nil
	}
	if s, ok := ssax.ConstString(v); ok {
		return []string{s}
	}
	switch x := v.(type) {
	case *ssa.Slice:
		if al, ok := x.X.(*ssa.Alloc); ok {
			var out []string
			for _, r := range *al.Referrers() {
				if ia, ok := r.(*ssa.IndexAddr); ok {
					for _, rr := range *ia.Referrers() {
						if st, ok := rr.(*ssa.Store); ok {
							out = append(out, constStringsIn(st.Val, depth+1)...)
						}
					}
				}
			}
			return out
		}
	case *ssa.Convert:
		return constStringsIn(x.X, depth+1)
	case *ssa.ChangeType:
		return constStringsIn(x.X, depth+1)
	}
	return nil
}

// onlyOnCaseSensitive: block b of f is only reached when a CaseSensitive flag was found set.
func onlyOnCaseSensitive(f *ssa.Function, b *ssa.BasicBlock) bool {
	for _, bb := range f.Blocks {
		ifi, ok := bb.Instrs[len(bb.Instrs)-1].(*ssa.If)
		if !ok {
			continue
		}
		cond, neg := ifi.Cond, false
		if u, ok := cond.(*ssa.UnOp); ok && u.Op == token.NOT {
			cond, neg = u.X, true
		}
		if !ssax.Prov(cond)["field:CaseSensitive"] {
			continue
		}
		if _, isBin := cond.(*ssa.BinOp); isBin {
			continue
		}
		edge := 0
		if neg {
			edge = 1
		}
		if bb == b {
			continue
		}
		if ssax.OnlyViaEdge(bb, edge, b) {
			return true
		}
	}
	return false
}

var taggedWorld *load.World

// liftGuardParam: the owner is (reached from) a parameter of a helper: the tag or
// nil test may have been made by the callers. Holds when every static call site
// of f passes an owner that is guarded there (at the call).
func liftGuardParam(f *ssa.Function, op string, st *types.Struct, idx int, depth int) bool {
	if taggedWorld == nil || depth > 2 || f == nil {
		return false
	}
	root := op
	rest := ""
	for i, ch := range op {
		if ch == '.' || ch == '*' {
			root, rest = op[:i], op[i:]
			break
		}
	}
	pi := -1
	for i, p := range f.Params {
		if p.Name() == root {
			pi = i
		}
	}
	if pi < 0 {
		return false
	}
	sites := 0
	for _, g := range taggedWorld.Fns {
		for _, b := range g.Blocks {
			for _, in := range b.Instrs {
				ci, ok := in.(ssa.CallInstruction)
				if !ok || ci.Common().StaticCallee() != f || pi >= len(ci.Common().Args) {
					continue
				}
				sites++
				ap, _ := ssax.Path(ci.Common().Args[pi])
				okSite := false
				cands := []string{ap + rest, ap + "*" + rest}
				if ld, ok := ci.Common().Args[pi].(*ssa.UnOp); ok && ld.Op == token.MUL {
					// the variable itself (a cell): guards are written against it
					if cp, _ := ssax.Path(ld.X); cp != "" {
						if al, isAl := ld.X.(*ssa.Alloc); isAl {
							cp = fmt.Sprintf("alloc:%s@%d", al.Comment, al.Pos())
						}
						cands = append(cands, cp+rest, cp+"*"+rest)
					}
				}
				for _, cand := range cands {
					if guardedAtNormalized(g, b, cand, st, idx) {
						okSite = true
					}
				}
				if !okSite && strings.HasPrefix(ap, "fv:") {
					okSite = liftGuard(g, ap+rest, st, idx)
				}
				if !okSite {
					okSite = liftGuardParam(g, ap+rest, st, idx, depth+1)
				}
				if !okSite {
					return false
				}
			}
		}
	}
	return sites > 0
}

// staticCallSites: the static call sites of f in the module.
func staticCallSites(w *load.World, f *ssa.Function) []ssa.CallInstruction {
	var out []ssa.CallInstruction
	for _, g := range w.Fns {
		if !load.InMod(g) {
			continue
		}
		for _, b := range g.Blocks {
			for _, in := range b.Instrs {
				if ci, ok := in.(ssa.CallInstruction); ok && ci.Common().StaticCallee() == f {
					out = append(out, ci)
				}
			}
		}
	}
	return out
}

// delegated: f is an unexported function whose only uses are static calls from functions
// of its package that satisfy ok (a sub-dispatcher serving an exhaustive dispatcher).
func delegated(w *load.World, f *ssa.Function, ok func(*ssa.Function) bool) bool {
	if f == nil || f.Object() == nil || f.Object().Exported() || f.Signature.Recv() != nil && false {
		return false
	}
	sites := staticCallSites(w, f)
	if len(sites) == 0 {
		return false
	}
	for _, s := range sites {
		g := s.Parent()
		if load.PkgPath(g) != load.PkgPath(f) || !ok(g) {
			return false
		}
	}
	// the function is not used as a value anywhere
	for _, g := range w.Fns {
		if !load.InMod(g) {
			continue
		}
		for _, b := range g.Blocks {
			for _, in := range b.Instrs {
				for _, op := range in.Operands(nil) {
					if *op == ssa.Value(f) {
						if ci, isCall := in.(ssa.CallInstruction); isCall && ci.Common().Value == ssa.Value(f) {
							continue
						}
						return false
					}
				}
			}
		}
	}
	return true
}

// tagParamOf: the parameter tag of f carries the type tag of the owner (another parameter
// of f, or something reached from one) at every static call site: "helper(itype, params)"
// called with (params.Type, params).
func tagParamOf(f *ssa.Function, tag *ssa.Parameter, ownerPath string) bool {
	if taggedWorld == nil {
		return false
	}
	norm := func(s string) string { return strings.ReplaceAll(s, "*", "") }
	root, rest := ownerPath, ""
	for i, ch := range ownerPath {
		if ch == '.' || ch == '*' {
			root, rest = ownerPath[:i], ownerPath[i:]
			break
		}
	}
	if strings.HasPrefix(root, "alloc:") {
		// a parameter taken by value lives in a cell named after it
		root = strings.TrimPrefix(root, "alloc:")
		if i := strings.Index(root, "@"); i >= 0 {
			root = root[:i]
		}
	}
	oi, ti := -1, -1
	for i, p := range f.Params {
		if p.Name() == root {
			oi = i
		}
		if p == tag {
			ti = i
		}
	}
	if oi < 0 || ti < 0 || oi == ti {
		return false
	}
	sites := staticCallSites(taggedWorld, f)
	for _, ci := range sites {
		args := ci.Common().Args
		if oi >= len(args) || ti >= len(args) {
			return false
		}
		ap, _ := ssax.Path(args[oi])
		tp, _ := ssax.Path(args[ti])
		if os.Getenv("SEMA_DEBUG") != "" {
			fmt.Fprintf(os.Stderr, "tagParamOf %s owner=%q ap=%q tp=%q\n", f.Name(), ownerPath, ap, tp)
		}
		cands := []string{ap}
		if ld, ok := args[oi].(*ssa.UnOp); ok && ld.Op == token.MUL {
			if al, isAl := ld.X.(*ssa.Alloc); isAl {
				// the variable itself (a cell): the tag is read from it
				cands = append(cands, fmt.Sprintf("alloc:%s@%d", al.Comment, al.Pos()))
			}
		}
		match := false
		for _, cand := range cands {
			if cand != "" && norm(tp) == norm(cand+rest)+".Type" {
				match = true
			}
		}
		if !match {
			return false
		}
	}
	return len(sites) > 0
}
