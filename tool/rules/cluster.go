package rules

import (
	"fmt"
	"go/token"
	"go/types"
	"os"
	"sort"
	"strings"

	"golang.org/x/tools/go/ssa"

	"semaverif/internal/core"
	"semaverif/internal/load"
	"semaverif/internal/ssax"
)

const clusterPkg = load.Mod + "/cluster"

func clusterFns(w *load.World) []*ssa.Function {
	var out []*ssa.Function
	for _, f := range w.Fns {
		if load.PkgPath(f) == clusterPkg {
			out = append(out, f)
		}
	}
	return out
}

func findFn(w *load.World, key string) *ssa.Function {
	for _, f := range w.Fns {
		if load.FnKey(f) == key {
			// a method that only takes a lock and delegates: the rules want the body
			return unwrapThin(f)
		}
	}
	return nil
}

// provDeep follows parameters of functions to the arguments at their call
// sites (one level), for literals and unexported helpers.
func provDeep(w *load.World, v ssa.Value) ssax.Origins {
	return provDeepN(w, v, 3)
}

func provDeepN(w *load.World, v ssa.Value, depth int) ssax.Origins {
	o := ssax.Prov(v)
	f := v.Parent()
	if f == nil || depth == 0 {
		return o
	}
	// captured variables: what is ever stored into the captured cell, by the enclosing function or by
	// any literal that shares it
	for k := range o {
		if !strings.HasPrefix(k, "freevar:") || f.Parent() == nil {
			continue
		}
		name := strings.TrimPrefix(k, "freevar:")
		for i, fv := range f.FreeVars {
			if fv.Name() != name {
				continue
			}
			for _, pb := range f.Parent().Blocks {
				for _, pi := range pb.Instrs {
					mc, ok := pi.(*ssa.MakeClosure)
					if !ok || mc.Fn != f || i >= len(mc.Bindings) {
						continue
					}
					cell, isCell := mc.Bindings[i].(*ssa.Alloc)
					if !isCell {
						for kk := range provDeepN(w, mc.Bindings[i], depth-1) {
							o["via-"+name+":"+kk] = true
						}
						continue
					}
					// stores into the cell in the parent ...
					for _, r := range *cell.Referrers() {
						if st, ok := r.(*ssa.Store); ok && st.Addr == ssa.Value(cell) {
							for kk := range provDeepN(w, st.Val, depth-1) {
								o["via-"+name+":"+kk] = true
							}
						}
					}
					// ... and in literals that capture the same cell
					for _, g := range w.Fns {
						if g.Parent() != f.Parent() && g != f {
							continue
						}
						for _, gb := range g.Blocks {
							for _, gi := range gb.Instrs {
								st, ok := gi.(*ssa.Store)
								if !ok {
									continue
								}
								gfv, ok := st.Addr.(*ssa.FreeVar)
								if !ok {
									continue
								}
								// same cell?
								for j, q := range g.FreeVars {
									if q != gfv {
										continue
									}
									for _, pb2 := range f.Parent().Blocks {
										for _, pi2 := range pb2.Instrs {
											if mc2, ok := pi2.(*ssa.MakeClosure); ok && mc2.Fn == g && j < len(mc2.Bindings) && mc2.Bindings[j] == ssa.Value(cell) {
												for kk := range provDeepN(w, st.Val, depth-1) {
													o["via-"+name+":"+kk] = true
												}
											}
										}
									}
								}
							}
						}
					}
				}
			}
		}
	}
	for k := range o {
		if !strings.HasPrefix(k, "param:") {
			continue
		}
		name := strings.TrimPrefix(k, "param:")
		pi := -1
		for i, p := range f.Params {
			if p.Name() == name {
				pi = i
			}
		}
		if pi < 0 {
			continue
		}
		for _, g := range w.Fns {
			for _, b := range g.Blocks {
				for _, in := range b.Instrs {
					ci, ok := in.(ssa.CallInstruction)
					if !ok {
						continue
					}
					cc := ci.Common()
					target := false
					if cc.StaticCallee() == f {
						target = true
					}
					if mc, ok := cc.Value.(*ssa.MakeClosure); ok && mc.Fn == f {
						target = true
					}
					if !target {
						continue
					}
					ai := pi
					if cc.StaticCallee() == nil || cc.StaticCallee().Signature.Recv() == nil {
						// plain function or literal: params == args
					}
					if ai < len(cc.Args) {
						for kk := range provDeepN(w, cc.Args[ai], depth-1) {
							o["via-"+name+":"+kk] = true
						}
					}
				}
			}
		}
	}
	return o
}

// ------------------------------------------------------------------- PURITY

var pureHashes = []string{"github.com/cespare/xxhash.Sum64String", "github.com/cespare/xxhash.Sum64", "github.com/cespare/xxhash/v2.Sum64String", "github.com/cespare/xxhash/v2.Sum64", "hash/fnv", "hash/crc32", "hash/crc64", "hash/maphash"}

// hashThroughParam: the call goes through a function-typed parameter for which every call site
// of the enclosing function passes one of the pure hash functions ("the hash is a parameter"):
// that function's name, or "".
func hashThroughParam(w *load.World, call *ssa.Call) string {
	par, ok := call.Call.Value.(*ssa.Parameter)
	if !ok || call.Call.IsInvoke() {
		return ""
	}
	fn := par.Parent()
	idx := -1
	for i, q := range fn.Params {
		if q == par {
			idx = i
		}
	}
	sites := staticCallSites(w, fn)
	if idx < 0 || len(sites) == 0 {
		return ""
	}
	name := ""
	for _, s := range sites {
		if idx >= len(s.Common().Args) {
			return ""
		}
		g, ok := s.Common().Args[idx].(*ssa.Function)
		if !ok {
			return ""
		}
		pure := false
		for _, h := range pureHashes {
			if strings.Contains(g.String(), h) {
				pure = true
			}
		}
		if !pure {
			return ""
		}
		name = g.String()
	}
	return name
}

func Purity(w *load.World, c *core.Collector) {
	props := []string{"C13"}
	rh := w.Func("/cluster", "RendezvousHash")
	if rh == nil {
		c.Add("PURITY", "anchor:RendezvousHash", core.Undecided, "", "cluster.RendezvousHash not found", props...)
		return
	}
	nHash := 0
	// the scoring loop may have been moved into a helper: analyse it where it lives, with the
	// helper's parameters standing for the key and the server list
	top := rh
	isHashCall := func(in ssa.Instruction) bool {
		call, ok := in.(*ssa.Call)
		if !ok {
			return false
		}
		if hashThroughParam(w, call) != "" {
			return true
		}
		if g := call.Call.StaticCallee(); g != nil {
			for _, h := range pureHashes {
				if strings.Contains(g.String(), h) {
					return true
				}
			}
		}
		name := ""
		if call.Call.IsInvoke() {
			name = call.Call.Method.Name()
		}
		return name == "Sum64" || name == "Sum32"
	}
	if home := homeOf(rh, func(g *ssa.Function) bool {
		for _, b := range g.Blocks {
			for _, in := range b.Instrs {
				if isHashCall(in) {
					return true
				}
			}
		}
		return false
	}); home != rh && len(home.Params) >= 2 {
		// map the parameters through the call site
		var kp, sp *ssa.Parameter
		for _, b := range rh.Blocks {
			for _, in := range b.Instrs {
				if ssax.StaticModuleCallee(in) != home {
					continue
				}
				for i, a := range in.(ssa.CallInstruction).Common().Args {
					if i >= len(home.Params) {
						break
					}
					if a == ssa.Value(rh.Params[0]) {
						kp = home.Params[i]
					}
					if a == ssa.Value(rh.Params[1]) {
						sp = home.Params[i]
					}
				}
			}
		}
		if kp != nil && sp != nil {
			rh = home
			purityKey, purityServers = kp, sp
		}
	}
	if purityKey == nil {
		purityKey, purityServers = rh.Params[0], rh.Params[1]
	}
	defer func() { purityKey, purityServers = nil, nil }()
	for _, b := range rh.Blocks {
		for _, in := range b.Instrs {
			call, ok := in.(*ssa.Call)
			if !ok {
				continue
			}
			g := call.Call.StaticCallee()
			isHash := hashThroughParam(w, call) != "" && len(call.Call.Args) > 0
			if g == nil && !isHash {
				continue
			}
			for _, h := range pureHashes {
				if g != nil && (strings.HasPrefix(g.String(), h) || strings.Contains(g.String(), h)) {
					isHash = true
				}
			}
			if isHash {
				nHash++
				o := hashInputLabels(call.Call.Args[0], purityKey, 0)
				pKey, pServers := "param:"+purityKey.Name(), "elem(param:"+purityServers.Name()+")"
				var bad []string
				for k := range o {
					switch {
					case k == "const", k == pKey, k == pServers:
					case strings.HasPrefix(k, "call:strings.") || strings.HasPrefix(k, "call:strconv."):
					default:
						bad = append(bad, k)
					}
				}
				sort.Strings(bad)
				if !o[pKey] || !o[pServers] {
					bad = append(bad, "missing key or server")
				}
				if len(bad) > 0 {
					c.Add("PURITY", "hash-input", core.Violation, w.At(in), fmt.Sprintf("the score of a server depends on more than (key, that server): %v — owners would change with list order or size", bad), props...)
				} else {
					c.Add("PURITY", "hash-input", core.OK, w.At(in), "", props...)
				}
			}
			if g == nil {
				continue
			}
			if strings.HasPrefix(g.String(), "slices.SortFunc") || strings.HasPrefix(g.String(), "sort.Slice") || strings.HasPrefix(g.String(), "slices.SortStableFunc") {
				var cmpFn *ssa.Function
				for _, a := range call.Call.Args {
					switch x := a.(type) {
					case *ssa.Function:
						cmpFn = x
					case *ssa.MakeClosure:
						cmpFn = x.Fn.(*ssa.Function)
					}
				}
				if cmpFn == nil {
					c.Add("PURITY", "comparator", core.Undecided, w.At(in), "comparator not resolved", props...)
					continue
				}
				bad := []string{}
				for _, bb := range cmpFn.Blocks {
					for _, ii := range bb.Instrs {
						if r, ok := ii.(*ssa.Return); ok {
							for k := range ssax.Prov(r.Results[0]) {
								switch {
								case k == "const", strings.HasPrefix(k, "param:"), strings.HasPrefix(k, "field:"), strings.HasPrefix(k, "call:cmp.Compare"), strings.HasPrefix(k, "call:strings.Compare"):
								case strings.HasPrefix(k, "elem(freevar:") && indexedOnlyByParams(cmpFn, strings.TrimSuffix(strings.TrimPrefix(k, "elem(freevar:"), ")")):
									// an index sort: the operands are positions in a captured table of scores
								default:
									bad = append(bad, k)
								}
							}
							// shape: the sign must come from comparisons, never from arithmetic on the
							// scores (a difference of unsigned or wide integers wraps: not a total order)
							var shape func(v ssa.Value, depth int) string
							shape = func(v ssa.Value, depth int) string {
								if depth > 6 {
									return "value too deep to decide"
								}
								switch x := v.(type) {
								case *ssa.Const:
									return ""
								case *ssa.Phi:
									for _, e := range x.Edges {
										if m := shape(e, depth+1); m != "" {
											return m
										}
									}
									return ""
								case *ssa.Call:
									if g := x.Call.StaticCallee(); g != nil {
										n := g.String()
										if strings.HasPrefix(n, "cmp.Compare") || strings.HasPrefix(n, "strings.Compare") || strings.HasPrefix(n, "bytes.Compare") {
											return ""
										}
									}
									return "result of a call other than cmp.Compare"
								case *ssa.UnOp:
									if x.Op == token.SUB {
										return shape(x.X, depth+1)
									}
								case *ssa.Convert:
									return "a converted arithmetic value (" + x.X.String() + "): differences of scores overflow, the order is not transitive"
								case *ssa.BinOp:
									return "arithmetic on the scores (" + x.String() + "): differences overflow, the order is not transitive"
								}
								return fmt.Sprintf("a value of kind %T", v)
							}
							if m := shape(r.Results[0], 0); m != "" {
								bad = append(bad, "shape: "+m)
							}
						}
						if ifi, ok := ii.(*ssa.If); ok {
							bo, isCmp := ifi.Cond.(*ssa.BinOp)
							okCond := false
							if isCmp {
								switch bo.Op {
								case token.LSS, token.GTR, token.LEQ, token.GEQ, token.EQL, token.NEQ:
									_, xa := bo.X.(*ssa.BinOp)
									_, ya := bo.Y.(*ssa.BinOp)
									okCond = !xa && !ya
								}
							}
							if !okCond {
								bad = append(bad, "shape: branch on something other than a plain comparison of the two operands' scores")
							}
						}
					}
				}
				if len(bad) > 0 {
					c.Add("PURITY", "comparator", core.Violation, w.At(in), fmt.Sprintf("the ranking comparator depends on %v besides its two operands", bad), props...)
				} else {
					c.Add("PURITY", "comparator", core.OK, w.At(in), "", props...)
				}
			}
		}
	}
	// the hash sits in a literal of the function ("weigh := func(server string) …"): its inputs are
	// read in the literal and translated to the function's own terms (a captured key is the key, a
	// parameter of the literal is what the function's calls of it pass)
	for _, af := range rh.AnonFuncs {
		for _, b := range af.Blocks {
			for _, in := range b.Instrs {
				call, ok := in.(*ssa.Call)
				if !ok || call.Call.StaticCallee() == nil {
					continue
				}
				isHash := false
				for _, h := range pureHashes {
					if strings.Contains(call.Call.StaticCallee().String(), h) {
						isHash = true
					}
				}
				if !isHash {
					continue
				}
				nHash++
				pKey, pServers := "param:"+purityKey.Name(), "elem(param:"+purityServers.Name()+")"
				o := ssax.Origins{}
				for k := range hashInputLabels(call.Call.Args[0], purityKey, 0) {
					switch {
					case strings.HasPrefix(k, "freevar:"):
						name := strings.TrimPrefix(k, "freevar:")
						switch name {
						case purityKey.Name():
							o[pKey] = true
						default:
							o[k] = true
						}
					case strings.HasPrefix(k, "param:"):
						idx := -1
						for i, q := range af.Params {
							if "param:"+q.Name() == k {
								idx = i
							}
						}
						if idx < 0 {
							o[k] = true
							continue
						}
						// what the enclosing function passes
						n := 0
						for _, rb := range rh.Blocks {
							for _, ri := range rb.Instrs {
								rc, ok := ri.(*ssa.Call)
								if !ok || rc.Call.IsInvoke() || rc.Call.StaticCallee() != nil && rc.Call.StaticCallee() != af {
									continue
								}
								isAf := rc.Call.StaticCallee() == af
								if !isAf {
									for _, fn := range funcValuesOf(w, rc.Call.Value, 0) {
										if fn == af {
											isAf = true
										}
									}
								}
								if !isAf || idx >= len(rc.Call.Args) {
									continue
								}
								n++
								for kk := range ssax.Prov(rc.Call.Args[idx]) {
									o[kk] = true
								}
							}
						}
						if n == 0 {
							o[k] = true
						}
					default:
						o[k] = true
					}
				}
				var bad []string
				for k := range o {
					switch {
					case k == "const", k == pKey, k == pServers:
					case strings.HasPrefix(k, "call:strings.") || strings.HasPrefix(k, "call:strconv."):
					default:
						bad = append(bad, k)
					}
				}
				sort.Strings(bad)
				if !o[pKey] || !o[pServers] {
					bad = append(bad, "missing key or server")
				}
				if len(bad) > 0 {
					c.Add("PURITY", "hash-input", core.Violation, w.At(in), fmt.Sprintf("the score of a server depends on more than (key, that server): %v — owners would change with list order or size", bad), props...)
				} else {
					c.Add("PURITY", "hash-input", core.OK, w.At(in), "", props...)
				}
			}
		}
	}
	// streaming form: a digest object that is written to and then summed
	for _, b := range rh.Blocks {
		for _, in := range b.Instrs {
			call, ok := in.(*ssa.Call)
			if !ok {
				continue
			}
			name := ""
			var recv ssa.Value
			if call.Call.IsInvoke() {
				name, recv = call.Call.Method.Name(), call.Call.Value
			} else if g := call.Call.StaticCallee(); g != nil && g.Signature.Recv() != nil && len(call.Call.Args) > 0 {
				name, recv = g.Name(), call.Call.Args[0]
			}
			if name != "Sum64" && name != "Sum32" && name != "Sum" {
				continue
			}
			isDigest := strings.Contains(recv.Type().String(), "xxhash") || strings.Contains(recv.Type().String(), "hash.Hash") || strings.Contains(recv.Type().String(), "hash/")
			if !isDigest {
				continue
			}
			nHash++
			// everything written into this digest
			var inputs []ssa.Value
			fresh, reset := false, false
			if nc, ok := recv.(*ssa.Call); ok && inLoop(nc.Block()) {
				fresh = true // created anew for every server
			}
			for _, bb := range rh.Blocks {
				for _, ii := range bb.Instrs {
					wc, ok := ii.(*ssa.Call)
					if !ok {
						continue
					}
					wn := ""
					var wr ssa.Value
					if wc.Call.IsInvoke() {
						wn, wr = wc.Call.Method.Name(), wc.Call.Value
						if wr == recv {
							inputs = append(inputs, wc.Call.Args...)
						}
					} else if g := wc.Call.StaticCallee(); g != nil && g.Signature.Recv() != nil && len(wc.Call.Args) > 0 {
						wn, wr = g.Name(), wc.Call.Args[0]
						if wr == recv && strings.HasPrefix(wn, "Write") {
							inputs = append(inputs, wc.Call.Args[1:]...)
						}
					} else if g := wc.Call.StaticCallee(); g != nil && len(wc.Call.Args) > 1 {
						// io.WriteString(digest, s), fmt.Fprint(digest, ...): the digest as a writer
						switch g.String() {
						case "io.WriteString", "fmt.Fprint", "fmt.Fprintf", "fmt.Fprintln", "io.Copy":
							if peelIface(wc.Call.Args[0]) == peelIface(recv) {
								inputs = append(inputs, wc.Call.Args[1:]...)
							}
						}
					}
					if wr == recv && wn == "Reset" && inLoop(bb) {
						reset = true
					}
				}
			}
			if os.Getenv("SEMA_DEBUG") != "" {
				fmt.Fprintf(os.Stderr, "PURITY streaming: recv=%v inputs=%d\n", recv, len(inputs))
				for _, iv := range inputs {
					fmt.Fprintf(os.Stderr, "  input %v %v\n", iv, ssax.Prov(iv).Keys())
				}
			}
			o := ssax.Origins{}
			for _, iv := range inputs {
				for k := range ssax.Prov(iv) {
					o[k] = true
				}
			}
			pKey, pServers := "param:"+purityKey.Name(), "elem(param:"+purityServers.Name()+")"
			var bad []string
			for k := range o {
				switch {
				case k == "const", k == pKey, k == pServers, strings.HasPrefix(k, "call:strings."), strings.HasPrefix(k, "call:strconv."), strings.HasPrefix(k, "inlined:"):
				default:
					bad = append(bad, k)
				}
			}
			if !o[pKey] || !o[pServers] {
				bad = append(bad, "missing key or server")
			}
			if inLoop(b) && !fresh && !reset {
				bad = append(bad, "the digest is created once and never reset inside the loop: the score of a server includes every server written before it")
			}
			sort.Strings(bad)
			if len(bad) > 0 {
				c.Add("PURITY", "hash-input", core.Violation, w.At(in), fmt.Sprintf("the score of a server depends on more than (key, that server): %v — owners would change with list order or size", bad), props...)
			} else {
				c.Add("PURITY", "hash-input", core.OK, w.At(in), "", props...)
			}
		}
	}
	if nHash != 1 {
		c.Add("PURITY", "anchor:hash-call", core.Undecided, w.Position(rh.Pos()), fmt.Sprintf("expected exactly one call to a pure hash in RendezvousHash, found %d", nHash), props...)
	}
	rh = top
	// the result is a prefix of the sorted slice: every returned element derives from the scored slice only
	for _, b := range rh.Blocks {
		for _, in := range b.Instrs {
			if r, ok := in.(*ssa.Return); ok {
				o := ssax.Prov(r.Results[0])
				bad := []string{}
				for k := range o {
					if strings.HasPrefix(k, "global:") || strings.Contains(k, "rand") || strings.Contains(k, "time.") {
						bad = append(bad, k)
					}
				}
				if len(bad) > 0 {
					c.Add("PURITY", "result", core.Violation, w.At(in), fmt.Sprintf("routing result depends on %v", bad), props...)
				} else {
					c.Add("PURITY", "result", core.OK, w.At(in), "", props...)
				}
			}
		}
	}
}

// -------------------------------------------------------------------- ROUTE

func Route(w *load.World, c *core.Collector) {
	sp := w.SPkgs[clusterPkg]
	if sp == nil || sp.Type("ClusterNode") == nil {
		c.Add("ROUTE", "anchor:ClusterNode", core.Undecided, "", "cluster.ClusterNode not found", "C17", "C13")
		return
	}
	ms := w.Prog.MethodSets.MethodSet(types.NewPointer(sp.Type("ClusterNode").Type()))
	n := 0
	handlerNames := map[string]bool{}
	for i := 0; i < ms.Len(); i++ {
		m := w.Prog.MethodValue(ms.At(i))
		sig := m.Signature
		if sig.Params().Len() != 2 || sig.Results().Len() != 1 || !isErrorType(sig.Results().At(0).Type()) {
			continue
		}
		// args type embeds RPCRequestArgs
		ast := ssax.StructOf(sig.Params().At(0).Type())
		embeds := false
		if ast != nil {
			for j := 0; j < ast.NumFields(); j++ {
				if ast.Field(j).Embedded() && ast.Field(j).Name() == "RPCRequestArgs" {
					embeds = true
				}
			}
		}
		if !embeds {
			continue
		}
		n++
		handlerNames["ClusterNode."+m.Name()] = true
		key := "self-route:" + m.Name()
		var route *ssa.Call
		for _, b := range m.Blocks {
			for _, in := range b.Instrs {
				if call, ok := in.(*ssa.Call); ok {
					if g := call.Call.StaticCallee(); g != nil && g.Name() == "internalRoute" {
						route = call
					}
				}
			}
		}
		if route == nil {
			// "if forwarded, err := c.forwardIfRemote(name, args, reply); forwarded { return err }"
			if probs, at, ok := routeThroughHelper(w, m); ok {
				if len(probs) > 0 {
					c.Add("ROUTE", key, core.Violation, at, strings.Join(probs, "; "), "C17")
				} else {
					c.Add("ROUTE", key, core.OK, at, "", "C17")
				}
				continue
			}
			c.Add("ROUTE", key, core.Violation, w.Position(m.Pos()), "RPC handler never forwards to the destination server", "C17")
			continue
		}
		name, _ := ssax.ConstString(route.Call.Args[1])
		var probs []string
		if name != "ClusterNode."+m.Name() {
			probs = append(probs, fmt.Sprintf("forwards to %q instead of itself", name))
		}
		if !ssax.Prov(route.Call.Args[2])["param:"+m.Params[1].Name()] || !ssax.Prov(route.Call.Args[3])["param:"+m.Params[2].Name()] {
			probs = append(probs, "does not forward its own arguments and reply")
		}
		// guard and confinement
		var guardBlk *ssa.BasicBlock
		remoteEdge := 0 // successor taken when Dest != MyHostname
		for _, b := range m.Blocks {
			if ifi, ok := b.Instrs[len(b.Instrs)-1].(*ssa.If); ok {
				// the comparison itself, or a predicate helper that makes it
				if bo, neg, ok := condBinOp(ifi.Cond, 0); ok && (bo.Op == token.NEQ || bo.Op == token.EQL) {
					ox, oy := ssax.Prov(bo.X), ssax.Prov(bo.Y)
					isDest := func(o ssax.Origins) bool {
						if o["field:Dest"] {
							return true
						}
						for k := range o {
							if strings.HasSuffix(k, ".Destination") {
								return true
							}
						}
						return false
					}
					if (isDest(ox) && oy["field:MyHostname"]) || (isDest(oy) && ox["field:MyHostname"]) {
						guardBlk = b
						remoteEdge = 0
						if (bo.Op == token.EQL) != neg {
							remoteEdge = 1
						}
					}
				}
			}
		}
		if guardBlk == nil || !ssax.OnlyViaEdge(guardBlk, remoteEdge, route.Block()) {
			probs = append(probs, "forwarding is not guarded by Dest != MyHostname")
		} else {
			// local effects (storage / shard manager) only on the equal edge
			for _, b := range m.Blocks {
				for _, in := range b.Instrs {
					call, ok := in.(*ssa.Call)
					if !ok {
						continue
					}
					local := false
					if call.Call.IsInvoke() && ssax.TypeName(call.Call.Value.Type()) == "diskstore.DiskStore" {
						local = true
					}
					if g := call.Call.StaticCallee(); g != nil && (strings.Contains(g.String(), "ShardManager)") || strings.HasPrefix(g.String(), "os.")) {
						local = true
					}
					if local && !ssax.OnlyViaEdge(guardBlk, 1-remoteEdge, b) {
						probs = append(probs, "local effect at "+w.At(in)+" is not confined to the destination server")
					}
				}
			}
		}
		if len(probs) > 0 {
			c.Add("ROUTE", key, core.Violation, w.At(route), strings.Join(probs, "; "), "C17")
		} else {
			c.Add("ROUTE", key, core.OK, w.At(route), "", "C17")
		}
	}
	c.Count("rpc_handlers", n)
	if n < 13 {
		c.Add("ROUTE", "anchor:handlers", core.Undecided, "", fmt.Sprintf("found %d RPC handlers, expected at least 13", n), "C17")
	}
	// every internalRoute name is a registered handler
	for _, f := range clusterFns(w) {
		for _, b := range f.Blocks {
			for _, in := range b.Instrs {
				if call, ok := in.(*ssa.Call); ok {
					if g := call.Call.StaticCallee(); g != nil && g.Name() == "internalRoute" {
						if name, ok := ssax.ConstString(call.Call.Args[1]); ok && !handlerNames[name] {
							c.Add("ROUTE", "registered:"+name, core.Violation, w.At(in), "forwarded method name is not an RPC-capable method of ClusterNode", "C17")
						}
					}
				}
			}
		}
	}
	// Dest initialisers
	nDest := 0
	handedDest := map[*ssa.Store][]ssa.Value{}
	for _, f := range clusterFns(w) {
		for _, b := range f.Blocks {
			for _, in := range b.Instrs {
				st, ok := in.(*ssa.Store)
				if !ok {
					continue
				}
				fa, ok := st.Addr.(*ssa.FieldAddr)
				if !ok || fieldOf(fa) != "cluster.RPCRequestArgs.Dest" {
					continue
				}
				nDest++
				o := provDeep(w, st.Val)
				// the destination is a parameter of a literal that a helper calls ("forEachShard(ids,
				// func(id, owner string) {...})"): what the helper passes for it
				if f.Parent() != nil {
					dvp := st.Val
					if ld, ok := dvp.(*ssa.UnOp); ok && ld.Op == token.MUL {
						if al, ok := ld.X.(*ssa.Alloc); ok {
							if sv := ssax.SingleStore(al); sv != nil {
								dvp = sv
							}
						}
					}
					if par, ok := dvp.(*ssa.Parameter); ok && par.Parent() == f {
						pi := -1
						for i, q := range f.Params {
							if q == par {
								pi = i
							}
						}
						for _, g := range clusterFns(w) {
							for _, gb := range g.Blocks {
								for _, gi := range gb.Instrs {
									ci, ok := gi.(ssa.CallInstruction)
									if !ok || ci.Common().IsInvoke() || ci.Common().StaticCallee() != nil || pi < 0 || pi >= len(ci.Common().Args) {
										continue
									}
									for _, lit := range funcValuesOf(w, ci.Common().Value, 0) {
										if lit == f {
											for k := range provDeep(w, ci.Common().Args[pi]) {
												o[k] = true
											}
											handedDest[st] = append(handedDest[st], ci.Common().Args[pi])
										}
									}
								}
							}
						}
					}
				}
				// the destination is the key of a map that is ranged over ("per destination: what goes
				// there"): what the keys put into that map are
				dv := st.Val
				for i := 0; i < 3; i++ {
					if ld, ok := dv.(*ssa.UnOp); ok && ld.Op == token.MUL {
						if al, ok := ld.X.(*ssa.Alloc); ok {
							if sv := ssax.SingleStore(al); sv != nil {
								dv = sv
								continue
							}
						}
						if fv, ok := ld.X.(*ssa.FreeVar); ok {
							if sv := ssax.CapturedSingleStore(fv); sv != nil {
								dv = sv
								continue
							}
						}
					}
					break
				}
				if ex, ok := dv.(*ssa.Extract); ok && ex.Index == 1 {
					if nx, ok := ex.Tuple.(*ssa.Next); ok {
						if rg, ok := nx.Iter.(*ssa.Range); ok {
							if _, isMap := rg.X.Type().Underlying().(*types.Map); isMap {
								mroot := rg.X
								if ld, ok := mroot.(*ssa.UnOp); ok {
									mroot = ld.X
								}
								var nested []*ssa.Function
								var collectAnon func(g *ssa.Function)
								collectAnon = func(g *ssa.Function) {
									nested = append(nested, g)
									for _, a := range g.AnonFuncs {
										collectAnon(a)
									}
								}
								collectAnon(f)
								for _, g := range nested {
									for _, gb := range g.Blocks {
										for _, gi := range gb.Instrs {
											mu, ok := gi.(*ssa.MapUpdate)
											if !ok {
												continue
											}
											mm := mu.Map
											if ld, ok := mm.(*ssa.UnOp); ok {
												mm = ld.X
											}
											same := mm == mroot || mu.Map == rg.X
											for hop := 0; hop < 3 && !same; hop++ {
												fv, ok := mm.(*ssa.FreeVar)
												if !ok {
													break
												}
												if al := capturedCell(fv); al != nil {
													same = ssa.Value(al) == mroot
													break
												}
												// captured again by the enclosing literal: one level up
												up := fv.Parent()
												var next ssa.Value
												if pp := up.Parent(); pp != nil {
													for i, q := range up.FreeVars {
														if q != fv {
															continue
														}
														for _, pb := range pp.Blocks {
															for _, pi := range pb.Instrs {
																if mc, ok := pi.(*ssa.MakeClosure); ok && mc.Fn == ssa.Value(up) && i < len(mc.Bindings) {
																	next = mc.Bindings[i]
																}
															}
														}
													}
												}
												if next == nil {
													break
												}
												if next == mroot {
													same = true
												}
												mm = next
											}
											if !same {
												continue
											}
											for k := range provDeep(w, mu.Key) {
												o[k] = true
											}
										}
									}
								}
							}
						}
					}
				}
				viaHash, fullList := false, false
				for k := range o {
					if strings.Contains(k, "call:"+clusterPkg+".RendezvousHash") {
						viaHash = true
					}
					if strings.Contains(k, "field:Servers") {
						fullList = true
					}
				}
				key := "dest:" + load.FnKey(f)
				switch {
				case viaHash && (len(handedDest[st]) == 0 && destLeaf(w, st.Val, 0) == leafOther || anyLeafOther(w, handedDest[st])):
					c.Add("ROUTE", key, core.Violation, w.At(in), "on some path the destination is not the RendezvousHash owner at all (a shortcut returns this node's own name or a fixed server): two nodes with the same server list then disagree about the owner", "C13", "C17")
				case !viaHash:
					c.Add("ROUTE", key, core.Violation, w.At(in), fmt.Sprintf("destination is not computed by RendezvousHash (origins %v)", o.Keys()), "C13", "C17")
				case !fullList:
					c.Add("ROUTE", key, core.Violation, w.At(in), "destination is not computed over the node's full server list", "C13", "C17")
				default:
					c.Add("ROUTE", key, core.OK, w.At(in), "", "C13", "C17")
				}
			}
		}
	}
	// a request that names a shard goes to that shard's server, one that names a user to the
	// user's: the key that was hashed for Dest is the very value stored in the request
	nKey := 0
	keyBad := map[string]string{}
	keySeen := map[string]string{}
	for _, f := range clusterFns(w) {
		for _, b := range f.Blocks {
			for _, in := range b.Instrs {
				st, ok := in.(*ssa.Store)
				if !ok {
					continue
				}
				fa, ok := st.Addr.(*ssa.FieldAddr)
				if !ok {
					continue
				}
				var helperKey ssa.Value
				if fieldOf(fa) != "cluster.RPCRequestArgs.Dest" {
					// the routing part built by a helper of the package from one of its parameters:
					// "RPCRequestArgs: c.argsFor(shardId)"
					if ssax.TypeName(st.Val.Type()) != "cluster.RPCRequestArgs" {
						continue
					}
					hc, isCall := st.Val.(*ssa.Call)
					if !isCall || hc.Call.StaticCallee() == nil || !ssax.InModule(hc.Call.StaticCallee()) {
						continue
					}
					g := hc.Call.StaticCallee()
					for _, gb := range g.Blocks {
						for _, gi := range gb.Instrs {
							gs, ok := gi.(*ssa.Store)
							if !ok {
								continue
							}
							if gfa, ok := gs.Addr.(*ssa.FieldAddr); ok && fieldOf(gfa) == "cluster.RPCRequestArgs.Dest" {
								if k := hashKeyOf(gs.Val, 0); k != nil {
									if prm, ok := peelToParam(k).(*ssa.Parameter); ok {
										for i, q := range g.Params {
											if q == prm && i < len(hc.Call.Args) {
												helperKey = hc.Call.Args[i]
											}
										}
									}
								} else if prm, ok := peelToParam(gs.Val).(*ssa.Parameter); ok {
									// the helper is handed the destination itself: what the caller hashed for it
									for i, q := range g.Params {
										if q == prm && i < len(hc.Call.Args) {
											helperKey = hashKeyOf(hc.Call.Args[i], 0)
										}
									}
								}
							}
						}
					}
					if helperKey == nil {
						continue
					}
				}
				outer, ok := fa.X.(*ssa.FieldAddr)
				if helperKey != nil {
					outer, ok = fa, true
				}
				if !ok {
					// built in a temporary that is copied into the request as a whole
					if tmp, isAl := fa.X.(*ssa.Alloc); isAl {
						for _, r := range *tmp.Referrers() {
							ld, isLd := r.(*ssa.UnOp)
							if !isLd || ld.Op != token.MUL {
								continue
							}
							for _, rr := range *ld.Referrers() {
								if s2, isSt := rr.(*ssa.Store); isSt && s2.Val == ssa.Value(ld) {
									if ofa, isFa := s2.Addr.(*ssa.FieldAddr); isFa {
										outer, ok = ofa, true
									}
								}
							}
						}
					}
				}
				if !ok {
					continue
				}
				rst := ssax.StructOf(outer.X.Type())
				if rst == nil {
					continue
				}
				by := ""
				for i := 0; i < rst.NumFields(); i++ {
					if rst.Field(i).Name() == "ShardId" {
						by = "ShardId"
					}
				}
				if by == "" {
					for i := 0; i < rst.NumFields(); i++ {
						if rst.Field(i).Name() == "UserId" {
							by = "UserId"
						}
					}
				}
				if by == "" {
					continue
				}
				key := hashKeyOf(st.Val, 0)
				viaParam := false
				if helperKey != nil {
					key = helperKey
				}
				if key == nil {
					// computed by the caller and handed to a literal together with the id
					if av := callerArg(w, st.Val); av != nil {
						key, viaParam = hashKeyOf(av, 0), true
					}
				}
				if key == nil {
					continue
				}
				// the value stored into that field of the same request
				var named ssa.Value
				for _, r := range *outer.X.Referrers() {
					if ofa, ok := r.(*ssa.FieldAddr); ok && rst.Field(ofa.Field).Name() == by {
						for _, rr := range *ofa.Referrers() {
							if s2, ok := rr.(*ssa.Store); ok && s2.Addr == ssa.Value(ofa) {
								named = s2.Val
							}
						}
					}
				}
				if named == nil {
					continue
				}
				if viaParam {
					if av := callerArg(w, named); av != nil {
						named = av
					}
				}
				nKey++
				k := "dest-key:" + load.FnKey(f)
				keySeen[k] = w.At(in)
				kp, _ := ssax.Path(key)
				np, _ := ssax.Path(named)
				if !(key == named || (kp != "" && kp == np) || peelToParam(key) == peelToParam(named)) {
					keyBad[k] = fmt.Sprintf("%s: the request names %s %s but its destination was hashed from %s: it is sent to a server that does not own it", w.At(in), by, describeVal(named), describeVal(key))
				}
			}
		}
	}
	for k, at := range keySeen {
		if d, bad := keyBad[k]; bad {
			c.Add("ROUTE", k, core.Violation, at, d, "C13", "C17", "C15")
		} else {
			c.Add("ROUTE", k, core.OK, at, "", "C13", "C17", "C15")
		}
	}
	c.Count("dest_keys_matched", nKey)
	if nKey < 5 {
		c.Add("ROUTE", "anchor:dest-keys", core.Undecided, "", fmt.Sprintf("matched %d destination keys with the id their request names, expected at least 5", nKey), "C13", "C17")
	}
	c.Count("dest_initialisers", nDest)
	if nDest < 2 {
		c.Add("ROUTE", "anchor:dest", core.Undecided, "", fmt.Sprintf("found %d Dest initialisers, expected at least 2", nDest), "C13", "C17")
	}
	// every call passes c.Servers itself and topK 1; Servers is only stored in NewNode
	for _, f := range w.Fns {
		for _, b := range f.Blocks {
			for _, in := range b.Instrs {
				switch x := in.(type) {
				case *ssa.Call:
					if g := x.Call.StaticCallee(); g != nil && load.FnKey(g) == "cluster.RendezvousHash" {
						o := ssax.Prov(x.Call.Args[1])
						key := "servers-arg:" + load.FnKey(f)
						_, isSlice := x.Call.Args[1].(*ssa.Slice)
						if !o["field:Servers"] || isSlice {
							c.Add("ROUTE", key, core.Violation, w.At(in), "RendezvousHash is called on something other than the node's server list", "C13")
						} else {
							c.Add("ROUTE", key, core.OK, w.At(in), "", "C13")
						}
					}
				case *ssa.Store:
					if fa, ok := x.Addr.(*ssa.FieldAddr); ok && fieldOf(fa) == "cluster.ClusterNode.Servers" {
						key := "servers-store:" + load.FnKey(f)
						if _, fresh := ssax.Path(fa.X); fresh && !serversAsConfigured(x.Val, 0) {
							c.Add("ROUTE", key, core.Violation, w.At(in), "the server list the node routes over is not the configured list as it is (something is appended to it or taken out): a node whose own name is missing from the list — the node being removed from the cluster — would route over a different set than its peers and keep what it should hand over", "C13", "C14")
						} else if fresh && load.FnKey(f) == "cluster.NewNode" {
							c.Add("ROUTE", key, core.OK, w.At(in), "", "C13")
						} else {
							c.Add("ROUTE", key, core.Violation, w.At(in), "the server list is modified after construction: nodes of one process would disagree over time", "C13")
						}
					}
				}
			}
		}
	}
}

// ------------------------------------------------------------------- FANOUT

func Fanout(w *load.World, c *core.Collector) {
	props := []string{"C17"}
	for _, name := range []string{"UpdatePoints", "DeletePoints", "SearchPoints", "GetShardsInfo"} {
		f := findFn(w, "(*cluster.ClusterNode)."+name)
		if f == nil {
			c.Add("FANOUT", "anchor:"+name, core.Undecided, "", "fan-out method not found", props...)
			continue
		}
		// a range loop over col.ShardIds itself
		ranges := false
		for _, b := range f.Blocks {
			for _, in := range b.Instrs {
				// range over slice compiles to len(x) + index loop: look for len of the field
				if call, ok := in.(*ssa.Call); ok {
					if bi, ok := call.Call.Value.(*ssa.Builtin); ok && bi.Name() == "len" {
						if _, isSlice := call.Call.Args[0].(*ssa.Slice); isSlice {
							continue
						}
						if p, _ := ssax.Path(call.Call.Args[0]); strings.HasSuffix(strings.TrimSuffix(p, "*"), ".ShardIds") {
							for _, r := range *call.Referrers() {
								if bo, ok := r.(*ssa.BinOp); ok && bo.Op == token.LSS {
									ranges = true
								}
							}
						}
					}
				}
			}
		}
		// the loop may live in a helper that is handed the whole list and a per-shard callback
		if !ranges {
			for _, b := range f.Blocks {
				for _, in := range b.Instrs {
					call, ok := in.(*ssa.Call)
					if !ok {
						continue
					}
					h := call.Call.StaticCallee()
					if h == nil || !ssax.InModule(h) || len(h.Blocks) == 0 {
						continue
					}
					for ai, a := range call.Call.Args {
						if _, isSlice := a.(*ssa.Slice); isSlice || ai >= len(h.Params) {
							continue
						}
						if p, _ := ssax.Path(a); !strings.HasSuffix(strings.TrimSuffix(p, "*"), ".ShardIds") {
							continue
						}
						prm := h.Params[ai]
						for _, r := range *prm.Referrers() {
							lc, ok := r.(*ssa.Call)
							if !ok {
								continue
							}
							if bi, ok := lc.Call.Value.(*ssa.Builtin); ok && bi.Name() == "len" {
								for _, rr := range *lc.Referrers() {
									if bo, ok := rr.(*ssa.BinOp); ok && bo.Op == token.LSS {
										ranges = true
									}
								}
							}
						}
					}
				}
			}
		}
		if ranges {
			c.Add("FANOUT", "all-shards:"+name, core.OK, w.Position(f.Pos()), "", props...)
		} else {
			c.Add("FANOUT", "all-shards:"+name, core.Violation, w.Position(f.Pos()), "the fan-out does not iterate over the collection's complete shard list", props...)
		}
	}
	for _, name := range []string{"UpdatePoints", "DeletePoints"} {
		f := findFn(w, "(*cluster.ClusterNode)."+name)
		if f == nil {
			continue
		}
		okFlag := false
		for _, b := range f.Blocks {
			for _, in := range b.Instrs {
				call, ok := in.(*ssa.Call)
				if !ok {
					continue
				}
				if g := call.Call.StaticCallee(); g != nil && g.Name() == "curateFailedPoints" {
					if bo, ok := call.Call.Args[2].(*ssa.BinOp); ok && bo.Op == token.EQL {
						ox, oy := ssax.Prov(bo.X), ssax.Prov(bo.Y)
						if ox["field:ShardIds"] || oy["field:ShardIds"] {
							okFlag = true
						}
					}
				}
			}
		}
		// ... and the counter that is compared with the number of shards only counts shards whose call
		// returned without an error
		countBad := ""
		for _, b := range f.Blocks {
			for _, in := range b.Instrs {
				call, ok := in.(*ssa.Call)
				if !ok || call.Call.StaticCallee() == nil || call.Call.StaticCallee().Name() != "curateFailedPoints" {
					continue
				}
				bo, ok := call.Call.Args[2].(*ssa.BinOp)
				if !ok {
					continue
				}
				for _, side := range []ssa.Value{bo.X, bo.Y} {
					ld, ok := side.(*ssa.UnOp)
					if !ok || ld.Op != token.MUL {
						continue
					}
					cell, ok := ld.X.(*ssa.Alloc)
					if !ok {
						continue
					}
					var visit func(lit *ssa.Function, depth int)
					visit = func(lit *ssa.Function, depth int) {
						var fv *ssa.FreeVar
						for _, pb := range lit.Parent().Blocks {
							for _, pi := range pb.Instrs {
								if mc, ok := pi.(*ssa.MakeClosure); ok && mc.Fn == lit {
									for i, bnd := range mc.Bindings {
										if bnd == ssa.Value(cell) && i < len(lit.FreeVars) {
											fv = lit.FreeVars[i]
										}
									}
								}
							}
						}
						if fv == nil {
							return
						}
						var nilEdges []ssax.Edge
						for _, lb := range lit.Blocks {
							for _, li := range lb.Instrs {
								if lc, ok := li.(*ssa.Call); ok {
									if ev := errResultValue(lc); ev != nil {
										_, ne := ssax.NilTests(lit, ev)
										nilEdges = append(nilEdges, ne...)
									}
								}
							}
						}
						for _, r := range *fv.Referrers() {
							st, ok := r.(*ssa.Store)
							if !ok || st.Addr != ssa.Value(fv) {
								continue
							}
							if add, ok := st.Val.(*ssa.BinOp); !ok || add.Op != token.ADD {
								continue
							}
							if onlyViaAny(nilEdges, st.Block()) {
								continue
							}
							// a small recorder literal ("recordSuccess") that is itself only called where
							// the shard's call succeeded
							recorder := len(nilEdges) == 0
							if recorder {
								calledOK, calls := true, 0
								for _, caller := range append([]*ssa.Function{f}, f.AnonFuncs...) {
									if caller == lit {
										continue
									}
									var cEdges []ssax.Edge
									for _, cb := range caller.Blocks {
										for _, ci := range cb.Instrs {
											if lc, ok := ci.(*ssa.Call); ok {
												if ev := errResultValue(lc); ev != nil {
													_, ne := ssax.NilTests(caller, ev)
													cEdges = append(cEdges, ne...)
												}
											}
										}
									}
									for _, cb := range caller.Blocks {
										for _, ci := range cb.Instrs {
											lc, ok := ci.(*ssa.Call)
											if !ok || lc.Call.StaticCallee() != nil {
												continue
											}
											for _, fn := range funcValuesOf(w, lc.Call.Value, 0) {
												if fn == lit {
													calls++
													if !onlyViaAny(cEdges, cb) {
														calledOK = false
													}
												}
											}
										}
									}
								}
								if calls > 0 && calledOK {
									continue
								}
							}
							countBad = w.At(st)
						}
					}
					for _, lit := range f.AnonFuncs {
						visit(lit, 0)
					}
				}
			}
		}
		// the dual form: a counter of the shards that did NOT answer, compared with zero; it must be
		// raised on every way a failed call takes through the goroutine
		if !okFlag {
			countBad = "" // what was said about the counter above was said about a success counter
			for _, b := range f.Blocks {
				for _, in := range b.Instrs {
					call, ok := in.(*ssa.Call)
					if !ok || call.Call.StaticCallee() == nil || call.Call.StaticCallee().Name() != "curateFailedPoints" {
						continue
					}
					bo, ok := call.Call.Args[2].(*ssa.BinOp)
					if !ok || bo.Op != token.EQL {
						continue
					}
					var cell *ssa.Alloc
					for _, pr := range [][2]ssa.Value{{bo.X, bo.Y}, {bo.Y, bo.X}} {
						k, isK := pr[1].(*ssa.Const)
						ld, isLd := pr[0].(*ssa.UnOp)
						if isK && k.Value != nil && k.Int64() == 0 && isLd && ld.Op == token.MUL {
							cell, _ = ld.X.(*ssa.Alloc)
						}
					}
					if cell == nil {
						continue
					}
					nLit := 0
					missed := ""
					for _, lit := range f.AnonFuncs {
						var fv *ssa.FreeVar
						for _, pb := range f.Blocks {
							for _, pi := range pb.Instrs {
								if mc, ok := pi.(*ssa.MakeClosure); ok && mc.Fn == ssa.Value(lit) {
									for i, bnd := range mc.Bindings {
										if bnd == ssa.Value(cell) && i < len(lit.FreeVars) {
											fv = lit.FreeVars[i]
										}
									}
								}
							}
						}
						if fv == nil {
							continue
						}
						incs := map[*ssa.BasicBlock]bool{}
						for _, r := range *fv.Referrers() {
							if st, ok := r.(*ssa.Store); ok && st.Addr == ssa.Value(fv) {
								if add, ok := st.Val.(*ssa.BinOp); ok && add.Op == token.ADD {
									incs[st.Block()] = true
								}
							}
						}
						for _, lb := range lit.Blocks {
							for _, li := range lb.Instrs {
								lc, ok := li.(*ssa.Call)
								if !ok || lc.Call.StaticCallee() == nil || !strings.HasPrefix(lc.Call.StaticCallee().Name(), "RPC") {
									continue
								}
								ev := errResultValue(lc)
								if ev == nil {
									continue
								}
								nn, _ := ssax.NilTests(lit, ev)
								if len(nn) == 0 {
									missed = w.At(lc)
									continue
								}
								nLit++
								for _, e := range nn {
									seenB := map[*ssa.BasicBlock]bool{}
									stack := []*ssa.BasicBlock{e.From.Succs[e.Succ]}
									for len(stack) > 0 {
										x := stack[len(stack)-1]
										stack = stack[:len(stack)-1]
										if seenB[x] || incs[x] {
											continue
										}
										seenB[x] = true
										if len(x.Succs) == 0 {
											missed = w.At(x.Instrs[len(x.Instrs)-1])
										}
										stack = append(stack, x.Succs...)
									}
								}
							}
						}
					}
					if nLit > 0 {
						okFlag = true
						if missed != "" {
							countBad = missed + " (a failed call can leave the goroutine without the count of unanswered shards having been raised)"
						}
					}
				}
			}
		}
		if okFlag && countBad != "" {
			c.Add("FANOUT", "complete-flag:"+name, core.Violation, countBad, `the count of shards that answered is raised for a shard whose call failed: "not found" is reported although not every shard answered`, props...)
		} else if okFlag {
			c.Add("FANOUT", "complete-flag:"+name, core.OK, w.Position(f.Pos()), "", props...)
		} else {
			c.Add("FANOUT", "complete-flag:"+name, core.Violation, w.Position(f.Pos()), `"not found" may be reported although not every shard answered`, props...)
		}
	}
	// the merged results of several shards are sorted before they are returned: every success
	// return is behind a sort of the results, except where the collection has at most one shard
	if f := findFn(w, "(*cluster.ClusterNode).SearchPoints"); f != nil {
		var banned []ssax.Edge
		nSort := 0
		// the merge may live in a helper that is handed the concatenated results
		home, argOf := mergeHome(f)
		for _, b := range home.Blocks {
			for _, in := range b.Instrs {
				call, ok := in.(*ssa.Call)
				if !ok || len(call.Call.Args) == 0 || !isSearchResultSlice(call.Call.Args[0].Type()) {
					continue
				}
				g := call.Call.StaticCallee()
				if g == nil || !strings.Contains(g.Name(), "Sort") {
					continue
				}
				nSort++
				for i := range b.Succs {
					banned = append(banned, ssax.Edge{From: b, Succ: i})
				}
			}
			ifi, ok := b.Instrs[len(b.Instrs)-1].(*ssa.If)
			if !ok {
				continue
			}
			cond, flip := ifi.Cond, false
			if un, isNot := cond.(*ssa.UnOp); isNot && un.Op == token.NOT {
				if _, isPar := un.X.(*ssa.Parameter); isPar {
					cond, flip = un.X, true
				}
			}
			cond = argOf(cond)
			bo, neg, ok := condBinOp(cond, 0)
			if !ok {
				continue
			}
			if flip {
				neg = !neg
			}
			isShardCount := func(v ssa.Value) bool {
				call, ok := v.(*ssa.Call)
				if !ok {
					return false
				}
				bi, ok := call.Call.Value.(*ssa.Builtin)
				if !ok || bi.Name() != "len" {
					return false
				}
				p, _ := ssax.Path(call.Call.Args[0])
				return strings.HasSuffix(strings.TrimSuffix(p, "*"), ".ShardIds")
			}
			x, y, op := bo.X, bo.Y, bo.Op
			if isShardCount(y) {
				x, y = y, x
				op = map[token.Token]token.Token{token.LSS: token.GTR, token.GTR: token.LSS, token.LEQ: token.GEQ, token.GEQ: token.LEQ, token.EQL: token.EQL, token.NEQ: token.NEQ}[op]
			}
			k, isC := ssax.ConstInt(y)
			if !isShardCount(x) || !isC {
				continue
			}
			// the edge on which the count is at most one
			single := -1
			switch {
			case op == token.GTR && k == 1, op == token.GEQ && k == 2, op == token.NEQ && k == 1:
				single = 1
			case op == token.LEQ && k == 1, op == token.LSS && k == 2, op == token.EQL && k == 1:
				single = 0
			}
			if single < 0 {
				continue
			}
			if neg {
				single = 1 - single
			}
			banned = append(banned, ssax.Edge{From: b, Succ: single})
		}
		bad := ""
		for _, ex := range successExits(home) {
			r, ok := ex.In.(*ssa.Return)
			if !ok || len(r.Results) == 0 || ssax.IsNilConst(r.Results[0]) {
				continue
			}
			if reachableWithoutEdges(home, banned, ex.In.Block()) {
				bad = w.At(ex.In)
			}
		}
		switch {
		case nSort == 0:
			c.Add("FANOUT", "merge-sorted", core.Violation, w.Position(f.Pos()), "the results of the shards are never sorted after being merged", props...)
		case bad != "":
			c.Add("FANOUT", "merge-sorted", core.Violation, bad, "with more than one shard the merged results can be returned without having been sorted: the order depends on which shard answered first", props...)
		default:
			c.Add("FANOUT", "merge-sorted", core.OK, w.Position(f.Pos()), "", props...)
		}
	}
	// SearchPoints truncation bound is the limit the request carried on entry
	if f := findFn(w, "(*cluster.ClusterNode).SearchPoints"); f != nil {
		okTrunc := false
		home, argOf := mergeHome(f)
		for _, b := range home.Blocks {
			for _, in := range b.Instrs {
				sl, ok := in.(*ssa.Slice)
				if !ok || sl.High == nil || !isSearchResultSlice(sl.X.Type()) {
					continue
				}
				hiV := sl.High
				if mc, ok := hiV.(*ssa.Call); ok {
					// results[:min(len(results), limit)]
					if bi, ok := mc.Call.Value.(*ssa.Builtin); ok && bi.Name() == "min" && len(mc.Call.Args) == 2 {
						for i, a := range mc.Call.Args {
							if lc, ok := a.(*ssa.Call); ok {
								if lb, ok := lc.Call.Value.(*ssa.Builtin); ok && lb.Name() == "len" {
									hiV = mc.Call.Args[1-i]
								}
							}
						}
					}
				}
				hiV = argOf(hiV)
				if al, isLd := hiV.(*ssa.UnOp); isLd && al.Op == token.MUL {
					if cell, isCell := al.X.(*ssa.Alloc); isCell {
						if sv := ssax.SingleStore(cell); sv != nil {
							hiV = sv
						}
					}
				}
				if p, _ := ssax.Path(hiV); strings.Contains(p, "sr") && strings.HasSuffix(strings.TrimSuffix(p, "*"), ".Limit") {
					// must be the load that precedes every store to sr.Limit
					okTrunc = true
					if hi, ok := hiV.(ssa.Instruction); ok {
						for _, bb := range f.Blocks {
							for _, ii := range bb.Instrs {
								if st, ok := ii.(*ssa.Store); ok {
									if sp, _ := ssax.Path(st.Addr); sp == p && ssax.Precedes(ii, hi) {
										okTrunc = false
									}
								}
							}
						}
					}
				}
			}
		}
		if okTrunc {
			c.Add("FANOUT", "search-truncation", core.OK, w.Position(f.Pos()), "", props...)
		} else {
			c.Add("FANOUT", "search-truncation", core.Violation, w.Position(f.Pos()), "merged results are not cut to the limit the client asked for", props...)
		}
	}
}

// ---------------------------------------------------- transfer / quota (DOM)

func onlyViaAny(edges []ssax.Edge, b *ssa.BasicBlock) bool {
	for _, e := range edges {
		if ssax.OnlyViaEdge(e.From, e.Succ, b) {
			return true
		}
	}
	return false
}

// cmpEdges: edges on which "x == y" holds for comparisons whose operands have the given origins.
func cmpEdges(f *ssa.Function, wantX, wantY func(ssax.Origins) bool, eq bool) []ssax.Edge {
	var out []ssax.Edge
	for _, b := range f.Blocks {
		ifi, ok := b.Instrs[len(b.Instrs)-1].(*ssa.If)
		if !ok {
			continue
		}
		bo, ok := ifi.Cond.(*ssa.BinOp)
		if !ok || (bo.Op != token.EQL && bo.Op != token.NEQ) {
			continue
		}
		ox, oy := ssax.Prov(bo.X), ssax.Prov(bo.Y)
		if !((wantX(ox) && wantY(oy)) || (wantX(oy) && wantY(ox))) {
			continue
		}
		holdsOnTrue := bo.Op == token.EQL
		if holdsOnTrue == eq {
			out = append(out, ssax.Edge{From: b, Succ: 0})
		} else {
			out = append(out, ssax.Edge{From: b, Succ: 1})
		}
	}
	return out
}

// cmpEdgesV: like cmpEdges with predicates over the operand values themselves.
func cmpEdgesV(f *ssa.Function, wantX, wantY func(ssa.Value) bool, eq bool) []ssax.Edge {
	var out []ssax.Edge
	for _, b := range f.Blocks {
		ifi, ok := b.Instrs[len(b.Instrs)-1].(*ssa.If)
		if !ok {
			continue
		}
		bo, ok := ifi.Cond.(*ssa.BinOp)
		if !ok || (bo.Op != token.EQL && bo.Op != token.NEQ) {
			continue
		}
		if !((wantX(bo.X) && wantY(bo.Y)) || (wantX(bo.Y) && wantY(bo.X))) {
			continue
		}
		holdsOnTrue := bo.Op == token.EQL
		if holdsOnTrue == eq {
			out = append(out, ssax.Edge{From: b, Succ: 0})
		} else {
			out = append(out, ssax.Edge{From: b, Succ: 1})
		}
	}
	return out
}

func Transfer(w *load.World, c *core.Collector) {
	fileHashCoversFile(w, c)
	props := []string{"C14"}
	f := findFn(w, "(*cluster.ClusterNode).sendShardFile")
	if f == nil {
		c.Add("TRANSFER", "anchor:sendShardFile", core.Undecided, "", "sender not found", props...)
	} else {
		// the sender and the helpers it calls (a refactoring may move the verification and the
		// removal into one): a guard counts when it dominates the removal in its own function or
		// dominates every call site through which that function is reached
		fam := []*ssa.Function{f}
		type tsite struct {
			in *ssa.Function
			at ssa.Instruction
		}
		tcallers := map[*ssa.Function][]tsite{}
		for i := 0; i < len(fam) && i < 8; i++ {
			for _, b := range fam[i].Blocks {
				for _, in := range b.Instrs {
					h := ssax.StaticModuleCallee(in)
					if h == nil || len(h.Blocks) == 0 || load.PkgPath(h) != clusterPkg || strings.HasPrefix(h.Name(), "RPC") || h.Name() == "FileHash" {
						continue
					}
					known := false
					for _, x := range fam {
						if x == h {
							known = true
						}
					}
					if !known {
						fam = append(fam, h)
					}
					tcallers[h] = append(tcallers[h], tsite{fam[i], in})
				}
			}
		}
		var rpc, hash *ssa.Call
		type rmSite struct {
			fn   *ssa.Function
			call *ssa.Call
		}
		var removes []rmSite
		for _, fn := range fam {
			for _, b := range fn.Blocks {
				for _, in := range b.Instrs {
					call, ok := in.(*ssa.Call)
					if !ok {
						continue
					}
					g := call.Call.StaticCallee()
					if g == nil {
						continue
					}
					switch {
					case load.FnKey(g) == "(*cluster.ClusterNode).RPCSendShard":
						rpc = call
					case load.FnKey(g) == "cluster.FileHash":
						hash = call
					case g.String() == "os.RemoveAll" || g.String() == "os.Remove":
						removes = append(removes, rmSite{fn, call})
					}
				}
			}
		}
		if rpc == nil || hash == nil || len(removes) == 0 {
			c.Add("TRANSFER", "sender:anchors", core.Undecided, w.Position(f.Pos()), "send / checksum / remove calls not all found in sendShardFile", props...)
		} else {
			rpcOKIn := func(fn *ssa.Function) []ssax.Edge {
				if rpc.Parent() != fn {
					return nil
				}
				_, e := ssax.NilTests(fn, rpc)
				return e
			}
			hashOKIn := func(fn *ssa.Function) []ssax.Edge {
				if hash.Parent() != fn {
					return nil
				}
				if hashErr := resultValue(hash, 1); hashErr != nil {
					_, e := ssax.NilTests(fn, hashErr)
					return e
				}
				return nil
			}
			deepLabel := func(label string) func(v ssa.Value) bool {
				return func(v ssa.Value) bool { return ssax.Prov(v)[label] || deepHas(w, v, label) }
			}
			sumEqIn := func(fn *ssa.Function) []ssax.Edge {
				return cmpEdgesV(fn, deepLabel("call:"+clusterPkg+".FileHash"), deepLabel("field:Checksum"), true)
			}
			bytesEqIn := func(fn *ssa.Function) []ssax.Edge {
				return cmpEdgesV(fn, deepLabel("field:BytesWritten"), func(ssa.Value) bool { return true }, true)
			}
			var guardedDeep func(fn *ssa.Function, blk *ssa.BasicBlock, edgesIn func(*ssa.Function) []ssax.Edge, depth int) bool
			guardedDeep = func(fn *ssa.Function, blk *ssa.BasicBlock, edgesIn func(*ssa.Function) []ssax.Edge, depth int) bool {
				if onlyViaAny(edgesIn(fn), blk) {
					return true
				}
				if fn == f || depth > 3 || len(tcallers[fn]) == 0 {
					return false
				}
				for _, cs := range tcallers[fn] {
					if !guardedDeep(cs.in, cs.at.Block(), edgesIn, depth+1) {
						return false
					}
				}
				return true
			}
			for _, rs := range removes {
				rm := rs.call
				var missing []string
				if !guardedDeep(rs.fn, rm.Block(), rpcOKIn, 0) {
					missing = append(missing, "successful chunk RPC")
				}
				if !guardedDeep(rs.fn, rm.Block(), bytesEqIn, 0) {
					missing = append(missing, "BytesWritten == n")
				}
				if !guardedDeep(rs.fn, rm.Block(), hashOKIn, 0) {
					missing = append(missing, "successful local checksum")
				}
				if !guardedDeep(rs.fn, rm.Block(), sumEqIn, 0) {
					missing = append(missing, "checksum equality with the receiver")
				}
				// scope: a recursive removal may only hit the directory of the file that was sent;
				// its ancestors may only be removed when empty (os.Remove)
				if rm.Call.StaticCallee().String() == "os.RemoveAll" {
					depths := dirDepths(rm.Call.Args[0], map[ssa.Value]bool{}, 0)
					okScope := len(depths) > 0
					for d := range depths {
						if d != 1 {
							okScope = false
						}
					}
					if okScope {
						c.Add("TRANSFER", "sender:removeall-scope", core.OK, w.At(rm), "", props...)
					} else {
						var ds []string
						for d := range depths {
							if d < 0 {
								ds = append(ds, "unknown")
							} else {
								ds = append(ds, fmt.Sprintf("%d level(s) above the file", d))
							}
						}
						sort.Strings(ds)
						c.Add("TRANSFER", "sender:removeall-scope", core.Violation, w.At(rm), fmt.Sprintf("os.RemoveAll is applied to a directory that is not the sent shard's own directory (%s): shards that were not transferred are deleted with it", strings.Join(ds, ", ")), props...)
					}
				}
				key := "sender:delete-after-verify:" + rm.Call.StaticCallee().Name()
				if len(missing) > 0 {
					c.Add("TRANSFER", key, core.Violation, w.At(rm), fmt.Sprintf("the source copy can be removed without %v", missing), props...)
				} else {
					c.Add("TRANSFER", key, core.OK, w.At(rm), "", props...)
				}
			}
		}
	}
	// syncUserCollections: Delete only after RPC ok and Count == len(KeyValues)
	for _, g := range clusterFns(w) {
		if strings.Contains(load.FnKey(g), "RPCSetNodeKeyValue") {
			continue // the receiving handler itself
		}
		var rpc *ssa.Call
		var write *ssa.Call
		for _, b := range g.Blocks {
			for _, in := range b.Instrs {
				call, ok := in.(*ssa.Call)
				if !ok {
					continue
				}
				if sc := call.Call.StaticCallee(); sc != nil && load.FnKey(sc) == "(*cluster.ClusterNode).RPCSetNodeKeyValue" {
					rpc = call
				}
				if call.Call.IsInvoke() && ssax.TypeName(call.Call.Value.Type()) == "diskstore.DiskStore" && call.Call.Method.Name() == "Write" {
					write = call
				}
			}
		}
		if rpc == nil || write == nil {
			continue
		}
		_, rpcOK := ssax.NilTests(g, rpc)
		cntEq := cmpEdges(g, func(o ssax.Origins) bool { return o["field:Count"] }, func(o ssax.Origins) bool { return o["field:KeyValues"] }, true)
		var missing []string
		if !onlyViaAny(rpcOK, write.Block()) {
			missing = append(missing, "successful RPC")
		}
		if !onlyViaAny(cntEq, write.Block()) {
			missing = append(missing, "Count == len(KeyValues)")
		}
		if len(missing) > 0 {
			c.Add("TRANSFER", "records:delete-after-verify", core.Violation, w.At(write), fmt.Sprintf("collection records can be deleted locally without %v", missing), props...)
		} else {
			c.Add("TRANSFER", "records:delete-after-verify", core.OK, w.At(write), "", props...)
		}
	}
	// record receiver: an entry is counted as delivered only after its Put succeeded
	nCount := 0
	// the handler's own literals, and those of the helpers it calls (the write transaction may have
	// been moved into a method of its own)
	recvRoots := map[*ssa.Function]bool{}
	if h := findFn(w, "(*cluster.ClusterNode).RPCSetNodeKeyValue"); h != nil {
		recvRoots[h] = true
		for _, b := range h.Blocks {
			for _, in := range b.Instrs {
				if g := ssax.StaticModuleCallee(in); g != nil && load.PkgPath(g) == load.PkgPath(h) && g.Name() != "internalRoute" {
					recvRoots[g] = true
				}
			}
		}
	}
	for _, g := range clusterFns(w) {
		root := g
		for root.Parent() != nil {
			root = root.Parent()
		}
		if g.Parent() == nil || !recvRoots[root] {
			continue
		}
		var putOK []ssax.Edge
		for _, b := range g.Blocks {
			for _, in := range b.Instrs {
				if call, ok := in.(*ssa.Call); ok && call.Call.IsInvoke() && call.Call.Method.Name() == "Put" && ssax.TypeName(call.Call.Value.Type()) == "diskstore.Bucket" {
					_, isNil := ssax.NilTests(g, call)
					putOK = append(putOK, isNil...)
				}
			}
		}
		for _, b := range g.Blocks {
			for _, in := range b.Instrs {
				st, ok := in.(*ssa.Store)
				if !ok {
					continue
				}
				if _, isFV := st.Addr.(*ssa.FreeVar); !isFV {
					continue
				}
				bo, ok := st.Val.(*ssa.BinOp)
				if !ok || bo.Op != token.ADD {
					continue
				}
				nCount++
				if onlyViaAny(putOK, b) {
					c.Add("TRANSFER", "records:count-after-put", core.OK, w.At(in), "", props...)
				} else {
					c.Add("TRANSFER", "records:count-after-put", core.Violation, w.At(in), "the receiver counts an entry as delivered on a path on which it was not written: the sender compares this count with what it sent and then deletes its own copy", props...)
				}
			}
		}
	}
	if nCount == 0 {
		c.Add("TRANSFER", "anchor:records-count", core.Undecided, "", "the delivered-entries counter of RPCSetNodeKeyValue was not found", props...)
	}
	// receiver
	r := findFn(w, "(*cluster.ClusterNode).RPCSendShard")
	if r == nil {
		c.Add("TRANSFER", "anchor:RPCSendShard", core.Undecided, "", "receiver not found", props...)
		return
	}
	var open, write, hash *ssa.Call
	for _, b := range r.Blocks {
		for _, in := range b.Instrs {
			call, ok := in.(*ssa.Call)
			if !ok {
				continue
			}
			g := call.Call.StaticCallee()
			if g == nil {
				continue
			}
			switch g.String() {
			case "os.OpenFile", "os.Create":
				open = call
			case "(*os.File).Write":
				write = call
			}
			if load.FnKey(g) == "cluster.FileHash" {
				hash = call
			}
		}
	}
	var openPath ssa.Value
	if open != nil {
		openPath = open.Call.Args[0]
	} else {
		// the file may be opened by a helper of the package that is handed the path
		for _, b := range r.Blocks {
			for _, in := range b.Instrs {
				site, ok := in.(*ssa.Call)
				if !ok {
					continue
				}
				g := site.Call.StaticCallee()
				if g == nil || !ssax.InModule(g) || load.PkgPath(g) != load.PkgPath(r) {
					continue
				}
				for _, gb := range g.Blocks {
					for _, gi := range gb.Instrs {
						gc, ok := gi.(*ssa.Call)
						if !ok || gc.Call.StaticCallee() == nil {
							continue
						}
						if n := gc.Call.StaticCallee().String(); n == "os.OpenFile" || n == "os.Create" {
							if prm, ok := peelToParam(gc.Call.Args[0]).(*ssa.Parameter); ok {
								for i, q := range g.Params {
									if q == prm && i < len(site.Call.Args) {
										open, openPath = gc, site.Call.Args[i]
									}
								}
							}
						}
					}
				}
			}
		}
	}
	if hash == nil || write == nil || open == nil {
		c.Add("TRANSFER", "receiver:anchors", core.Undecided, w.Position(r.Pos()), "open / write / checksum calls not all found in the receive handler", props...)
		return
	}
	// checksum is of the file on disk, after the write
	sameFile := false
	if pa, _ := ssax.Path(hash.Call.Args[0]); true {
		pb, _ := ssax.Path(openPath)
		sameFile = pa == pb
	}
	flows := false
	for _, b := range r.Blocks {
		for _, in := range b.Instrs {
			if st, ok := in.(*ssa.Store); ok {
				if fa, ok := st.Addr.(*ssa.FieldAddr); ok && fieldOf(fa) == "cluster.RPCSendShardResponse.Checksum" {
					flows = ssax.Prov(st.Val)["call:"+clusterPkg+".FileHash"]
				}
			}
		}
	}
	if sameFile && flows && ssax.Precedes(write, hash) {
		c.Add("TRANSFER", "receiver:checksum-of-file", core.OK, w.At(hash), "", props...)
	} else {
		c.Add("TRANSFER", "receiver:checksum-of-file", core.Violation, w.At(hash), "the checksum reported to the sender is not that of the destination file after the write", props...)
	}
	// RESET: on chunk index 0 the destination is created afresh
	reset := false
	if open.Call.StaticCallee().String() == "os.Create" {
		reset = true
	}
	if len(open.Call.Args) > 1 {
		flagOrigins(open.Call.Args[1], func(v int64, blk *ssa.BasicBlock) {
			const oTrunc = 0x200
			if v&oTrunc != 0 {
				reset = true
			}
		})
	}
	for _, b := range r.Blocks {
		for _, in := range b.Instrs {
			if call, ok := in.(*ssa.Call); ok {
				if g := call.Call.StaticCallee(); g != nil {
					switch g.String() {
					case "os.Remove", "os.RemoveAll", "os.Truncate", "(*os.File).Truncate":
						if ssax.Precedes(call, write) || ssax.Reaches(b, write.Block()) {
							reset = true
						}
					}
				}
			}
		}
	}
	if reset {
		c.Add("TRANSFER", "receiver:reset-on-first-chunk", core.OK, w.At(open), "", props...)
	} else {
		c.Add("TRANSFER", "receiver:reset-on-first-chunk", core.Violation, w.At(open), "the destination file is opened for append and never reset: bytes left by an interrupted transfer stay in front of the retried one and its checksum can never match", props...)
	}
	// Sync runs both phases: records route by user id and shards by shard id, so neither phase's
	// outcome says anything about whether the other has work to do
	if sy := findFn(w, "(*cluster.ClusterNode).Sync"); sy == nil {
		c.Add("TRANSFER", "anchor:Sync", core.Undecided, "", "ClusterNode.Sync not found", props...)
	} else {
		var rec, shards *ssa.Call
		for _, b := range sy.Blocks {
			for _, in := range b.Instrs {
				if call, ok := in.(*ssa.Call); ok && call.Call.StaticCallee() != nil {
					switch load.FnKey(call.Call.StaticCallee()) {
					case "(*cluster.ClusterNode).syncUserCollections":
						rec = call
					case "(*cluster.ClusterNode).syncShards":
						shards = call
					}
				}
			}
		}
		if tbl, bad, ok := phaseTable(w, sy, "syncUserCollections", "syncShards"); ok && (rec == nil || shards == nil) {
			// the phases are rows of a table that a loop runs through
			if bad != "" {
				c.Add("TRANSFER", "sync:both-phases", core.Violation, w.At(tbl), bad, props...)
			} else {
				c.Add("TRANSFER", "sync:both-phases", core.OK, w.At(tbl), "", props...)
			}
		} else if rec == nil || shards == nil {
			c.Add("TRANSFER", "sync:both-phases", core.Violation, w.Position(sy.Pos()), "Sync does not run both the record phase and the shard phase", props...)
		} else {
			// once the record phase has run, every success exit has also run the shard phase
			bad := ""
			for _, ex := range successExits(sy) {
				if ssax.Precedes(rec, ex.In) && !ssax.Precedes(shards, ex.In) {
					if v, ok := ex.Val.(ssa.Value); !ok || v != ssa.Value(shards) {
						bad = w.At(ex.In)
					}
				}
			}
			if bad != "" {
				c.Add("TRANSFER", "sync:both-phases", core.Violation, bad, "Sync can report success after the record phase without having run the shard phase: shards that belong elsewhere are never moved", props...)
			} else {
				c.Add("TRANSFER", "sync:both-phases", core.OK, w.At(shards), "", props...)
			}
			// a Sync that skips the phases does so only because the node itself is the (only) listed
			// server: a list of one that names another server means everything here has to move there
			var selfEdges []ssax.Edge
			for _, b := range sy.Blocks {
				ifi, ok := b.Instrs[len(b.Instrs)-1].(*ssa.If)
				if !ok {
					continue
				}
				cond, neg := ifi.Cond, false
				if u, ok := cond.(*ssa.UnOp); ok && u.Op == token.NOT {
					cond, neg = u.X, true
				}
				bo, ok := cond.(*ssa.BinOp)
				if !ok || (bo.Op != token.EQL && bo.Op != token.NEQ) {
					continue
				}
				ox, oy := provDeep(w, bo.X), provDeep(w, bo.Y)
				has := func(o ssax.Origins, sub string) bool {
					for k := range o {
						if strings.Contains(k, sub) {
							return true
						}
					}
					return false
				}
				if (has(ox, "field:MyHostname") && has(oy, "field:Servers")) || (has(oy, "field:MyHostname") && has(ox, "field:Servers")) {
					s := 0
					if (bo.Op == token.NEQ) != neg {
						s = 1
					}
					selfEdges = append(selfEdges, ssax.Edge{From: b, Succ: s})
				}
			}
			badSkip := ""
			for _, ex := range successExits(sy) {
				if ssax.Precedes(rec, ex.In) {
					continue
				}
				if v, ok := ex.Val.(ssa.Value); ok && (v == ssa.Value(rec) || v == ssa.Value(shards)) {
					continue
				}
				if !onlyViaAny(selfEdges, ex.In.Block()) {
					badSkip = w.At(ex.In)
				}
			}
			if badSkip != "" {
				c.Add("TRANSFER", "sync:skip-only-if-alone", core.Violation, badSkip, "Sync can return without running its phases on a path that has not established that a listed server is this node: a node started with a list of one that names another server keeps all its records and shards, which routing now looks for elsewhere", props...)
			} else {
				c.Add("TRANSFER", "sync:skip-only-if-alone", core.OK, w.Position(sy.Pos()), "", props...)
			}
		}
	}
	// ORDER in main
	mainFn := w.Func("", "main")
	if mainFn == nil {
		c.Add("TRANSFER", "anchor:main", core.Undecided, "", "main.main not found", props...)
		return
	}
	// where each step happens: in main itself, or inside a helper of package main that main calls
	// (then the step is ordered by that call among main's statements, and within the helper)
	type stepAt struct{ outer, inner ssa.Instruction }
	steps := map[string]stepAt{}
	nameOf := func(g *ssa.Function) string {
		switch load.FnKey(g) {
		case "(*cluster.ClusterNode).Serve":
			return "serve"
		case "(*cluster.ClusterNode).Sync":
			return "sync"
		case "httpapi.RunHTTPServer":
			return "http"
		}
		return ""
	}
	for _, b := range mainFn.Blocks {
		for _, in := range b.Instrs {
			call, ok := in.(*ssa.Call)
			if !ok {
				continue
			}
			g := call.Call.StaticCallee()
			if g == nil {
				continue
			}
			if n := nameOf(g); n != "" {
				steps[n] = stepAt{in, nil}
				continue
			}
			if ssax.InModule(g) && load.PkgPath(g) == load.PkgPath(mainFn) {
				for _, gb := range g.Blocks {
					for _, gi := range gb.Instrs {
						if gc, ok := gi.(*ssa.Call); ok && gc.Call.StaticCallee() != nil {
							if n := nameOf(gc.Call.StaticCallee()); n != "" {
								steps[n] = stepAt{in, gi}
							}
						}
					}
				}
			}
		}
	}
	before := func(a, b stepAt) bool {
		if a.outer == nil || b.outer == nil {
			return false
		}
		if a.outer != b.outer {
			return ssax.Precedes(a.outer, b.outer)
		}
		return a.inner != nil && b.inner != nil && ssax.Precedes(a.inner, b.inner)
	}
	if before(steps["serve"], steps["sync"]) && before(steps["sync"], steps["http"]) {
		c.Add("TRANSFER", "startup-order", core.OK, w.At(steps["sync"].outer), "", props...)
	} else {
		c.Add("TRANSFER", "startup-order", core.Violation, w.Position(mainFn.Pos()), "start-up does not run RPC serving, then synchronisation, then the HTTP API in that order", props...)
	}
}

// dirDepths: how many filepath.Dir applications separate v from a parameter of the function
// (-1: not derived from a parameter by Dir alone).
// structResultFieldDepths: the call returns a struct built by a function of the module from one
// path argument; the directory depths of the given field, relative to the caller's path.
func structResultFieldDepths(call *ssa.Call, field int, seen map[ssa.Value]bool, depth int) (map[int]bool, bool) {
	h := call.Call.StaticCallee()
	if h == nil || !ssax.InModule(h) || len(h.Blocks) == 0 || h.Signature.Results().Len() != 1 || ssax.StructOf(h.Signature.Results().At(0).Type()) == nil {
		return nil, false
	}
	// exactly one string parameter: the path
	pi := -1
	for i, q := range h.Params {
		if bt, ok := q.Type().Underlying().(*types.Basic); ok && bt.Kind() == types.String {
			if pi >= 0 {
				return nil, false
			}
			pi = i
		}
	}
	if pi < 0 || pi >= len(call.Call.Args) {
		return nil, false
	}
	inner := map[int]bool{}
	found := false
	for _, hb := range h.Blocks {
		r, ok := hb.Instrs[len(hb.Instrs)-1].(*ssa.Return)
		if !ok || hb == h.Recover {
			continue
		}
		rv := ssax.ReturnOperand(r, 0)
		ld, ok := rv.(*ssa.UnOp)
		if !ok {
			return nil, false
		}
		al, ok := ld.X.(*ssa.Alloc)
		if !ok {
			return nil, false
		}
		for _, ref := range *al.Referrers() {
			fa, ok := ref.(*ssa.FieldAddr)
			if !ok || fa.Field != field {
				continue
			}
			for _, rr := range *fa.Referrers() {
				if st, ok := rr.(*ssa.Store); ok && st.Addr == ssa.Value(fa) {
					found = true
					for d := range dirDepths(st.Val, map[ssa.Value]bool{}, depth+1) {
						inner[d] = true
					}
				}
			}
		}
	}
	if !found {
		return nil, false
	}
	outer := dirDepths(call.Call.Args[pi], seen, depth+1)
	out := map[int]bool{}
	for a := range outer {
		for b := range inner {
			if a < 0 || b < 0 {
				out[-1] = true
			} else {
				out[a+b] = true
			}
		}
	}
	return out, true
}

func dirDepths(v ssa.Value, seen map[ssa.Value]bool, depth int) map[int]bool {
	out := map[int]bool{}
	if v == nil || seen[v] || depth > 12 {
		return out
	}
	seen[v] = true
	add := func(m map[int]bool, inc int) {
		for d := range m {
			if d < 0 {
				out[-1] = true
			} else {
				out[d+inc] = true
			}
		}
	}
	switch x := v.(type) {
	case *ssa.Parameter:
		out[0] = true
	case *ssa.Call:
		if g := x.Call.StaticCallee(); g != nil && g.String() == "path/filepath.Dir" {
			add(dirDepths(x.Call.Args[0], seen, depth+1), 1)
		} else {
			out[-1] = true
		}
	case *ssa.Phi:
		for _, e := range x.Edges {
			add(dirDepths(e, seen, depth+1), 0)
		}
	case *ssa.Field:
		if call, ok := x.X.(*ssa.Call); ok {
			if m, ok := structResultFieldDepths(call, x.Field, seen, depth); ok {
				add(m, 0)
				break
			}
		}
		out[-1] = true
	case *ssa.UnOp:
		if x.Op != token.MUL {
			out[-1] = true
			break
		}
		// a field of the struct a helper of the module returned ("owner := locate(path);
		// owner.shardDir"): what the helper put into that field, in terms of its argument
		if fa, ok := x.X.(*ssa.FieldAddr); ok {
			if al, ok := fa.X.(*ssa.Alloc); ok {
				if call, ok := ssax.SingleStore(al).(*ssa.Call); ok {
					if m, ok := structResultFieldDepths(call, fa.Field, seen, depth); ok {
						add(m, 0)
						break
					}
				}
			}
		}
		// load from a local cell, array or slice element: everything ever stored there
		var root ssa.Value = x.X
		for {
			switch a := root.(type) {
			case *ssa.IndexAddr:
				root = a.X
				continue
			case *ssa.Slice:
				root = a.X
				continue
			case *ssa.FieldAddr:
				root = a.X
				continue
			}
			break
		}
		al, ok := root.(*ssa.Alloc)
		if !ok {
			out[-1] = true
			break
		}
		n := 0
		var visit func(addr ssa.Value)
		visit = func(addr ssa.Value) {
			for _, r := range *addr.Referrers() {
				switch y := r.(type) {
				case *ssa.Store:
					if y.Addr == addr {
						n++
						add(dirDepths(y.Val, seen, depth+1), 0)
					}
				case *ssa.IndexAddr:
					visit(y)
				case *ssa.FieldAddr:
					visit(y)
				case *ssa.Slice:
					visit(y)
				}
			}
		}
		visit(al)
		if n == 0 {
			out[-1] = true
		}
	default:
		out[-1] = true
	}
	return out
}

// flagOrigins visits integer constants that can flow into v (through | and phi).
func flagOrigins(v ssa.Value, visit func(int64, *ssa.BasicBlock)) {
	seen := map[ssa.Value]bool{}
	var walk func(x ssa.Value)
	walk = func(x ssa.Value) {
		if x == nil || seen[x] {
			return
		}
		seen[x] = true
		switch y := x.(type) {
		case *ssa.Const:
			if i, ok := ssax.ConstInt(y); ok {
				visit(i, nil)
			}
		case *ssa.BinOp:
			walk(y.X)
			walk(y.Y)
		case *ssa.Phi:
			for _, e := range y.Edges {
				walk(e)
			}
		case *ssa.Convert:
			walk(y.X)
		case *ssa.UnOp:
			if al, ok := y.X.(*ssa.Alloc); ok {
				for _, r := range *al.Referrers() {
					if st, ok := r.(*ssa.Store); ok && st.Addr == al {
						walk(st.Val)
					}
				}
			}
		}
	}
	walk(v)
}

func Quota(w *load.World, c *core.Collector) {
	props := []string{"C15"}
	f := findFn(w, "(*cluster.ClusterNode).InsertPoints")
	if f == nil {
		c.Add("QUOTA", "anchor:InsertPoints", core.Undecided, "", "ClusterNode.InsertPoints not found", props...)
	} else {
		// quota comparison: involves MaxCollectionPointCount; the "within quota" edge
		var within []ssax.Edge
		for _, b := range f.Blocks {
			ifi, ok := b.Instrs[len(b.Instrs)-1].(*ssa.If)
			if !ok {
				continue
			}
			// the comparison itself, or a predicate helper that makes it
			if ssax.Prov(ifi.Cond)["field:MaxCollectionPointCount"] {
				// the branch that returns ErrQuotaReached is the "over" edge
				for e := 0; e < 2; e++ {
					returnsQuota := false
					for _, in := range b.Succs[e].Instrs {
						if r, ok := in.(*ssa.Return); ok {
							for i := range r.Results {
								if ssax.Prov(ssax.ReturnOperand(r, i))["global:ErrQuotaReached"] {
									returnsQuota = true
								}
							}
						}
					}
					if returnsQuota {
						within = append(within, ssax.Edge{From: b, Succ: 1 - e})
						// what is compared with the quota is what the collection would hold after
						// the request: the points it has and the points the request brings
						o := ssax.Prov(ifi.Cond)
						switch {
						case !o["field:PointCount"]:
							c.Add("QUOTA", "points:check-counts-stored-and-new", core.Violation, w.At(ifi), "the comparison that refuses a request over quota does not involve the shards' point counts", props...)
						case !o["param:points"]:
							c.Add("QUOTA", "points:check-counts-stored-and-new", core.Violation, w.At(ifi), "the comparison that refuses a request over quota does not involve the number of points of the request: a collection below its quota accepts a batch of any size", props...)
						default:
							c.Add("QUOTA", "points:check-counts-stored-and-new", core.OK, w.At(ifi), "", props...)
						}
					}
				}
			}
		}
		if len(within) == 0 {
			c.Add("QUOTA", "points:check", core.Violation, w.Position(f.Pos()), "no comparison with the plan's per-collection point quota that refuses the request", props...)
		} else {
			n := 0
			for _, b := range f.Blocks {
				for _, in := range b.Instrs {
					var callee string
					switch x := in.(type) {
					case *ssa.Call:
						if g := x.Call.StaticCallee(); g != nil {
							callee = load.FnKey(g)
						}
					case *ssa.Go:
						if mc, ok := x.Call.Value.(*ssa.MakeClosure); ok {
							callee = "go " + load.FnKey(mc.Fn.(*ssa.Function))
						}
					}
					if callee == "cluster.distributePoints" || strings.HasPrefix(callee, "go ") || strings.Contains(callee, "RPCCreateShard") || strings.Contains(callee, "RPCInsertPoints") {
						n++
						key := "points:side-effect-after-check:" + callee
						if onlyViaAny(within, b) {
							c.Add("QUOTA", key, core.OK, w.At(in), "", props...)
						} else {
							c.Add("QUOTA", key, core.Violation, w.At(in), callee+" can run before the point quota was checked", props...)
						}
					}
				}
			}
			if n < 2 {
				c.Add("QUOTA", "anchor:points-effects", core.Undecided, "", "side effects of InsertPoints not found", props...)
			}
		}
	}
	// the quota sums the point counts of every shard: the gathering of shard infos must fail as a whole
	// when one shard does not answer (a partial list under-counts and lets the request through)
	if g := findFn(w, "(*cluster.ClusterNode).GetShardsInfo"); g == nil {
		c.Add("QUOTA", "anchor:GetShardsInfo", core.Undecided, "", "ClusterNode.GetShardsInfo not found", props...)
	} else {
		var rpc *ssa.Call
		var rpcErr ssa.Value
		callsInfo := func(fn *ssa.Function) *ssa.Call {
			for _, b := range fn.Blocks {
				for _, in := range b.Instrs {
					if call, ok := in.(*ssa.Call); ok && call.Call.StaticCallee() != nil && load.FnKey(call.Call.StaticCallee()) == "(*cluster.ClusterNode).RPCGetShardInfo" {
						return call
					}
				}
			}
			return nil
		}
		if rpc = callsInfo(g); rpc != nil {
			rpcErr = rpc
		} else {
			// through a helper that makes the call for one shard and hands its error back
			for _, b := range g.Blocks {
				for _, in := range b.Instrs {
					call, ok := in.(*ssa.Call)
					if !ok {
						continue
					}
					h := ssax.StaticModuleCallee(in)
					if h == nil || len(h.Blocks) == 0 {
						continue
					}
					inner := callsInfo(h)
					if inner == nil {
						continue
					}
					// every failure of the inner call makes the helper return a non-nil error
					innerFailed, _ := ssax.NilTests(h, inner)
					okAll := len(innerFailed) > 0
					for _, e := range innerFailed {
						if !failEdgeReturnsError(h, e) {
							okAll = false
						}
					}
					if !okAll {
						continue
					}
					sig := call.Call.Signature()
					if n := sig.Results().Len(); n > 0 && isErrorType(sig.Results().At(n-1).Type()) {
						rpc = call
						rpcErr = resultValue(call, n-1)
					}
				}
			}
		}
		if rpc == nil || rpcErr == nil {
			c.Add("QUOTA", "shard-infos-all-or-error", core.Undecided, w.Position(g.Pos()), "the per-shard info call was not found", props...)
		} else {
			failed, _ := ssax.NilTests(g, rpcErr)
			// through a variable: the test may be on a phi / load fed by the call
			if len(failed) == 0 {
				for _, r := range *rpcErr.Referrers() {
					if phi, ok := r.(*ssa.Phi); ok {
						f2, _ := ssax.NilTests(g, phi)
						failed = append(failed, f2...)
					}
				}
			}
			isErrReturn := func(in ssa.Instruction) bool {
				ret, ok := in.(*ssa.Return)
				if !ok {
					return false
				}
				for i := range ret.Results {
					if isErrorType(ret.Results[i].Type()) && nonNilError(ssax.ReturnOperand(ret, i), ret.Block()) {
						return true
					}
				}
				return false
			}
			again := func(in ssa.Instruction) bool {
				// the call is reached again (next shard), or the function returns successfully
				if in == ssa.Instruction(rpc) {
					return true
				}
				if ret, ok := in.(*ssa.Return); ok {
					return !isErrReturn(ret)
				}
				return false
			}
			switch {
			case len(failed) == 0:
				c.Add("QUOTA", "shard-infos-all-or-error", core.Violation, w.At(rpc), "the error of the per-shard info call is never tested", props...)
			default:
				okAll := true
				at := w.At(rpc)
				for _, e := range failed {
					if ok, bad := mustPassFromEdge(e, isErrReturn, again); !ok {
						okAll = false
						at = w.At(bad)
					}
				}
				if okAll {
					c.Add("QUOTA", "shard-infos-all-or-error", core.OK, w.At(rpc), "", props...)
				} else {
					c.Add("QUOTA", "shard-infos-all-or-error", core.Violation, at, "after a shard failed to report its size the gathering goes on (or succeeds) instead of returning an error: the quota is then checked against a total that leaves that shard out", props...)
				}
			}
		}
	}
	// collection quota in RPCCreateCollection$1
	var lit *ssa.Function
	for _, g := range clusterFns(w) {
		if !strings.HasPrefix(load.FnKey(g), "(*cluster.ClusterNode).RPCCreateCollection$") {
			continue
		}
		for _, b := range g.Blocks {
			for _, in := range b.Instrs {
				if call, ok := in.(*ssa.Call); ok && call.Call.IsInvoke() && call.Call.Method.Name() == "Put" {
					lit = g
				}
			}
		}
	}
	if lit == nil {
		c.Add("QUOTA", "anchor:RPCCreateCollection", core.Undecided, "", "collection creation callback not found", props...)
		return
	}
	var put *ssa.Call
	for _, b := range lit.Blocks {
		for _, in := range b.Instrs {
			if call, ok := in.(*ssa.Call); ok && call.Call.IsInvoke() && call.Call.Method.Name() == "Put" {
				put = call
			}
		}
	}
	var under []ssax.Edge
	for _, b := range lit.Blocks {
		ifi, ok := b.Instrs[len(b.Instrs)-1].(*ssa.If)
		if !ok {
			continue
		}
		bo, ok := ifi.Cond.(*ssa.BinOp)
		if !ok {
			continue
		}
		ox, oy := map[string]bool{}, map[string]bool{}
		if deepHas(w, bo.X, "field:MaxCollections") {
			ox["field:MaxCollections"] = true
		}
		if deepHas(w, bo.Y, "field:MaxCollections") {
			oy["field:MaxCollections"] = true
		}
		if !(ox["field:MaxCollections"] || oy["field:MaxCollections"]) {
			continue
		}
		// count >= Max -> refuse on true edge ; count < Max -> allow on true edge
		switch bo.Op {
		case token.GEQ, token.GTR:
			if oy["field:MaxCollections"] {
				under = append(under, ssax.Edge{From: b, Succ: 1})
			} else {
				under = append(under, ssax.Edge{From: b, Succ: 0})
			}
		case token.LSS, token.LEQ:
			if oy["field:MaxCollections"] {
				under = append(under, ssax.Edge{From: b, Succ: 0})
			} else {
				under = append(under, ssax.Edge{From: b, Succ: 1})
			}
		}
	}
	// the decision may be a helper's verdict: an enumeration value that says "admitted" only on the
	// helper's own under-quota edge, and the record is written only where the verdict is that value
	if put != nil && len(under) == 0 {
		if quotaVerdictGuards(w, lit, put) {
			c.Add("QUOTA", "collections:put-after-check", core.OK, w.At(put), "", props...)
			goto afterCollections
		}
	}
	if put == nil || len(under) == 0 || !onlyViaAny(under, put.Block()) {
		where := w.Position(lit.Pos())
		if put != nil {
			where = w.At(put)
		}
		c.Add("QUOTA", "collections:put-after-check", core.Violation, where, "a collection record can be written without the per-user collection quota having been checked", props...)
	} else {
		c.Add("QUOTA", "collections:put-after-check", core.OK, w.At(put), "", props...)
	}
afterCollections:

}

// ---------------------------------------------------------------- LIFECYCLE

func Lifecycle(w *load.World, c *core.Collector) {
	shardConfined(w, c)
	props := []string{"C12"}
	n := 0
	for _, f := range clusterFns(w) {
		for _, b := range f.Blocks {
			for _, in := range b.Instrs {
				u, ok := in.(*ssa.UnOp)
				if !ok || u.Op != token.MUL {
					continue
				}
				fa, ok := u.X.(*ssa.FieldAddr)
				if !ok || fieldOf(fa) != "cluster.loadedShard.shard" {
					continue
				}
				// where is the loaded value used other than in a nil comparison?
				used, guarded := shardUsesGuarded(w, f, u, 0)
				if !used {
					continue
				}
				n++
				key := "shard-nil-check:" + load.FnKey(f)
				if guarded {
					c.Add("LIFECYCLE", key, core.OK, w.At(in), "", props...)
				} else {
					c.Add("LIFECYCLE", key, core.Violation, w.At(in), "the shard pointer is used without a nil check under the shard lock: a request could run on a shard that was closed while it waited", props...)
				}
			}
		}
	}
	c.Count("shard_pointer_uses", n)
	if n < 3 {
		c.Add("LIFECYCLE", "anchor:shard-uses", core.Undecided, "", fmt.Sprintf("found %d uses of the shard pointer, expected at least 3", n), props...)
	}
	// Close is followed by shard = nil
	for _, f := range clusterFns(w) {
		for _, b := range f.Blocks {
			for _, in := range b.Instrs {
				call, ok := in.(*ssa.Call)
				if !ok {
					continue
				}
				g := call.Call.StaticCallee()
				if g == nil || load.FnKey(g) != "(*shard.Shard).Close" {
					continue
				}
				p, _ := ssax.Path(call.Call.Args[0])
				cleared := false
				for _, bb := range f.Blocks {
					for _, ii := range bb.Instrs {
						if st, ok := ii.(*ssa.Store); ok && ssax.IsNilConst(st.Val) {
							if sp, _ := ssax.Path(st.Addr); sp+"*" == p || sp == strings.TrimSuffix(p, "*") {
								if ssax.Precedes(call, ii) {
									cleared = true
								}
							}
						}
					}
				}
				key := "close-then-nil:" + load.FnKey(f)
				if cleared {
					c.Add("LIFECYCLE", key, core.OK, w.At(in), "", props...)
				} else {
					c.Add("LIFECYCLE", key, core.Violation, w.At(in), "a shard is closed without its pointer being cleared: later requests would use a closed shard", props...)
				}
			}
		}
	}
	// RemoveAll after un-registration in DeleteCollectionShards
	if f := findFn(w, "(*cluster.ShardManager).DeleteCollectionShards"); f != nil {
		// the removal may live in a helper that purges one shard
		f = homeOf(f, func(g *ssa.Function) bool {
			for _, b := range g.Blocks {
				for _, in := range b.Instrs {
					if call, ok := in.(*ssa.Call); ok && call.Call.StaticCallee() != nil && call.Call.StaticCallee().String() == "os.RemoveAll" {
						return true
					}
				}
			}
			return false
		})
		var rm, del ssa.Instruction
		for _, b := range f.Blocks {
			for _, in := range b.Instrs {
				if call, ok := in.(*ssa.Call); ok {
					if g := call.Call.StaticCallee(); g != nil && g.String() == "os.RemoveAll" {
						rm = in
					}
					if bi, ok := call.Call.Value.(*ssa.Builtin); ok && bi.Name() == "delete" {
						if isShardRegistry(call.Call.Args[0]) {
							del = in
						}
					}
					// a helper that takes the entry out of the registry on every path on which there is one
					if g := call.Call.StaticCallee(); g != nil && ssax.InModule(g) && len(g.Blocks) > 0 && unregistersShard(g) {
						del = in
					}
				}
			}
		}
		if rm != nil && del != nil && (ssax.Precedes(del, rm) || !reachesWithoutUnregister(f, del, rm)) {
			c.Add("LIFECYCLE", "remove-after-unregister", core.OK, w.At(rm), "", props...)
		} else {
			c.Add("LIFECYCLE", "remove-after-unregister", core.Violation, w.Position(f.Pos()), "shard files are removed while the shard is still registered as loaded", props...)
		}
	} else {
		c.Add("LIFECYCLE", "anchor:DeleteCollectionShards", core.Undecided, "", "not found", props...)
	}
	// the idle-unload routine belongs to one loadedShard; by the time it gets the store lock the entry
	// under its directory may already be a newer incarnation (deleted and reloaded meanwhile): it may
	// only remove the entry behind a test that the entry is still its own
	if f := findFn(w, "(*cluster.ShardManager).cleanupRoutine"); f != nil {
		var own ssa.Value
		for _, p := range f.Params {
			if ssax.TypeName(p.Type()) == "cluster.loadedShard" {
				own = p
			}
		}
		for _, b := range f.Blocks {
			for _, in := range b.Instrs {
				call, ok := in.(*ssa.Call)
				if !ok {
					continue
				}
				bi, ok := call.Call.Value.(*ssa.Builtin)
				if !ok || bi.Name() != "delete" {
					continue
				}
				if !isShardRegistry(call.Call.Args[0]) {
					continue
				}
				guarded := false
				for _, bb := range f.Blocks {
					ifi, ok := bb.Instrs[len(bb.Instrs)-1].(*ssa.If)
					if !ok {
						continue
					}
					bo, ok := ifi.Cond.(*ssa.BinOp)
					if !ok || (bo.Op != token.EQL && bo.Op != token.NEQ) {
						continue
					}
					isEntry := func(v ssa.Value) bool {
						if lk, ok := v.(*ssa.Lookup); ok {
							return isShardRegistry(lk.X)
						}
						if ex, ok := v.(*ssa.Extract); ok {
							if lk, ok := ex.Tuple.(*ssa.Lookup); ok {
								return isShardRegistry(lk.X)
							}
						}
						return false
					}
					isOwn := func(v ssa.Value) bool {
						if v == own {
							return true
						}
						o := ssax.Resolve(v)
						return len(o) == 1 && o[0].Val == own && len(o[0].Path) == 0
					}
					if (isEntry(bo.X) && isOwn(bo.Y)) || (isEntry(bo.Y) && isOwn(bo.X)) {
						e := 0
						if bo.Op == token.NEQ {
							e = 1
						}
						if ssax.OnlyViaEdge(bb, e, b) {
							guarded = true
						}
					}
				}
				if guarded {
					c.Add("LIFECYCLE", "unregister-own-entry", core.OK, w.At(in), "", props...)
				} else {
					c.Add("LIFECYCLE", "unregister-own-entry", core.Violation, w.At(in), "the idle-unload routine removes the registry entry of its directory without testing that the entry is still its own shard: a shard that was deleted and reloaded meanwhile is evicted while open, and the next request opens the same file a second time", props...)
				}
			}
		}
	}
	// an entry leaves the registry only once its shard is closed: on every path to a delete of
	// shardStore the shard pointer was cleared (after Close), or seen to be nil, or there is no
	// entry. An open shard that is unregistered gets opened a second time by the next request.
	for _, f := range clusterFns(w) {
		for _, b := range f.Blocks {
			for _, in := range b.Instrs {
				call, ok := in.(*ssa.Call)
				if !ok {
					continue
				}
				bi, ok := call.Call.Value.(*ssa.Builtin)
				if !ok || bi.Name() != "delete" {
					continue
				}
				if !isShardRegistry(call.Call.Args[0]) {
					continue
				}
				key := "unregister-closed:" + load.FnKey(f)
				if shardClosedAt(w, f, wcPos{pred: b, succ: -1, at: call}, 0) {
					c.Add("LIFECYCLE", key, core.OK, w.At(in), "", props...)
				} else {
					c.Add("LIFECYCLE", key, core.Violation, w.At(in), "a shard can be taken out of the registry while its pointer is still set (before it was closed and cleared): the next request loads the same shard file a second time while this one is still open", props...)
				}
			}
		}
	}
	// every send on doneCh is non-blocking
	for _, f := range clusterFns(w) {
		for _, b := range f.Blocks {
			for _, in := range b.Instrs {
				if s, ok := in.(*ssa.Send); ok {
					if p, _ := ssax.Path(s.Chan); strings.Contains(p, "doneCh") {
						c.Add("LIFECYCLE", "nonblocking-signal:"+load.FnKey(f), core.Violation, w.At(in), "blocking send on the shard's signal channel while holding manager locks", props...)
					}
				}
				if sel, ok := in.(*ssa.Select); ok {
					for _, st := range sel.States {
						if st.Dir == types.SendOnly {
							if p, _ := ssax.Path(st.Chan); strings.Contains(p, "doneCh") {
								if sel.Blocking {
									c.Add("LIFECYCLE", "nonblocking-signal:"+load.FnKey(f), core.Violation, w.At(in), "blocking send on the shard's signal channel while holding manager locks", props...)
								} else {
									c.Add("LIFECYCLE", "nonblocking-signal:"+load.FnKey(f), core.OK, w.At(in), "", props...)
								}
							}
						}
					}
				}
			}
		}
	}
}

// ----------------------------------------------------------- ROUTE: retries
//
// internalRoute retries a forwarded call; it may only report success (nil) when a
// call succeeded. Inside the retry loop the error variable is reset at the start of
// an attempt; an attempt that ends without recording an error and without returning
// (the "connection was already shut down, nothing was sent" branch) must give the
// attempt back, otherwise the loop can run out and the function returns the nil it
// was reset to — the fan-out then counts the shard as answered (C17).
// In SSA: wherever a loop-carried error phi receives a value that may be nil along a
// continue/back edge, an int phi of the same block receives counter-1 on that edge.
func RetryLoop(w *load.World, c *core.Collector) {
	props := []string{"C17"}
	f := findFn(w, "(*cluster.ClusterNode).internalRoute")
	if f == nil {
		c.Add("ROUTE", "anchor:internalRoute", core.Undecided, "", "internalRoute not found", props...)
		return
	}
	// only the edge on which the nil arrives directly: a phi that merges it further down the
	// loop (the header re-merging the post block) describes the same edge again
	mayBeNil := func(v ssa.Value) bool { return ssax.IsNilConst(v) }
	n := 0
	bad := ""
	for _, b := range f.Blocks {
		if !inLoop(b) {
			continue
		}
		var errPhis, intPhis []*ssa.Phi
		for _, in := range b.Instrs {
			phi, ok := in.(*ssa.Phi)
			if !ok {
				continue
			}
			if isErrorType(phi.Type()) {
				errPhis = append(errPhis, phi)
			} else if bt, ok := phi.Type().Underlying().(*types.Basic); ok && bt.Info()&types.IsInteger != 0 {
				intPhis = append(intPhis, phi)
			}
		}
		for _, ep := range errPhis {
			for i, e := range ep.Edges {
				pred := b.Preds[i]
				if !ssax.Reaches(b, pred) || !mayBeNil(e) {
					continue // entry edge, or an error was recorded on this edge
				}
				n++
				given := false
				for _, ip := range intPhis {
					if bo, ok := ip.Edges[i].(*ssa.BinOp); ok && bo.Op == token.SUB {
						if one, isC := ssax.ConstInt(bo.Y); isC && one == 1 {
							given = true
						}
					}
					// a loop without a post statement that counts attempts explicitly: on this edge the
					// counter comes back as it was
					if ip.Edges[i] == ssa.Value(ip) && ip.Block() == b && len(intPhis) == 1 {
						given = true
					}
				}
				if !given {
					bad = w.At(pred.Instrs[len(pred.Instrs)-1])
				}
			}
		}
	}
	switch {
	case n == 0:
		// no attempt can end silently: every continue records an error
		c.Add("ROUTE", "retry-gives-attempt-back", core.OK, w.Position(f.Pos()), "no silent continue", props...)
	case bad != "":
		c.Add("ROUTE", "retry-gives-attempt-back", core.Violation, bad, "an attempt of the retry loop can end here without an error recorded and without the attempt being given back (the counter is not decremented on this edge): when it was the last allowed attempt the call returns nil although nothing was sent", props...)
	default:
		c.Add("ROUTE", "retry-gives-attempt-back", core.OK, w.Position(f.Pos()), "", props...)
	}
}

// shardUsesGuarded: every use of the loaded shard pointer v in f sits behind the
// non-nil edge of a nil test of that value (or of another load of the same
// access path). A helper that returns the pointer (it took the lock and read
// it) passes the obligation to its call sites, where the returned value must
// be tested before it is used.
func shardUsesGuarded(w *load.World, f *ssa.Function, v ssa.Value, depth int) (used, guarded bool) {
	var useBlocks []*ssa.BasicBlock
	var useInstrs []ssa.Instruction
	returned := map[int]bool{}
	for _, r := range *v.Referrers() {
		switch x := r.(type) {
		case *ssa.BinOp:
			if !(ssax.IsNilConst(x.X) || ssax.IsNilConst(x.Y)) {
				useBlocks = append(useBlocks, x.Block())
				useInstrs = append(useInstrs, x)
			}
		case *ssa.DebugRef:
		case *ssa.Return:
			for i, res := range x.Results {
				if res == v {
					returned[i] = true
				}
			}
		case *ssa.Phi:
			useBlocks = append(useBlocks, x.Block())
			useInstrs = append(useInstrs, x)
		default:
			useBlocks = append(useBlocks, r.Block())
			useInstrs = append(useInstrs, r)
		}
	}
	if len(useBlocks) == 0 && len(returned) == 0 {
		return false, true
	}
	p, _ := ssax.Path(v)
	guarded = true
	for ui, ub := range useBlocks {
		okUse := false
		for _, bb := range f.Blocks {
			ifi, ok := bb.Instrs[len(bb.Instrs)-1].(*ssa.If)
			if !ok {
				continue
			}
			bo, ok := ifi.Cond.(*ssa.BinOp)
			if !ok || !(ssax.IsNilConst(bo.X) || ssax.IsNilConst(bo.Y)) {
				continue
			}
			other := bo.X
			if ssax.IsNilConst(bo.X) {
				other = bo.Y
			}
			if op, _ := ssax.Path(other); other != v && op != p {
				continue
			}
			edge := 0
			if bo.Op == token.EQL {
				edge = 1
			}
			// the test and the use belong to one critical section: the shard lock is not
			// released (and taken again) in between, or the pointer may have been cleared meanwhile
			if ssax.OnlyViaEdge(bb, edge, ub) && !shardLockReleasedBetween(f, bb, bb.Succs[edge], useInstrs[ui]) {
				okUse = true
			}
		}
		if !okUse {
			guarded = false
		}
	}
	if len(returned) > 0 {
		// the callers' business
		sites := 0
		for _, g := range w.Fns {
			for _, b := range g.Blocks {
				for _, in := range b.Instrs {
					call, ok := in.(*ssa.Call)
					if !ok || call.Call.StaticCallee() != f {
						continue
					}
					sites++
					for idx := range returned {
						var rv ssa.Value = call
						if f.Signature.Results().Len() > 1 {
							rv = nil
							for _, r := range *call.Referrers() {
								if ex, ok := r.(*ssa.Extract); ok && ex.Index == idx {
									rv = ex
								}
							}
						}
						if rv == nil || depth > 1 {
							continue
						}
						if _, g2 := shardUsesGuarded(w, g, rv, depth+1); !g2 {
							guarded = false
						}
					}
				}
			}
		}
		if sites == 0 {
			guarded = false
		}
	}
	return true, guarded
}

// reachesWithoutUnregister: the removal can be reached on a path that neither
// deletes the store entry nor learnt from the lookup that there is no entry.
func reachesWithoutUnregister(f *ssa.Function, del, rm ssa.Instruction) bool {
	var banned []ssax.Edge
	for _, b := range f.Blocks {
		ifi, ok := b.Instrs[len(b.Instrs)-1].(*ssa.If)
		if !ok {
			continue
		}
		cond, neg := ifi.Cond, false
		if u, ok := cond.(*ssa.UnOp); ok && u.Op == token.NOT {
			cond, neg = u.X, true
		}
		ex, ok := cond.(*ssa.Extract)
		if !ok || ex.Index != 1 {
			continue
		}
		lk, ok := ex.Tuple.(*ssa.Lookup)
		if !ok {
			continue
		}
		if !isShardRegistry(lk.X) {
			continue
		}
		absent := 1
		if neg {
			absent = 0
		}
		banned = append(banned, ssax.Edge{From: b, Succ: absent})
	}
	seen := map[*ssa.BasicBlock]bool{}
	var dfs func(b *ssa.BasicBlock) bool
	dfs = func(b *ssa.BasicBlock) bool {
		if b == rm.Block() {
			// reached the removal's block without the delete: unless the delete comes first in it
			return !(del.Block() == b && ssax.Precedes(del, rm))
		}
		if seen[b] || b == del.Block() {
			return false
		}
		seen[b] = true
		for i, sc := range b.Succs {
			skip := false
			for _, e := range banned {
				if e.From == b && e.Succ == i {
					skip = true
				}
			}
			if !skip && dfs(sc) {
				return true
			}
		}
		return false
	}
	return dfs(f.Blocks[0])
}

var purityKey, purityServers *ssa.Parameter

// hashInputLabels: provenance of the bytes handed to the hash. A buffer that is
// reused for every server — key copied in once, then `append(buf[:len(key)],
// server...)` — contains exactly the key followed by what is appended: the
// truncation to len(key) discards what earlier rounds appended.
func hashInputLabels(v ssa.Value, key *ssa.Parameter, depth int) ssax.Origins {
	out := ssax.Origins{}
	if depth > 6 {
		out["other:too-deep"] = true
		return out
	}
	merge := func(o ssax.Origins) {
		for k := range o {
			out[k] = true
		}
	}
	isLenKey := func(x ssa.Value) bool {
		call, ok := x.(*ssa.Call)
		if !ok {
			return false
		}
		bi, ok := call.Call.Value.(*ssa.Builtin)
		return ok && bi.Name() == "len" && len(call.Call.Args) == 1 && call.Call.Args[0] == ssa.Value(key)
	}
	switch x := v.(type) {
	case *ssa.Call:
		if bi, ok := x.Call.Value.(*ssa.Builtin); ok && bi.Name() == "append" && len(x.Call.Args) == 2 {
			merge(hashInputLabels(x.Call.Args[0], key, depth+1))
			merge(hashInputLabels(x.Call.Args[1], key, depth+1))
			return out
		}
	case *ssa.Slice:
		if x.Low == nil && x.High != nil && isLenKey(x.High) && bufferStartsWithKey(x.X, key, map[ssa.Value]bool{}, 0) {
			out["param:"+key.Name()] = true
			return out
		}
		if x.Low == nil && x.High != nil {
			if n, ok := ssax.ConstInt(x.High); ok && n == 0 {
				return out // buf[:0]: nothing
			}
		}
	case *ssa.Convert:
		return hashInputLabels(x.X, key, depth+1)
	case *ssa.MakeSlice:
		if n, ok := ssax.ConstInt(x.Len); ok && n == 0 {
			return out
		}
	}
	return ssax.Prov(v)
}

// bufferStartsWithKey: the first len(key) bytes of the buffer are the key: it was
// made with that length and the key copied into it, or built by appending to the
// key, and every later value of it is an append to its own first len(key) bytes.
func bufferStartsWithKey(v ssa.Value, key *ssa.Parameter, seen map[ssa.Value]bool, depth int) bool {
	if seen[v] {
		return true
	}
	seen[v] = true
	if depth > 6 {
		return false
	}
	switch x := v.(type) {
	case *ssa.Phi:
		for _, e := range x.Edges {
			if !bufferStartsWithKey(e, key, seen, depth+1) {
				return false
			}
		}
		return len(x.Edges) > 0
	case *ssa.Call:
		bi, ok := x.Call.Value.(*ssa.Builtin)
		if !ok || bi.Name() != "append" || len(x.Call.Args) != 2 {
			return false
		}
		base := x.Call.Args[0]
		// append(make(0,n), key...) / append([]byte(nil), key...)
		if isEmptyBytes(base) {
			first := x.Call.Args[1]
			if cv, ok := first.(*ssa.Convert); ok {
				first = cv.X
			}
			return first == ssa.Value(key)
		}
		// append(buf[:len(key)], ...) keeps the prefix
		if sl, ok := base.(*ssa.Slice); ok && sl.Low == nil && sl.High != nil {
			if call, ok := sl.High.(*ssa.Call); ok {
				if b2, ok := call.Call.Value.(*ssa.Builtin); ok && b2.Name() == "len" && call.Call.Args[0] == ssa.Value(key) {
					return bufferStartsWithKey(sl.X, key, seen, depth+1)
				}
			}
		}
		return bufferStartsWithKey(base, key, seen, depth+1)
	case *ssa.MakeSlice:
		// make([]byte, len(key), n) followed by copy(buf, key)
		call, ok := x.Len.(*ssa.Call)
		if !ok {
			return false
		}
		if b2, ok := call.Call.Value.(*ssa.Builtin); !ok || b2.Name() != "len" || call.Call.Args[0] != ssa.Value(key) {
			return false
		}
		for _, r := range *x.Referrers() {
			if cp, ok := r.(*ssa.Call); ok {
				if b3, ok := cp.Call.Value.(*ssa.Builtin); ok && b3.Name() == "copy" && cp.Call.Args[0] == ssa.Value(x) {
					src := cp.Call.Args[1]
					if cv, ok := src.(*ssa.Convert); ok {
						src = cv.X
					}
					if src == ssa.Value(key) {
						return true
					}
				}
			}
		}
		return false
	}
	return false
}

// isEmptyBytes: a byte slice of length zero (nil, make(_, 0, n), x[:0]).
func isEmptyBytes(v ssa.Value) bool {
	switch x := v.(type) {
	case *ssa.Const:
		return x.Value == nil
	case *ssa.MakeSlice:
		n, ok := ssax.ConstInt(x.Len)
		return ok && n == 0
	case *ssa.Slice:
		if x.Low == nil && x.High != nil {
			n, ok := ssax.ConstInt(x.High)
			return ok && n == 0
		}
	case *ssa.Convert:
		if s, ok := ssax.ConstString(x.X); ok {
			return s == ""
		}
	}
	return false
}

// condBinOp: the comparison a branch condition stands for: the condition itself,
// its negation, or the result of a module predicate helper that returns such a
// comparison (seen in the helper's own terms). neg reports an odd number of
// negations on the way.
func condBinOp(v ssa.Value, depth int) (bo *ssa.BinOp, neg bool, ok bool) {
	if depth > 3 {
		return nil, false, false
	}
	switch x := v.(type) {
	case *ssa.BinOp:
		return x, false, true
	case *ssa.UnOp:
		if x.Op == token.NOT {
			b, n, ok := condBinOp(x.X, depth+1)
			return b, !n, ok
		}
	case *ssa.Call:
		g := x.Call.StaticCallee()
		if g == nil || !ssax.InModule(g) || len(g.Blocks) == 0 {
			return nil, false, false
		}
		var ret *ssa.Return
		for _, b := range g.Blocks {
			if r, ok := b.Instrs[len(b.Instrs)-1].(*ssa.Return); ok {
				if ret != nil {
					return nil, false, false
				}
				ret = r
			}
		}
		if ret == nil || len(ret.Results) != 1 {
			return nil, false, false
		}
		return condBinOp(ret.Results[0], depth+1)
	}
	return nil, false, false
}

// indexedOnlyByParams: the captured variable name of the literal is only ever read as
// table[p] with p one of the literal's own parameters, and never written.
func indexedOnlyByParams(lit *ssa.Function, name string) bool {
	var fv *ssa.FreeVar
	for _, v := range lit.FreeVars {
		if v.Name() == name {
			fv = v
		}
	}
	if fv == nil {
		return false
	}
	isParam := func(v ssa.Value) bool {
		_, ok := peelToParam(v).(*ssa.Parameter)
		return ok
	}
	var okUses func(v ssa.Value, depth int) bool
	okUses = func(v ssa.Value, depth int) bool {
		if depth > 3 || v.Referrers() == nil {
			return false
		}
		for _, r := range *v.Referrers() {
			switch x := r.(type) {
			case *ssa.UnOp:
				if x.Op != token.MUL {
					return false
				}
				if _, isSlice := x.Type().Underlying().(*types.Slice); isSlice {
					if !okUses(x, depth+1) {
						return false
					}
				}
				// a load of an element: a read
			case *ssa.IndexAddr:
				if !isParam(x.Index) {
					return false
				}
				for _, rr := range *x.Referrers() {
					if u, ok := rr.(*ssa.UnOp); !ok || u.Op != token.MUL {
						return false
					}
				}
			case *ssa.Index:
				if !isParam(x.Index) {
					return false
				}
			case *ssa.DebugRef:
			default:
				return false
			}
		}
		return true
	}
	return okUses(fv, 0)
}

// phaseTable: f calls a function value taken from the rows of a slice literal that holds the
// bound methods named by want, inside a loop over the whole literal. bad describes a way to a
// success exit that leaves the loop other than by exhausting the table.
func phaseTable(w *load.World, f *ssa.Function, want ...string) (site ssa.Instruction, bad string, ok bool) {
	for _, b := range f.Blocks {
		for _, in := range b.Instrs {
			call, isCall := in.(*ssa.Call)
			if !isCall || call.Call.IsInvoke() || call.Call.StaticCallee() != nil {
				continue
			}
			// walk back from the callee value to the table it is read from
			var lit *ssa.Alloc
			var sl *ssa.Slice
			v := call.Call.Value
			for i := 0; i < 10 && v != nil && lit == nil; i++ {
				switch x := v.(type) {
				case *ssa.UnOp:
					v = x.X
				case *ssa.Alloc:
					v = ssax.SingleStore(x)
				case *ssa.FieldAddr:
					v = x.X
				case *ssa.Field:
					v = x.X
				case *ssa.IndexAddr:
					v = x.X
				case *ssa.Slice:
					sl = x
					if al, isAl := x.X.(*ssa.Alloc); isAl {
						lit = al
					}
					v = nil
				default:
					v = nil
				}
			}
			if lit == nil || sl == nil || sl.Low != nil || sl.High != nil {
				continue
			}
			// the bound methods stored in the rows
			have := map[string]bool{}
			var walk func(addr ssa.Value, depth int)
			walk = func(addr ssa.Value, depth int) {
				if depth > 3 || addr.Referrers() == nil {
					return
				}
				for _, r := range *addr.Referrers() {
					switch x := r.(type) {
					case *ssa.IndexAddr:
						walk(x, depth+1)
					case *ssa.FieldAddr:
						walk(x, depth+1)
					case *ssa.Store:
						if x.Addr != addr {
							continue
						}
						if mc, isMC := x.Val.(*ssa.MakeClosure); isMC {
							have[strings.TrimSuffix(mc.Fn.Name(), "$bound")] = true
						}
						if fn, isFn := x.Val.(*ssa.Function); isFn {
							have[fn.Name()] = true
						}
						// a row built in a temporary and copied in whole
						if ld, isLd := x.Val.(*ssa.UnOp); isLd && ld.Op == token.MUL {
							if tmp, isAl := ld.X.(*ssa.Alloc); isAl {
								walk(tmp, depth+1)
							}
						}
					}
				}
			}
			walk(lit, 0)
			all := true
			for _, n := range want {
				if !have[n] {
					all = false
				}
			}
			if !all {
				continue
			}
			// the loop around the call: blocks on a cycle with it
			inLoopSet := map[*ssa.BasicBlock]bool{}
			for _, bb := range f.Blocks {
				if bb == b || (ssax.Reaches(b, bb) && ssax.Reaches(bb, b)) {
					inLoopSet[bb] = true
				}
			}
			if len(inLoopSet) < 2 {
				return call, "the phase table is not run through by a loop", true
			}
			succ := map[*ssa.BasicBlock]bool{}
			for _, ex := range successExits(f) {
				succ[ex.In.Block()] = true
			}
			reachesSuccess := func(from *ssa.BasicBlock) bool {
				for sb := range succ {
					if from == sb || ssax.Reaches(from, sb) {
						return true
					}
				}
				return false
			}
			for bb := range inLoopSet {
				for i, sc := range bb.Succs {
					if inLoopSet[sc] {
						continue
					}
					// the exhaustion test "index < len(table)"
					exhausted := false
					if ifi, isIf := bb.Instrs[len(bb.Instrs)-1].(*ssa.If); isIf && i == 1 {
						if bo, isBo := ifi.Cond.(*ssa.BinOp); isBo && bo.Op == token.LSS {
							if lc, isLen := bo.Y.(*ssa.Call); isLen {
								if bi, isBi := lc.Call.Value.(*ssa.Builtin); isBi && bi.Name() == "len" && lc.Call.Args[0] == ssa.Value(sl) {
									exhausted = true
								}
							}
						}
					}
					if !exhausted && reachesSuccess(sc) {
						return call, "Sync can report success after leaving the loop over its phases early (" + w.Position(sc.Instrs[0].Pos()) + "): a phase is skipped", true
					}
				}
			}
			return call, "", true
		}
	}
	return nil, "", false
}

// shardLockReleasedBetween: an explicit release of a loadedShard lock lies on a path from the
// block from to the instruction use.
func shardLockReleasedBetween(f *ssa.Function, test, from *ssa.BasicBlock, use ssa.Instruction) bool {
	// reachability that does not go through the test again (a loop that locks, tests, uses and
	// unlocks once per iteration is fine)
	reaches := func(a, b *ssa.BasicBlock) bool {
		seen := map[*ssa.BasicBlock]bool{test: true}
		var dfs func(x *ssa.BasicBlock) bool
		dfs = func(x *ssa.BasicBlock) bool {
			if x == b {
				return true
			}
			if seen[x] {
				return false
			}
			seen[x] = true
			for _, sc := range x.Succs {
				if dfs(sc) {
					return true
				}
			}
			return false
		}
		if a == b {
			return false
		}
		for _, sc := range a.Succs {
			if dfs(sc) {
				return true
			}
		}
		return false
	}
	for _, b := range f.Blocks {
		for _, in := range b.Instrs {
			call, ok := in.(*ssa.Call)
			if !ok {
				continue
			}
			g := call.Call.StaticCallee()
			if g == nil || (g.Name() != "Unlock" && g.Name() != "RUnlock") || len(call.Call.Args) == 0 {
				continue
			}
			fa, ok := call.Call.Args[0].(*ssa.FieldAddr)
			if !ok || fieldOf(fa) != "cluster.loadedShard.mu" {
				continue
			}
			after := b == from || (from != test && reaches(from, b))
			if !after {
				continue
			}
			if b == use.Block() {
				if ssax.Precedes(call, use) {
					return true
				}
				continue
			}
			if b != test && reaches(b, use.Block()) {
				return true
			}
		}
	}
	return false
}

// shardClosedEvents: the events in fn after which the shard of the registry entry at hand is
// closed: its pointer was cleared, or seen to be nil, or there is no entry; a call of a helper
// of the package all of whose returns are behind such an event counts as one.
func shardClosedEvents(fn *ssa.Function, depth int) *wcEvents {
	ev := &wcEvents{}
	for _, bb := range fn.Blocks {
		for _, ii := range bb.Instrs {
			switch x := ii.(type) {
			case *ssa.Store:
				if !ssax.IsNilConst(x.Val) {
					continue
				}
				if fa, ok := x.Addr.(*ssa.FieldAddr); ok && fieldOf(fa) == "cluster.loadedShard.shard" {
					ev.instrs = append(ev.instrs, x)
				}
			case *ssa.Call:
				g := x.Call.StaticCallee()
				if g == nil || depth > 1 || !ssax.InModule(g) || load.PkgPath(g) != load.PkgPath(fn) || len(g.Blocks) == 0 || g == fn {
					continue
				}
				gev := shardClosedEvents(g, depth+1)
				if gev.empty() {
					continue
				}
				all, n := true, 0
				for _, gb := range g.Blocks {
					if r, isRet := gb.Instrs[len(gb.Instrs)-1].(*ssa.Return); isRet {
						n++
						if !gev.covered(g, wcPos{pred: gb, succ: -1, at: r}) {
							all = false
						}
					}
				}
				if all && n > 0 {
					ev.instrs = append(ev.instrs, x)
				}
			}
		}
		ifi, ok := bb.Instrs[len(bb.Instrs)-1].(*ssa.If)
		if !ok {
			continue
		}
		cond, neg := ifi.Cond, false
		if u, ok := cond.(*ssa.UnOp); ok && u.Op == token.NOT {
			cond, neg = u.X, true
		}
		// the shard pointer is nil
		if bo, ok := cond.(*ssa.BinOp); ok && (bo.Op == token.EQL || bo.Op == token.NEQ) && (ssax.IsNilConst(bo.X) || ssax.IsNilConst(bo.Y)) {
			other := bo.X
			if ssax.IsNilConst(bo.X) {
				other = bo.Y
			}
			if ld, ok := other.(*ssa.UnOp); ok && ld.Op == token.MUL {
				if fa, ok := ld.X.(*ssa.FieldAddr); ok && fieldOf(fa) == "cluster.loadedShard.shard" {
					s := 0
					if (bo.Op == token.NEQ) != neg {
						s = 1
					}
					ev.edges = append(ev.edges, ssax.Edge{From: bb, Succ: s})
				}
			}
			// the registry has no entry (a nil entry holds no shard either)
			if lk, ok := other.(*ssa.Lookup); ok && !lk.CommaOk {
				if isShardRegistry(lk.X) {
					s := 0
					if (bo.Op == token.NEQ) != neg {
						s = 1
					}
					ev.edges = append(ev.edges, ssax.Edge{From: bb, Succ: s})
				}
			}
		}
		// no entry under the directory
		if ex, ok := cond.(*ssa.Extract); ok && ex.Index == 1 {
			if lk, ok := ex.Tuple.(*ssa.Lookup); ok {
				if isShardRegistry(lk.X) {
					s := 1
					if neg {
						s = 0
					}
					ev.edges = append(ev.edges, ssax.Edge{From: bb, Succ: s})
				}
			}
		}
	}
	return ev
}

// shardClosedAt: the position is behind a closed-event in fn, or fn is a helper and
// every call of it is.
func shardClosedAt(w *load.World, fn *ssa.Function, p wcPos, depth int) bool {
	if shardClosedEvents(fn, 0).covered(fn, p) {
		return true
	}
	if depth > 1 {
		return false
	}
	sites := staticCallSites(w, fn)
	if len(sites) == 0 {
		return false
	}
	for _, site := range sites {
		// only a synchronous call carries the caller's knowledge over (not go, not defer)
		in, ok := site.(*ssa.Call)
		if !ok || !shardClosedAt(w, site.Parent(), wcPos{pred: site.Block(), succ: -1, at: in}, depth+1) {
			return false
		}
	}
	return true
}

// hashKeyOf: v is RendezvousHash(key, ...)[0] (directly, or through a helper of the package
// that returns that for one of its parameters): the key.
func hashKeyOf(v ssa.Value, depth int) ssa.Value {
	if depth > 3 {
		return nil
	}
	switch x := v.(type) {
	case *ssa.UnOp:
		if x.Op == token.MUL {
			if ia, ok := x.X.(*ssa.IndexAddr); ok {
				return hashKeyOf(ia.X, depth+1)
			}
			if al, ok := x.X.(*ssa.Alloc); ok {
				if sv := ssax.SingleStore(al); sv != nil {
					return hashKeyOf(sv, depth+1)
				}
			}
		}
	case *ssa.Index:
		return hashKeyOf(x.X, depth+1)
	case *ssa.Call:
		g := x.Call.StaticCallee()
		if g == nil {
			return nil
		}
		if load.FnKey(g) == "cluster.RendezvousHash" {
			return x.Call.Args[0]
		}
		if !ssax.InModule(g) {
			return nil
		}
		// a helper: every return is the hash of one and the same parameter
		var pidx = -1
		for _, b := range g.Blocks {
			r, ok := b.Instrs[len(b.Instrs)-1].(*ssa.Return)
			if !ok || len(r.Results) == 0 {
				continue
			}
			k := hashKeyOf(r.Results[0], depth+1)
			if k == nil {
				return nil
			}
			p, ok := peelToParam(k).(*ssa.Parameter)
			if !ok {
				return nil
			}
			for i, q := range g.Params {
				if q == p {
					if pidx >= 0 && pidx != i {
						return nil
					}
					pidx = i
				}
			}
		}
		if pidx >= 0 && pidx < len(x.Call.Args) {
			return x.Call.Args[pidx]
		}
	}
	return nil
}

func describeVal(v ssa.Value) string {
	if p, _ := ssax.Path(v); p != "" {
		return p
	}
	return v.Name()
}

// ------------------------------------------------------------- REPLYFLAGS
//
// An RPC handler that reports an outcome through a boolean field of its reply
// (the request "succeeded" as a call, error == nil) relies on every caller to
// look at that field: a caller that only tests the error takes "collection not
// found" or "quota reached" for success and goes on with an empty answer.
// For every bool field of a reply type that some handler sets to true, every
// direct call of that handler elsewhere in the package reads the field from the
// reply it passed.
func ReplyFlags(w *load.World, c *core.Collector) {
	props := []string{"C15", "C17"}
	type flag struct {
		handler *ssa.Function
		st      *types.Struct
		field   int
	}
	var flags []flag
	for _, f := range clusterFns(w) {
		if !strings.HasPrefix(f.Name(), "RPC") || len(f.Params) != 3 {
			continue
		}
		reply := f.Params[2]
		rst := ssax.StructOf(reply.Type())
		if rst == nil {
			continue
		}
		seen := map[int]bool{}
		var visit func(g *ssa.Function, depth int)
		visit = func(g *ssa.Function, depth int) {
			for _, b := range g.Blocks {
				for _, in := range b.Instrs {
					st, ok := in.(*ssa.Store)
					if !ok {
						continue
					}
					fa, ok := st.Addr.(*ssa.FieldAddr)
					if !ok || ssax.StructOf(fa.X.Type()) != rst {
						continue
					}
					if cb, isC := ssax.ConstBool(st.Val); isC && cb {
						seen[fa.Field] = true
					}
				}
			}
			for _, lit := range g.AnonFuncs {
				if depth < 3 {
					visit(lit, depth+1)
				}
			}
		}
		visit(f, 0)
		for i := range seen {
			flags = append(flags, flag{f, rst, i})
		}
	}
	sort.Slice(flags, func(i, j int) bool {
		if flags[i].handler.Name() != flags[j].handler.Name() {
			return flags[i].handler.Name() < flags[j].handler.Name()
		}
		return flags[i].field < flags[j].field
	})
	c.Count("reply_flags", len(flags))
	if len(flags) < 3 {
		c.Add("REPLYFLAGS", "anchor", core.Undecided, "", fmt.Sprintf("found %d reply flags set by RPC handlers, expected at least 3", len(flags)), props...)
	}
	for _, fl := range flags {
		name := fl.st.Field(fl.field).Name()
		key := "read:" + fl.handler.Name() + "." + name
		bad := ""
		sites := 0
		for _, site := range staticCallSites(w, fl.handler) {
			call, ok := site.(*ssa.Call)
			if !ok || site.Parent() == fl.handler || len(call.Call.Args) < 3 {
				continue
			}
			sites++
			// the reply variable handed in
			read := false
			var scan func(addr ssa.Value, depth int)
			scan = func(addr ssa.Value, depth int) {
				if addr.Referrers() == nil || depth > 2 {
					return
				}
				for _, r := range *addr.Referrers() {
					switch x := r.(type) {
					case *ssa.FieldAddr:
						if x.Field != fl.field || ssax.StructOf(x.X.Type()) != fl.st {
							continue
						}
						for _, rr := range *x.Referrers() {
							if ld, ok := rr.(*ssa.UnOp); ok && ld.Op == token.MUL && (ld.Block() == call.Block() && ssax.Precedes(call, ld) || ssax.Reaches(call.Block(), ld.Block())) {
								read = true
							}
						}
					case *ssa.UnOp:
						// the whole reply is copied out (returned, stored): its reader is elsewhere
						if x.Op == token.MUL && (x.Block() == call.Block() && ssax.Precedes(call, x) || ssax.Reaches(call.Block(), x.Block())) {
							if _, isStruct := x.Type().Underlying().(*types.Struct); isStruct {
								read = true
							}
						}
					case *ssa.Field:
						if x.Field == fl.field {
							read = true
						}
					}
				}
			}
			scan(call.Call.Args[2], 0)
			if !read {
				bad = w.At(call)
			}
		}
		switch {
		case bad != "":
			c.Add("REPLYFLAGS", key, core.Violation, bad, fmt.Sprintf("%s reports an outcome by setting %s in its reply and returning nil, but this caller never reads %s: it takes the outcome for success and goes on with an empty reply", fl.handler.Name(), name, name), props...)
		default:
			c.Add("REPLYFLAGS", key, core.OK, w.Position(fl.handler.Pos()), fmt.Sprintf("%d call sites", sites), props...)
		}
	}
}

// ------------------------------------------------------------------ TXRMW
//
// A record that is read, changed and written back must be read in the write
// transaction that stores it: the node database admits one writer at a time,
// so a read-modify-write inside one Write callback is atomic, while a value
// decoded in one transaction and stored from another overwrites whatever a
// concurrent request stored in between (two shard creations for one
// collection: one shard id is lost, its points become unreachable).
// For every function that runs several storage callbacks: no Put in one
// callback stores a value computed from a variable that another callback
// decoded a record into.
func TxRMW(w *load.World, c *core.Collector) {
	updateFromStored(w, c)
	props := []string{"C17", "C15"}
	byParent := map[*ssa.Function][]txCallback{}
	for _, cb := range txCallbacks(w) {
		if !strings.HasSuffix(load.PkgPath(cb.Fn), "/cluster") || cb.Fn.Parent() == nil {
			continue
		}
		byParent[cb.Fn.Parent()] = append(byParent[cb.Fn.Parent()], cb)
	}
	bindingOf := func(lit *ssa.Function, fv *ssa.FreeVar) ssa.Value {
		idx := -1
		for i, x := range lit.FreeVars {
			if x == fv {
				idx = i
			}
		}
		p := lit.Parent()
		if idx < 0 || p == nil {
			return nil
		}
		for _, b := range p.Blocks {
			for _, in := range b.Instrs {
				if mc, ok := in.(*ssa.MakeClosure); ok && mc.Fn == lit && idx < len(mc.Bindings) {
					return mc.Bindings[idx]
				}
			}
		}
		return nil
	}
	n := 0
	var parents []*ssa.Function
	for p := range byParent {
		parents = append(parents, p)
	}
	sort.Slice(parents, func(i, j int) bool { return load.FnKey(parents[i]) < load.FnKey(parents[j]) })
	for _, p := range parents {
		cbs := byParent[p]
		hasWrite := false
		for _, cb := range cbs {
			if cb.Write {
				hasWrite = true
			}
		}
		if !hasWrite {
			continue
		}
		n++
		key := "same-transaction:" + load.FnKey(p)
		// cells decoded per callback
		decoded := map[ssa.Value]*ssa.Function{}
		for _, cb := range cbs {
			for _, b := range cb.Fn.Blocks {
				for _, in := range b.Instrs {
					call, ok := in.(*ssa.Call)
					if !ok || call.Call.StaticCallee() == nil || !strings.Contains(call.Call.StaticCallee().Name(), "Unmarshal") || len(call.Call.Args) < 2 {
						continue
					}
					dst := call.Call.Args[1]
					if mi, ok := dst.(*ssa.MakeInterface); ok {
						dst = mi.X
					}
					if fv, ok := dst.(*ssa.FreeVar); ok {
						if bnd := bindingOf(cb.Fn, fv); bnd != nil {
							decoded[bnd] = cb.Fn
						}
					}
				}
			}
		}
		bad := ""
		for _, cb := range cbs {
			if !cb.Write {
				continue
			}
			for _, b := range cb.Fn.Blocks {
				for _, in := range b.Instrs {
					call, ok := in.(*ssa.Call)
					if !ok || !call.Call.IsInvoke() || call.Call.Method.Name() != "Put" || len(call.Call.Args) < 2 {
						continue
					}
					seen := map[ssa.Value]bool{}
					var flows func(v ssa.Value, lit *ssa.Function, depth int) *ssa.Function
					flows = func(v ssa.Value, lit *ssa.Function, depth int) *ssa.Function {
						if v == nil || seen[v] || depth > 12 {
							return nil
						}
						seen[v] = true
						if from, ok := decoded[v]; ok && from != cb.Fn {
							return from
						}
						switch x := v.(type) {
						case *ssa.FreeVar:
							if lit != nil {
								if bnd := bindingOf(lit, x); bnd != nil {
									return flows(bnd, lit.Parent(), depth+1)
								}
							}
							return nil
						case *ssa.Alloc:
							// what is stored into the variable
							for _, r := range *x.Referrers() {
								if st, ok := r.(*ssa.Store); ok && st.Addr == ssa.Value(x) {
									if f := flows(st.Val, lit, depth+1); f != nil {
										return f
									}
								}
							}
							return nil
						}
						if in, ok := v.(ssa.Instruction); ok {
							for _, op := range in.Operands(nil) {
								if *op == nil {
									continue
								}
								if f := flows(*op, lit, depth+1); f != nil {
									return f
								}
							}
						}
						return nil
					}
					if from := flows(call.Call.Args[1], cb.Fn, 0); from != nil {
						bad = fmt.Sprintf("%s: the value stored here is computed from a record that was decoded in another transaction (%s): a concurrent change of the record between the two transactions is overwritten", w.At(call), w.Position(from.Pos()))
					}
				}
			}
		}
		if bad != "" {
			c.Add("TXRMW", key, core.Violation, w.Position(p.Pos()), bad, props...)
		} else {
			c.Add("TXRMW", key, core.OK, w.Position(p.Pos()), "", props...)
		}
	}
	c.Count("functions_with_node_db_writes", n)
	if n < 3 {
		c.Add("TXRMW", "anchor", core.Undecided, "", fmt.Sprintf("found %d cluster functions that run a write transaction on the node database, expected at least 3", n), props...)
	}
}

// callerArg: v is a parameter of a function with exactly one static call site: the argument there.
func callerArg(w *load.World, v ssa.Value) ssa.Value {
	p, ok := peelToParam(v).(*ssa.Parameter)
	if !ok {
		return nil
	}
	fn := p.Parent()
	idx := -1
	for i, q := range fn.Params {
		if q == p {
			idx = i
		}
	}
	sites := staticCallSites(w, fn)
	if idx < 0 || len(sites) != 1 || idx >= len(sites[0].Common().Args) {
		return nil
	}
	return sites[0].Common().Args[idx]
}

// fileHashCoversFile: the checksum that decides whether a transferred shard file may be deleted
// at the sender is the hash of the whole file: FileHash either hands the file to io.Copy, or, if
// it reads blocks itself, every block read is written to the hasher before the function can
// return successfully — the only reads that may be dropped are those that returned nothing
// (n == 0, or io.EOF from ReadFull/ReadAtLeast, which means no byte was read).
func fileHashCoversFile(w *load.World, c *core.Collector) {
	props := []string{"C14"}
	f := findFn(w, "cluster.FileHash")
	if f == nil {
		c.Add("TRANSFER", "anchor:FileHash", core.Undecided, "", "cluster.FileHash not found", props...)
		return
	}
	isHasher := func(v ssa.Value) bool {
		t := v.Type().String()
		return strings.Contains(t, "xxhash") || strings.Contains(t, "hash.Hash") || strings.Contains(t, "io.Writer")
	}
	// the reading may live in a helper that is given the opened file
	f = homeOf(f, func(g *ssa.Function) bool {
		for _, b := range g.Blocks {
			for _, in := range b.Instrs {
				if call, ok := in.(*ssa.Call); ok {
					if call.Call.IsInvoke() && call.Call.Method.Name() == "Read" {
						return true
					}
					if h := call.Call.StaticCallee(); h != nil {
						switch h.String() {
						case "io.Copy", "io.CopyBuffer", "io.ReadFull", "io.ReadAtLeast", "(*os.File).Read", "(*bufio.Reader).Read":
							return true
						}
					}
				}
			}
		}
		return false
	})
	var reads []*ssa.Call
	var writes []ssa.Instruction
	copies := 0
	for _, b := range f.Blocks {
		for _, in := range b.Instrs {
			call, ok := in.(*ssa.Call)
			if !ok {
				continue
			}
			name := ""
			if call.Call.IsInvoke() {
				name = call.Call.Method.Name()
				if (name == "Write" || name == "WriteString") && isHasher(call.Call.Value) {
					writes = append(writes, call)
				}
				if name == "Read" {
					reads = append(reads, call)
				}
				continue
			}
			g := call.Call.StaticCallee()
			if g == nil {
				continue
			}
			switch g.String() {
			case "io.Copy", "io.CopyBuffer", "io.CopyN":
				if g.String() != "io.CopyN" && len(call.Call.Args) > 0 && isHasher(call.Call.Args[0]) {
					copies++
				}
			case "io.ReadFull", "io.ReadAtLeast", "(*os.File).Read", "(*bufio.Reader).Read", "(*os.File).ReadAt":
				reads = append(reads, call)
			}
			if (g.Name() == "Write" || g.Name() == "WriteString") && len(call.Call.Args) > 0 && isHasher(call.Call.Args[0]) {
				writes = append(writes, call)
			}
		}
	}
	switch {
	case copies > 0 && len(reads) == 0:
		c.Add("TRANSFER", "filehash-whole-file", core.OK, w.Position(f.Pos()), "io.Copy into the hasher", props...)
		return
	case len(reads) == 0:
		c.Add("TRANSFER", "filehash-whole-file", core.Undecided, w.Position(f.Pos()), "FileHash neither copies the file into a hasher nor reads it in a way the rule knows", props...)
		return
	}
	bad := ""
	for _, rd := range reads {
		full := false
		if g := rd.Call.StaticCallee(); g != nil && (g.String() == "io.ReadFull" || g.String() == "io.ReadAtLeast") {
			full = true
		}
		// edges on which this read returned no byte
		var banned []ssax.Edge
		for _, b := range f.Blocks {
			ifi, ok := b.Instrs[len(b.Instrs)-1].(*ssa.If)
			if !ok {
				continue
			}
			bo, neg, ok := condBinOp(ifi.Cond, 0)
			if !ok {
				continue
			}
			fromRead := func(v ssa.Value, idx int) bool {
				ex, ok := v.(*ssa.Extract)
				return ok && ex.Tuple == ssa.Value(rd) && ex.Index == idx
			}
			isEOF := func(v ssa.Value) bool {
				ld, ok := v.(*ssa.UnOp)
				if !ok {
					return false
				}
				g, ok := ld.X.(*ssa.Global)
				return ok && g.Name() == "EOF" && g.Pkg.Pkg.Path() == "io"
			}
			// the successor on which the read is known to have returned nothing
			s := -1
			if z, isC := ssax.ConstInt(bo.Y); isC && fromRead(bo.X, 0) {
				switch {
				case bo.Op == token.EQL && z == 0, bo.Op == token.LEQ && z == 0, bo.Op == token.LSS && z == 1:
					s = 0
				case bo.Op == token.NEQ && z == 0, bo.Op == token.GTR && z == 0, bo.Op == token.GEQ && z == 1:
					s = 1
				}
			}
			if full && (bo.Op == token.EQL || bo.Op == token.NEQ) && ((fromRead(bo.X, 1) && isEOF(bo.Y)) || (fromRead(bo.Y, 1) && isEOF(bo.X))) {
				s = 0
				if bo.Op == token.NEQ {
					s = 1
				}
			}
			if s < 0 {
				continue
			}
			if neg {
				s = 1 - s
			}
			banned = append(banned, ssax.Edge{From: b, Succ: s})
		}
		// writes are barriers
		wblocks := map[*ssa.BasicBlock]ssa.Instruction{}
		for _, wr := range writes {
			wblocks[wr.Block()] = wr
		}
		isBanned := func(b *ssa.BasicBlock, i int) bool {
			for _, e := range banned {
				if e.From == b && e.Succ == i {
					return true
				}
			}
			return false
		}
		for _, ex := range successExits(f) {
			seen := map[*ssa.BasicBlock]bool{}
			var dfs func(x *ssa.BasicBlock, first bool) bool
			dfs = func(x *ssa.BasicBlock, first bool) bool {
				if wr, isW := wblocks[x]; isW && !(first && ssax.Precedes(wr, rd)) {
					return false
				}
				if x == ex.In.Block() && !first {
					return true
				}
				if seen[x] {
					return false
				}
				seen[x] = true
				for i, s := range x.Succs {
					if isBanned(x, i) {
						continue
					}
					if dfs(s, false) {
						return true
					}
				}
				return false
			}
			if dfs(rd.Block(), true) {
				bad = w.At(rd)
			}
		}
	}
	if bad != "" {
		c.Add("TRANSFER", "filehash-whole-file", core.Violation, bad, "bytes read from the file here can be left out of the checksum (a successful return is reachable without writing them to the hasher, on a path where the read did return data): files that differ in those bytes compare equal and the sender deletes its copy", props...)
	} else {
		c.Add("TRANSFER", "filehash-whole-file", core.OK, w.Position(f.Pos()), "", props...)
	}
}

type leafKind int

const (
	leafUnknown leafKind = iota
	leafHash
	leafOther
)

// destLeaf classifies what a destination value can be: RendezvousHash(...)[0] on every path
// (leafHash), definitely something else on some path — a constant, the node's own host name
// (leafOther) — or not resolvable (leafUnknown, left to the provenance clause).
func destLeaf(w *load.World, v ssa.Value, depth int) leafKind {
	if depth > 5 {
		return leafUnknown
	}
	join := func(ks []leafKind) leafKind {
		out := leafHash
		for _, k := range ks {
			switch k {
			case leafOther:
				return leafOther
			case leafUnknown:
				out = leafUnknown
			}
		}
		if len(ks) == 0 {
			return leafUnknown
		}
		return out
	}
	switch x := v.(type) {
	case *ssa.Const:
		return leafOther
	case *ssa.UnOp:
		if x.Op != token.MUL {
			return leafUnknown
		}
		switch a := x.X.(type) {
		case *ssa.IndexAddr:
			if call, ok := a.X.(*ssa.Call); ok && call.Call.StaticCallee() != nil && load.FnKey(call.Call.StaticCallee()) == "cluster.RendezvousHash" {
				return leafHash
			}
			return leafUnknown
		case *ssa.FieldAddr:
			if fieldOf(a) == "cluster.ClusterNode.MyHostname" {
				return leafOther
			}
			return leafUnknown
		case *ssa.Alloc:
			if sv := ssax.SingleStore(a); sv != nil {
				return destLeaf(w, sv, depth+1)
			}
			var ks []leafKind
			for _, r := range *a.Referrers() {
				if st, ok := r.(*ssa.Store); ok && st.Addr == ssa.Value(a) {
					ks = append(ks, destLeaf(w, st.Val, depth+1))
				}
			}
			return join(ks)
		}
		return leafUnknown
	case *ssa.Index:
		if call, ok := x.X.(*ssa.Call); ok && call.Call.StaticCallee() != nil && load.FnKey(call.Call.StaticCallee()) == "cluster.RendezvousHash" {
			return leafHash
		}
		return leafUnknown
	case *ssa.Phi:
		var ks []leafKind
		for _, e := range x.Edges {
			ks = append(ks, destLeaf(w, e, depth+1))
		}
		return join(ks)
	case *ssa.Call:
		g := x.Call.StaticCallee()
		if g == nil || !ssax.InModule(g) || len(g.Blocks) == 0 {
			return leafUnknown
		}
		var ks []leafKind
		for _, b := range g.Blocks {
			if r, ok := b.Instrs[len(b.Instrs)-1].(*ssa.Return); ok && len(r.Results) == 1 {
				ks = append(ks, destLeaf(w, ssax.ReturnOperand(r, 0), depth+1))
			}
		}
		return join(ks)
	case *ssa.Parameter:
		if av := callerArg(w, x); av != nil {
			return destLeaf(w, av, depth+1)
		}
	}
	return leafUnknown
}

// serversAsConfigured: the value is the Servers field of the configuration, possibly cloned —
// never the result of an append, a filter or a sort that can change its members.
func serversAsConfigured(v ssa.Value, depth int) bool {
	if depth > 5 {
		return false
	}
	switch x := v.(type) {
	case *ssa.UnOp:
		if x.Op != token.MUL {
			return false
		}
		if fa, ok := x.X.(*ssa.FieldAddr); ok {
			st := ssax.StructOf(fa.X.Type())
			return st != nil && st.Field(fa.Field).Name() == "Servers"
		}
		if al, ok := x.X.(*ssa.Alloc); ok {
			okAll, n := true, 0
			for _, r := range *al.Referrers() {
				if st, ok := r.(*ssa.Store); ok && st.Addr == ssa.Value(al) {
					n++
					if !serversAsConfigured(st.Val, depth+1) {
						okAll = false
					}
				}
			}
			return okAll && n > 0
		}
	case *ssa.Field:
		st := ssax.StructOf(x.X.Type())
		return st != nil && st.Field(x.Field).Name() == "Servers"
	case *ssa.Phi:
		for _, e := range x.Edges {
			if !serversAsConfigured(e, depth+1) {
				return false
			}
		}
		return len(x.Edges) > 0
	case *ssa.Call:
		if g := x.Call.StaticCallee(); g != nil && (strings.HasPrefix(g.String(), "slices.Clone") || strings.HasPrefix(g.String(), "slices.Clip")) && len(x.Call.Args) == 1 {
			return serversAsConfigured(x.Call.Args[0], depth+1)
		}
		return false
	case *ssa.Slice:
		if x.Low == nil && x.High == nil {
			return serversAsConfigured(x.X, depth+1)
		}
	}
	return false
}

// errResultValue: the error value a call returns (the call itself, or its last extracted result).
func errResultValue(call *ssa.Call) ssa.Value {
	res := call.Call.Signature().Results()
	if res.Len() == 0 || !isErrorType(res.At(res.Len()-1).Type()) {
		return nil
	}
	if res.Len() == 1 {
		return call
	}
	for _, r := range *call.Referrers() {
		if ex, ok := r.(*ssa.Extract); ok && ex.Index == res.Len()-1 {
			return ex
		}
	}
	return nil
}

// shardConfined: the shard handed to a DoWithShard callback is good for the duration of the
// callback only (the manager holds the per-shard read lock around it; afterwards the idle unload
// or a collection deletion may close the shard and remove its files). The callback uses the
// pointer; it does not keep it: it is not stored into a variable of the enclosing function, a
// field, a global, a channel, nor returned or captured by a goroutine.
func shardConfined(w *load.World, c *core.Collector) {
	props := []string{"C12"}
	dws := findFn(w, "(*cluster.ShardManager).DoWithShard")
	if dws == nil {
		c.Add("LIFECYCLE", "anchor:DoWithShard", core.Undecided, "", "ShardManager.DoWithShard not found", props...)
		return
	}
	n := 0
	seenCb := map[*ssa.Function]bool{}
	for _, site := range staticCallSites(w, dws) {
		args := site.Common().Args
		if len(args) == 0 {
			continue
		}
		for _, cb := range funcValuesOf(w, args[len(args)-1], 0) {
			if seenCb[cb] || len(cb.Params) == 0 {
				continue
			}
			seenCb[cb] = true
			n++
			var p ssa.Value = cb.Params[len(cb.Params)-1]
			if !strings.HasSuffix(p.Type().String(), "shard.Shard") {
				continue
			}
			bad := ""
			var badAt ssa.Instruction
			seen := map[ssa.Value]bool{}
			var follow func(v ssa.Value, d int)
			follow = func(v ssa.Value, d int) {
				if d > 5 || seen[v] || v.Referrers() == nil {
					return
				}
				seen[v] = true
				for _, r := range *v.Referrers() {
					switch x := r.(type) {
					case *ssa.Store:
						if x.Val != v {
							continue
						}
						if al, ok := x.Addr.(*ssa.Alloc); ok && !al.Heap {
							// a local copy: its loads are the same pointer
							for _, rr := range *al.Referrers() {
								if ld, ok := rr.(*ssa.UnOp); ok && ld.Op == token.MUL {
									follow(ld, d+1)
								}
							}
							continue
						}
						bad, badAt = "is stored where it outlives the callback", x
					case *ssa.Return:
						bad, badAt = "is returned", x
					case *ssa.Send:
						if x.X == v {
							bad, badAt = "is sent on a channel", x
						}
					case *ssa.MakeClosure:
						// captured: only harmful when the literal outlives the callback (go, or stored); a
						// literal that is called in place is part of the callback
						fn := x.Fn.(*ssa.Function)
						for _, rr := range *x.Referrers() {
							if _, isGo := rr.(*ssa.Go); isGo {
								bad, badAt = "is captured by a goroutine", rr
							}
							if st, isSt := rr.(*ssa.Store); isSt && st.Val == ssa.Value(x) {
								if al, ok := st.Addr.(*ssa.Alloc); !ok || al.Heap {
									bad, badAt = "is captured by a function value that is stored", rr
								}
							}
						}
						_ = fn
					case *ssa.MakeInterface:
						follow(x, d+1)
					case *ssa.Phi:
						follow(x, d+1)
					case *ssa.ChangeType:
						follow(x, d+1)
					}
				}
			}
			follow(p, 0)
			key := "shard-confined:" + load.FnKey(cb)
			if bad != "" {
				c.Add("LIFECYCLE", key, core.Violation, w.At(badAt), "the shard pointer a DoWithShard callback was given "+bad+": it is used after the manager's per-shard lock is released, when the idle unload or a deletion may already have closed the shard (the caller gets \"database not open\" instead of a result or the manager's clean refusal)", props...)
			} else {
				c.Add("LIFECYCLE", key, core.OK, w.Position(cb.Pos()), "", props...)
			}
		}
	}
	if n < 4 {
		c.Add("LIFECYCLE", "anchor:shard-callbacks", core.Undecided, "", fmt.Sprintf("found %d DoWithShard callbacks, expected at least 4", n), props...)
	}
}

// updateFromStored: a write transaction of the cluster package that replaces a record which is
// there (a Put whose key was looked up with Get in the same callback, and which is not confined to
// the "Get returned nil" edge) writes the stored record, changed: the value put is the encoding
// of a cell that was decoded from what Get returned. A handler that writes back the caller's copy
// of the record instead loses every change made to the stored one since the caller read it
// (shard ids added by a concurrent insert disappear from the collection, with the points in them).
func updateFromStored(w *load.World, c *core.Collector) {
	props := []string{"C15", "C17"}
	n := 0
	isBucketCall := func(call *ssa.Call, name string) bool {
		cc := call.Common()
		if cc.IsInvoke() {
			return cc.Method.Name() == name && strings.Contains(cc.Value.Type().String(), "diskstore.")
		}
		return false
	}
	for _, cb := range txCallbacks(w) {
		if !cb.Write || !strings.HasSuffix(load.PkgPath(cb.Fn), "/cluster") {
			continue
		}
		f := cb.Fn
		var gets, puts []*ssa.Call
		for _, b := range f.Blocks {
			for _, in := range b.Instrs {
				if call, ok := in.(*ssa.Call); ok {
					if isBucketCall(call, "Get") && len(call.Call.Args) == 1 && !strings.Contains(call.Call.Value.Type().String(), "BucketManager") {
						gets = append(gets, call)
					}
					if isBucketCall(call, "Put") && len(call.Call.Args) == 2 {
						puts = append(puts, call)
					}
				}
			}
		}
		// a helper of the package that reads and decodes the record under a key it is given stands for
		// the Get and the Unmarshal: its first result is the stored record, decoded
		helperGets := map[*ssa.Call]ssa.Value{} // call -> the key argument
		helperDst := map[*ssa.Call]*ssa.Alloc{} // call -> the cell it decodes into, when that is how it hands the record back
		for _, b := range f.Blocks {
			for _, in := range b.Instrs {
				call, ok := in.(*ssa.Call)
				if !ok {
					continue
				}
				h := call.Call.StaticCallee()
				if h == nil || !ssax.InModule(h) || len(h.Blocks) == 0 || load.PkgPath(h) != load.PkgPath(f) {
					continue
				}
				if ki, di := decodingReader2(h, isBucketCall); ki >= 0 && ki < len(call.Call.Args) {
					helperGets[call] = call.Call.Args[ki]
					if di >= 0 && di < len(call.Call.Args) {
						dst := call.Call.Args[di]
						if mi, ok := dst.(*ssa.MakeInterface); ok {
							dst = mi.X
						}
						if al, ok := dst.(*ssa.Alloc); ok {
							helperDst[call] = al
						}
					}
				}
			}
		}
		for _, put := range puts {
			kp, _ := ssax.Path(put.Call.Args[0])
			var hget *ssa.Call
			for hc, hk := range helperGets {
				hp, _ := ssax.Path(hk)
				if hk == put.Call.Args[0] || (hp != "" && hp == kp) || sameConcat(hk, put.Call.Args[0]) {
					hget = hc
				}
			}
			if hget != nil {
				n++
				key := "update-from-stored:" + load.FnKey(f)
				okFlow := false
				val := put.Call.Args[1]
				if ex, ok := val.(*ssa.Extract); ok {
					val = ex.Tuple
				}
				if mcall, ok := val.(*ssa.Call); ok && mcall.Call.StaticCallee() != nil && strings.Contains(mcall.Call.StaticCallee().Name(), "Marshal") && len(mcall.Call.Args) > 0 {
					src := mcall.Call.Args[0]
					for i := 0; i < 3; i++ {
						switch x := src.(type) {
						case *ssa.MakeInterface:
							src = x.X
						case *ssa.UnOp:
							src = x.X
						}
					}
					fromHelper := func(v ssa.Value) bool {
						ex, ok := v.(*ssa.Extract)
						return ok && ex.Index == 0 && ex.Tuple == ssa.Value(hget)
					}
					if cell, ok := src.(*ssa.Alloc); ok && helperDst[hget] == cell {
						// decoded in place by the helper: nothing else may assign the whole record
						okFlow = true
						for _, r := range *cell.Referrers() {
							if st, ok := r.(*ssa.Store); ok && st.Addr == ssa.Value(cell) {
								if _, isZero := st.Val.(*ssa.Const); !isZero {
									okFlow = false
								}
							}
						}
					} else if cell, ok := src.(*ssa.Alloc); ok {
						nStores, good := 0, true
						for _, r := range *cell.Referrers() {
							if st, ok := r.(*ssa.Store); ok && st.Addr == ssa.Value(cell) {
								nStores++
								if !fromHelper(st.Val) {
									good = false
								}
							}
						}
						okFlow = nStores > 0 && good
					} else if fromHelper(src) {
						okFlow = true
					}
				}
				if okFlow {
					c.Add("TXRMW", key, core.OK, w.At(put), "", props...)
				} else {
					c.Add("TXRMW", key, core.Violation, w.At(put), "a record that exists is replaced by a value that is not the stored record decoded and changed (the caller's copy, or a fresh value): what other requests added to the stored record since the caller read it is lost — shard ids created by a concurrent or an earlier create in the same insert vanish from the collection", props...)
				}
				continue
			}
			var get *ssa.Call
			for _, g := range gets {
				gp, _ := ssax.Path(g.Call.Args[0])
				if g.Call.Args[0] == put.Call.Args[0] || (gp != "" && gp == kp) || sameConcat(g.Call.Args[0], put.Call.Args[0]) {
					get = g
				}
			}
			if get == nil {
				continue
			}
			// creation: the Put runs only where Get returned nil
			var nilEdges []ssax.Edge
			for _, b := range f.Blocks {
				ifi, ok := b.Instrs[len(b.Instrs)-1].(*ssa.If)
				if !ok {
					continue
				}
				bo, ok := ifi.Cond.(*ssa.BinOp)
				if !ok || (bo.Op != token.EQL && bo.Op != token.NEQ) {
					continue
				}
				if (bo.X == ssa.Value(get) && ssax.IsNilConst(bo.Y)) || (bo.Y == ssa.Value(get) && ssax.IsNilConst(bo.X)) {
					s := 0
					if bo.Op == token.NEQ {
						s = 1
					}
					nilEdges = append(nilEdges, ssax.Edge{From: b, Succ: s})
				}
			}
			if len(nilEdges) > 0 && onlyViaAny(nilEdges, put.Block()) {
				continue
			}
			n++
			key := "update-from-stored:" + load.FnKey(f)
			// the value: Marshal(cell) with cell decoded from the Get
			okFlow := false
			val := put.Call.Args[1]
			if ex, ok := val.(*ssa.Extract); ok {
				val = ex.Tuple
			}
			if mcall, ok := val.(*ssa.Call); ok && mcall.Call.StaticCallee() != nil && strings.Contains(mcall.Call.StaticCallee().Name(), "Marshal") && len(mcall.Call.Args) > 0 {
				src := mcall.Call.Args[0]
				for i := 0; i < 3; i++ {
					switch x := src.(type) {
					case *ssa.MakeInterface:
						src = x.X
					case *ssa.UnOp:
						src = x.X
					}
				}
				if cell, ok := src.(*ssa.Alloc); ok {
					decodedFromGet, overwritten := false, false
					for _, r := range *cell.Referrers() {
						switch x := r.(type) {
						case *ssa.MakeInterface:
							for _, rr := range *x.Referrers() {
								if uc, ok := rr.(*ssa.Call); ok && uc.Call.StaticCallee() != nil && strings.Contains(uc.Call.StaticCallee().Name(), "Unmarshal") && len(uc.Call.Args) >= 2 && uc.Call.Args[1] == ssa.Value(x) {
									if uc.Call.Args[0] == ssa.Value(get) {
										decodedFromGet = true
									}
								}
							}
						case *ssa.Store:
							// a whole-record assignment from elsewhere replaces what was decoded
							if x.Addr == ssa.Value(cell) {
								if _, isZero := x.Val.(*ssa.Const); !isZero {
									overwritten = true
								}
							}
						}
					}
					okFlow = decodedFromGet && !overwritten
				}
			} else if val == ssa.Value(get) {
				okFlow = true
			}
			if okFlow {
				c.Add("TXRMW", key, core.OK, w.At(put), "", props...)
			} else {
				c.Add("TXRMW", key, core.Violation, w.At(put), "a record that exists is replaced by a value that is not the stored record decoded and changed (the caller's copy, or a fresh value): what other requests added to the stored record since the caller read it is lost — shard ids created by a concurrent or an earlier create in the same insert vanish from the collection", props...)
			}
		}
	}
	if n < 1 {
		c.Add("TXRMW", "anchor:record-updates", core.Undecided, "", "no write transaction that replaces an existing record was found in the cluster package", props...)
	}
}

// sameConcat: both keys are built from the same operands
func sameConcat(a, b ssa.Value) bool {
	oa, ob := concatOperands(a), concatOperands(b)
	if len(oa) < 2 || len(oa) != len(ob) {
		return false
	}
	for i := range oa {
		pa, _ := ssax.Path(oa[i])
		pb, _ := ssax.Path(ob[i])
		ca, oka := ssax.ConstString(oa[i])
		cb, okb := ssax.ConstString(ob[i])
		if oka && okb && ca == cb {
			continue
		}
		if oa[i] != ob[i] && (pa == "" || pa != pb) {
			return false
		}
	}
	return true
}

// decodingReader: h reads the record under one of its parameters with the bucket's Get, decodes
// it into a cell and returns that cell as its first result on every successful return: the index
// of the key parameter, or -1.
func decodingReader(h *ssa.Function, isBucketCall func(*ssa.Call, string) bool) int {
	ki, _ := decodingReader2(h, isBucketCall)
	return ki
}

// decodingReader2: like decodingReader, and also the form that decodes into a destination the
// caller passes (then di is the index of that parameter and nothing need be returned).
func decodingReader2(h *ssa.Function, isBucketCall func(*ssa.Call, string) bool) (ki, di int) {
	di = -1
	var get *ssa.Call
	for _, b := range h.Blocks {
		for _, in := range b.Instrs {
			if call, ok := in.(*ssa.Call); ok && isBucketCall(call, "Get") && len(call.Call.Args) == 1 {
				get = call
			}
		}
	}
	if get == nil {
		return -1, -1
	}
	ki = -1
	for i, p := range h.Params {
		if get.Call.Args[0] == ssa.Value(p) {
			ki = i
		}
	}
	if ki < 0 {
		return -1, -1
	}
	for _, b := range h.Blocks {
		for _, in := range b.Instrs {
			uc, ok := in.(*ssa.Call)
			if !ok || uc.Call.StaticCallee() == nil || !strings.Contains(uc.Call.StaticCallee().Name(), "Unmarshal") || len(uc.Call.Args) < 2 || uc.Call.Args[0] != ssa.Value(get) {
				continue
			}
			dst := uc.Call.Args[1]
			if mi, ok := dst.(*ssa.MakeInterface); ok {
				dst = mi.X
			}
			for i, p := range h.Params {
				if dst == ssa.Value(p) {
					di = i
				}
			}
		}
	}
	if di >= 0 {
		return ki, di
	}
	return decodingReader1(h, isBucketCall), -1
}

func decodingReader1(h *ssa.Function, isBucketCall func(*ssa.Call, string) bool) int {
	var get *ssa.Call
	for _, b := range h.Blocks {
		for _, in := range b.Instrs {
			if call, ok := in.(*ssa.Call); ok && isBucketCall(call, "Get") && len(call.Call.Args) == 1 {
				get = call
			}
		}
	}
	if get == nil {
		return -1
	}
	ki := -1
	for i, p := range h.Params {
		if get.Call.Args[0] == ssa.Value(p) {
			ki = i
		}
	}
	if ki < 0 {
		return -1
	}
	// the cell decoded from the Get
	var cell *ssa.Alloc
	for _, b := range h.Blocks {
		for _, in := range b.Instrs {
			uc, ok := in.(*ssa.Call)
			if !ok || uc.Call.StaticCallee() == nil || !strings.Contains(uc.Call.StaticCallee().Name(), "Unmarshal") || len(uc.Call.Args) < 2 || uc.Call.Args[0] != ssa.Value(get) {
				continue
			}
			dst := uc.Call.Args[1]
			if mi, ok := dst.(*ssa.MakeInterface); ok {
				dst = mi.X
			}
			cell, _ = dst.(*ssa.Alloc)
		}
	}
	if cell == nil {
		return -1
	}
	for _, b := range h.Blocks {
		ret, ok := b.Instrs[len(b.Instrs)-1].(*ssa.Return)
		if !ok || len(ret.Results) < 2 {
			continue
		}
		if nonNilError(ret.Results[len(ret.Results)-1], b) {
			continue
		}
		ld, ok := ret.Results[0].(*ssa.UnOp)
		if !ok || ld.X != ssa.Value(cell) {
			return -1
		}
	}
	return ki
}

// unregistersShard: h deletes from the shard registry on every path to a return, except paths on
// which a comma-ok lookup in the registry said there is no entry.
func unregistersShard(h *ssa.Function) bool {
	var delBlock *ssa.BasicBlock
	var noEntry []ssax.Edge
	for _, b := range h.Blocks {
		for _, in := range b.Instrs {
			if call, ok := in.(*ssa.Call); ok {
				if bi, ok := call.Call.Value.(*ssa.Builtin); ok && bi.Name() == "delete" {
					if isShardRegistry(call.Call.Args[0]) {
						delBlock = b
					}
				}
			}
		}
		if ifi, ok := b.Instrs[len(b.Instrs)-1].(*ssa.If); ok {
			cond, neg := ifi.Cond, false
			if u, ok := cond.(*ssa.UnOp); ok && u.Op == token.NOT {
				cond, neg = u.X, true
			}
			if ex, ok := cond.(*ssa.Extract); ok && ex.Index == 1 {
				if lk, ok := ex.Tuple.(*ssa.Lookup); ok {
					if isShardRegistry(lk.X) {
						s := 1
						if neg {
							s = 0
						}
						noEntry = append(noEntry, ssax.Edge{From: b, Succ: s})
					}
				}
			}
		}
	}
	if delBlock == nil {
		return false
	}
	for _, b := range h.Blocks {
		if _, ok := b.Instrs[len(b.Instrs)-1].(*ssa.Return); !ok || b == delBlock {
			continue
		}
		// reachable from the entry without the delete?
		seen := map[*ssa.BasicBlock]bool{delBlock: true}
		var dfs func(x *ssa.BasicBlock) bool
		dfs = func(x *ssa.BasicBlock) bool {
			if x == b {
				return true
			}
			if seen[x] {
				return false
			}
			seen[x] = true
			for _, s := range x.Succs {
				if dfs(s) {
					return true
				}
			}
			return false
		}
		if dfs(h.Blocks[0]) && !onlyViaAny(noEntry, b) {
			return false
		}
	}
	return true
}

// quotaVerdictGuards: lit calls a helper that returns an integer verdict; the helper returns the
// value(s) it returns on its under-quota edge nowhere else (errors aside), and put runs only where
// the verdict is such a value (tested for equality with it, or after every other verdict the
// helper can return has been excluded).
func quotaVerdictGuards(w *load.World, lit *ssa.Function, put *ssa.Call) bool {
	for _, b := range lit.Blocks {
		for _, in := range b.Instrs {
			call, ok := in.(*ssa.Call)
			if !ok {
				continue
			}
			h := call.Call.StaticCallee()
			if h == nil || !ssax.InModule(h) || len(h.Blocks) == 0 || h.Signature.Results().Len() < 1 {
				continue
			}
			if bt, ok := h.Signature.Results().At(0).Type().Underlying().(*types.Basic); !ok || bt.Info()&types.IsInteger == 0 {
				continue
			}
			// under-quota edges inside the helper
			var under []ssax.Edge
			for _, hb := range h.Blocks {
				ifi, ok := hb.Instrs[len(hb.Instrs)-1].(*ssa.If)
				if !ok {
					continue
				}
				bo, ok := ifi.Cond.(*ssa.BinOp)
				if !ok {
					continue
				}
				xm, ym := deepHas(w, bo.X, "field:MaxCollections"), deepHas(w, bo.Y, "field:MaxCollections")
				if !xm && !ym {
					continue
				}
				switch bo.Op {
				case token.GEQ, token.GTR:
					if ym {
						under = append(under, ssax.Edge{From: hb, Succ: 1})
					} else {
						under = append(under, ssax.Edge{From: hb, Succ: 0})
					}
				case token.LSS, token.LEQ:
					if ym {
						under = append(under, ssax.Edge{From: hb, Succ: 0})
					} else {
						under = append(under, ssax.Edge{From: hb, Succ: 1})
					}
				}
			}
			if len(under) == 0 {
				continue
			}
			admit, refuse := map[int64]bool{}, map[int64]bool{}
			okShape := true
			for _, hb := range h.Blocks {
				ret, ok := hb.Instrs[len(hb.Instrs)-1].(*ssa.Return)
				if !ok {
					continue
				}
				if n := len(ret.Results); n >= 2 && nonNilError(ret.Results[n-1], hb) {
					continue
				}
				k, isC := ssax.ConstInt(ret.Results[0])
				if !isC {
					okShape = false
					continue
				}
				if onlyViaAny(under, hb) {
					admit[k] = true
				} else {
					refuse[k] = true
				}
			}
			for k := range admit {
				if refuse[k] {
					okShape = false
				}
			}
			if !okShape || len(admit) == 0 {
				continue
			}
			var verdict ssa.Value = call
			if _, isTuple := call.Type().(*types.Tuple); isTuple {
				for _, r := range *call.Referrers() {
					if ex, ok := r.(*ssa.Extract); ok && ex.Index == 0 {
						verdict = ex
					}
				}
			}
			// tests of the verdict in lit
			var admitEdges []ssax.Edge
			excluded := map[int64][]ssax.Edge{}
			for _, lb := range lit.Blocks {
				ifi, ok := lb.Instrs[len(lb.Instrs)-1].(*ssa.If)
				if !ok {
					continue
				}
				bo, ok := ifi.Cond.(*ssa.BinOp)
				if !ok || (bo.Op != token.EQL && bo.Op != token.NEQ) {
					continue
				}
				var k int64
				var isC bool
				switch {
				case bo.X == verdict:
					k, isC = ssax.ConstInt(bo.Y)
				case bo.Y == verdict:
					k, isC = ssax.ConstInt(bo.X)
				}
				if !isC {
					continue
				}
				eq, ne := 0, 1
				if bo.Op == token.NEQ {
					eq, ne = 1, 0
				}
				if admit[k] {
					admitEdges = append(admitEdges, ssax.Edge{From: lb, Succ: eq})
				}
				if refuse[k] {
					excluded[k] = append(excluded[k], ssax.Edge{From: lb, Succ: ne})
				}
			}
			if len(admitEdges) > 0 && onlyViaAny(admitEdges, put.Block()) {
				return true
			}
			all := len(refuse) > 0
			for k := range refuse {
				if len(excluded[k]) == 0 || !onlyViaAny(excluded[k], put.Block()) {
					all = false
				}
			}
			if all {
				return true
			}
		}
	}
	return false
}

// isShardRegistry: the value is the shard manager's table of loaded shards, recognised by its
// type (a map from the shard directory to *loadedShard), whatever the field is called and
// wherever in the manager it sits.
func isShardRegistry(v ssa.Value) bool {
	t := v.Type()
	if p, ok := t.Underlying().(*types.Pointer); ok {
		t = p.Elem()
	}
	m, ok := t.Underlying().(*types.Map)
	if !ok {
		return false
	}
	return strings.HasSuffix(ssax.TypeName(m.Elem()), "loadedShard")
}

// shardRegistryRow: the struct field that holds the registry and the mutex field next to it, as
// "pkg.Type.field" names; empty when not found.
// destGuard: the branch of fn that compares the request's destination with this node's name, and
// the successor taken when they differ.
func destGuard(fn *ssa.Function) (*ssa.BasicBlock, int) {
	for _, b := range fn.Blocks {
		ifi, ok := b.Instrs[len(b.Instrs)-1].(*ssa.If)
		if !ok {
			continue
		}
		bo, neg, ok := condBinOp(ifi.Cond, 0)
		if !ok || (bo.Op != token.NEQ && bo.Op != token.EQL) {
			continue
		}
		ox, oy := ssax.Prov(bo.X), ssax.Prov(bo.Y)
		isDest := func(o ssax.Origins) bool {
			if o["field:Dest"] {
				return true
			}
			for k := range o {
				if strings.HasSuffix(k, ".Destination") || strings.HasSuffix(k, "Destination") {
					return true
				}
			}
			return false
		}
		if (isDest(ox) && oy["field:MyHostname"]) || (isDest(oy) && ox["field:MyHostname"]) {
			remote := 0
			if (bo.Op == token.EQL) != neg {
				remote = 1
			}
			return b, remote
		}
	}
	return nil, 0
}

// routeThroughHelper: the handler m hands its own name, arguments and reply to a helper that
// forwards them when the destination is another node and says whether it did; the handler returns
// on "forwarded" and acts locally only otherwise. The problems found, where, and whether the
// form was recognised at all.
func routeThroughHelper(w *load.World, m *ssa.Function) (probs []string, at string, ok bool) {
	for _, b := range m.Blocks {
		for _, in := range b.Instrs {
			call, isCall := in.(*ssa.Call)
			if !isCall {
				continue
			}
			h := call.Call.StaticCallee()
			if h == nil || load.PkgPath(h) != clusterPkg || len(h.Blocks) == 0 || h.Signature.Results().Len() != 2 {
				continue
			}
			var route *ssa.Call
			for _, hb := range h.Blocks {
				for _, hi := range hb.Instrs {
					if rc, isRc := hi.(*ssa.Call); isRc {
						if g := rc.Call.StaticCallee(); g != nil && g.Name() == "internalRoute" {
							route = rc
						}
					}
				}
			}
			if route == nil {
				continue
			}
			at = w.At(in)
			ok = true
			// inside the helper
			gb, remote := destGuard(h)
			if gb == nil || !ssax.OnlyViaEdge(gb, remote, route.Block()) {
				probs = append(probs, "forwarding (in "+h.Name()+") is not guarded by Dest != MyHostname")
				return
			}
			pidx := func(v ssa.Value) int {
				for i, q := range h.Params {
					if v == ssa.Value(q) || ssax.Prov(v)["param:"+q.Name()] {
						return i
					}
				}
				return -1
			}
			ni, ai, ri := pidx(route.Call.Args[1]), pidx(route.Call.Args[2]), pidx(route.Call.Args[3])
			if ni < 0 || ai < 0 || ri < 0 {
				probs = append(probs, h.Name()+" does not forward what it was handed")
				return
			}
			for _, hb := range h.Blocks {
				r, isRet := hb.Instrs[len(hb.Instrs)-1].(*ssa.Return)
				if !isRet || hb == h.Recover || len(r.Results) != 2 {
					continue
				}
				fv, isC := ssax.ConstBool(ssax.ReturnOperand(r, 0))
				switch {
				case !isC:
					probs = append(probs, h.Name()+" does not say plainly whether it forwarded")
				case fv && !ssax.OnlyViaEdge(gb, remote, hb):
					probs = append(probs, h.Name()+" can say it forwarded for a request addressed to this node")
				case !fv && !ssax.OnlyViaEdge(gb, 1-remote, hb):
					probs = append(probs, h.Name()+" can say it did not forward for a request addressed to another node")
				}
			}
			// at the call
			if name, _ := ssax.ConstString(call.Call.Args[ni]); name != "ClusterNode."+m.Name() {
				probs = append(probs, fmt.Sprintf("forwards to %q instead of itself", name))
			}
			if !ssax.Prov(call.Call.Args[ai])["param:"+m.Params[1].Name()] || !ssax.Prov(call.Call.Args[ri])["param:"+m.Params[2].Name()] {
				probs = append(probs, "does not forward its own arguments and reply")
			}
			// the branch on "forwarded"
			var fb *ssa.BasicBlock
			fwdEdge := 0
			for _, tb := range m.Blocks {
				ifi, isIf := tb.Instrs[len(tb.Instrs)-1].(*ssa.If)
				if !isIf {
					continue
				}
				cond, e := ifi.Cond, 0
				if un, isNot := cond.(*ssa.UnOp); isNot && un.Op == token.NOT {
					cond, e = un.X, 1
				}
				if ex, isEx := cond.(*ssa.Extract); isEx && ex.Tuple == ssa.Value(call) && ex.Index == 0 {
					fb, fwdEdge = tb, e
				}
			}
			if fb == nil {
				probs = append(probs, "the handler does not branch on whether the request was forwarded")
				return
			}
			for _, lb := range m.Blocks {
				for _, li := range lb.Instrs {
					lc, isLc := li.(*ssa.Call)
					if !isLc {
						continue
					}
					local := false
					if lc.Call.IsInvoke() && ssax.TypeName(lc.Call.Value.Type()) == "diskstore.DiskStore" {
						local = true
					}
					if g := lc.Call.StaticCallee(); g != nil && (strings.Contains(g.String(), "ShardManager)") || strings.HasPrefix(g.String(), "os.")) {
						local = true
					}
					if local && !ssax.OnlyViaEdge(fb, 1-fwdEdge, lb) {
						probs = append(probs, "local effect at "+w.At(li)+" is not confined to the destination server")
					}
				}
			}
			return
		}
	}
	return nil, "", false
}

func anyLeafOther(w *load.World, vs []ssa.Value) bool {
	for _, v := range vs {
		if destLeaf(w, v, 0) == leafOther {
			return true
		}
	}
	return false
}

func shardRegistryRow(w *load.World) (field, lock string) {
	pkg := w.ByPath[clusterPkg]
	if pkg == nil {
		return "", ""
	}
	sc := pkg.Types.Scope()
	for _, n := range sc.Names() {
		tn, ok := sc.Lookup(n).(*types.TypeName)
		if !ok {
			continue
		}
		st, ok := tn.Type().Underlying().(*types.Struct)
		if !ok {
			continue
		}
		fi, li := -1, -1
		for i := 0; i < st.NumFields(); i++ {
			ft := st.Field(i).Type()
			if m, ok := ft.Underlying().(*types.Map); ok && strings.HasSuffix(ssax.TypeName(m.Elem()), "loadedShard") {
				fi = i
			}
			if s := ft.String(); s == "sync.Mutex" || s == "sync.RWMutex" {
				li = i
			}
		}
		if fi >= 0 && li >= 0 {
			return "cluster." + n + "." + st.Field(fi).Name(), "cluster." + n + "." + st.Field(li).Name()
		}
	}
	return "", ""
}

// mergeHome: the function that orders and cuts the merged results of SearchPoints — the method
// itself, or a helper it hands the concatenated results to. argOf maps a parameter of the helper
// to the argument at the (single) call site.
func mergeHome(f *ssa.Function) (*ssa.Function, func(ssa.Value) ssa.Value) {
	hasSort := func(g *ssa.Function) bool {
		for _, b := range g.Blocks {
			for _, in := range b.Instrs {
				call, ok := in.(*ssa.Call)
				if !ok || len(call.Call.Args) == 0 || !isSearchResultSlice(call.Call.Args[0].Type()) {
					continue
				}
				if g := call.Call.StaticCallee(); g != nil && strings.Contains(g.Name(), "Sort") {
					return true
				}
			}
		}
		return false
	}
	ident := func(v ssa.Value) ssa.Value { return v }
	if hasSort(f) {
		return f, ident
	}
	for _, b := range f.Blocks {
		for _, in := range b.Instrs {
			call, ok := in.(*ssa.Call)
			if !ok {
				continue
			}
			h := ssax.StaticModuleCallee(in)
			if h == nil || len(h.Blocks) == 0 || !hasSort(h) {
				continue
			}
			takes := false
			for _, a := range call.Call.Args {
				if isSearchResultSlice(a.Type()) {
					takes = true
				}
			}
			if !takes {
				continue
			}
			return h, func(v ssa.Value) ssa.Value {
				if p, ok := v.(*ssa.Parameter); ok && p.Parent() == h {
					for i, q := range h.Params {
						if q == p && i < len(call.Call.Args) {
							return call.Call.Args[i]
						}
					}
				}
				return v
			}
		}
	}
	return f, ident
}
