package rules

import (
	"fmt"
	"go/token"
	"sort"
	"strings"

	"golang.org/x/tools/go/ssa"

	"semaverif/internal/core"
	"semaverif/internal/load"
	"semaverif/internal/ssax"
)

// ----------------------------------------------------------------- COVERAGE
//
// "Equals its definition on every vector length" (C20) needs, for the kernels
// written in Go (bit metrics, pure-Go float kernels used off amd64), that every
// index below len(x) is read exactly once from both operands and none beyond.
// The rule proves that by affine reasoning over the loops of the function,
// without running it:
//
//	loop     header phi P (init v0, step s), body reads x[P+k] for k in K, body entered only when
//	         len - P >= g (from the guard, normalised over <, <=, >, >= and i+c forms)
//	tiles    K is a contiguous run of s offsets, the same for both operands       (no gap, no overlap)
//	bounds   g >= max(K)+1                                                        (no read past the end)
//	start    v0 + min(K) is the first index not read so far
//	exit     when the guard fails at most g-1-min(K) elements remain; if that is 0 the loop is
//	         complete, otherwise the tail — a further loop, or a switch on the number of remaining
//	         elements — must read exactly the remaining offsets on the path taken for every such number
//
// A function outside this vocabulary (index not affine in a loop counter, guard
// not a comparison with the length) is reported as undecided.

type lin struct {
	phi *ssa.Phi // at most one loop counter, coefficient 1
	n   int      // coefficient of len(x): 0 or 1 (or -1)
	c   int64
	ok  bool
	neg bool // the loop counter enters with coefficient -1 (len - P + c)
}

type covAnalysis struct {
	f      *ssa.Function
	x, y   *ssa.Parameter
	lenVal map[ssa.Value]bool // values equal to len(x) (len(y) is taken as the same length)
}

func (a *covAnalysis) isLen(v ssa.Value) bool {
	if a.lenVal[v] {
		return true
	}
	if call, ok := v.(*ssa.Call); ok {
		if bi, ok := call.Call.Value.(*ssa.Builtin); ok && bi.Name() == "len" {
			if p, ok := call.Call.Args[0].(*ssa.Parameter); ok && (p == a.x || p == a.y) {
				return true
			}
		}
	}
	return false
}

func (a *covAnalysis) eval(v ssa.Value, depth int) lin {
	if depth > 8 {
		return lin{}
	}
	if c, ok := ssax.ConstInt(v); ok {
		return lin{c: c, ok: true}
	}
	if a.isLen(v) {
		return lin{n: 1, ok: true}
	}
	switch x := v.(type) {
	case *ssa.Phi:
		return lin{phi: x, ok: true}
	case *ssa.Convert:
		return a.eval(x.X, depth+1)
	case *ssa.BinOp:
		l, r := a.eval(x.X, depth+1), a.eval(x.Y, depth+1)
		if !l.ok || !r.ok {
			return lin{}
		}
		switch x.Op {
		case token.ADD:
			if l.phi != nil && r.phi != nil {
				return lin{}
			}
			p, ng := l.phi, l.neg
			if p == nil {
				p, ng = r.phi, r.neg
			}
			return lin{phi: p, n: l.n + r.n, c: l.c + r.c, ok: true, neg: ng}
		case token.SUB:
			if r.phi != nil && l.phi != nil {
				if r.phi == l.phi && r.neg == l.neg {
					return lin{n: l.n - r.n, c: l.c - r.c, ok: true}
				}
				return lin{}
			}
			if r.phi != nil {
				// len - P + c: the counter enters negatively
				return lin{phi: r.phi, n: l.n - r.n, c: l.c - r.c, ok: true, neg: !r.neg}
			}
			return lin{phi: l.phi, n: l.n - r.n, c: l.c - r.c, ok: true, neg: l.neg}
		}
	}
	return lin{}
}

type covLoop struct {
	phi      *ssa.Phi
	header   *ssa.BasicBlock
	init     ssa.Value
	step     int64
	g        int64 // body entered only when len - P >= g
	bodySucc int   // successor index of the guard block that enters the body
	guardBlk *ssa.BasicBlock
}

// remainingAtLeast normalises a guard comparison to "len - P >= g holds on edge succ".
func (a *covAnalysis) remainingAtLeast(cond ssa.Value, phi *ssa.Phi) (g int64, succ int, ok bool) {
	bo, isB := cond.(*ssa.BinOp)
	if !isB {
		return 0, 0, false
	}
	l, r := a.eval(bo.X, 0), a.eval(bo.Y, 0)
	if !l.ok || !r.ok {
		return 0, 0, false
	}
	op := bo.Op
	mirror := map[token.Token]token.Token{token.LSS: token.GTR, token.GTR: token.LSS, token.LEQ: token.GEQ, token.GEQ: token.LEQ}
	// form (len - P + cl) op cr, or the mirror: "n-i >= 4"
	if r.neg && r.phi == phi && r.n == 1 && l.phi == nil && l.n == 0 {
		l, r = r, l
		op = mirror[op]
	}
	if l.neg && l.phi == phi && l.n == 1 && r.phi == nil && r.n == 0 {
		d := r.c - l.c
		switch op {
		case token.GEQ:
			return d, 0, true
		case token.GTR:
			return d + 1, 0, true
		case token.LSS:
			return d, 1, true
		case token.LEQ:
			return d + 1, 1, true
		}
		return 0, 0, false
	}
	if l.neg || r.neg {
		return 0, 0, false
	}
	// bring to  (P + cl) op (len + cr)   or the mirror
	if l.n == 1 && l.phi == nil && r.phi == phi && r.n == 0 {
		l, r = r, l
		op = map[token.Token]token.Token{token.LSS: token.GTR, token.GTR: token.LSS, token.LEQ: token.GEQ, token.GEQ: token.LEQ}[op]
	}
	if !(l.phi == phi && l.n == 0 && r.phi == nil && r.n == 1) {
		return 0, 0, false
	}
	// P + cl op len + cr   <=>   len - P  op'  cl - cr
	d := l.c - r.c
	switch op {
	case token.LSS: // P + d < len  <=> len - P > d  <=> len - P >= d+1
		return d + 1, 0, true
	case token.LEQ: // len - P >= d
		return d, 0, true
	case token.GTR: // P + d > len : true edge leaves; false edge: len - P >= d
		return d, 1, true
	case token.GEQ: // false edge: P + d < len
		return d + 1, 1, true
	}
	return 0, 0, false
}

func (a *covAnalysis) reads(blocks map[*ssa.BasicBlock]bool, phi *ssa.Phi) (kx, ky map[int64]int, bad string) {
	kx, ky = map[int64]int{}, map[int64]int{}
	for b := range blocks {
		for _, in := range b.Instrs {
			ia, ok := in.(*ssa.IndexAddr)
			if !ok {
				continue
			}
			p, isP := ia.X.(*ssa.Parameter)
			if !isP || (p != a.x && p != a.y) {
				continue
			}
			// only indexes that are actually loaded count
			loaded := false
			for _, r := range *ia.Referrers() {
				if u, ok := r.(*ssa.UnOp); ok && u.Op == token.MUL {
					loaded = true
				}
			}
			if !loaded {
				continue
			}
			l := a.eval(ia.Index, 0)
			if !l.ok || l.n != 0 || l.phi != phi || l.neg {
				return nil, nil, "an index of " + p.Name() + " is not the loop counter plus a constant"
			}
			if p == a.x {
				kx[l.c]++
			} else {
				ky[l.c]++
			}
		}
	}
	return kx, ky, ""
}

func contiguous(k map[int64]int) (min, max int64, ok bool) {
	if len(k) == 0 {
		return 0, -1, false
	}
	var ks []int64
	for v := range k {
		ks = append(ks, v)
	}
	sort.Slice(ks, func(i, j int) bool { return ks[i] < ks[j] })
	for i := 1; i < len(ks); i++ {
		if ks[i] != ks[i-1]+1 {
			return 0, 0, false
		}
	}
	return ks[0], ks[len(ks)-1], true
}

// loopBlocks: blocks of the natural loop with the given header.
func loopBlocks(header *ssa.BasicBlock) map[*ssa.BasicBlock]bool {
	out := map[*ssa.BasicBlock]bool{}
	for _, b := range header.Parent().Blocks {
		if header.Dominates(b) && ssax.Reaches(b, header) && b != header {
			// b is in the loop if it can get back to the header without leaving
			out[b] = true
		}
	}
	out[header] = true
	return out
}

// sliceCoverage proves that f reads x[i] and y[i] exactly for 0 <= i < len(x).
func sliceCoverage(f *ssa.Function) (bool, string) {
	if len(f.Params) < 2 {
		return false, "not a binary kernel"
	}
	ok, msg := sliceCoverageXY(f, f.Params[0], f.Params[1])
	if !ok && strings.Contains(msg, "no loop") {
		// the loop may live in a helper that receives both operands
		for _, b := range f.Blocks {
			for _, in := range b.Instrs {
				h := ssax.StaticModuleCallee(in)
				if h == nil || len(h.Blocks) == 0 {
					continue
				}
				var hx, hy *ssa.Parameter
				for i, a := range in.(ssa.CallInstruction).Common().Args {
					if i >= len(h.Params) {
						break
					}
					if a == ssa.Value(f.Params[0]) {
						hx = h.Params[i]
					}
					if a == ssa.Value(f.Params[1]) {
						hy = h.Params[i]
					}
				}
				if hx != nil && hy != nil {
					if ok2, msg2 := sliceCoverageXY(h, hx, hy); ok2 || !strings.Contains(msg2, "no loop") {
						return ok2, msg2
					}
				}
			}
		}
	}
	return ok, msg
}

func sliceCoverageXY(f *ssa.Function, px, py *ssa.Parameter) (bool, string) {
	a := &covAnalysis{f: f, x: px, y: py, lenVal: map[ssa.Value]bool{}}
	// loops in dominance order
	var loops []*covLoop
	for _, b := range f.Blocks {
		for _, in := range b.Instrs {
			phi, ok := in.(*ssa.Phi)
			if !ok || len(phi.Edges) != 2 {
				continue
			}
			// counter: one edge from outside, one edge P + s from inside
			for i := 0; i < 2; i++ {
				back := phi.Edges[i]
				l := a.eval(back, 0)
				if l.ok && !l.neg && l.phi == phi && l.n == 0 && l.c > 0 && b.Dominates(b.Preds[i]) {
					// is it used to index a parameter (directly or +k)?
					loops = append(loops, &covLoop{phi: phi, header: b, init: phi.Edges[1-i], step: l.c})
				}
			}
		}
	}
	// keep counters that index the operands
	var idxLoops []*covLoop
	for _, lp := range loops {
		kx, ky, bad := a.reads(loopBlocks(lp.header), lp.phi)
		if bad == "" && (len(kx) > 0 || len(ky) > 0) {
			idxLoops = append(idxLoops, lp)
		}
	}
	if len(idxLoops) == 0 {
		return false, "no loop whose counter indexes the operands"
	}
	sort.Slice(idxLoops, func(i, j int) bool { return idxLoops[i].header.Index < idxLoops[j].header.Index })
	next := int64(0)     // first index not read so far, as a constant (first loop) ...
	var carry *ssa.Phi   // ... or relative to the previous loop's counter at its exit
	carryOff := int64(0) // next unread index = carry + carryOff
	rmax := int64(-1)    // at most rmax elements remain (-1: unknown yet)
	for li, lp := range idxLoops {
		blocks := loopBlocks(lp.header)
		kx, ky, bad := a.reads(blocks, lp.phi)
		if bad != "" {
			return false, bad
		}
		minx, maxx, okx := contiguous(kx)
		miny, maxy, oky := contiguous(ky)
		if !okx || !oky || minx != miny || maxx != maxy {
			return false, fmt.Sprintf("loop %d reads offsets %v of x and %v of y: not the same contiguous run", li+1, keys64(kx), keys64(ky))
		}
		for k, n := range kx {
			if ky[k] != n {
				return false, fmt.Sprintf("loop %d reads offset %d of x %d time(s) and of y %d time(s): the operands are not paired", li+1, k, n, ky[k])
			}
		}
		if maxx-minx+1 != lp.step {
			return false, fmt.Sprintf("loop %d reads %d elements per iteration but its counter advances by %d", li+1, maxx-minx+1, lp.step)
		}
		// guard: the If in the loop whose one edge leaves the loop
		found := false
		for b := range blocks {
			ifi, ok := b.Instrs[len(b.Instrs)-1].(*ssa.If)
			if !ok {
				continue
			}
			in0, in1 := blocks[b.Succs[0]], blocks[b.Succs[1]]
			if in0 == in1 {
				continue
			}
			g, succ, ok := a.remainingAtLeast(ifi.Cond, lp.phi)
			if !ok {
				return false, fmt.Sprintf("the guard of loop %d is not a comparison of its counter with the length", li+1)
			}
			if (succ == 0) != in0 {
				return false, fmt.Sprintf("the guard of loop %d enters the body on the wrong edge", li+1)
			}
			lp.g, lp.bodySucc, lp.guardBlk = g, succ, b
			found = true
		}
		if !found {
			return false, fmt.Sprintf("loop %d has no exit guard", li+1)
		}
		// the guard is evaluated with the counter value P_guard; reads use P_body + k. In go/ssa's range
		// lowering the guard tests P+1 and the body reads P+1: both are expressed relative to phi, so
		// they compare directly.
		if lp.g < maxx+1 {
			return false, fmt.Sprintf("loop %d is entered when only %d elements are known to remain but reads offset %d: out of bounds", li+1, lp.g, maxx)
		}
		// start
		ini := a.eval(lp.init, 0)
		switch {
		case ini.ok && ini.phi == nil && ini.n == 0:
			if carry != nil {
				return false, fmt.Sprintf("loop %d restarts at a constant although earlier elements were already consumed", li+1)
			}
			if ini.c+minx != next {
				return false, fmt.Sprintf("loop %d starts reading at index %d, the first unread index is %d", li+1, ini.c+minx, next)
			}
		case ini.ok && ini.phi != nil && ini.n == 0 && carry != nil && ini.phi == carry:
			if ini.c+minx != carryOff {
				return false, fmt.Sprintf("loop %d continues at offset %d of the previous counter, the first unread one is %d", li+1, ini.c+minx, carryOff)
			}
		default:
			return false, fmt.Sprintf("loop %d does not start where the previous one stopped", li+1)
		}
		// exit: len - P <= g-1, first unread = P + minx, remaining = len - P - minx <= g-1-minx
		carry, carryOff = lp.phi, minx
		rmax = lp.g - 1 - minx
		if rmax < 0 {
			rmax = 0
		}
		_ = next
	}
	if rmax == 0 {
		return true, fmt.Sprintf("%d loop(s), complete", len(idxLoops))
	}
	// tail: a switch on the number of remaining elements after the last loop
	last := idxLoops[len(idxLoops)-1]
	exit := last.guardBlk.Succs[1-last.bodySucc]
	for r := int64(1); r <= rmax; r++ {
		got, msg := a.tailReads(exit, last.phi, carryOff, r)
		if msg != "" {
			return false, msg
		}
		want := map[int64]bool{}
		for k := int64(0); k < r; k++ {
			want[carryOff+k] = true
		}
		for _, side := range []string{"x", "y"} {
			g := got[side]
			if len(g) != len(want) {
				return false, fmt.Sprintf("when %d element(s) remain after the block loop the tail reads offsets %v of %s, expected %v: elements are skipped or read twice", r, keysB(g), side, keysB(want))
			}
			for k := range want {
				if !g[k] {
					return false, fmt.Sprintf("when %d element(s) remain after the block loop the tail reads offsets %v of %s, expected %v: elements are skipped or read twice", r, keysB(g), side, keysB(want))
				}
			}
		}
	}
	return true, fmt.Sprintf("%d loop(s) and a tail for up to %d remaining elements", len(idxLoops), rmax)
}

// tailReads walks from the loop exit deciding every branch on (len - P) ==/</> const for the given
// number of remaining elements, and collects the operand offsets read on that path.
func (a *covAnalysis) tailReads(from *ssa.BasicBlock, phi *ssa.Phi, off, remaining int64) (map[string]map[int64]bool, string) {
	out := map[string]map[int64]bool{"x": {}, "y": {}}
	// value of len - P on this path
	rem := remaining + off
	b := from
	var pred *ssa.BasicBlock
	for steps := 0; steps < 64; steps++ {
		for _, in := range b.Instrs {
			if ia, ok := in.(*ssa.IndexAddr); ok {
				p, isP := ia.X.(*ssa.Parameter)
				if !isP || (p != a.x && p != a.y) {
					continue
				}
				l := a.eval(ia.Index, 0)
				if !l.ok || l.neg || l.phi != phi || l.n != 0 {
					return nil, "an index in the tail is not the loop counter plus a constant"
				}
				side := "x"
				if p == a.y {
					side = "y"
				}
				if out[side][l.c] {
					return nil, fmt.Sprintf("the tail reads offset %d of %s twice", l.c, side)
				}
				out[side][l.c] = true
			}
		}
		switch last := b.Instrs[len(b.Instrs)-1].(type) {
		case *ssa.Return:
			return out, ""
		case *ssa.Jump:
			pred, b = b, b.Succs[0]
		case *ssa.If:
			bo, ok := last.Cond.(*ssa.BinOp)
			if !ok {
				return nil, "a branch in the tail is not a comparison of the remaining count"
			}
			// tag: len - P (+c) compared with a constant
			tag, cst := bo.X, bo.Y
			cv, isC := ssax.ConstInt(cst)
			if !isC {
				return nil, "a branch in the tail is not a comparison with a constant"
			}
			sub, ok := tag.(*ssa.BinOp)
			if !ok || sub.Op != token.SUB || !a.isLen(sub.X) {
				return nil, "a branch in the tail does not test len - counter"
			}
			r := a.eval(sub.Y, 0)
			if !r.ok || r.neg || r.phi != phi || r.n != 0 {
				return nil, "a branch in the tail does not test len - counter"
			}
			val := rem - r.c
			var t bool
			switch bo.Op {
			case token.EQL:
				t = val == cv
			case token.NEQ:
				t = val != cv
			case token.LSS:
				t = val < cv
			case token.LEQ:
				t = val <= cv
			case token.GTR:
				t = val > cv
			case token.GEQ:
				t = val >= cv
			default:
				return nil, "unsupported comparison in the tail"
			}
			pred = b
			if t {
				b = b.Succs[0]
			} else {
				b = b.Succs[1]
			}
		default:
			return nil, "unexpected control flow in the tail"
		}
		_ = pred
	}
	return nil, "the tail does not terminate within the step limit"
}

func keys64(m map[int64]int) []int64 {
	var ks []int64
	for k := range m {
		ks = append(ks, k)
	}
	sort.Slice(ks, func(i, j int) bool { return ks[i] < ks[j] })
	return ks
}

func keysB(m map[int64]bool) []int64 {
	var ks []int64
	for k := range m {
		ks = append(ks, k)
	}
	sort.Slice(ks, func(i, j int) bool { return ks[i] < ks[j] })
	return ks
}

func Coverage(w *load.World, c *core.Collector) {
	props := []string{"C20"}
	n := 0
	for _, name := range []string{"hammingDistance", "jaccardDistance", "squaredEuclideanDistancePureGo", "dotProductPureGo"} {
		f := w.Func("/distance", name)
		if f == nil {
			if strings.HasSuffix(name, "Distance") {
				c.Add("COVERAGE", "anchor:"+name, core.Undecided, "", "kernel not found", props...)
			}
			continue
		}
		n++
		ok, msg := sliceCoverage(f)
		if ok {
			c.Add("COVERAGE", "every-index-once:"+name, core.OK, w.Position(f.Pos()), msg, props...)
		} else {
			v := core.Violation
			if strings.Contains(msg, "not a comparison") || strings.Contains(msg, "not the loop counter") || strings.Contains(msg, "no loop") || strings.Contains(msg, "unsupported") || strings.Contains(msg, "unexpected") {
				v = core.Undecided
			}
			c.Add("COVERAGE", "every-index-once:"+name, v, w.Position(f.Pos()), msg, props...)
		}
	}
	c.Count("go_kernels_checked_for_coverage", n)
}
