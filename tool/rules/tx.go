package rules

import (
	"fmt"
	"go/token"
	"go/types"
	"sort"
	"strings"

	"golang.org/x/tools/go/ssa"

	"semaverif/internal/core"
	"semaverif/internal/load"
	"semaverif/internal/ssax"
)

// ---------------------------------------------------------------- anchors

type txCallback struct {
	Fn    *ssa.Function // the literal
	Site  *ssa.Call     // the DiskStore.Write/Read call
	Write bool
}

func txCallbacks(w *load.World) []txCallback {
	var out []txCallback
	for _, f := range w.Fns {
		for _, b := range f.Blocks {
			for _, in := range b.Instrs {
				call, ok := in.(*ssa.Call)
				if ok {
					// a transaction runner: `dbTx(func(bm) error {...})` where dbTx is a parameter that the
					// call sites bind to db.Write / db.Read
					if isW, isRunner := txRunnerCall(w, call); isRunner {
						if mc, ok := call.Call.Args[0].(*ssa.MakeClosure); ok {
							out = append(out, txCallback{mc.Fn.(*ssa.Function), call, isW})
						}
						// the bodies handed to the runner by its callers are the real callbacks
						h := call.Parent()
						for _, g := range w.Fns {
							for _, gb := range g.Blocks {
								for _, gi := range gb.Instrs {
									ci, ok := gi.(ssa.CallInstruction)
									if !ok || ci.Common().StaticCallee() != h {
										continue
									}
									siteWrite := false
									var bodies []*ssa.Function
									for _, a := range ci.Common().Args {
										mc, ok := a.(*ssa.MakeClosure)
										if !ok {
											continue
										}
										fn, _ := mc.Fn.(*ssa.Function)
										if fn == nil {
											continue
										}
										if strings.HasSuffix(fn.String(), "DiskStore).Write$bound") {
											siteWrite = true
											continue
										}
										if len(fn.Params) >= 1 && ssax.TypeName(fn.Params[0].Type()) == "diskstore.BucketManager" {
											bodies = append(bodies, fn)
											continue
										}
										// a literal that runs db.Write itself
										for _, fb := range fn.Blocks {
											for _, fi := range fb.Instrs {
												if fc, ok := fi.(*ssa.Call); ok && fc.Call.IsInvoke() && ssax.TypeName(fc.Call.Value.Type()) == "diskstore.DiskStore" && fc.Call.Method.Name() == "Write" {
													siteWrite = true
												}
											}
										}
									}
									for _, bfn := range bodies {
										out = append(out, txCallback{bfn, call, siteWrite})
									}
								}
							}
						}
						continue
					}
				}
				if !ok || !call.Call.IsInvoke() || ssax.TypeName(call.Call.Value.Type()) != "diskstore.DiskStore" {
					continue
				}
				name := call.Call.Method.Name()
				if name != "Write" && name != "Read" {
					continue
				}
				if mc, ok := call.Call.Args[0].(*ssa.MakeClosure); ok {
					out = append(out, txCallback{mc.Fn.(*ssa.Function), call, name == "Write"})
				}
			}
		}
	}
	// a callback that does nothing but call a function its enclosing helper was handed ("return
	// f(b)"): what the callers of the helper pass is what runs inside the transaction
	seenCb := map[*ssa.Function]bool{}
	for _, cb := range out {
		seenCb[cb.Fn] = true
	}
	for _, cb := range append([]txCallback{}, out...) {
		if cb.Fn == nil {
			continue
		}
		for _, b := range cb.Fn.Blocks {
			for _, in := range b.Instrs {
				call, ok := in.(*ssa.Call)
				if !ok || call.Call.IsInvoke() || call.Call.StaticCallee() != nil {
					continue
				}
				for _, fn := range funcValuesOf(w, call.Call.Value, 0) {
					if !seenCb[fn] && fn.Parent() != nil {
						seenCb[fn] = true
						out = append(out, txCallback{fn, cb.Site, cb.Write})
					}
				}
			}
		}
	}
	return out
}

func isErrorType(t types.Type) bool { return t.String() == "error" }
func isErrChan(t types.Type) bool {
	c, ok := t.Underlying().(*types.Chan)
	return ok && isErrorType(c.Elem())
}

// errorResult returns the SSA value of result #i of a call (nil if never extracted).
func resultValue(call *ssa.Call, i int) ssa.Value {
	if call.Call.Signature().Results().Len() == 1 {
		return call
	}
	for _, r := range *call.Referrers() {
		if ex, ok := r.(*ssa.Extract); ok && ex.Index == i {
			return ex
		}
	}
	return nil
}

var nonNilDepth int

// errorMaker: the module function a call runs when that is known: a named function, a literal
// called in place, or a literal held in a local variable that is assigned once.
func errorMaker(call *ssa.Call) *ssa.Function {
	if g := call.Call.StaticCallee(); g != nil {
		if ssax.InModule(g) && len(g.Blocks) > 0 {
			return g
		}
		return nil
	}
	v := call.Call.Value
	for i := 0; i < 3; i++ {
		switch x := v.(type) {
		case *ssa.MakeClosure:
			fn, _ := x.Fn.(*ssa.Function)
			return fn
		case *ssa.Function:
			return x
		case *ssa.UnOp:
			if al, ok := x.X.(*ssa.Alloc); ok {
				v = ssax.SingleStore(al)
				if v == nil {
					return nil
				}
				continue
			}
			if fv, ok := x.X.(*ssa.FreeVar); ok {
				v = ssax.CapturedSingleStore(fv)
				if v == nil {
					return nil
				}
				continue
			}
			return nil
		default:
			return nil
		}
	}
	return nil
}

// nonNilError: the value is certainly a non-nil error.
func nonNilError(v ssa.Value, at *ssa.BasicBlock) bool {
	switch x := v.(type) {
	case *ssa.Call:
		if f := x.Call.StaticCallee(); f != nil {
			switch f.String() {
			case "fmt.Errorf", "errors.New":
				return true
			}
		}
		// a wrapping helper of the module (also a local literal, called directly or through the
		// variable it was assigned to once) all of whose returns are certainly non-nil errors
		if h := errorMaker(x); h != nil && nonNilDepth < 2 {
			nonNilDepth++
			all, n := true, 0
			for _, hb := range h.Blocks {
				if r, ok := hb.Instrs[len(hb.Instrs)-1].(*ssa.Return); ok && len(r.Results) == 1 {
					n++
					if !nonNilError(r.Results[0], hb) {
						all = false
					}
				}
			}
			nonNilDepth--
			if all && n > 0 {
				return true
			}
		}
	case *ssa.MakeInterface:
		return true
	case *ssa.Phi:
		for _, e := range x.Edges {
			if !nonNilError(e, at) {
				return false
			}
		}
		return true
	case *ssa.UnOp:
		// load of a global error variable (ErrNotFound, ...)
		if _, ok := x.X.(*ssa.Global); ok {
			return true
		}
	}
	if v.Parent() == nil {
		return false
	}
	nn, _ := ssax.NilTests(v.Parent(), v)
	for _, e := range nn {
		if ssax.OnlyViaEdge(e.From, e.Succ, at) {
			return true
		}
	}
	return false
}

// successExits: returns / sends whose error operand may be nil.
type exit struct {
	In  ssa.Instruction
	Val ssa.Value
}

func successExits(f *ssa.Function) []exit {
	var out []exit
	for _, b := range f.Blocks {
		if b == f.Recover {
			continue // only entered when a deferred call recovers a panic
		}
		for _, in := range b.Instrs {
			switch x := in.(type) {
			case *ssa.Return:
				for i := range x.Results {
					r := ssax.ReturnOperand(x, i)
					if isErrorType(x.Results[i].Type()) && !nonNilError(r, b) {
						out = append(out, exit{in, r})
					}
				}
			case *ssa.Send:
				if isErrorType(x.X.Type()) && !nonNilError(x.X, b) {
					out = append(out, exit{in, x.X})
				}
			}
		}
	}
	return out
}

// ------------------------------------------------------------------ TXSTATE

func TxState(w *load.World, c *core.Collector) {
	n := 0
	for _, f := range w.Fns {
		for _, b := range f.Blocks {
			for _, in := range b.Instrs {
				call, ok := in.(*ssa.Call)
				if !ok || !ssax.IsMethod(call.Common(), "cache.Manager", "NewTransaction") {
					continue
				}
				n++
				txState(w, c, f, call)
			}
		}
	}
	c.Count("cache_transactions", n)
	if n < 1 {
		c.Add("TXSTATE", "anchor:NewTransaction", core.Undecided, "", fmt.Sprintf("found %d cache transaction sites, expected at least 1", n), "C07", "C11")
	}
}

func txState(w *load.World, c *core.Collector, f *ssa.Function, newTx *ssa.Call) {
	key := load.FnKey(f)
	props := []string{"C07", "C11"}
	// the cell(s) holding the transaction
	isTx := func(v ssa.Value) bool {
		if v == newTx {
			return true
		}
		if u, ok := v.(*ssa.UnOp); ok {
			if al, ok := u.X.(*ssa.Alloc); ok && ssax.SingleStore(al) == newTx {
				return true
			}
		}
		return false
	}
	capturesTx := func(mc *ssa.MakeClosure) bool {
		for _, bnd := range mc.Bindings {
			if bnd == newTx {
				return true
			}
			if al, ok := bnd.(*ssa.Alloc); ok && ssax.SingleStore(al) == newTx {
				return true
			}
		}
		return false
	}
	type helperCommit struct {
		site     *ssa.Call
		kind     string // const | neq | eql | "" (unknown)
		constVal bool
		errArg   ssa.Value
	}
	var helperCommits []helperCommit
	var dbCall *ssa.Call
	var commits []*ssa.Call
	var deferred []*ssa.Defer // deferred Commit, directly or inside a deferred function literal
	for _, b := range f.Blocks {
		for _, in := range b.Instrs {
			if d, ok := in.(*ssa.Defer); ok {
				if ssax.IsMethod(d.Common(), "cache.Transaction", "Commit") && isTx(d.Call.Args[0]) {
					deferred = append(deferred, d)
				}
				if mc, ok := d.Call.Value.(*ssa.MakeClosure); ok && capturesTx(mc) {
					for _, lb := range mc.Fn.(*ssa.Function).Blocks {
						for _, li := range lb.Instrs {
							if lc, ok := li.(*ssa.Call); ok && ssax.IsMethod(lc.Common(), "cache.Transaction", "Commit") {
								deferred = append(deferred, d)
							}
						}
					}
				}
			}
			call, ok := in.(*ssa.Call)
			if !ok {
				continue
			}
			if call.Call.IsInvoke() && ssax.TypeName(call.Call.Value.Type()) == "diskstore.DiskStore" {
				if mc, ok := call.Call.Args[0].(*ssa.MakeClosure); ok && capturesTx(mc) {
					dbCall = call
				}
			}
			if _, isRunner := txRunnerCall(w, call); isRunner {
				if mc, ok := call.Call.Args[0].(*ssa.MakeClosure); ok && capturesTx(mc) {
					dbCall = call
				}
			}
			if ssax.IsMethod(call.Common(), "cache.Transaction", "Commit") && isTx(call.Call.Args[0]) {
				commits = append(commits, call)
			}
			// a helper that commits the transaction it is handed
			if g := call.Call.StaticCallee(); g != nil && ssax.InModule(g) && !ssax.IsMethod(call.Common(), "cache.Transaction", "Commit") {
				for i, a := range call.Call.Args {
					if !isTx(a) || i >= len(g.Params) {
						continue
					}
					for _, gb := range g.Blocks {
						for _, gi := range gb.Instrs {
							ic, ok := gi.(*ssa.Call)
							if !ok || !ssax.IsMethod(ic.Common(), "cache.Transaction", "Commit") || ic.Call.Args[0] != ssa.Value(g.Params[i]) {
								continue
							}
							hc := helperCommit{site: call}
							flag := ic.Call.Args[1]
							if cv, isC := ssax.ConstBool(flag); isC {
								hc.kind, hc.constVal = "const", cv
							} else if bo, ok := flag.(*ssa.BinOp); ok && (bo.Op == token.NEQ || bo.Op == token.EQL) && (ssax.IsNilConst(bo.X) || ssax.IsNilConst(bo.Y)) {
								other := bo.X
								if ssax.IsNilConst(bo.X) {
									other = bo.Y
								}
								for j, q := range g.Params {
									if ssa.Value(q) == other && j < len(call.Call.Args) {
										hc.kind, hc.errArg = "neq", call.Call.Args[j]
										if bo.Op == token.EQL {
											hc.kind = "eql"
										}
									}
								}
							}
							helperCommits = append(helperCommits, hc)
						}
					}
				}
			}
		}
	}
	if dbCall == nil {
		c.Add("TXSTATE", "tx:"+key, core.Undecided, w.At(newTx), "no storage transaction whose callback uses this cache transaction", props...)
		return
	}
	// the cache transaction must not be committed inside the storage callback: its write locks
	// have to outlive the storage commit (or rollback)
	if mc, ok := dbCall.Call.Args[0].(*ssa.MakeClosure); ok {
		inner := ""
		var walk func(g *ssa.Function, depth int)
		walk = func(g *ssa.Function, depth int) {
			if depth > 3 {
				return
			}
			for _, b := range g.Blocks {
				for _, in := range b.Instrs {
					if ci, ok := in.(ssa.CallInstruction); ok && ssax.IsMethod(ci.Common(), "cache.Transaction", "Commit") {
						inner = w.At(in)
					}
					if m2, ok := in.(*ssa.MakeClosure); ok {
						walk(m2.Fn.(*ssa.Function), depth+1)
					}
				}
			}
		}
		walk(mc.Fn.(*ssa.Function), 0)
		if inner != "" {
			c.Add("TXSTATE", "commit-after-storage:"+key, core.Violation, inner, "the cache transaction is committed inside the storage callback: the cache write locks are released, and the caches handed to other transactions, before the storage transaction has committed or rolled back", props...)
		} else {
			c.Add("TXSTATE", "commit-after-storage:"+key, core.OK, w.At(dbCall), "", props...)
		}
	}
	errV := ssa.Value(dbCall)
	nonNil, isNil := ssax.NilTests(f, errV)
	onlyVia := func(edges []ssax.Edge, b *ssa.BasicBlock) bool {
		for _, e := range edges {
			if ssax.OnlyViaEdge(e.From, e.Succ, b) {
				return true
			}
		}
		return false
	}
	// viaEdge: block b (entered from pred, when b is the join itself) is only reachable through one of the edges
	viaEdge := func(edges []ssax.Edge, pred, b *ssa.BasicBlock) bool {
		for _, e := range edges {
			if pred == e.From && e.From.Succs[e.Succ] == b {
				return true
			}
			if ssax.OnlyViaEdge(e.From, e.Succ, pred) {
				return true
			}
		}
		return false
	}
	// flagVerdict decides whether the Commit argument says "failed" exactly when the storage transaction failed
	var flagVerdict func(a ssa.Value, at *ssa.BasicBlock, depth int) (core.Verdict, string)
	flagVerdict = func(a ssa.Value, at *ssa.BasicBlock, depth int) (core.Verdict, string) {
		if flag, isConst := ssax.ConstBool(a); isConst {
			switch {
			case flag && !onlyVia(nonNil, at):
				return core.Violation, "Commit(true) not confined to the path where the storage transaction returned an error"
			case !flag && !onlyVia(isNil, at):
				return core.Violation, "Commit(false) reachable although the storage transaction failed: the shared caches would keep partial state"
			}
			return core.OK, ""
		}
		switch x := a.(type) {
		case *ssa.BinOp:
			var other ssa.Value
			switch {
			case x.X == errV:
				other = x.Y
			case x.Y == errV:
				other = x.X
			}
			if other != nil && ssax.IsNilConst(other) {
				if x.Op == token.NEQ {
					return core.OK, ""
				}
				if x.Op == token.EQL {
					return core.Violation, "Commit is told the transaction failed exactly when it succeeded"
				}
			}
		case *ssa.UnOp:
			if x.Op == token.NOT {
				if bo, ok := x.X.(*ssa.BinOp); ok && bo.Op == token.EQL && (bo.X == errV || bo.Y == errV) && (ssax.IsNilConst(bo.X) || ssax.IsNilConst(bo.Y)) {
					return core.OK, ""
				}
			}
		case *ssa.Phi:
			if depth < 3 {
				for i, e := range x.Edges {
					pred := x.Block().Preds[i]
					if flag, isConst := ssax.ConstBool(e); isConst {
						if flag && !viaEdge(nonNil, pred, x.Block()) {
							return core.Violation, "Commit can be told the transaction failed on a path where it succeeded"
						}
						if !flag && !viaEdge(isNil, pred, x.Block()) {
							return core.Violation, "Commit can be told the transaction succeeded on a path where the storage transaction failed: the shared caches would keep partial state"
						}
						continue
					}
					if v, d := flagVerdict(e, pred, depth+1); v != core.OK {
						return v, d
					}
				}
				return core.OK, ""
			}
		}
		return core.Undecided, "Commit argument is neither a constant confined to the matching branch nor a test of the storage transaction's error"
	}
	bad := false
	for _, d := range deferred {
		if ssax.IsMethod(d.Common(), "cache.Transaction", "Commit") {
			// `defer tx.Commit(x)`: x is evaluated when the defer statement runs
			arg := d.Call.Args[1]
			if flag, isConst := ssax.ConstBool(arg); isConst {
				if !flag {
					c.Add("TXSTATE", "commit-flag:"+key, core.Violation, w.At(d), "a deferred Commit(false) runs on every exit: the caches of a failed storage transaction are never scrapped", props...)
					bad = true
				}
				continue
			}
			if !ssax.Precedes(dbCall, d) {
				c.Add("TXSTATE", "commit-flag:"+key, core.Violation, w.At(d), "the argument of the deferred Commit is evaluated at the defer statement, before the storage transaction has run: it can never say that the transaction failed", props...)
				bad = true
				continue
			}
			if v, msg := flagVerdict(arg, d.Block(), 0); v != core.OK {
				c.Add("TXSTATE", "commit-flag:"+key, v, w.At(d), msg, props...)
				bad = true
			}
			continue
		}
		// `defer func() { tx.Commit(err != nil) }()`: the literal must test the cell that receives the transaction's error
		mc := d.Call.Value.(*ssa.MakeClosure)
		lit := mc.Fn.(*ssa.Function)
		okLit := false
		why := "the deferred function's Commit argument is not a test of the storage transaction's error"
		for _, lb := range lit.Blocks {
			for _, li := range lb.Instrs {
				lc, ok := li.(*ssa.Call)
				if !ok || !ssax.IsMethod(lc.Common(), "cache.Transaction", "Commit") {
					continue
				}
				bo, ok := lc.Call.Args[1].(*ssa.BinOp)
				if !ok || bo.Op != token.NEQ {
					continue
				}
				side := bo.X
				if ssax.IsNilConst(bo.X) {
					side = bo.Y
				} else if !ssax.IsNilConst(bo.Y) {
					continue
				}
				ld, ok := side.(*ssa.UnOp)
				if !ok || ld.Op != token.MUL {
					continue
				}
				fv, ok := ld.X.(*ssa.FreeVar)
				if !ok {
					continue
				}
				for i, x := range lit.FreeVars {
					if x != fv || i >= len(mc.Bindings) {
						continue
					}
					cell, ok := mc.Bindings[i].(*ssa.Alloc)
					if !ok {
						continue
					}
					for _, r := range *cell.Referrers() {
						if st, ok := r.(*ssa.Store); ok && st.Addr == cell && st.Val == errV {
							okLit = true
						}
					}
				}
			}
		}
		if !okLit {
			c.Add("TXSTATE", "commit-flag:"+key, core.Undecided, w.At(d), why, props...)
			bad = true
		}
	}
	for _, hc := range helperCommits {
		var v core.Verdict = core.OK
		d := ""
		switch {
		case hc.kind == "neq" && hc.errArg == errV:
		case hc.kind == "eql" && hc.errArg == errV:
			v, d = core.Violation, "the helper that commits the cache transaction is told the transaction failed exactly when it succeeded"
		case hc.kind == "const" && hc.constVal && !onlyVia(nonNil, hc.site.Block()):
			v, d = core.Violation, "a helper that commits with fail=true is called on a path where the storage transaction succeeded"
		case hc.kind == "const" && !hc.constVal && !onlyVia(isNil, hc.site.Block()):
			v, d = core.Violation, "a helper that commits with fail=false is reachable although the storage transaction failed: the shared caches would keep partial state"
		case hc.kind == "const":
		default:
			v, d = core.Undecided, "the helper that commits the cache transaction does not derive its flag from the storage transaction's error"
		}
		if v != core.OK {
			c.Add("TXSTATE", "commit-flag:"+key, v, w.At(hc.site), d, props...)
			bad = true
		}
	}
	for _, cm := range commits {
		if v, d := flagVerdict(cm.Call.Args[1], cm.Block(), 0); v != core.OK {
			c.Add("TXSTATE", "commit-flag:"+key, v, w.At(cm), d, props...)
			bad = true
		}
	}
	if !bad {
		c.Add("TXSTATE", "commit-flag:"+key, core.OK, w.At(dbCall), "", props...)
	}
	// every return after the storage call is preceded by a Commit
	missing := ""
	for _, b := range f.Blocks {
		for _, in := range b.Instrs {
			ret, ok := in.(*ssa.Return)
			if !ok || !ssax.Reaches(dbCall.Block(), b) {
				continue
			}
			if b == dbCall.Block() && ssax.InstrIndex(ret) < ssax.InstrIndex(dbCall) {
				continue
			}
			okc := false
			for _, cm := range commits {
				if ssax.Precedes(cm, ret) {
					okc = true
				}
			}
			for _, d := range deferred {
				if ssax.Precedes(d, ret) {
					okc = true
				}
			}
			for _, hc := range helperCommits {
				if ssax.Precedes(hc.site, ret) {
					okc = true
				}
			}
			if !okc {
				missing = w.At(ret)
			}
		}
	}
	if missing != "" {
		c.Add("TXSTATE", "commit-pairing:"+key, core.Violation, missing, "a return after the storage transaction is not preceded by Commit: cache write locks would never be released", props...)
	} else {
		c.Add("TXSTATE", "commit-pairing:"+key, core.OK, w.At(dbCall), "", props...)
	}
}

// -------------------------------------------------------------------- SCRAP

// mustPassFromEdge: every path that enters through edge e and reaches an instruction
// accepted by stop has executed an instruction accepted by pred before it. It reports
// false with the offending stop instruction otherwise; paths that never reach a stop
// instruction do not count.
func mustPassFromEdge(e ssax.Edge, pred, stop func(ssa.Instruction) bool) (bool, ssa.Instruction) {
	seen := map[*ssa.BasicBlock]bool{}
	var bad ssa.Instruction
	var dfs func(b *ssa.BasicBlock) bool
	dfs = func(b *ssa.BasicBlock) bool {
		if seen[b] {
			return true
		}
		seen[b] = true
		for _, in := range b.Instrs {
			if pred(in) {
				return true
			}
			if stop(in) {
				bad = in
				return false
			}
		}
		for _, s := range b.Succs {
			if !dfs(s) {
				return false
			}
		}
		return true
	}
	ok := dfs(e.From.Succs[e.Succ])
	return ok, bad
}

func Scrap(w *load.World, c *core.Collector) {
	props := []string{"C11", "C07"}
	var with, commit *ssa.Function
	for _, f := range w.Fns {
		switch load.FnKey(f) {
		case "(*shard/cache.Transaction).With":
			with = f
		case "(*shard/cache.Transaction).Commit":
			commit = f
		}
	}
	if with == nil || commit == nil {
		c.Add("SCRAP", "anchor", core.Undecided, "", "Transaction.With/Commit not found", props...)
		return
	}
	isScrapStore := func(in ssa.Instruction) bool {
		st, ok := in.(*ssa.Store)
		if !ok {
			return false
		}
		fa, ok := st.Addr.(*ssa.FieldAddr)
		if !ok || fieldOf(fa) != "cache.sharedCacheElem.scrapped" {
			return false
		}
		v, isC := ssax.ConstBool(st.Val)
		return isC && v
	}
	isMapDelete := func(in ssa.Instruction) bool {
		call, ok := in.(*ssa.Call)
		if !ok {
			return false
		}
		b, ok := call.Call.Value.(*ssa.Builtin)
		if !ok || b.Name() != "delete" {
			return false
		}
		p, _ := ssax.Path(call.Call.Args[0])
		return strings.Contains(p, "sharedCaches")
	}
	// the mark and the unpublishing may sit in a small helper of the package that does both
	// unconditionally (every block of it that holds one dominates its returns)
	viaHelper := func(direct func(ssa.Instruction) bool) func(ssa.Instruction) bool {
		return func(in ssa.Instruction) bool {
			if direct(in) {
				return true
			}
			h := ssax.StaticModuleCallee(in)
			if h == nil || len(h.Blocks) == 0 || load.PkgPath(h) != load.Mod+"/shard/cache" {
				return false
			}
			for _, hb := range h.Blocks {
				for _, hi := range hb.Instrs {
					if !direct(hi) {
						continue
					}
					uncond := true
					for _, rb := range h.Blocks {
						if _, isRet := rb.Instrs[len(rb.Instrs)-1].(*ssa.Return); isRet && !hb.Dominates(rb) {
							uncond = false
						}
					}
					if uncond {
						return true
					}
				}
			}
			return false
		}
	}
	isScrapStore = viaHelper(isScrapStore)
	isMapDelete = viaHelper(isMapDelete)
	isFailedStore := func(in ssa.Instruction) bool {
		call, ok := in.(*ssa.Call)
		if !ok {
			return false
		}
		f := call.Call.StaticCallee()
		if f == nil || f.String() != "(*sync/atomic.Bool).Store" {
			return false
		}
		p, _ := ssax.Path(call.Call.Args[0])
		v, isC := ssax.ConstBool(call.Call.Args[1])
		return strings.HasSuffix(p, ".failed") && isC && v
	}
	regionHas := func(f *ssa.Function, edges []ssax.Edge, pred func(ssa.Instruction) bool) bool {
		for _, b := range f.Blocks {
			via := false
			for _, e := range edges {
				if ssax.OnlyViaEdge(e.From, e.Succ, b) {
					via = true
				}
			}
			if !via {
				continue
			}
			for _, in := range b.Instrs {
				if pred(in) {
					return true
				}
			}
		}
		return false
	}
	// With and the helpers (methods, functions, literals of package cache) it reaches by static calls
	wf := []*ssa.Function{with}
	inWF := map[*ssa.Function]bool{with: true}
	type csite struct {
		in *ssa.Function
		at *ssa.Call
	}
	callersOf := map[*ssa.Function][]csite{}
	for i := 0; i < len(wf) && i < 40; i++ {
		g := wf[i]
		add := func(h *ssa.Function) {
			if h != nil && !inWF[h] && len(h.Blocks) > 0 && load.PkgPath(h) == load.PkgPath(with) {
				inWF[h] = true
				wf = append(wf, h)
			}
		}
		for _, lit := range g.AnonFuncs {
			add(lit)
		}
		for _, b := range g.Blocks {
			for _, in := range b.Instrs {
				if call, ok := in.(*ssa.Call); ok {
					if h := ssax.StaticModuleCallee(in); h != nil && load.PkgPath(h) == load.PkgPath(with) {
						add(h)
						callersOf[h] = append(callersOf[h], csite{g, call})
					}
				}
			}
		}
	}
	// effects, seen through helpers that perform them on every path
	sums := ssax.NewSummaries(func(in ssa.Instruction) []string {
		var out []string
		if isScrapStore(in) {
			out = append(out, "scrapped=true")
		}
		if isMapDelete(in) {
			out = append(out, "delete(sharedCaches)")
		}
		if isFailedStore(in) {
			out = append(out, "failed.Store(true)")
		}
		return out
	}, func(f *ssa.Function) []ssa.Instruction {
		var out []ssa.Instruction
		for _, b := range f.Blocks {
			if r, ok := b.Instrs[len(b.Instrs)-1].(*ssa.Return); ok {
				out = append(out, r)
			}
		}
		return out
	})
	effect := func(name string) func(ssa.Instruction) bool {
		return func(in ssa.Instruction) bool {
			for _, l := range sums.At(in) {
				if l == name {
					return true
				}
			}
			return false
		}
	}
	isRet := func(in ssa.Instruction) bool { _, ok := in.(*ssa.Return); return ok }
	// funcParamOf: the callee value is one of the function-typed parameters handed to With (seen
	// directly, captured by a literal, or forwarded to a helper)
	isFuncParam := func(v ssa.Value) bool {
		for i := 0; i < 3; i++ {
			switch x := v.(type) {
			case *ssa.Parameter:
				_, ok := x.Type().Underlying().(*types.Signature)
				return ok
			case *ssa.FreeVar:
				t := x.Type()
				if p, ok := t.Underlying().(*types.Pointer); ok {
					t = p.Elem()
				}
				_, ok := t.Underlying().(*types.Signature)
				return ok
			case *ssa.UnOp:
				if x.Op != token.MUL {
					return false
				}
				v = x.X
				if al, ok := v.(*ssa.Alloc); ok {
					if sv := ssax.SingleStore(al); sv != nil {
						v = sv
					}
				}
			default:
				return false
			}
		}
		return false
	}
	// returnsErr: g hands the error value on to its caller
	returnsErr := func(g *ssa.Function, errV ssa.Value) bool {
		for _, b := range g.Blocks {
			ret, ok := b.Instrs[len(b.Instrs)-1].(*ssa.Return)
			if !ok || len(ret.Results) == 0 {
				continue
			}
			last := ret.Results[len(ret.Results)-1]
			if !isErrorType(last.Type()) {
				continue
			}
			if last == errV {
				return true
			}
			if call, ok := errV.(*ssa.Extract); ok {
				if c0, ok := call.Tuple.(*ssa.Call); ok && c0.Call.StaticCallee() == nil {
					if ssax.Prov(last)["call:?"] {
						return true
					}
				}
			}
			for k := range ssax.Prov(last) {
				if strings.HasPrefix(k, "call:") && (ssax.Prov(errV)[k] || k == "call:?") {
					return true
				}
			}
		}
		return false
	}
	errOfCall := func(call *ssa.Call) ssa.Value {
		sig := call.Call.Signature()
		for i := sig.Results().Len() - 1; i >= 0; i-- {
			if isErrorType(sig.Results().At(i).Type()) {
				return resultValue(call, i)
			}
		}
		return nil
	}
	// handled: on the path where errV is non-nil in g the effect is performed (unconditionally if
	// must is set); or g passes the error on and every caller in the family does so
	var handled func(g *ssa.Function, errV ssa.Value, name string, must bool, depth int) (bool, string)
	handled = func(g *ssa.Function, errV ssa.Value, name string, must bool, depth int) (bool, string) {
		pred := effect(name)
		nonNil, _ := ssax.NilTests(g, errV)
		if regionHas(g, nonNil, pred) {
			if !must {
				return true, ""
			}
			okAll := true
			where := ""
			for _, e := range nonNil {
				if ok, at := mustPassFromEdge(e, pred, isRet); !ok {
					okAll = false
					where = w.At(at)
				}
			}
			if okAll {
				return true, ""
			}
			return false, "after the cache callback failed, With can return at " + where + " without " + name + ": the step is conditional"
		}
		if depth < 3 && g != with && returnsErr(g, errV) && len(callersOf[g]) > 0 {
			for _, cs := range callersOf[g] {
				ev := errOfCall(cs.at)
				if ev == nil {
					return false, "the error is dropped by " + load.FnKey(cs.in)
				}
				if ok, why := handled(cs.in, ev, name, must, depth+1); !ok {
					return false, why
				}
			}
			return true, ""
		}
		return false, ""
	}
	nCb, nCreate := 0, 0
	for _, g := range wf {
		for _, b := range g.Blocks {
			for _, in := range b.Instrs {
				call, ok := in.(*ssa.Call)
				if !ok || call.Call.IsInvoke() || call.Call.StaticCallee() != nil || !isFuncParam(call.Call.Value) {
					continue
				}
				errV := errOfCall(call)
				sig := call.Call.Signature()
				if errV == nil {
					if sig.Results().Len() > 0 {
						c.Add("SCRAP", fmt.Sprintf("with:%s-error-dropped", call.Call.Value.Name()), core.Violation, w.At(in), "error of the cache callback is not inspected", props...)
					}
					continue
				}
				if sig.Params().Len() == 1 { // f(cacheToUse.item)
					nCb++
					for _, name := range []string{"scrapped=true", "delete(sharedCaches)", "failed.Store(true)"} {
						ok, why := handled(g, errV, name, name != "delete(sharedCaches)", 0)
						v, d := core.OK, ""
						if !ok {
							v = core.Violation
							d = why
							if d == "" {
								d = "on the path where the cache callback failed, " + name + " is missing: a cache touched by a failed transaction could be handed out again"
							}
						}
						c.Add("SCRAP", fmt.Sprintf("with:callback-error#%d:%s", nCb, name), v, w.At(in), d, props...)
					}
				} else if sig.Params().Len() == 0 { // createFn()
					nCreate++
					ok, _ := handled(g, errV, "failed.Store(true)", false, 0)
					v, d := core.OK, ""
					if !ok {
						v = core.Violation
						d = "on the path where cache construction failed the transaction is not marked failed"
					}
					c.Add("SCRAP", fmt.Sprintf("with:create-error#%d:failed.Store(true)", nCreate), v, w.At(in), d, props...)
				}
			}
		}
	}
	if nCb < 1 || nCreate < 1 {
		c.Add("SCRAP", "anchor:with-calls", core.Undecided, "", fmt.Sprintf("found %d callback and %d constructor invocations in With and its helpers (expected at least 1 and 1)", nCb, nCreate), props...)
	}
	// blocking locks on the read-only side must be on fresh elems
	// readOnlyOf: the bool parameter of g that carries With's readOnly flag
	readOnlyOf := map[*ssa.Function]*ssa.Parameter{}
	if len(with.Params) > 2 {
		readOnlyOf[with] = with.Params[2]
	}
	for changed := true; changed; {
		changed = false
		for g, sites := range callersOf {
			if readOnlyOf[g] != nil {
				continue
			}
			for _, cs := range sites {
				ro := readOnlyOf[cs.in]
				if ro == nil {
					continue
				}
				for i, a := range cs.at.Call.Args {
					if a == ssa.Value(ro) && i < len(g.Params) {
						readOnlyOf[g] = g.Params[i]
						changed = true
					}
				}
			}
		}
	}
	var confinedAt func(g *ssa.Function, b *ssa.BasicBlock, depth int) bool
	confinedAt = func(g *ssa.Function, b *ssa.BasicBlock, depth int) bool {
		if ro := readOnlyOf[g]; ro != nil {
			for _, bb := range g.Blocks {
				if ifi, ok := bb.Instrs[len(bb.Instrs)-1].(*ssa.If); ok {
					// the flag itself, negated, or read back from the cell a capturing literal forces it into
					cond, neg := ifi.Cond, false
					if u, isN := cond.(*ssa.UnOp); isN && u.Op == token.NOT {
						cond, neg = u.X, true
					}
					if peelToParam(cond) == ssa.Value(ro) {
						writeEdge := 1
						if neg {
							writeEdge = 0
						}
						if ssax.OnlyViaEdge(bb, writeEdge, b) {
							return true
						}
					}
				}
			}
		}
		if g == with || depth > 3 || len(callersOf[g]) == 0 {
			return false
		}
		for _, cs := range callersOf[g] {
			if !confinedAt(cs.in, cs.at.Block(), depth+1) {
				return false
			}
		}
		return true
	}
	for _, g := range wf {
		for _, b := range g.Blocks {
			for _, in := range b.Instrs {
				call, ok := in.(*ssa.Call)
				if !ok {
					continue
				}
				f := call.Call.StaticCallee()
				if f == nil || (f.String() != "(*sync.RWMutex).Lock" && f.String() != "(*sync.RWMutex).RLock") {
					continue
				}
				p, fresh := ssax.Path(call.Call.Args[0])
				if !strings.HasSuffix(p, ".mu") || fresh || fieldOfAddr(call.Call.Args[0]) != "cache.sharedCacheElem.mu" {
					continue
				}
				v := core.OK
				d := ""
				if !confinedAt(g, b, 0) {
					v = core.Violation
					d = "a blocking lock on an existing shared cache is reachable for read-only access: readers must never wait (TryRLock or cold copy)"
				}
				c.Add("SCRAP", "with:nonblocking-reader", v, w.At(in), d, "C11", "C09")
			}
		}
	}
	// Commit: failed := t.failed.Load() || fail ; in the loop: scrapped + delete under failed
	// (the loop may sit in a helper that Commit hands its fail argument to)
	if h := homeOf(commit, rangesOverWritten); h != nil && h != commit && len(h.Params) > 1 && len(commit.Params) > 1 {
		passes := false
		for _, site := range staticCallSitesIn(commit, h) {
			if len(site.Common().Args) > 1 && site.Common().Args[1] == ssa.Value(commit.Params[1]) {
				passes = true
			}
		}
		if passes {
			commit = h
		}
	}
	var failedCond ssa.Value
	for _, b := range commit.Blocks {
		if ifi, ok := b.Instrs[len(b.Instrs)-1].(*ssa.If); ok {
			o := ssax.Prov(ifi.Cond)
			_, isPhi := ifi.Cond.(*ssa.Phi)
			// the flag used directly as a condition: `if t.failed.Load() || fail {` is two branches
			// into one block, no materialised value
			var shortT *ssa.BasicBlock
			if len(commit.Params) > 1 && !isPhi && peelToParam(ifi.Cond) == ssa.Value(commit.Params[1]) {
				for _, b1 := range commit.Blocks {
					if1, ok := b1.Instrs[len(b1.Instrs)-1].(*ssa.If)
					if !ok || b1 == b {
						continue
					}
					call, ok := if1.Cond.(*ssa.Call)
					if !ok || call.Call.StaticCallee() == nil || call.Call.StaticCallee().String() != "(*sync/atomic.Bool).Load" {
						continue
					}
					if pth, _ := ssax.Path(call.Call.Args[0]); !strings.HasSuffix(pth, ".failed") {
						continue
					}
					if b1.Succs[0] == b.Succs[0] && (b1.Succs[1] == b || b.Succs[1] == b1) {
						shortT = b.Succs[0]
					}
				}
			}
			if len(commit.Params) > 1 && ((o["param:"+commit.Params[1].Name()] && isPhi && loadsFailedFlag(commit)) || shortT != nil) {
				failedCond = ifi.Cond
				isElemUnlock := func(in ssa.Instruction) bool {
					call, ok := in.(*ssa.Call)
					if !ok {
						return false
					}
					g := call.Call.StaticCallee()
					if g == nil || g.String() != "(*sync.RWMutex).Unlock" {
						return false
					}
					return fieldOfAddr(call.Call.Args[0]) == "cache.sharedCacheElem.mu"
				}
				for name, pred := range map[string]func(ssa.Instruction) bool{"scrapped=true": isScrapStore, "delete(sharedCaches)": isMapDelete} {
					v := core.OK
					d := ""
					inRegion := regionHas(commit, []ssax.Edge{{From: b, Succ: 0}}, pred)
					if shortT != nil {
						inRegion = false
						for _, rb := range commit.Blocks {
							if shortT.Dominates(rb) {
								for _, ri := range rb.Instrs {
									if pred(ri) {
										inRegion = true
									}
								}
							}
						}
					}
					if !inRegion {
						v = core.Violation
						d = "Commit of a failed transaction does not perform " + name
					} else if name == "scrapped=true" {
						if ok, at := mustPassFromEdge(ssax.Edge{From: b, Succ: 0}, pred, isElemUnlock); !ok && !scrapLoopBefore(commit, ssax.Edge{From: b, Succ: 0}, pred, at) {
							v = core.Violation
							d = "Commit of a failed transaction can release the cache's write lock at " + w.At(at) + " without marking it scrapped (the mark is conditional): a transaction already waiting for that lock would be handed the aborted state"
						}
					}
					c.Add("SCRAP", "commit:failed:"+name, v, w.Position(commit.Pos()), d, props...)
				}
			}
		}
	}
	if failedCond == nil {
		c.Add("SCRAP", "commit:failed-condition", core.Violation, w.Position(commit.Pos()), "Commit has no branch on (transaction failed || caller says fail)", props...)
	} else {
		c.Add("SCRAP", "commit:failed-condition", core.OK, w.Position(commit.Pos()), "", props...)
	}
}

// loadsFailedFlag: the function branches on t.failed.Load().
func loadsFailedFlag(f *ssa.Function) bool {
	for _, b := range f.Blocks {
		ifi, ok := b.Instrs[len(b.Instrs)-1].(*ssa.If)
		if !ok {
			continue
		}
		if call, ok := ifi.Cond.(*ssa.Call); ok {
			if g := call.Call.StaticCallee(); g != nil && g.String() == "(*sync/atomic.Bool).Load" {
				if p, _ := ssax.Path(call.Call.Args[0]); strings.HasSuffix(p, ".failed") {
					return true
				}
			}
		}
	}
	return false
}

// --------------------------------------------------------------------- JOIN

func Join(w *load.World, c *core.Collector) {
	props := []string{"C07", "C09"}
	// (a) fan-in completeness
	nFan := 0
	isFanIn := map[*ssa.Function]bool{}
	for _, f := range w.Fns {
		if f.Parent() != nil || f.Origin() != nil && f.Origin() != f && false {
			continue
		}
		hasChanSlice := false
		for _, p := range f.Params {
			if sl, ok := p.Type().Underlying().(*types.Slice); ok {
				if _, ok := sl.Elem().Underlying().(*types.Chan); ok {
					hasChanSlice = true
				}
			}
		}
		if !hasChanSlice || f.Parent() != nil {
			continue
		}
		for _, anon := range f.AnonFuncs {
			// per-input goroutine: has a chan parameter or captures one, and calls WaitGroup.Done
			var input ssa.Value
			for _, p := range anon.Params {
				if _, ok := p.Type().Underlying().(*types.Chan); ok {
					input = p
				}
			}
			for _, fv := range anon.FreeVars {
				t := fv.Type()
				if pt, ok := t.Underlying().(*types.Pointer); ok {
					t = pt.Elem()
				}
				if _, ok := t.Underlying().(*types.Chan); ok && input == nil {
					input = fv // the per-iteration loop variable, captured
				}
			}
			if input == nil {
				continue
			}
			callsDone := false
			for _, b := range anon.Blocks {
				for _, in := range b.Instrs {
					var cc *ssa.CallCommon
					switch x := in.(type) {
					case *ssa.Call:
						cc = x.Common()
					case *ssa.Defer:
						cc = x.Common()
					}
					if cc != nil {
						if g := cc.StaticCallee(); g != nil && g.String() == "(*sync.WaitGroup).Done" {
							callsDone = true
						}
					}
				}
			}
			if !callsDone {
				continue
			}
			isFanIn[f] = true
			if f.Origin() != nil {
				isFanIn[f.Origin()] = true
			}
			nFan++
			fanIn(w, c, f, anon, input, props)
		}
	}
	c.Count("fan_in_goroutines", nFan)
	if nFan < 2 {
		c.Add("JOIN", "anchor:fanin", core.Undecided, "", fmt.Sprintf("found %d fan-in goroutines, expected at least 2", nFan), props...)
	}
	// (a') the cause reported is the cause of the context that the stages cancel: where a function derives
	// a cancel-with-cause context, every context.Cause in it and in its literals reads that derived context
	nCause := 0
	for _, f := range w.Fns {
		if f.Parent() != nil {
			continue
		}
		var derived ssa.Value
		for _, b := range f.Blocks {
			for _, in := range b.Instrs {
				if call, ok := in.(*ssa.Call); ok {
					if g := call.Call.StaticCallee(); g != nil && g.String() == "context.WithCancelCause" {
						derived = resultValue(call, 0)
					}
				}
			}
		}
		if derived == nil {
			continue
		}
		// cellHolds: at instruction `at` of the cell's function the cell holds the derived context:
		// the store of the derived context precedes `at` and every other store precedes that store
		cellHolds := func(cell *ssa.Alloc, at ssa.Instruction) bool {
			var d *ssa.Store
			var others []*ssa.Store
			for _, r := range *cell.Referrers() {
				if st, ok := r.(*ssa.Store); ok && st.Addr == ssa.Value(cell) {
					if st.Val == derived {
						d = st
					} else {
						others = append(others, st)
					}
				}
			}
			if d == nil || (at != nil && !ssax.Precedes(d, at)) {
				return false
			}
			for _, o := range others {
				if !ssax.Precedes(o, d) {
					return false
				}
			}
			return true
		}
		var isDerivedAt func(g *ssa.Function, v ssa.Value, at ssa.Instruction, depth int) bool
		isDerived := func(g *ssa.Function, v ssa.Value, depth int) bool {
			var at ssa.Instruction
			if in, ok := v.(ssa.Instruction); ok {
				at = in
			}
			return isDerivedAt(g, v, at, depth)
		}
		isDerivedAt = func(g *ssa.Function, v ssa.Value, at ssa.Instruction, depth int) bool {
			if depth > 4 {
				return false
			}
			if v == derived {
				return true
			}
			switch x := v.(type) {
			case *ssa.UnOp:
				if al, ok := x.X.(*ssa.Alloc); ok {
					return cellHolds(al, x)
				}
				if fv, ok := x.X.(*ssa.FreeVar); ok {
					return isDerivedAt(g, fv, at, depth+1)
				}
			case *ssa.Alloc:
				return cellHolds(x, at)
			case *ssa.FreeVar:
				if g.Parent() == nil {
					return false
				}
				for i, q := range g.FreeVars {
					if q != x {
						continue
					}
					for _, pb := range g.Parent().Blocks {
						for _, pi := range pb.Instrs {
							if mc, ok := pi.(*ssa.MakeClosure); ok && mc.Fn == g && i < len(mc.Bindings) {
								if isDerivedAt(g.Parent(), mc.Bindings[i], mc, depth+1) {
									return true
								}
							}
						}
					}
				}
			}
			return false
		}
		var visit func(g *ssa.Function)
		visit = func(g *ssa.Function) {
			for _, b := range g.Blocks {
				for _, in := range b.Instrs {
					call, ok := in.(*ssa.Call)
					if !ok {
						continue
					}
					if cg := call.Call.StaticCallee(); cg == nil || cg.String() != "context.Cause" {
						continue
					}
					nCause++
					key := fmt.Sprintf("cause-of-derived:%s", load.FnKey(g))
					if isDerived(g, call.Call.Args[0], 0) {
						c.Add("JOIN", key, core.OK, w.At(in), "", props...)
					} else {
						c.Add("JOIN", key, core.Violation, w.At(in), "context.Cause is read from a context other than the cancel-with-cause context this function derived and its stages cancel: an error of a stage is reported as success", props...)
					}
				}
			}
			for _, a := range g.AnonFuncs {
				visit(a)
			}
		}
		visit(f)
	}
	c.Count("context_cause_reads", nCause)
	// reachability from write callbacks
	var roots []*ssa.Function
	cbs := txCallbacks(w)
	for _, cb := range cbs {
		if cb.Write {
			roots = append(roots, cb.Fn)
		}
	}
	reach := reachFrom(w, roots, true)
	// (b) no orphan error channel
	nCh := 0
	var fns []*ssa.Function
	for f := range reach {
		fns = append(fns, f)
	}
	sort.Slice(fns, func(i, j int) bool { return fns[i].String() < fns[j].String() })
	for _, f := range fns {
		for _, b := range f.Blocks {
			for _, in := range b.Instrs {
				call, ok := in.(*ssa.Call)
				if !ok {
					continue
				}
				res := call.Call.Signature().Results()
				for i := 0; i < res.Len(); i++ {
					if !isErrChan(res.At(i).Type()) {
						continue
					}
					nCh++
					v := resultValue(call, i)
					key := fmt.Sprintf("errchan:%s@%s", calleeKey(call.Common()), load.FnKey(f))
					if v != nil && ssax.Used(v) {
						c.Add("JOIN", key, core.OK, w.At(in), "", props...)
						continue
					}
					if why, ok := orphanException(f); ok {
						c.Add("JOIN", key, core.Exception, w.At(in), why, props...)
					} else {
						c.Add("JOIN", key, core.Violation, w.At(in), "the error channel of a pipeline stage is dropped: nothing waits for that stage", props...)
					}
				}
			}
		}
	}
	c.Count("error_channels_on_write_path", nCh)
	// (c) the storage callback waits on the merged channel
	for _, cb := range cbs {
		if !cb.Write {
			continue
		}
		var stageCalls []*ssa.Call
		var merged []*ssa.Call
		for _, b := range cb.Fn.Blocks {
			for _, in := range b.Instrs {
				call, ok := in.(*ssa.Call)
				if !ok {
					continue
				}
				res := call.Call.Signature().Results()
				for i := 0; i < res.Len(); i++ {
					if isErrChan(res.At(i).Type()) {
						if g := call.Call.StaticCallee(); g != nil && (isFanIn[g] || (g.Origin() != nil && isFanIn[g.Origin()])) {
							merged = append(merged, call)
						} else {
							stageCalls = append(stageCalls, call)
						}
					}
				}
			}
		}
		if len(stageCalls) == 0 {
			continue
		}
		key := "callback-waits:" + load.FnKey(cb.Fn)
		// helpers that wait: a module function that receives from a fan-in of (some of) its
		// error-channel parameters before every return
		type waitCall struct {
			call   *ssa.Call
			waited map[int]bool // argument positions whose channel is waited for
		}
		var waits []waitCall
		for _, b := range cb.Fn.Blocks {
			for _, in := range b.Instrs {
				call, ok := in.(*ssa.Call)
				if !ok {
					continue
				}
				g := call.Call.StaticCallee()
				if g == nil || !ssax.InModule(g) || len(g.Blocks) == 0 {
					continue
				}
				if wp := waitedParams(g, isFanIn); len(wp) > 0 {
					// receiver of a method call is parameter 0 and argument 0 alike for static calls
					waits = append(waits, waitCall{call, wp})
					// stage channels created inside the helper are its own business: they are
					// checked there by waitedParams (all of them must reach its fan-in)
				}
			}
		}
		// stages started inside a waiting helper do not count as stages of the callback
		if len(merged) == 0 && len(waits) == 0 {
			c.Add("JOIN", key, core.Violation, w.At(stageCalls[0]), "pipeline stages are started inside the storage transaction but their error channels are never merged", props...)
			continue
		}
		// every stage channel flows into a fan-in (or into a helper that waits for it)
		for _, sc := range stageCalls {
			okFlow := false
			label := "call:" + sc.Call.StaticCallee().String()
			for _, m := range merged {
				for _, a := range m.Call.Args {
					if ssax.Prov(a)[label] {
						okFlow = true
					}
				}
			}
			for _, wc := range waits {
				if wc.call == sc {
					okFlow = true // the helper's own result is not a stage of this callback
				}
				for i, a := range wc.call.Call.Args {
					if wc.waited[i] && ssax.Prov(a)[label] {
						okFlow = true
					}
				}
			}
			if !okFlow {
				c.Add("JOIN", key, core.Violation, w.At(sc), "error channel of "+calleeKey(sc.Common())+" does not reach the fan-in the callback waits on", props...)
			}
		}
		// receives on the merged channel
		var recvs []ssa.Instruction
		for _, b := range cb.Fn.Blocks {
			for _, in := range b.Instrs {
				if u, ok := in.(*ssa.UnOp); ok && u.Op == token.ARROW {
					for _, m := range merged {
						if u.X == ssa.Value(m) {
							recvs = append(recvs, in)
						}
					}
				}
			}
		}
		for _, wc := range waits {
			recvs = append(recvs, wc.call)
		}
		first := stageCalls[0]
		bad := ""
		for _, b := range cb.Fn.Blocks {
			for _, in := range b.Instrs {
				ret, ok := in.(*ssa.Return)
				if !ok || !ssax.Precedes(first, ret) {
					continue
				}
				okr := false
				for _, r := range recvs {
					if ssax.Precedes(r, ret) {
						okr = true
					}
				}
				if !okr {
					bad = w.At(ret)
				}
			}
		}
		if bad != "" {
			c.Add("JOIN", key, core.Violation, bad, "the storage callback can return without having waited for the merged error channel", props...)
		} else {
			c.Add("JOIN", key, core.OK, w.At(first), "", props...)
		}
	}
}

// waitedParams: the error-channel parameters of g that g waits for: they flow
// into a fan-in of g whose merged channel is received from before every return
// of g, and every stage g starts itself flows into that fan-in too.
func waitedParams(g *ssa.Function, isFanIn map[*ssa.Function]bool) map[int]bool {
	var merged, stages []*ssa.Call
	for _, b := range g.Blocks {
		for _, in := range b.Instrs {
			call, ok := in.(*ssa.Call)
			if !ok {
				continue
			}
			res := call.Call.Signature().Results()
			for i := 0; i < res.Len(); i++ {
				if !isErrChan(res.At(i).Type()) {
					continue
				}
				if h := call.Call.StaticCallee(); h != nil && (isFanIn[h] || (h.Origin() != nil && isFanIn[h.Origin()])) {
					merged = append(merged, call)
				} else {
					stages = append(stages, call)
				}
			}
		}
	}
	if len(merged) == 0 {
		return nil
	}
	var recvs []ssa.Instruction
	for _, b := range g.Blocks {
		for _, in := range b.Instrs {
			if u, ok := in.(*ssa.UnOp); ok && u.Op == token.ARROW {
				for _, m := range merged {
					if u.X == ssa.Value(m) {
						recvs = append(recvs, in)
					}
				}
			}
		}
	}
	for _, b := range g.Blocks {
		ret, ok := b.Instrs[len(b.Instrs)-1].(*ssa.Return)
		if !ok || b == g.Recover {
			continue
		}
		okr := false
		for _, r := range recvs {
			if ssax.Precedes(r, ret) {
				okr = true
			}
		}
		if !okr {
			return nil
		}
	}
	for _, sc := range stages {
		if sc.Call.StaticCallee() == nil {
			return nil
		}
		label := "call:" + sc.Call.StaticCallee().String()
		flows := false
		for _, m := range merged {
			for _, a := range m.Call.Args {
				if ssax.Prov(a)[label] {
					flows = true
				}
			}
		}
		if !flows {
			return nil
		}
	}
	out := map[int]bool{}
	for i, p := range g.Params {
		if !isErrChan(p.Type()) {
			continue
		}
		for _, m := range merged {
			for _, a := range m.Call.Args {
				if ssax.Prov(a)["param:"+p.Name()] {
					out[i] = true
				}
			}
		}
	}
	return out
}

func calleeKey(cc *ssa.CallCommon) string {
	if g := cc.StaticCallee(); g != nil {
		return load.FnKey(g)
	}
	return load.Short(ssax.CalleeName(cc))
}

func orphanException(f *ssa.Function) (string, bool) {
	k := load.FnKey(f)
	for _, x := range []string{
		"(*shard/index/inverted.IndexInvertedString).InsertUpdateDelete",
		"(*shard/index/inverted.IndexInvertedArrayString).InsertUpdateDelete",
		"(*shard/index/inverted.IndexInvertedArray[T]).InsertUpdateDelete",
	} {
		if k == x {
			return "the transform function of this stage cannot fail and the stage is joined through closure of its data channel, which the next stage drains", true
		}
	}
	return "", false
}

func fanIn(w *load.World, c *core.Collector, parent, g *ssa.Function, input ssa.Value, props []string) {
	key := "fanin:" + load.FnKey(parent)
	recvOnInput := func(b *ssa.BasicBlock) bool {
		for _, in := range b.Instrs {
			switch x := in.(type) {
			case *ssa.UnOp:
				if x.Op == token.ARROW && x.X == input {
					return true
				}
			case *ssa.Select:
				for _, s := range x.States {
					if s.Dir == types.RecvOnly && s.Chan == input {
						return true
					}
				}
			}
		}
		return false
	}
	var exits []*ssa.BasicBlock
	for _, b := range g.Blocks {
		if _, ok := b.Instrs[len(b.Instrs)-1].(*ssa.Return); ok {
			exits = append(exits, b)
		}
	}
	bad := ""
	nSel := 0
	for _, b := range g.Blocks {
		for _, in := range b.Instrs {
			sel, ok := in.(*ssa.Select)
			if !ok {
				continue
			}
			hasInput := false
			for _, s := range sel.States {
				if s.Dir == types.RecvOnly && s.Chan == input {
					hasInput = true
				}
			}
			// the dispatch: blocks testing index == k
			var idx ssa.Value
			for _, r := range *sel.Referrers() {
				if ex, ok := r.(*ssa.Extract); ok && ex.Index == 0 {
					idx = ex
				}
			}
			if idx == nil {
				continue
			}
			nSel++
			for k, s := range sel.States {
				if s.Dir == types.RecvOnly && s.Chan == input {
					continue
				}
				if !hasInput {
					// a select that does not listen to the input at all (e.g. forwarding): its
					// other arms must not leave either
				}
				// find body of state k
				for _, tb := range g.Blocks {
					ifi, ok := tb.Instrs[len(tb.Instrs)-1].(*ssa.If)
					if !ok {
						continue
					}
					bo, ok := ifi.Cond.(*ssa.BinOp)
					if !ok || bo.Op != token.EQL || bo.X != idx {
						continue
					}
					if kk, ok := ssax.ConstInt(bo.Y); !ok || int(kk) != k {
						continue
					}
					body := tb.Succs[0]
					// can body reach an exit without a receive on the input?
					for _, ex := range exits {
						if reachNoRecv(body, ex, recvOnInput) {
							bad = fmt.Sprintf("select at %s: the arm for state %d (not the input channel) reaches the goroutine's exit at %s without receiving from the input", w.At(sel), k, w.At(ex.Instrs[len(ex.Instrs)-1]))
						}
					}
				}
			}
		}
	}
	if nSel == 0 {
		c.Add("JOIN", key, core.OK, w.Position(g.Pos()), "per-input goroutine has no select: it can only finish by receiving", props...)
		return
	}
	if bad != "" {
		c.Add("JOIN", key, core.Violation, w.Position(g.Pos()), "fan-in completes before its inputs: "+bad, props...)
	} else {
		c.Add("JOIN", key, core.OK, w.Position(g.Pos()), "", props...)
	}
}

func reachNoRecv(from, to *ssa.BasicBlock, recv func(*ssa.BasicBlock) bool) bool {
	seen := map[*ssa.BasicBlock]bool{}
	var dfs func(b *ssa.BasicBlock) bool
	dfs = func(b *ssa.BasicBlock) bool {
		if seen[b] {
			return false
		}
		seen[b] = true
		if recv(b) {
			return false
		}
		if b == to {
			return true
		}
		for _, s := range b.Succs {
			if dfs(s) {
				return true
			}
		}
		return false
	}
	return dfs(from)
}

// --------------------------------------------------------------------- ERRS

// errActedUpon: the error value is tested against nil, returned, sent, or handed to another call
// before it can be overwritten. A value that is only parked in a variable (named result, local)
// which is assigned again on some path before anybody looked at it is lost.
func errActedUpon(v ssa.Value) (bool, string) {
	seen := map[ssa.Value]bool{}
	var handled func(x ssa.Value, depth int) (bool, string)
	handled = func(x ssa.Value, depth int) (bool, string) {
		if seen[x] || depth > 8 || x.Referrers() == nil {
			return false, ""
		}
		seen[x] = true
		why := ""
		for _, r := range *x.Referrers() {
			switch u := r.(type) {
			case *ssa.DebugRef:
			case *ssa.BinOp:
				if ssax.IsNilConst(u.X) || ssax.IsNilConst(u.Y) {
					if nilTestActs(x, u) {
						return true, ""
					}
					why = "the error is tested for nil, but on the branch where it is not nil the function goes on to report success without handing the error (or one made from it) to anybody"
				}
			case *ssa.Return, *ssa.Send:
				return true, ""
			case *ssa.Call:
				if isLogSink(u) {
					continue // written to the log: nobody who could roll back learns of it
				}
				return true, ""
			case *ssa.Defer, *ssa.Go:
				return true, ""
			case *ssa.MakeInterface, *ssa.ChangeInterface, *ssa.ChangeType, *ssa.Phi, *ssa.Extract, *ssa.TypeAssert:
				if ok, _ := handled(u.(ssa.Value), depth+1); ok {
					return true, ""
				}
			case *ssa.MapUpdate:
				return true, ""
			case *ssa.Store:
				if u.Val != x {
					continue
				}
				cell, isCell := u.Addr.(*ssa.Alloc)
				if !isCell {
					// the argument list of a variadic call: acted upon only if that call's result is
					// (wrapping with fmt.Errorf and dropping the wrapper is still a drop)
					if ia, ok := u.Addr.(*ssa.IndexAddr); ok {
						if arr, ok := ia.X.(*ssa.Alloc); ok && arr.Comment == "varargs" {
							wrapOnly, anyUse := true, false
							for _, ar := range *arr.Referrers() {
								sl, ok := ar.(*ssa.Slice)
								if !ok {
									continue
								}
								for _, sr := range *sl.Referrers() {
									call, ok := sr.(*ssa.Call)
									if !ok {
										wrapOnly = false
										continue
									}
									anyUse = true
									g := call.Call.StaticCallee()
									if g == nil || !(g.String() == "fmt.Errorf" || strings.HasPrefix(g.String(), "errors.")) {
										wrapOnly = false
										continue
									}
									if ok2, _ := handled(call, depth+1); ok2 {
										return true, ""
									}
								}
							}
							if anyUse && wrapOnly {
								continue
							}
						}
					}
					return true, "" // stored into a field / element: somebody else's business
				}
				if ok, w := cellReadBeforeOverwrite(u, cell); ok {
					return true, ""
				} else if w != "" {
					why = w
				}
			}
		}
		return false, why
	}
	return handled(v, 0)
}

// cellReadBeforeOverwrite: on every path from the store, the cell is loaded (and that load acted
// upon) or the function returns it, before another store to the cell happens.
func cellReadBeforeOverwrite(st *ssa.Store, cell *ssa.Alloc) (bool, string) {
	isHandledLoad := func(in ssa.Instruction) bool {
		u, ok := in.(*ssa.UnOp)
		if !ok || u.Op != token.MUL || u.X != ssa.Value(cell) || u.Referrers() == nil {
			return false
		}
		for _, r := range *u.Referrers() {
			switch x := r.(type) {
			case *ssa.BinOp:
				if ssax.IsNilConst(x.X) || ssax.IsNilConst(x.Y) {
					return true
				}
			case *ssa.Return, *ssa.Send, *ssa.Call, *ssa.MakeInterface, *ssa.Phi, *ssa.Store:
				return true
			}
		}
		return false
	}
	type pos struct {
		b *ssa.BasicBlock
		i int
	}
	seen := map[*ssa.BasicBlock]bool{}
	var lost string
	var walk func(b *ssa.BasicBlock, from int) bool
	walk = func(b *ssa.BasicBlock, from int) bool {
		for i := from; i < len(b.Instrs); i++ {
			in := b.Instrs[i]
			if isHandledLoad(in) {
				return true
			}
			if s2, ok := in.(*ssa.Store); ok && s2.Addr == ssa.Value(cell) {
				lost = "it is parked in a variable that is assigned again before anybody looked at it"
				return false
			}
			if _, ok := in.(*ssa.Return); ok {
				// named results are loaded right before the return; reaching a return without a load
				// means the variable is not returned
				return true
			}
		}
		for _, s := range b.Succs {
			if seen[s] {
				if s == st.Block() {
					lost = "it is parked in a variable that is assigned again on the next loop iteration before anybody looked at it"
					return false
				}
				continue
			}
			seen[s] = true
			if !walk(s, 0) {
				return false
			}
		}
		return true
	}
	idx := ssax.InstrIndex(st)
	ok := walk(st.Block(), idx+1)
	return ok, lost
}

func storageCallee(cc *ssa.CallCommon) (string, bool) {
	if cc.IsInvoke() {
		tn := ssax.TypeName(cc.Value.Type())
		switch tn {
		case "diskstore.Bucket", "diskstore.ReadOnlyBucket", "diskstore.BucketManager", "diskstore.DiskStore", "vectorstore.VectorStore", "cache.Storable":
			return tn + "." + cc.Method.Name(), true
		}
		return "", false
	}
	g := cc.StaticCallee()
	if g == nil {
		return "", false
	}
	k := load.FnKey(g)
	for _, fam := range []string{"shard/cache.ItemCache", "shard/pointstore.", "shard.IdCounter", "shard.changePointCount", "shard/vectorstore.",
		"msgpack/v5.Marshal", "msgpack/v5.Unmarshal", "roaring64.Bitmap).ReadFrom", "roaring64.Bitmap).ToBytes",
		").WriteTo", ").ReadFrom", ").DeleteFrom", ").flush", ").Flush"} {
		if strings.Contains(k, fam) {
			return k, true
		}
	}
	return "", false
}

func Errs(w *load.World, c *core.Collector) {
	txOutcomeReturned(w, c)
	props := []string{"C07"}
	var roots []*ssa.Function
	for _, cb := range txCallbacks(w) {
		if cb.Write {
			roots = append(roots, cb.Fn)
		}
	}
	c.Count("write_tx_callbacks", len(roots))
	if len(roots) < 4 {
		c.Add("ERRS", "anchor:write-callbacks", core.Undecided, "", fmt.Sprintf("found %d write transaction callbacks, expected at least 4", len(roots)), props...)
	}
	reach := reachFrom(w, roots, true)
	c.Count("write_path_functions", len(reach))
	var fns []*ssa.Function
	for f := range reach {
		fns = append(fns, f)
	}
	sort.Slice(fns, func(i, j int) bool { return fns[i].String() < fns[j].String() })
	n := 0
	for _, f := range fns {
		for _, b := range f.Blocks {
			for _, in := range b.Instrs {
				call, ok := in.(*ssa.Call)
				if !ok {
					continue
				}
				name, isStorage := storageCallee(call.Common())
				if !isStorage {
					continue
				}
				res := call.Call.Signature().Results()
				for i := 0; i < res.Len(); i++ {
					if !isErrorType(res.At(i).Type()) {
						continue
					}
					n++
					v := resultValue(call, i)
					key := fmt.Sprintf("err:%s@%s", load.Short(name), load.FnKey(f))
					acted, why := false, ""
					if v != nil && ssax.Used(v) {
						acted, why = errActedUpon(v)
					}
					switch {
					case acted:
						c.Add("ERRS", key, core.OK, w.At(in), "", props...)
					case why != "":
						c.Add("ERRS", key, core.Violation, w.At(in), "error result of a storage-layer call can be lost on the write path: "+why+" — a storage fault would not roll the batch back", props...)
					default:
						c.Add("ERRS", key, core.Violation, w.At(in), "error result of a storage-layer call is dropped on the write path: a storage fault would not roll the batch back", props...)
					}
				}
			}
		}
	}
	c.Count("storage_error_sites", n)
	// rollback wiring of the bbolt backend
	var wr *ssa.Function
	for _, f := range w.Fns {
		if load.FnKey(f) == "(diskstore.bboltDiskStore).Write" {
			wr = f
		}
	}
	if wr == nil {
		c.Add("ERRS", "rollback-wiring", core.Undecided, "", "bboltDiskStore.Write not found", props...)
		return
	}
	okWiring := false
	where := w.Position(wr.Pos())
	for _, b := range wr.Blocks {
		for _, in := range b.Instrs {
			call, ok := in.(*ssa.Call)
			if !ok {
				continue
			}
			g := call.Call.StaticCallee()
			if g == nil || g.String() != "(*go.etcd.io/bbolt.DB).Update" {
				continue
			}
			var lit *ssa.Function
			switch x := call.Call.Args[1].(type) {
			case *ssa.MakeClosure:
				lit, _ = x.Fn.(*ssa.Function)
			case *ssa.Call:
				// an adapter that builds the transaction function around the callback
				if h := x.Call.StaticCallee(); h != nil && ssax.InModule(h) {
					for _, hb := range h.Blocks {
						if r, ok := hb.Instrs[len(hb.Instrs)-1].(*ssa.Return); ok && len(r.Results) == 1 {
							if hm, ok := r.Results[0].(*ssa.MakeClosure); ok {
								lit, _ = hm.Fn.(*ssa.Function)
							}
						}
					}
				}
			}
			if lit == nil {
				continue
			}
			allRet := true
			for _, lb := range lit.Blocks {
				for _, li := range lb.Instrs {
					if r, ok := li.(*ssa.Return); ok {
						o := ssax.Prov(r.Results[0])
						if !o.HasPrefix("freevar:") && !o.HasPrefix("call:?") {
							allRet = false
						}
						if cv, ok := r.Results[0].(*ssa.Call); !ok || cv.Call.StaticCallee() != nil {
							allRet = false
						}
					}
				}
			}
			// Write returns Update's result
			retOK := false
			for _, bb := range wr.Blocks {
				for _, ii := range bb.Instrs {
					if r, ok := ii.(*ssa.Return); ok && r.Results[0] == ssa.Value(call) {
						retOK = true
					}
				}
			}
			okWiring = allRet && retOK
			where = w.At(in)
		}
	}
	// the managed transaction is handed to a helper as a bound method (db.Update): the helper calls
	// it with a literal that returns the callback's result, returns what it returns, and Write
	// returns the helper's result
	if !okWiring {
		for _, b := range wr.Blocks {
			for _, in := range b.Instrs {
				call, ok := in.(*ssa.Call)
				if !ok {
					continue
				}
				h := call.Call.StaticCallee()
				if h == nil || !ssax.InModule(h) || len(h.Blocks) == 0 {
					continue
				}
				for ai, a := range call.Call.Args {
					mc, ok := a.(*ssa.MakeClosure)
					if !ok || !strings.Contains(mc.Fn.(*ssa.Function).String(), "bbolt.DB).Update") || ai >= len(h.Params) {
						continue
					}
					p := h.Params[ai]
					for _, hb := range h.Blocks {
						for _, hi := range hb.Instrs {
							pc, ok := hi.(*ssa.Call)
							if !ok || pc.Call.Value != ssa.Value(p) || len(pc.Call.Args) != 1 {
								continue
							}
							lmc, ok := pc.Call.Args[0].(*ssa.MakeClosure)
							if !ok {
								continue
							}
							lit := lmc.Fn.(*ssa.Function)
							allRet := true
							for _, lb := range lit.Blocks {
								for _, li := range lb.Instrs {
									if r, ok := li.(*ssa.Return); ok {
										o := ssax.Prov(r.Results[0])
										if !o.HasPrefix("freevar:") && !o.HasPrefix("call:?") {
											allRet = false
										}
										if cv, ok := r.Results[0].(*ssa.Call); !ok || cv.Call.StaticCallee() != nil {
											allRet = false
										}
									}
								}
							}
							helperReturns, writeReturns := false, false
							for _, hb2 := range h.Blocks {
								if r, ok := hb2.Instrs[len(hb2.Instrs)-1].(*ssa.Return); ok && len(r.Results) == 1 && r.Results[0] == ssa.Value(pc) {
									helperReturns = true
								}
							}
							for _, wb := range wr.Blocks {
								if r, ok := wb.Instrs[len(wb.Instrs)-1].(*ssa.Return); ok && len(r.Results) == 1 && r.Results[0] == ssa.Value(call) {
									writeReturns = true
								}
							}
							if allRet && helperReturns && writeReturns {
								okWiring = true
								where = w.At(in)
							}
						}
					}
				}
			}
		}
	}
	if okWiring {
		c.Add("ERRS", "rollback-wiring", core.OK, where, "", props...)
	} else {
		c.Add("ERRS", "rollback-wiring", core.Violation, where, "the error of the write callback does not reach bbolt's Update: a failed batch would be committed", props...)
	}
}

// txRunnerCall: the call invokes a function-typed parameter of the shape of
// DiskStore.Write/Read — func(func(diskstore.BucketManager) error) error — and
// every static call site of the enclosing function binds that parameter to a
// bound db.Write or db.Read. isWrite: some site binds Write.
func txRunnerCall(w *load.World, call *ssa.Call) (isWrite, ok bool) {
	p, isParam := call.Call.Value.(*ssa.Parameter)
	if !isParam || len(call.Call.Args) != 1 {
		return false, false
	}
	sig, isSig := p.Type().Underlying().(*types.Signature)
	if !isSig || sig.Params().Len() != 1 || sig.Results().Len() != 1 || !isErrorType(sig.Results().At(0).Type()) {
		return false, false
	}
	inner, isSig := sig.Params().At(0).Type().Underlying().(*types.Signature)
	if !isSig || inner.Params().Len() != 1 || ssax.TypeName(inner.Params().At(0).Type()) != "diskstore.BucketManager" {
		return false, false
	}
	h := p.Parent()
	idx := -1
	for i, q := range h.Params {
		if q == p {
			idx = i
		}
	}
	sites := 0
	for _, g := range w.Fns {
		for _, b := range g.Blocks {
			for _, in := range b.Instrs {
				ci, isCall := in.(ssa.CallInstruction)
				if !isCall || ci.Common().StaticCallee() != h || idx >= len(ci.Common().Args) {
					continue
				}
				sites++
				mc, isMC := ci.Common().Args[idx].(*ssa.MakeClosure)
				if !isMC {
					return false, false
				}
				fn, _ := mc.Fn.(*ssa.Function)
				if fn == nil {
					return false, false
				}
				switch {
				case strings.HasSuffix(fn.String(), "DiskStore).Write$bound"):
					isWrite = true
				case strings.HasSuffix(fn.String(), "DiskStore).Read$bound"):
				default:
					// a literal that runs db.Write / db.Read with the callback it is given (and, say, logs)
					kind := ""
					for _, fb := range fn.Blocks {
						for _, fi := range fb.Instrs {
							fc, ok := fi.(*ssa.Call)
							if !ok || !fc.Call.IsInvoke() || ssax.TypeName(fc.Call.Value.Type()) != "diskstore.DiskStore" || len(fc.Call.Args) != 1 {
								continue
							}
							if len(fn.Params) == 1 && peelToParam(fc.Call.Args[0]) == ssa.Value(fn.Params[0]) {
								kind = fc.Call.Method.Name()
							}
						}
					}
					switch kind {
					case "Write":
						isWrite = true
					case "Read":
					default:
						return false, false
					}
				}
			}
		}
	}
	return isWrite, sites > 0
}

// nilTestActs: the nil test of error value x leads somewhere: on the branch where
// x is not nil the function does not simply carry on to a return that reports
// success (every error result the constant nil) without having used x, or an
// error wrapped around it, in any consequential way.
// isLogSink: a call that only writes its argument to the log (zerolog's event builders, the
// standard log package). An error handed to nothing else reaches nobody who could roll back.
func isLogSink(call *ssa.Call) bool {
	n := ""
	if g := call.Call.StaticCallee(); g != nil {
		n = g.String()
	} else if call.Call.Method != nil {
		n = call.Call.Method.FullName()
	}
	return strings.Contains(n, "rs/zerolog") || strings.HasPrefix(n, "log.") || strings.HasPrefix(n, "(*log.Logger)")
}

func nilTestActs(x ssa.Value, test *ssa.BinOp) bool {
	f := test.Parent()
	var ifs []*ssa.If
	if test.Referrers() != nil {
		for _, r := range *test.Referrers() {
			if ifi, ok := r.(*ssa.If); ok {
				ifs = append(ifs, ifi)
			} else if _, isDbg := r.(*ssa.DebugRef); !isDbg {
				return true // the comparison is used as a value (a flag handed on)
			}
		}
	}
	if len(ifs) == 0 {
		return true
	}
	// values derived from x: wrappers around it
	derived := map[ssa.Value]bool{x: true}
	for changed := true; changed; {
		changed = false
		for v := range derived {
			if v.Referrers() == nil {
				continue
			}
			for _, r := range *v.Referrers() {
				switch y := r.(type) {
				case *ssa.Call:
					if g := y.Call.StaticCallee(); g != nil {
						n := g.String()
						if (n == "fmt.Errorf" || strings.HasPrefix(n, "errors.")) && !derived[y] {
							derived[y] = true
							changed = true
						}
					}
				case *ssa.MakeInterface, *ssa.ChangeInterface, *ssa.Phi, *ssa.Slice:
					if !derived[y.(ssa.Value)] {
						derived[y.(ssa.Value)] = true
						changed = true
					}
				case *ssa.Store:
					// into a variadic argument list (fmt.Errorf("...%w", err)): the slice carries it
					if ia, ok := y.Addr.(*ssa.IndexAddr); ok {
						if al, ok := ia.X.(*ssa.Alloc); ok && !derived[al] {
							derived[al] = true
							changed = true
						}
					}
				}
			}
		}
	}
	consequential := func(in ssa.Instruction) bool {
		for _, op := range in.Operands(nil) {
			if *op == nil || !derived[*op] {
				continue
			}
			switch y := in.(type) {
			case *ssa.Return, *ssa.Send, *ssa.Panic, *ssa.MapUpdate, *ssa.Go, *ssa.Defer:
				return true
			case *ssa.Call:
				if g := y.Call.StaticCallee(); g != nil {
					n := g.String()
					if n == "fmt.Errorf" || strings.HasPrefix(n, "errors.") {
						continue // wrapping alone is not acting
					}
				}
				if isLogSink(y) {
					continue // logging alone is not acting
				}
				return true
			case *ssa.Store:
				if _, isLocal := y.Addr.(*ssa.Alloc); !isLocal {
					if ia, ok := y.Addr.(*ssa.IndexAddr); ok {
						if _, isArr := ia.X.(*ssa.Alloc); isArr {
							continue // the variadic argument list of a wrapper
						}
					}
					return true
				}
				// a local variable: acted upon if it is read later (returned, tested, passed on)
				if cell, ok := y.Addr.(*ssa.Alloc); ok {
					if okc, _ := cellReadBeforeOverwrite(y, cell); okc {
						return true
					}
				}
			}
		}
		return false
	}
	for _, ifi := range ifs {
		b := ifi.Block()
		nonNil := 0
		if test.Op == token.EQL {
			nonNil = 1
		}
		// walk from the non-nil successor: a path to a success return without a consequential use?
		seen := map[*ssa.BasicBlock]bool{}
		var drops func(bb *ssa.BasicBlock) bool
		drops = func(bb *ssa.BasicBlock) bool {
			if seen[bb] {
				return false
			}
			seen[bb] = true
			for _, in := range bb.Instrs {
				if consequential(in) {
					return false
				}
				if ret, ok := in.(*ssa.Return); ok {
					hasErr, allNil := false, true
					for i := range ret.Results {
						if isErrorType(ret.Results[i].Type()) {
							hasErr = true
							rv := ssax.ReturnOperand(ret, i)
							if !ssax.IsNilConst(rv) && !knownNilAt(rv, bb) && rv != x {
								allNil = false
							}
							if derived[rv] {
								allNil = false
							}
						}
					}
					return hasErr && allNil
				}
			}
			for _, sc := range bb.Succs {
				if drops(sc) {
					return true
				}
			}
			return false
		}
		if !drops(b.Succs[nonNil]) {
			return true
		}
	}
	_ = f
	return false
}

// knownNilAt: block b is only reached over the "is nil" edge of a nil test of v (another error
// that was checked earlier and found nil: returning it reports success).
func knownNilAt(v ssa.Value, b *ssa.BasicBlock) bool {
	if v.Parent() == nil {
		return false
	}
	_, isNil := ssax.NilTests(v.Parent(), v)
	for _, e := range isNil {
		if ssax.OnlyViaEdge(e.From, e.Succ, b) {
			return true
		}
	}
	return false
}

// txOutcomeReturned: the error a write transaction ends with is the caller's to hear. At every call
// of the store's Write the error result flows into a return of the calling function (as it is,
// wrapped, through a named result or a cell), or is handed on (stored in a field, sent). An error
// that is only logged — typically an `err :=` in an inner block that shadows the variable the
// function returns — turns a rolled-back transaction into a reported success.
func txOutcomeReturned(w *load.World, c *core.Collector) {
	isErr := func(t types.Type) bool { return isErrorType(t) }
	var flows func(v ssa.Value, seen map[ssa.Value]bool, depth int) bool
	flows = func(v ssa.Value, seen map[ssa.Value]bool, depth int) bool {
		if v == nil || seen[v] || depth > 10 || v.Referrers() == nil {
			return false
		}
		seen[v] = true
		for _, r := range *v.Referrers() {
			switch u := r.(type) {
			case *ssa.Return, *ssa.Send, *ssa.MapUpdate:
				return true
			case *ssa.Phi, *ssa.MakeInterface, *ssa.ChangeInterface, *ssa.ChangeType, *ssa.Extract, *ssa.TypeAssert:
				if flows(u.(ssa.Value), seen, depth+1) {
					return true
				}
			case *ssa.Store:
				if u.Val != v {
					continue
				}
				switch a := u.Addr.(type) {
				case *ssa.Alloc:
					for _, rr := range *a.Referrers() {
						if ld, ok := rr.(*ssa.UnOp); ok && ld.Op == token.MUL && flows(ld, seen, depth+1) {
							return true
						}
						// a captured cell read by a deferred or enclosing function: handed on
						if _, ok := rr.(*ssa.MakeClosure); ok {
							return true
						}
					}
				case *ssa.IndexAddr:
					// the argument list of a variadic call (wrapping)
					if arr, ok := a.X.(*ssa.Alloc); ok {
						for _, ar := range *arr.Referrers() {
							if sl, ok := ar.(*ssa.Slice); ok {
								for _, sr := range *sl.Referrers() {
									if call, ok := sr.(*ssa.Call); ok && isErr(call.Type()) && flows(call, seen, depth+1) {
										return true
									}
								}
							}
						}
						continue
					}
					return true
				case *ssa.FreeVar:
					return true // a variable of the enclosing function: it decides
				default:
					return true // a field, a global: somebody else's business
				}
			case *ssa.Call:
				// handed to a function that gives an error back (a wrapper, a fail helper): follow the result
				if isErr(u.Type()) && flows(u, seen, depth+1) {
					return true
				}
				if tup, ok := u.Type().(*types.Tuple); ok {
					for i := 0; i < tup.Len(); i++ {
						if isErr(tup.At(i).Type()) && flows(u, seen, depth+1) {
							return true
						}
					}
				}
			}
		}
		return false
	}
	n := 0
	for _, f := range w.Fns {
		if !load.InMod(f) || f.Synthetic != "" || strings.Contains(load.PkgPath(f), "/internal/") {
			continue
		}
		for _, b := range f.Blocks {
			for _, in := range b.Instrs {
				call, ok := in.(*ssa.Call)
				if !ok {
					continue
				}
				cc := call.Common()
				isW := false
				if cc.IsInvoke() {
					isW = (cc.Method.Name() == "Write" || cc.Method.Name() == "WriteMultiple") && strings.HasSuffix(cc.Value.Type().String(), "diskstore.DiskStore")
				} else if g := cc.StaticCallee(); g != nil && (g.Name() == "Write" || g.Name() == "WriteMultiple") && strings.HasSuffix(load.PkgPath(g), "/diskstore") && g.Signature.Recv() != nil {
					isW = true
				}
				if !isW || !isErr(call.Type()) {
					continue
				}
				n++
				props := []string{"C07"}
				if strings.HasSuffix(load.PkgPath(f), "/cluster") {
					props = []string{"C07", "C14"}
				}
				key := "tx-outcome:" + load.FnKey(f)
				if flows(call, map[ssa.Value]bool{}, 0) {
					c.Add("ERRS", key, core.OK, w.At(in), "", props...)
				} else {
					c.Add("ERRS", key, core.Violation, w.At(in), "the error a write transaction ends with never reaches a return of the function that ran it (it is at most logged): a transaction that was rolled back is reported as a success — the sender of migrated records then deletes its copies, an insert is acknowledged", props...)
				}
			}
		}
	}
	if n < 6 {
		c.Add("ERRS", "anchor:tx-outcomes", core.Undecided, "", fmt.Sprintf("found %d calls of the store's Write, expected at least 6", n), "C07")
	}
}

// rangesOverWritten: the function ranges over a transaction's writtenCaches
func rangesOverWritten(g *ssa.Function) bool {
	for _, b := range g.Blocks {
		for _, in := range b.Instrs {
			if n, ok := in.(*ssa.Next); ok {
				if rg, ok := n.Iter.(*ssa.Range); ok {
					if p, _ := ssax.Path(rg.X); strings.Contains(p, "writtenCaches") {
						return true
					}
				}
			}
		}
	}
	return false
}

// staticCallSitesIn: the static calls of h in f
func staticCallSitesIn(f, h *ssa.Function) []ssa.CallInstruction {
	var out []ssa.CallInstruction
	for _, b := range f.Blocks {
		for _, in := range b.Instrs {
			if ci, ok := in.(ssa.CallInstruction); ok && ci.Common().StaticCallee() == h {
				out = append(out, ci)
			}
		}
	}
	return out
}

// scrapLoopBefore: the marks are set in a loop of their own that runs, on the failed edge, over
// the same collection as the loop that unlocks and before it: every element the second loop
// unlocks was marked by the first (a zero-iteration first loop means a zero-iteration second one).
// Required: a range over writtenCaches that is only reached through the failed edge, whose every
// iteration passes a mark, and whose header dominates the block of the unlock.
func scrapLoopBefore(f *ssa.Function, failed ssax.Edge, isMark func(ssa.Instruction) bool, unlock ssa.Instruction) bool {
	if unlock == nil {
		return false
	}
	for _, b := range f.Blocks {
		for _, in := range b.Instrs {
			nx, ok := in.(*ssa.Next)
			if !ok {
				continue
			}
			rg, ok := nx.Iter.(*ssa.Range)
			if !ok {
				continue
			}
			if p, _ := ssax.Path(rg.X); !strings.Contains(p, "writtenCaches") {
				continue
			}
			hdr := nx.Block()
			if !ssax.OnlyViaEdge(failed.From, failed.Succ, hdr) || unlock.Block() == hdr {
				continue
			}
			// on the failed edge every way to the unlock leads through this loop's header
			{
				seenB := map[*ssa.BasicBlock]bool{hdr: true}
				var reach func(x *ssa.BasicBlock) bool
				reach = func(x *ssa.BasicBlock) bool {
					if x == unlock.Block() {
						return true
					}
					if seenB[x] {
						return false
					}
					seenB[x] = true
					for _, s := range x.Succs {
						if reach(s) {
							return true
						}
					}
					return false
				}
				if reach(failed.From.Succs[failed.Succ]) {
					continue
				}
			}
			// the unlock is not in this loop
			if ssax.Reaches(unlock.Block(), hdr) && hdr.Dominates(unlock.Block()) {
				inLoop1 := false
				for _, s := range hdr.Succs {
					if s.Dominates(unlock.Block()) && ssax.Reaches(unlock.Block(), hdr) && ssax.Reaches(s, hdr) {
						inLoop1 = true
					}
				}
				if inLoop1 {
					continue
				}
			}
			// every iteration marks: from the body entry back to the header a mark is passed
			if len(hdr.Succs) != 2 {
				continue
			}
			body := hdr.Succs[0]
			seen := map[*ssa.BasicBlock]bool{}
			var dfs func(x *ssa.BasicBlock) bool
			dfs = func(x *ssa.BasicBlock) bool {
				if x == hdr {
					return false // came round without a mark
				}
				if seen[x] {
					return true
				}
				seen[x] = true
				for _, xi := range x.Instrs {
					if isMark(xi) {
						return true
					}
				}
				if len(x.Succs) == 0 {
					return true
				}
				for _, s := range x.Succs {
					if !dfs(s) {
						return false
					}
				}
				return true
			}
			if dfs(body) {
				return true
			}
		}
	}
	return false
}
