package rules

import (
	"fmt"
	"go/token"
	"go/types"
	"reflect"
	"strconv"
	"strings"

	"golang.org/x/tools/go/ssa"

	"semaverif/internal/core"
	"semaverif/internal/load"
	"semaverif/internal/ssax"
)

// ---------------------------------------------------------------- HANDBUILT
//
// Requests decoded from the wire pass through Validate. A handler that builds an
// internal query by hand (the v1 API translating to the v2 model) bypasses it,
// so the literal itself must satisfy the validator of its type for every
// request the handler's own validator accepts:
//
//	const-in-range   an integer field initialised with a constant lies inside that field's
//	                 documented min/max (binding tag of the models type)
//	relation         for every field-vs-field comparison `A < B -> error` of the type's Validate,
//	                 the lower bound of what the literal puts in A is >= the upper bound of what
//	                 it puts in B, where bounds come from constants and from the binding tags of
//	                 the request fields the values are copied from

type ibound struct {
	lo, hi       int64
	hasLo, hasHi bool
}

func tagBounds(tag string) ibound {
	var b ibound
	for _, part := range strings.Split(reflect.StructTag(tag).Get("binding"), ",") {
		if v, ok := strings.CutPrefix(part, "min="); ok {
			if n, err := strconv.ParseInt(v, 10, 64); err == nil {
				b.lo, b.hasLo = n, true
			}
		}
		if v, ok := strings.CutPrefix(part, "max="); ok {
			if n, err := strconv.ParseInt(v, 10, 64); err == nil {
				b.hi, b.hasHi = n, true
			}
		}
	}
	return b
}

// valueBounds: integer interval of a value built from constants and tagged request fields.
func valueBounds(v ssa.Value, depth int) ibound {
	if depth > 6 {
		return ibound{}
	}
	switch x := v.(type) {
	case *ssa.Const:
		if n, ok := ssax.ConstInt(x); ok {
			return ibound{n, n, true, true}
		}
	case *ssa.Convert:
		return valueBounds(x.X, depth+1)
	case *ssa.Phi:
		var out ibound
		for i, e := range x.Edges {
			b := valueBounds(e, depth+1)
			if i == 0 {
				out = b
				continue
			}
			if !b.hasLo || !out.hasLo {
				out.hasLo = false
			} else if b.lo < out.lo {
				out.lo = b.lo
			}
			if !b.hasHi || !out.hasHi {
				out.hasHi = false
			} else if b.hi > out.hi {
				out.hi = b.hi
			}
		}
		return out
	case *ssa.UnOp:
		if x.Op != token.MUL {
			break
		}
		// load of a struct field: reaching stores first, the field's own tag as the fallback
		var out ibound
		first := true
		for _, o := range ssax.Resolve(x) {
			var b ibound
			if o.Val != ssa.Value(x) && len(o.Path) == 0 {
				b = valueBounds(o.Val, depth+1)
			} else if len(o.Path) > 0 {
				b = fieldTagBounds(o.Val.Type(), o.Path)
			} else if fa, ok := x.X.(*ssa.FieldAddr); ok {
				st := ssax.StructOf(fa.X.Type())
				b = tagBounds(st.Tag(fa.Field))
			}
			if first {
				out, first = b, false
				continue
			}
			if !b.hasLo || !out.hasLo {
				out.hasLo = false
			} else if b.lo < out.lo {
				out.lo = b.lo
			}
			if !b.hasHi || !out.hasHi {
				out.hasHi = false
			} else if b.hi > out.hi {
				out.hi = b.hi
			}
		}
		return out
	case *ssa.Field:
		st := ssax.StructOf(x.X.Type())
		return tagBounds(st.Tag(x.Field))
	}
	return ibound{}
}

func fieldTagBounds(t types.Type, path []string) ibound {
	for i, name := range path {
		st := ssax.StructOf(t)
		if st == nil {
			return ibound{}
		}
		found := false
		for j := 0; j < st.NumFields(); j++ {
			if st.Field(j).Name() == name {
				if i == len(path)-1 {
					return tagBounds(st.Tag(j))
				}
				t = st.Field(j).Type()
				found = true
			}
		}
		if !found {
			return ibound{}
		}
	}
	return ibound{}
}

func HandBuilt(w *load.World, c *core.Collector) {
	props := []string{"C18"}
	n := 0
	for _, f := range w.Fns {
		if !strings.HasPrefix(load.PkgPath(f), load.Mod+"/httpapi/") {
			continue
		}
		for _, b := range f.Blocks {
			for _, in := range b.Instrs {
				al, ok := in.(*ssa.Alloc)
				if !ok || al.Comment != "complit" {
					continue
				}
				named := ssax.NamedOf(al.Type())
				if named == nil || named.Obj().Pkg() == nil || named.Obj().Pkg().Path() != load.Mod+"/models" {
					continue
				}
				st := ssax.StructOf(al.Type())
				if st == nil {
					continue
				}
				val := w.Method("/models", named.Obj().Name(), "Validate")
				if val == nil {
					continue
				}
				// fields initialised by the literal
				init := map[string]ssa.Value{}
				for _, r := range *al.Referrers() {
					fa, ok := r.(*ssa.FieldAddr)
					if !ok {
						continue
					}
					for _, rr := range *fa.Referrers() {
						if s, ok := rr.(*ssa.Store); ok && s.Addr == fa {
							init[st.Field(fa.Field).Name()] = s.Val
						}
					}
				}
				hasInt := false
				for i := 0; i < st.NumFields(); i++ {
					fld := st.Field(i)
					v, ok := init[fld.Name()]
					if !ok {
						continue
					}
					bt, isB := fld.Type().Underlying().(*types.Basic)
					if !isB || bt.Info()&types.IsInteger == 0 {
						continue
					}
					hasInt = true
					tb := tagBounds(st.Tag(i))
					if cv, isC := ssax.ConstInt(v); isC {
						key := fmt.Sprintf("const-in-range:%s.%s@%s", named.Obj().Name(), fld.Name(), load.FnKey(f))
						if (tb.hasLo && cv < tb.lo) || (tb.hasHi && cv > tb.hi) {
							c.Add("HANDBUILT", key, core.Violation, w.At(in), fmt.Sprintf("the handler builds a %s with %s = %d, outside the documented range of that field: the request bypasses Validate and fails deeper down with a 5xx", named.Obj().Name(), fld.Name(), cv), props...)
						} else {
							c.Add("HANDBUILT", key, core.OK, w.At(in), "", props...)
						}
					}
				}
				if !hasInt {
					continue
				}
				n++
				// field-vs-field comparisons of the type's Validate that lead to an error
				for _, vb := range val.Blocks {
					ifi, ok := vb.Instrs[len(vb.Instrs)-1].(*ssa.If)
					if !ok {
						continue
					}
					bo, ok := ifi.Cond.(*ssa.BinOp)
					if !ok {
						continue
					}
					fx, okx := validateField(bo.X, val)
					fy, oky := validateField(bo.Y, val)
					if !okx || !oky || fx == fy {
						continue
					}
					// normalise to "small < big is an error" i.e. requires small >= big ... (A < B -> error) means A must be >= B
					var mustGE, than string
					switch bo.Op {
					case token.LSS:
						mustGE, than = fx, fy
					case token.GTR:
						mustGE, than = fy, fx
					default:
						continue
					}
					// the true edge must be the error edge
					isErr := false
					for _, ii := range vb.Succs[0].Instrs {
						if r, ok := ii.(*ssa.Return); ok && len(r.Results) > 0 && nonNilError(ssax.ReturnOperand(r, 0), vb.Succs[0]) {
							isErr = true
						}
					}
					if !isErr {
						continue
					}
					a, okA := init[mustGE]
					bv, okB := init[than]
					if !okA || !okB {
						continue
					}
					ba, bb := valueBounds(a, 0), valueBounds(bv, 0)
					key := fmt.Sprintf("relation:%s.%s>=%s@%s", named.Obj().Name(), mustGE, than, load.FnKey(f))
					switch {
					case !ba.hasLo || !bb.hasHi:
						c.Add("HANDBUILT", key, core.Undecided, w.At(in), fmt.Sprintf("cannot bound %s from below or %s from above for the hand-built %s", mustGE, than, named.Obj().Name()), props...)
					case ba.lo < bb.hi:
						c.Add("HANDBUILT", key, core.Violation, w.At(in), fmt.Sprintf("the hand-built %s can have %s = %d while %s can be as large as %d; its own Validate rejects %s < %s, the handler never calls it, and the request fails deeper down with a 5xx", named.Obj().Name(), mustGE, ba.lo, than, bb.hi, mustGE, than), props...)
					default:
						c.Add("HANDBUILT", key, core.OK, w.At(in), fmt.Sprintf("%s >= %d, %s <= %d", mustGE, ba.lo, than, bb.hi), props...)
					}
				}
			}
		}
	}
	c.Count("hand_built_model_literals", n)
	if n < 1 {
		c.Add("HANDBUILT", "anchor:literals", core.Undecided, "", "no hand-built models literal with integer fields found in the HTTP handlers (expected the v1 search translation)", props...)
	}
}

// validateField: v is a load of field F of the receiver of Validate.
func validateField(v ssa.Value, f *ssa.Function) (string, bool) {
	for _, o := range ssax.Resolve(v) {
		if len(o.Path) == 1 {
			if p, ok := o.Val.(*ssa.Parameter); ok && len(f.Params) > 0 && p == f.Params[0] {
				return o.Path[0], true
			}
		}
	}
	if fl, ok := v.(*ssa.Field); ok {
		if p, ok := fl.X.(*ssa.Parameter); ok && len(f.Params) > 0 && p == f.Params[0] {
			return ssax.StructOf(p.Type()).Field(fl.Field).Name(), true
		}
	}
	return "", false
}
