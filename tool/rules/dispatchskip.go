package rules

import (
	"fmt"
	"go/constant"
	"go/token"
	"go/types"
	"sort"
	"strings"

	"golang.org/x/tools/go/ssa"

	"semaverif/internal/core"
	"semaverif/internal/load"
	"semaverif/internal/ssax"
)

// changeNotSkipped: the per-index transforms of the dispatch pipeline (the functions handed to
// TransformWithContext) turn a decoded change into the index's own change record. Their second
// result drops the change. A change may be dropped only for a reason that involves both the old
// and the new value (nothing changed): a test on the new value alone ("the new text is empty")
// drops the very update that blanks a field, and the index keeps the old postings for ever.
func changeNotSkipped(w *load.World, c *core.Collector) {
	tw := findFn(w, "utils.TransformWithContext")
	if tw == nil {
		c.Add("DOCFLOW", "anchor:transform", core.Undecided, "", "utils.TransformWithContext not found", "C02")
		return
	}
	fns := map[*ssa.Function]bool{}
	for _, f := range w.Fns {
		if load.PkgPath(f) != load.Mod+"/shard/index" {
			continue
		}
		for _, b := range f.Blocks {
			for _, in := range b.Instrs {
				ci, ok := in.(ssa.CallInstruction)
				if !ok {
					continue
				}
				g := ci.Common().StaticCallee()
				if g == nil || g.Origin() != tw && g != tw {
					continue
				}
				for _, a := range ci.Common().Args {
					for _, h := range funcValuesOf(w, a, 0) {
						fns[h] = true
					}
				}
			}
		}
	}
	if len(fns) < 4 {
		c.Add("DOCFLOW", "anchor:transforms", core.Undecided, "", fmt.Sprintf("found %d transforms handed to TransformWithContext by the index dispatch, expected at least 4", len(fns)), "C02")
	}
	var list []*ssa.Function
	for f := range fns {
		list = append(list, f)
	}
	// a thunk (an instantiation wrapper, a one-line forwarder) hands its callee's results on: the
	// callee is the transform
	for i, f := range list {
		for hop := 0; hop < 2; hop++ {
			var fwd *ssa.Function
			n := 0
			for _, b := range f.Blocks {
				ret, ok := b.Instrs[len(b.Instrs)-1].(*ssa.Return)
				if !ok || len(ret.Results) < 2 {
					continue
				}
				n++
				if ex, ok := ret.Results[1].(*ssa.Extract); ok {
					if call, ok := ex.Tuple.(*ssa.Call); ok {
						if g := call.Call.StaticCallee(); g != nil && ssax.InModule(g) && len(g.Blocks) > 0 {
							fwd = g
						}
					}
				}
			}
			if n == 1 && fwd != nil {
				f = fwd
				list[i] = f
				continue
			}
			break
		}
	}
	sort.Slice(list, func(i, j int) bool { return list[i].String() < list[j].String() })
	done := map[string]bool{}
	for _, f := range list {
		name := f.Name()
		if o := f.Origin(); o != nil {
			name = o.Name()
		}
		if done[name] {
			continue
		}
		done[name] = true
		var props []string
		low := strings.ToLower(name)
		switch {
		case strings.Contains(low, "text"):
			props = []string{"C05"}
		case strings.Contains(low, "vamana"), strings.Contains(low, "vector"):
			props = []string{"C03", "C04"}
		default:
			props = []string{"C02"}
		}
		key := "change-not-skipped:" + name
		if f.Signature.Results().Len() < 2 {
			continue
		}
		// fields of the change a value depends on
		var deps func(v ssa.Value, out map[string]bool, depth int)
		deps = func(v ssa.Value, out map[string]bool, depth int) {
			if depth > 8 || v == nil {
				return
			}
			switch x := v.(type) {
			case *ssa.FieldAddr:
				if strings.HasSuffix(ssax.TypeName(x.X.Type()), "decodedPointChange") {
					out[ssax.StructOf(x.X.Type()).Field(x.Field).Name()] = true
					return
				}
				deps(x.X, out, depth+1)
			case *ssa.Field:
				if strings.HasSuffix(ssax.TypeName(x.X.Type()), "decodedPointChange") {
					out[ssax.StructOf(x.X.Type()).Field(x.Field).Name()] = true
					return
				}
				deps(x.X, out, depth+1)
			case *ssa.Alloc:
				for _, r := range *x.Referrers() {
					if st, ok := r.(*ssa.Store); ok && st.Addr == ssa.Value(x) {
						deps(st.Val, out, depth+1)
					}
				}
			case *ssa.Call:
				for _, a := range x.Call.Args {
					deps(a, out, depth+1)
				}
				if x.Call.IsInvoke() {
					deps(x.Call.Value, out, depth+1)
				}
			case ssa.Instruction:
				for _, op := range x.Operands(nil) {
					if *op != nil {
						deps(*op, out, depth+1)
					}
				}
			}
		}
		// why a block runs: the conditions of the branches that dominate it
		reason := func(b *ssa.BasicBlock) map[string]bool {
			out := map[string]bool{}
			for d := b; d != nil; d = d.Idom() {
				p := d.Idom()
				if p == nil {
					break
				}
				if ifi, ok := p.Instrs[len(p.Instrs)-1].(*ssa.If); ok {
					deps(ifi.Cond, out, 0)
				}
			}
			return out
		}
		bad := ""
		var badAt ssa.Instruction
		judge := func(v ssa.Value, at *ssa.BasicBlock, in ssa.Instruction) {
			why := map[string]bool{}
			if k, ok := v.(*ssa.Const); ok {
				if k.Value == nil || k.Value.Kind() != constant.Bool || !constant.BoolVal(k.Value) {
					return
				}
				why = reason(at)
			} else {
				deps(v, why, 0)
				for k := range reason(at) {
					why[k] = true
				}
			}
			if why["oldData"] && why["newData"] {
				return
			}
			var got []string
			for k := range why {
				got = append(got, k)
			}
			sort.Strings(got)
			bad = "the change is dropped for a reason that involves " + strings.Join(got, ", ")
			if len(got) == 0 {
				bad = "the change is dropped unconditionally"
			}
			badAt = in
		}
		var walk func(v ssa.Value, at *ssa.BasicBlock, in ssa.Instruction, depth int)
		walk = func(v ssa.Value, at *ssa.BasicBlock, in ssa.Instruction, depth int) {
			if depth > 6 {
				return
			}
			switch x := v.(type) {
			case *ssa.Phi:
				for i, e := range x.Edges {
					walk(e, x.Block().Preds[i], in, depth+1)
				}
			case *ssa.UnOp:
				if al, ok := x.X.(*ssa.Alloc); ok && x.Op == token.MUL {
					for _, r := range *al.Referrers() {
						if st, ok := r.(*ssa.Store); ok && st.Addr == ssa.Value(al) {
							walk(st.Val, st.Block(), st, depth+1)
						}
					}
					return
				}
				judge(v, at, in)
			default:
				judge(v, at, in)
			}
		}
		for _, b := range f.Blocks {
			if ret, ok := b.Instrs[len(b.Instrs)-1].(*ssa.Return); ok && len(ret.Results) >= 2 {
				walk(ret.Results[1], b, ret, 0)
			}
		}
		if bad != "" {
			c.Add("DOCFLOW", key, core.Violation, w.At(badAt), bad+", not with a comparison of the old with the new value: an update that sets the field to exactly that value never reaches the index, which keeps answering from the old one", props...)
		} else {
			c.Add("DOCFLOW", key, core.OK, w.Position(f.Pos()), "", props...)
		}
	}
}

// oneTransaction: a batch is all-or-nothing because it is one write transaction. The public
// batch methods of the shard reach the store's Write at exactly one call site, and no call on
// the way there sits in a loop: a batch written slice by slice keeps the slices that committed
// when a later one is refused (a duplicate id in slice two leaves slice one inserted).
func oneTransaction(w *load.World, c *core.Collector) {
	txKind := "Write"
	isWrite := func(ci ssa.CallInstruction) bool {
		cc := ci.Common()
		if cc.IsInvoke() {
			return cc.Method.Name() == txKind && strings.HasSuffix(cc.Value.Type().String(), "diskstore.DiskStore")
		}
		if g := cc.StaticCallee(); g != nil && g.Name() == txKind && strings.HasSuffix(load.PkgPath(g), "/diskstore") {
			return true
		}
		return false
	}
	n := 0
	for _, name := range []string{"InsertPoints", "UpdatePoints", "DeletePoints", "SearchPoints"} {
		txKind = "Write"
		if name == "SearchPoints" {
			// a search answers from one snapshot: the ids the indexes return and the documents
			// read for them come from the same read transaction
			txKind = "Read"
		}
		f := findFn(w, "(*shard.Shard)."+name)
		if f == nil {
			continue
		}
		n++
		props := []string{"C01"}
		if name == "InsertPoints" {
			props = []string{"C01", "C15", "C07"}
		}
		if name == "SearchPoints" {
			props = []string{"C09", "C01"}
		}
		type hit struct {
			at     ssa.Instruction
			looped bool
		}
		var hits []hit
		seen := map[*ssa.Function]bool{}
		var visit func(g *ssa.Function, looped bool, depth int)
		visit = func(g *ssa.Function, looped bool, depth int) {
			if seen[g] || depth > 4 {
				return
			}
			seen[g] = true
			for _, b := range g.Blocks {
				for _, in := range b.Instrs {
					ci, ok := in.(ssa.CallInstruction)
					if !ok {
						continue
					}
					lp := looped || inLoop(b)
					if isWrite(ci) {
						hits = append(hits, hit{in, lp})
						continue
					}
					if h := ci.Common().StaticCallee(); h != nil && load.PkgPath(h) == load.PkgPath(f) && len(h.Blocks) > 0 {
						visit(h, lp, depth+1)
					}
					for ai, a := range ci.Common().Args {
						if mc, ok := a.(*ssa.MakeClosure); ok {
							// a literal (or a bound method) handed to something else runs as often as that
							// something calls it: once when a helper of the module calls its parameter outside
							// any loop, otherwise as often as it likes (the body of a range-over-func loop, a
							// per-item callback)
							often := true
							if h := ci.Common().StaticCallee(); h != nil && ssax.InModule(h) && len(h.Blocks) > 0 {
								pi := ai
								if h.Signature.Recv() == nil && false {
									pi = ai
								}
								if pi < len(h.Params) {
									if once, known := paramCalledOnce(h.Params[pi], 0); known && once {
										often = false
									}
								}
							}
							visit(mc.Fn.(*ssa.Function), lp || often, depth+1)
						}
					}
				}
			}
		}
		visit(f, false, 0)
		key := "one-transaction:" + name
		switch {
		case len(hits) == 0:
			c.Add("DOCFLOW", key, core.Undecided, w.Position(f.Pos()), "no write transaction found under "+name, props...)
		case len(hits) > 1:
			what := "what the first committed stays when a later one is refused, the batch is no longer all-or-nothing"
			if txKind == "Read" {
				what = "a write that commits between them makes the second see other points than the first (a node id from the first can be gone, or given to another point, in the second)"
			}
			c.Add("DOCFLOW", key, core.Violation, w.At(hits[1].at), fmt.Sprintf("%s opens %d %s transactions: %s", name, len(hits), strings.ToLower(txKind), what), props...)
		case hits[0].looped:
			c.Add("DOCFLOW", key, core.Violation, w.At(hits[0].at), name+" opens its write transaction inside a loop: the batch is committed slice by slice, and the slices that committed stay when a later one is refused (duplicate or already stored id), although the request is reported as failed", props...)
		default:
			c.Add("DOCFLOW", key, core.OK, w.At(hits[0].at), "", props...)
		}
	}
	if n < 4 {
		c.Add("DOCFLOW", "anchor:batch-methods", core.Undecided, "", fmt.Sprintf("found %d of the 4 batch and search methods of the shard", n), "C01")
	}
}

// mergeRemovalKeyed: an update removes from the stored document the fields the request names
// with the delete marker, and no others. In the function that unmarshals a stored document into
// a map and marshals that map again, every removal from the map is a delete whose key comes from
// ranging over another map (the request's): a sweep over the merged map by value (DeleteFunc,
// a range over the map itself) also removes stored fields that merely hold the marker string.
func mergeRemovalKeyed(w *load.World, c *core.Collector) {
	props := []string{"C01"}
	n := 0
	for _, f := range w.Fns {
		if load.PkgPath(f) != load.Mod+"/shard" || f.Synthetic != "" {
			continue
		}
		// maps that are unmarshalled into and marshalled from
		into, from := map[*ssa.Alloc]bool{}, map[*ssa.Alloc]bool{}
		asAlloc := func(v ssa.Value) *ssa.Alloc {
			for i := 0; i < 4; i++ {
				switch x := v.(type) {
				case *ssa.MakeInterface:
					v = x.X
				case *ssa.UnOp:
					v = x.X
				case *ssa.Alloc:
					if _, ok := x.Type().Underlying().(*types.Pointer).Elem().Underlying().(*types.Map); ok {
						return x
					}
					return nil
				default:
					return nil
				}
			}
			return nil
		}
		for _, b := range f.Blocks {
			for _, in := range b.Instrs {
				call, ok := in.(*ssa.Call)
				if !ok {
					continue
				}
				switch staticName(call) {
				case "github.com/vmihailenco/msgpack/v5.Unmarshal":
					if a := asAlloc(call.Call.Args[1]); a != nil {
						into[a] = true
					}
				case "github.com/vmihailenco/msgpack/v5.Marshal":
					if a := asAlloc(call.Call.Args[0]); a != nil {
						from[a] = true
					}
				}
			}
		}
		for a := range into {
			if !from[a] {
				continue
			}
			n++
			key := "merge-removal-keyed:" + load.FnKey(f)
			isA := func(v ssa.Value) bool {
				for i := 0; i < 4; i++ {
					switch x := v.(type) {
					case *ssa.UnOp:
						v = x.X
					case *ssa.ChangeType:
						v = x.X
					case *ssa.MakeInterface:
						v = x.X
					case *ssa.Alloc:
						return x == a
					default:
						return false
					}
				}
				return false
			}
			bad := ""
			var badAt ssa.Instruction
			for _, b := range f.Blocks {
				for _, in := range b.Instrs {
					call, ok := in.(*ssa.Call)
					if !ok {
						continue
					}
					if bi, ok := call.Call.Value.(*ssa.Builtin); ok {
						switch bi.Name() {
						case "clear":
							if isA(call.Call.Args[0]) {
								bad, badAt = "the merged document is cleared", in
							}
						case "delete":
							if !isA(call.Call.Args[0]) {
								continue
							}
							// the key: from ranging over a map other than the merged one
							okKey := false
							if ex, ok := call.Call.Args[1].(*ssa.Extract); ok {
								if nx, ok := ex.Tuple.(*ssa.Next); ok {
									if rg, ok := nx.Iter.(*ssa.Range); ok && !isA(rg.X) {
										okKey = true
									}
								}
							}
							if !okKey {
								bad, badAt = "a field is removed from the merged document under a key that does not come from the request's fields", in
							}
						}
						continue
					}
					if g := call.Call.StaticCallee(); g != nil && !ssax.InModule(g) && len(call.Call.Args) > 0 && isA(call.Call.Args[0]) {
						nm, pk := g.Name(), ""
						if o := g.Origin(); o != nil {
							nm = o.Name()
							if o.Pkg != nil {
								pk = o.Pkg.Pkg.Name() + "."
							}
						} else if g.Pkg != nil {
							pk = g.Pkg.Pkg.Name() + "."
						}
						if strings.HasPrefix(nm, "Delete") || nm == "Clear" {
							bad, badAt = "fields are removed from the merged document by "+pk+nm+", which sweeps stored and incoming fields alike", in
						}
					}
				}
			}
			if bad != "" {
				c.Add("DOCFLOW", key, core.Violation, w.At(badAt), bad+": a stored field whose value happens to be the delete marker disappears on an update that never named it", props...)
			} else {
				c.Add("DOCFLOW", key, core.OK, w.Position(a.Pos()), "", props...)
			}
		}
	}
	if n < 1 {
		c.Add("DOCFLOW", "anchor:merge-site", core.Undecided, "", "no function unmarshals a stored document into a map and marshals it again: the update merge was not found", props...)
	}
}

// transformsOf: the functions handed to utils.TransformWithContext anywhere in the module
func transformsOf(w *load.World) []*ssa.Function {
	tw := findFn(w, "utils.TransformWithContext")
	if tw == nil {
		return nil
	}
	set := map[*ssa.Function]bool{}
	for _, f := range w.Fns {
		if !load.InMod(f) {
			continue
		}
		for _, b := range f.Blocks {
			for _, in := range b.Instrs {
				ci, ok := in.(ssa.CallInstruction)
				if !ok {
					continue
				}
				g := ci.Common().StaticCallee()
				if g == nil || g.Origin() != tw && g != tw {
					continue
				}
				for _, a := range ci.Common().Args {
					for _, h := range funcValuesOf(w, a, 0) {
						set[h] = true
					}
				}
			}
		}
	}
	var out []*ssa.Function
	for f := range set {
		out = append(out, f)
	}
	sort.Slice(out, func(i, j int) bool { return out[i].String() < out[j].String() })
	return out
}

// errorNotSkipped: the pipeline stage looks at a transform's skip result before it looks at its
// error. A transform that builds an error (fmt.Errorf, errors.New) therefore returns it with
// skip false: with skip possibly true the stage drops the error and carries on, and the batch
// reports success although one of its points failed.
func errorNotSkipped(w *load.World, c *core.Collector) {
	fns := transformsOf(w)
	if len(fns) < 6 {
		c.Add("DOCFLOW", "anchor:pipeline-transforms", core.Undecided, "", fmt.Sprintf("found %d transforms handed to TransformWithContext, expected at least 6", len(fns)), "C07")
	}
	isBuilt := func(v ssa.Value) bool {
		seen := map[ssa.Value]bool{}
		var rec func(v ssa.Value, d int) bool
		rec = func(v ssa.Value, d int) bool {
			if d > 5 || seen[v] {
				return false
			}
			seen[v] = true
			switch x := v.(type) {
			case *ssa.Call:
				n := staticName(x)
				return n == "fmt.Errorf" || n == "errors.New" || n == "errors.Join"
			case *ssa.Phi:
				for _, e := range x.Edges {
					if rec(e, d+1) {
						return true
					}
				}
			case *ssa.MakeInterface:
				return rec(x.X, d+1)
			}
			return false
		}
		return rec(v, 0)
	}
	done := map[string]bool{}
	for _, f := range fns {
		key := "error-not-skipped:" + load.FnKey(f)
		if o := f.Origin(); o != nil {
			key = "error-not-skipped:" + load.FnKey(o)
		}
		if done[key] || f.Signature.Results().Len() != 3 {
			continue
		}
		done[key] = true
		props := []string{"C07"}
		bad := ""
		for _, b := range f.Blocks {
			ret, ok := b.Instrs[len(b.Instrs)-1].(*ssa.Return)
			if !ok || len(ret.Results) != 3 {
				continue
			}
			errV := ssax.ReturnOperand(ret, 2)
			skipV := ssax.ReturnOperand(ret, 1)
			// the error built on this path: a phi is resolved per incoming edge together with skip
			type pair struct{ e, s ssa.Value }
			pairs := []pair{{errV, skipV}}
			if ep, ok := errV.(*ssa.Phi); ok && ep.Block() == b {
				pairs = nil
				for i, e := range ep.Edges {
					s := skipV
					if sp, ok := skipV.(*ssa.Phi); ok && sp.Block() == b {
						s = sp.Edges[i]
					}
					pairs = append(pairs, pair{e, s})
				}
			}
			for _, p := range pairs {
				if !isBuilt(p.e) {
					continue
				}
				if k, ok := p.s.(*ssa.Const); ok && k.Value != nil && k.Value.Kind() == constant.Bool && !constant.BoolVal(k.Value) {
					continue
				}
				bad = w.At(ret)
			}
		}
		if bad != "" {
			c.Add("DOCFLOW", key, core.Violation, bad, "an error built here is returned with a skip result that is not constantly false: the pipeline stage tests skip first, drops the error and goes on, and the batch reports success although this point failed", props...)
		} else {
			c.Add("DOCFLOW", key, core.OK, w.Position(f.Pos()), "", props...)
		}
	}
}

// funcValuesOf: the functions a function-typed value can be: a literal, a named function, a
// parameter (what the callers pass, per static call site), a captured variable (what was bound),
// a cell assigned once.
func funcValuesOf(w *load.World, v ssa.Value, depth int) []*ssa.Function {
	if depth > 5 || v == nil {
		return nil
	}
	if _, isFn := v.Type().Underlying().(*types.Signature); !isFn {
		if p, isP := v.Type().Underlying().(*types.Pointer); !isP {
			return nil
		} else if _, isFn := p.Elem().Underlying().(*types.Signature); !isFn {
			return nil
		}
	}
	switch x := v.(type) {
	case *ssa.Function:
		if len(x.Blocks) > 0 {
			return []*ssa.Function{x}
		}
	case *ssa.MakeClosure:
		return funcValuesOf(w, x.Fn, depth+1)
	case *ssa.ChangeType:
		return funcValuesOf(w, x.X, depth+1)
	case *ssa.Phi:
		var out []*ssa.Function
		for _, e := range x.Edges {
			out = append(out, funcValuesOf(w, e, depth+1)...)
		}
		return out
	case *ssa.Parameter:
		fn := x.Parent()
		var out []*ssa.Function
		for i, q := range fn.Params {
			if q != x {
				continue
			}
			for _, site := range staticCallSites(w, fn) {
				if i < len(site.Common().Args) {
					out = append(out, funcValuesOf(w, site.Common().Args[i], depth+1)...)
				}
			}
		}
		return out
	case *ssa.FreeVar:
		fn := x.Parent()
		var out []*ssa.Function
		if p := fn.Parent(); p != nil {
			for i, q := range fn.FreeVars {
				if q != x {
					continue
				}
				for _, b := range p.Blocks {
					for _, in := range b.Instrs {
						if mc, ok := in.(*ssa.MakeClosure); ok && mc.Fn == ssa.Value(fn) && i < len(mc.Bindings) {
							out = append(out, funcValuesOf(w, mc.Bindings[i], depth+1)...)
						}
					}
				}
			}
		}
		return out
	case *ssa.Alloc:
		var out []*ssa.Function
		for _, r := range *x.Referrers() {
			if st, ok := r.(*ssa.Store); ok && st.Addr == ssa.Value(x) {
				out = append(out, funcValuesOf(w, st.Val, depth+1)...)
			}
		}
		return out
	case *ssa.UnOp:
		if x.Op == token.MUL {
			return funcValuesOf(w, x.X, depth+1)
		}
	}
	return nil
}

// paramCalledOnce: the function-typed parameter is only ever called, and never from a loop (it may
// be handed on to another function of the module that does the same)
func paramCalledOnce(p *ssa.Parameter, depth int) (once, known bool) {
	if depth > 2 || p.Referrers() == nil {
		return false, false
	}
	vals := []ssa.Value{p}
	// a parameter captured or spilled: follow its cell's loads
	for _, r := range *p.Referrers() {
		if st, ok := r.(*ssa.Store); ok && st.Val == ssa.Value(p) {
			if al, ok := st.Addr.(*ssa.Alloc); ok {
				for _, rr := range *al.Referrers() {
					switch x := rr.(type) {
					case *ssa.UnOp:
						vals = append(vals, x)
					case *ssa.MakeClosure:
						fn := x.Fn.(*ssa.Function)
						for i, b := range x.Bindings {
							if b == ssa.Value(al) {
								for _, fr := range *fn.FreeVars[i].Referrers() {
									if ld, ok := fr.(*ssa.UnOp); ok {
										vals = append(vals, ld)
									}
								}
							}
						}
					}
				}
			} else {
				return false, false
			}
		}
	}
	calls := 0
	for _, v := range vals {
		for _, r := range *v.Referrers() {
			switch x := r.(type) {
			case *ssa.Store, *ssa.DebugRef:
			case *ssa.Call:
				if x.Call.Value == v {
					if inLoop(x.Block()) || x.Parent().Parent() != nil && x.Parent() != p.Parent() {
						// in a loop, or inside a literal (which may itself run many times)
						if inLoop(x.Block()) {
							return false, true
						}
					}
					calls++
					continue
				}
				// handed on
				h := x.Call.StaticCallee()
				if h == nil || !ssax.InModule(h) {
					return false, true
				}
				ok2 := false
				for i, a := range x.Call.Args {
					if a == v && i < len(h.Params) {
						o, k := paramCalledOnce(h.Params[i], depth+1)
						if !k || !o || inLoop(x.Block()) {
							return false, true
						}
						ok2 = true
					}
				}
				if !ok2 {
					return false, true
				}
				calls++
			case *ssa.UnOp:
			default:
				return false, true
			}
		}
	}
	return calls >= 1, true
}
