package rules

import (
	"fmt"
	"go/token"
	"go/types"
	"os"
	"sort"
	"strings"

	"golang.org/x/tools/go/ssa"

	"semaverif/internal/core"
	"semaverif/internal/load"
	"semaverif/internal/ssax"
)

// ------------------------------------------------------------------ DOCFLOW
//
// Every write batch runs points through one closure that (1) changes the point
// store and (2) tells the index dispatcher what changed (IndexPointChange:
// NodeId, PreviousData, NewData). The indexes diff PreviousData against NewData,
// so they stay in step with the point store only if both sides are fed the very
// same values:
//
//	stored=indexed   the document bytes given to SetPoint are the NewData of the change
//	node-id          the node id given to SetPoint / DeletePoint is the NodeId of the change
//	previous=loaded  PreviousData is the Data of the point loaded from the store in this closure
//	merged=marshal   in the update closure the stored document is, on every path, the result of
//	                 marshalling the merged map (never a constant, nil or the request's raw bytes)
//
// Values are compared as sets of (SSA value, field path) origins resolved through
// the local struct cells of the closure (ssax.Resolve), not by name.

func originSet(os []ssax.Origin) map[string]ssax.Origin {
	m := map[string]ssax.Origin{}
	for _, o := range os {
		m[o.Key()] = o
	}
	return m
}

func originNames(m map[string]ssax.Origin) string {
	var xs []string
	for _, o := range m {
		xs = append(xs, o.String())
	}
	sort.Strings(xs)
	return "{" + strings.Join(xs, ", ") + "}"
}

func sameOrigins(a, b map[string]ssax.Origin) bool {
	if len(a) != len(b) || len(a) == 0 {
		return false
	}
	for k := range a {
		if _, ok := b[k]; !ok {
			return false
		}
	}
	return true
}

func DocFlow(w *load.World, c *core.Collector) {
	idLookupComplete(w, c)
	changeNotSkipped(w, c)
	oneTransaction(w, c)
	mergeRemovalKeyed(w, c)
	errorNotSkipped(w, c)
	props := []string{"C01", "C02"}
	n := 0
	for _, f := range w.Fns {
		if load.PkgPath(f) != load.Mod+"/shard" || f.Synthetic != "" {
			continue
		}
		res := f.Signature.Results()
		if res.Len() == 0 || ssax.TypeName(res.At(0).Type()) != "index.IndexPointChange" {
			continue
		}
		// which result is the error, which the flag (skip for a pipeline transform, found for a helper
		// of one: the polarity is read off the not-found return below)
		errIdx, boolIdx := -1, -1
		for i := 1; i < res.Len(); i++ {
			if isErrorType(res.At(i).Type()) {
				errIdx = i
			} else if bt, ok := res.At(i).Type().Underlying().(*types.Basic); ok && bt.Kind() == types.Bool {
				boolIdx = i
			}
		}
		noChange := true
		var setPoint, delPoint, getPoint *ssa.Call
		var delHelper *removalHelper
		for _, b := range f.Blocks {
			for _, in := range b.Instrs {
				call, ok := in.(*ssa.Call)
				if !ok {
					continue
				}
				g := call.Call.StaticCallee()
				if g == nil {
					continue
				}
				switch load.FnKey(g) {
				case "shard/pointstore.SetPoint":
					setPoint = call
				case "shard/pointstore.DeletePoint":
					delPoint = call
				case "shard/pointstore.GetPointByUUID", "shard/pointstore.GetPointByNodeId":
					getPoint = call
				default:
					// a helper that looks a point up and deletes it, handing back what was stored
					if h := pointRemovalHelper(g); h != nil {
						delPoint, getPoint, delHelper = call, call, h
					}
				}
			}
		}
		if setPoint == nil && delPoint == nil {
			continue
		}
		n++
		fk := load.FnKey(f)
		notFound := notFoundEdges(f, delHelper, delPoint)
		if boolIdx >= 0 {
			for _, b := range f.Blocks {
				ret, ok := b.Instrs[len(b.Instrs)-1].(*ssa.Return)
				if !ok || boolIdx >= len(ret.Results) || !onlyViaAny(notFound, b) {
					continue
				}
				if errIdx >= 0 && nonNilError(ssax.ReturnOperand(ret, errIdx), b) {
					continue
				}
				if v, isC := ssax.ConstBool(ssax.ReturnOperand(ret, boolIdx)); isC {
					noChange = v
				}
			}
		}
		// the change record: named result cell or the returned struct value
		changeField := func(name string) map[string]ssax.Origin {
			out := map[string]ssax.Origin{}
			for _, b := range f.Blocks {
				if b == f.Recover {
					continue
				}
				ret, ok := b.Instrs[len(b.Instrs)-1].(*ssa.Return)
				if !ok {
					continue
				}
				// only success returns describe a change
				if errIdx >= 0 && errIdx < len(ret.Results) && nonNilError(ssax.ReturnOperand(ret, errIdx), b) {
					continue
				}
				if boolIdx >= 0 && boolIdx < len(ret.Results) {
					if skip, isC := ssax.ConstBool(ssax.ReturnOperand(ret, boolIdx)); isC && skip == noChange {
						continue
					}
				}
				for k, o := range originSet(ssax.ResolveField(ret.Results[0], name)) {
					out[k] = o
				}
			}
			return out
		}
		isZero := func(m map[string]ssax.Origin) bool {
			for _, o := range m {
				if cst, ok := o.Val.(*ssa.Const); ok && (cst.IsNil() || cst.Value == nil) {
					continue
				}
				if _, isLoad := o.Val.(*ssa.UnOp); isLoad {
					continue // unwritten field of the zeroed result cell
				}
				return false
			}
			return true
		}
		nodeID := changeField("NodeId")
		newData := changeField("NewData")
		prevData := changeField("PreviousData")
		if setPoint != nil {
			stored := originSet(ssax.ResolveField(setPoint.Call.Args[1], "Point", "Data"))
			storedID := originSet(ssax.ResolveField(setPoint.Call.Args[1], "NodeId"))
			if sameOrigins(stored, newData) {
				c.Add("DOCFLOW", "stored=indexed:"+fk, core.OK, w.At(setPoint), originNames(stored), props...)
			} else {
				c.Add("DOCFLOW", "stored=indexed:"+fk, core.Violation, w.At(setPoint),
					fmt.Sprintf("the point store is given the document %s but the indexes are told the new data is %s: index postings would describe a document that is not the stored one", originNames(stored), originNames(newData)), props...)
			}
			if sameOrigins(storedID, nodeID) {
				c.Add("DOCFLOW", "node-id:"+fk, core.OK, w.At(setPoint), originNames(storedID), "C01", "C10")
			} else {
				c.Add("DOCFLOW", "node-id:"+fk, core.Violation, w.At(setPoint),
					fmt.Sprintf("the point is stored under node id %s but the indexes are told %s", originNames(storedID), originNames(nodeID)), "C01", "C10")
			}
		}
		if delPoint != nil {
			var delID map[string]ssax.Origin
			if delHelper != nil {
				// the helper deletes the node id of the point it returns (checked inside the helper)
				if ex := resultValue(delPoint, 0); ex != nil && delHelper.deletesReturned {
					delID = originSet([]ssax.Origin{{Val: ex, Path: []string{"NodeId"}}})
				}
			} else {
				delID = originSet(ssax.Resolve(delPoint.Call.Args[2]))
			}
			if sameOrigins(delID, nodeID) {
				c.Add("DOCFLOW", "node-id:"+fk, core.OK, w.At(delPoint), originNames(delID), "C01", "C10")
			} else {
				c.Add("DOCFLOW", "node-id:"+fk, core.Violation, w.At(delPoint),
					fmt.Sprintf("the point store deletes node id %s but the indexes are told %s", originNames(delID), originNames(nodeID)), "C01", "C10")
			}
			if !isZero(newData) {
				c.Add("DOCFLOW", "deleted-has-no-new-data:"+fk, core.Violation, w.At(delPoint), "a deleted point is reported to the indexes with new data "+originNames(newData), props...)
			} else {
				c.Add("DOCFLOW", "deleted-has-no-new-data:"+fk, core.OK, w.At(delPoint), "", props...)
			}
		}
		// ---- skip discipline: a change is dropped (skip == true) only for an id the store does not know,
		// and never after the point store has been changed
		for _, b := range f.Blocks[:0] {
			ifi, ok := b.Instrs[len(b.Instrs)-1].(*ssa.If)
			if !ok {
				continue
			}
			isNF := func(v ssa.Value) bool {
				u, ok := v.(*ssa.UnOp)
				if !ok {
					return false
				}
				g, ok := u.X.(*ssa.Global)
				return ok && g.Name() == "ErrPointDoesNotExist"
			}
			// errors.Is(err, ErrPointDoesNotExist) (possibly negated) is the same test
			{
				cond, neg := ifi.Cond, false
				if u, ok := cond.(*ssa.UnOp); ok && u.Op == token.NOT {
					cond, neg = u.X, true
				}
				if call, ok := cond.(*ssa.Call); ok {
					if g := call.Call.StaticCallee(); g != nil && g.String() == "errors.Is" && len(call.Call.Args) == 2 && isNF(call.Call.Args[1]) {
						e := 0
						if neg {
							e = 1
						}
						notFound = append(notFound, ssax.Edge{From: b, Succ: e})
						continue
					}
				}
			}
			bo, ok := ifi.Cond.(*ssa.BinOp)
			if !ok || (bo.Op != token.EQL && bo.Op != token.NEQ) {
				continue
			}
			if isNF(bo.X) || isNF(bo.Y) {
				e := 0
				if bo.Op == token.NEQ {
					e = 1
				}
				notFound = append(notFound, ssax.Edge{From: b, Succ: e})
			}
		}
		for _, b := range f.Blocks {
			if b == f.Recover {
				continue
			}
			ret, ok := b.Instrs[len(b.Instrs)-1].(*ssa.Return)
			if !ok || boolIdx < 0 || boolIdx >= len(ret.Results) {
				continue
			}
			skip, isC := ssax.ConstBool(ssax.ReturnOperand(ret, boolIdx))
			mayskip := !isC || skip == noChange
			if isC && skip != noChange {
				continue
			}
			if errIdx >= 0 && errIdx < len(ret.Results) && nonNilError(ssax.ReturnOperand(ret, errIdx), b) {
				continue
			}
			_ = mayskip
			if os.Getenv("SEMA_DEBUG") != "" {
				fmt.Fprintf(os.Stderr, "DEBUG skip return at %s in %s notFound=%d via=%v\n", w.At(ret), fk, len(notFound), onlyViaAny(notFound, b))
			}
			key := "skip-only-unknown:" + fk
			switch {
			case onlyViaAny(notFound, b):
				c.Add("DOCFLOW", key, core.OK, w.At(ret), "", props...)
			default:
				c.Add("DOCFLOW", key, core.Violation, w.At(ret), "the closure can drop a change (skip) on a path that is not the \"point does not exist\" branch: a stored point is treated like an unknown id — it is not reported as processed and the indexes never hear of the change", props...)
			}
			for _, st := range []*ssa.Call{setPoint, delPoint} {
				if st != nil && st == delPoint && delHelper != nil && delHelper.foundResult >= 0 && onlyViaAny(notFound, b) {
					continue // the helper found nothing, so it deleted nothing
				}
				if st != nil && ssax.Reaches(st.Block(), b) && (st.Block() != b || true) && canReachInstr(st, ret) {
					c.Add("DOCFLOW", "no-skip-after-store:"+fk, core.Violation, w.At(ret), "the point store is changed and the change is then dropped (skip) instead of being handed to the index dispatcher: the indexes keep describing the old document", props...)
				}
			}
		}
		if setPoint != nil || delPoint != nil {
			c.Add("DOCFLOW", "no-skip-after-store:"+fk, core.OK, w.Position(f.Pos()), "", props...)
		}
		// ---- insert: the existence test and the write happen in the same closure (same storage
		// transaction): SetPoint only behind the "does not exist" edge of CheckPointExists on the same bucket
		if setPoint != nil && getPoint == nil {
			var exists []ssax.Edge
			for _, b := range f.Blocks {
				for _, in := range b.Instrs {
					call, ok := in.(*ssa.Call)
					if !ok || call.Call.StaticCallee() == nil || load.FnKey(call.Call.StaticCallee()) != "shard/pointstore.CheckPointExists" {
						continue
					}
					pa, _ := ssax.Path(call.Call.Args[0])
					pb, _ := ssax.Path(setPoint.Call.Args[0])
					if pa != pb {
						continue
					}
					ex := resultValue(call, 0)
					if ex == nil {
						continue
					}
					for _, bb := range f.Blocks {
						ifi, ok := bb.Instrs[len(bb.Instrs)-1].(*ssa.If)
						if !ok {
							continue
						}
						cond, neg := ifi.Cond, false
						if u, ok := cond.(*ssa.UnOp); ok && u.Op == token.NOT {
							cond, neg = u.X, true
						}
						if r := ssax.Resolve(cond); len(r) == 1 && r[0].Val == ex && len(r[0].Path) == 0 || cond == ex {
							e := 1
							if neg {
								e = 0
							}
							exists = append(exists, ssax.Edge{From: bb, Succ: e})
						}
					}
				}
			}
			if onlyViaAny(exists, setPoint.Block()) {
				c.Add("DOCFLOW", "insert-after-existence-test:"+fk, core.OK, w.At(setPoint), "", "C01")
			} else {
				c.Add("DOCFLOW", "insert-after-existence-test:"+fk, core.Violation, w.At(setPoint), "a point is inserted without the closure having tested, on the same bucket and therefore in the same storage transaction, that its id is not stored yet: two batches carrying the same new id can both be accepted", "C01")
			}
		}
		if getPoint != nil {
			loaded := map[string]ssax.Origin{}
			if ex := resultValue(getPoint, 0); ex != nil {
				loaded = originSet([]ssax.Origin{{Val: ex, Path: []string{"Point", "Data"}}})
				// ShardPoint embeds models.Point: both spellings of the path name the same field
				alt := originSet([]ssax.Origin{{Val: ex, Path: []string{"Data"}}})
				if sameOrigins(prevData, alt) {
					loaded = alt
				}
			}
			if sameOrigins(prevData, loaded) {
				c.Add("DOCFLOW", "previous=loaded:"+fk, core.OK, w.At(getPoint), originNames(prevData), props...)
			} else {
				c.Add("DOCFLOW", "previous=loaded:"+fk, core.Violation, w.At(getPoint),
					fmt.Sprintf("the indexes are told the previous data is %s, not the document loaded from the point store %s: stale postings would survive the change", originNames(prevData), originNames(loaded)), props...)
			}
			// update closure: what is stored is the marshalled merge, on every path
			if setPoint != nil {
				bad := ""
				for _, o := range originSet(ssax.ResolveField(setPoint.Call.Args[1], "Point", "Data")) {
					okM := len(o.Path) == 0 && isMarshalResult(o.Val, 0)
					if !okM {
						bad = o.String()
					}
				}
				if bad != "" {
					c.Add("DOCFLOW", "merged=marshal:"+fk, core.Violation, w.At(setPoint), "an update can store "+bad+" instead of the marshalled merge of the stored and the incoming document", "C01")
				} else {
					c.Add("DOCFLOW", "merged=marshal:"+fk, core.OK, w.At(setPoint), "", "C01")
				}
				// the size limit is tested on what is stored: where the closure compares a length with the
				// plan's MaxPointSize, the value measured is the very value that goes into the point store
				// (the merged document, which can exceed the limit when the request's own payload does not)
				stored := map[ssa.Value]bool{}
				for _, o := range originSet(ssax.ResolveField(setPoint.Call.Args[1], "Point", "Data")) {
					if len(o.Path) == 0 {
						stored[o.Val] = true
					}
				}
				nCmp, okCmp := 0, false
				for _, bb := range f.Blocks {
					for _, ii := range bb.Instrs {
						bo, ok := ii.(*ssa.BinOp)
						if !ok {
							continue
						}
						for _, pr := range [][2]ssa.Value{{bo.X, bo.Y}, {bo.Y, bo.X}} {
							lc, ok := pr[0].(*ssa.Call)
							if !ok {
								continue
							}
							if bi, ok := lc.Call.Value.(*ssa.Builtin); !ok || bi.Name() != "len" {
								continue
							}
							if !ssax.Prov(pr[1])["field:MaxPointSize"] && !deepHas(w, pr[1], "field:MaxPointSize") {
								continue
							}
							nCmp++
							if stored[lc.Call.Args[0]] && ssax.Precedes(bo, setPoint) {
								okCmp = true
							}
						}
					}
				}
				if nCmp > 0 {
					if okCmp {
						c.Add("DOCFLOW", "size-of-stored:"+fk, core.OK, w.At(setPoint), "", "C01", "C18")
					} else {
						c.Add("DOCFLOW", "size-of-stored:"+fk, core.Violation, w.At(setPoint), "the point size limit is tested on a value other than the one that is stored (the request's payload instead of the merged document): an update that fits by itself can push the stored document over the limit", "C01", "C18")
					}
				}
			}
		} else if !isZero(prevData) && setPoint != nil {
			c.Add("DOCFLOW", "previous=loaded:"+fk, core.Violation, w.At(setPoint), "previous data "+originNames(prevData)+" is reported for a point that was not loaded from the store", props...)
		}
	}
	c.Count("point_change_closures", n)
	if n < 3 {
		c.Add("DOCFLOW", "anchor:closures", core.Undecided, "", fmt.Sprintf("found %d closures that change the point store and report an IndexPointChange, expected 3", n), props...)
	}
}

// canReachInstr: instruction b can execute after instruction a.
func canReachInstr(a, b ssa.Instruction) bool {
	if a.Block() == b.Block() {
		if ssax.InstrIndex(a) < ssax.InstrIndex(b) {
			return true
		}
	}
	for _, s := range a.Block().Succs {
		if ssax.Reaches(s, b.Block()) {
			return true
		}
	}
	return false
}

// isMarshalResult: v is the encoded output of msgpack.Marshal, directly or as the
// corresponding result of a module helper all of whose returns yield such a
// value (or nil on its error paths).
func isMarshalResult(v ssa.Value, depth int) bool {
	if depth > 3 {
		return false
	}
	var call *ssa.Call
	idx := 0
	switch x := v.(type) {
	case *ssa.Extract:
		call, _ = x.Tuple.(*ssa.Call)
		idx = x.Index
	case *ssa.Call:
		call = x
	case *ssa.Phi:
		for _, e := range x.Edges {
			if !ssax.IsNilConst(e) && !isMarshalResult(e, depth+1) {
				return false
			}
		}
		return len(x.Edges) > 0
	}
	if call == nil {
		return false
	}
	g := call.Call.StaticCallee()
	if g == nil {
		return false
	}
	if strings.HasSuffix(g.String(), "msgpack/v5.Marshal") {
		return idx == 0
	}
	if !ssax.InModule(g) || len(g.Blocks) == 0 {
		return false
	}
	found := false
	for _, b := range g.Blocks {
		ret, ok := b.Instrs[len(b.Instrs)-1].(*ssa.Return)
		if !ok || idx >= len(ret.Results) {
			continue
		}
		r := ret.Results[idx]
		if ssax.IsNilConst(r) {
			continue
		}
		if !isMarshalResult(r, depth+1) {
			return false
		}
		found = true
	}
	return found
}

// idLookupComplete: a read by ids looks every requested id up. In searchById the loop over the
// ids is left only when the list is exhausted or with an error: an id that is not stored is
// skipped (continue), it does not end the loop — the ids listed after it would silently be
// missing from the answer, and from every _and/_or tree the answer is combined into.
func idLookupComplete(w *load.World, c *core.Collector) {
	props := []string{"C01", "C02"}
	f := findFn(w, "(shard/index.indexManager).searchById")
	if f == nil {
		c.Add("DOCFLOW", "anchor:searchById", core.Undecided, "", "indexManager.searchById not found", props...)
		return
	}
	isLookup := func(in ssa.Instruction) bool {
		call, ok := in.(*ssa.Call)
		return ok && call.Call.StaticCallee() != nil && strings.Contains(call.Call.StaticCallee().Name(), "GetPointNodeIdByUUID")
	}
	f = homeOf(f, func(g *ssa.Function) bool {
		for _, b := range g.Blocks {
			for _, in := range b.Instrs {
				if isLookup(in) && inLoop(b) {
					return true
				}
			}
		}
		return false
	})
	var lb *ssa.BasicBlock
	for _, b := range f.Blocks {
		for _, in := range b.Instrs {
			if isLookup(in) && inLoop(b) {
				lb = b
			}
		}
	}
	if lb == nil {
		c.Add("DOCFLOW", "id-lookup-complete", core.OK, w.Position(f.Pos()), "no loop: a single id", props...)
		return
	}
	loop := map[*ssa.BasicBlock]bool{}
	for _, b := range f.Blocks {
		if b == lb || (ssax.Reaches(lb, b) && ssax.Reaches(b, lb)) {
			loop[b] = true
		}
	}
	succ := map[*ssa.BasicBlock]bool{}
	for _, ex := range successExits(f) {
		succ[ex.In.Block()] = true
	}
	reachesSuccess := func(from *ssa.BasicBlock) bool {
		for sb := range succ {
			if from == sb || ssax.Reaches(from, sb) {
				return true
			}
		}
		return false
	}
	bad := ""
	for b := range loop {
		for i, sc := range b.Succs {
			if loop[sc] {
				continue
			}
			// the exhaustion test of a range loop: index < len, or the ok of next()
			exhausted := false
			if ifi, ok := b.Instrs[len(b.Instrs)-1].(*ssa.If); ok && i == 1 {
				switch x := ifi.Cond.(type) {
				case *ssa.BinOp:
					if x.Op == token.LSS {
						if lc, ok := x.Y.(*ssa.Call); ok {
							if bi, ok := lc.Call.Value.(*ssa.Builtin); ok && bi.Name() == "len" {
								exhausted = true
							}
						}
					}
				case *ssa.Extract:
					if _, isNext := x.Tuple.(*ssa.Next); isNext && x.Index == 0 {
						exhausted = true
					}
				}
			}
			if !exhausted && reachesSuccess(sc) {
				bad = w.At(b.Instrs[len(b.Instrs)-1])
			}
		}
	}
	if bad != "" {
		c.Add("DOCFLOW", "id-lookup-complete", core.Violation, bad, "the loop over the requested ids can be left early on a path that still reports success: ids listed after that point are never looked up and are silently missing from the result", props...)
	} else {
		c.Add("DOCFLOW", "id-lookup-complete", core.OK, w.Position(f.Pos()), "", props...)
	}
}

// notFoundEdges: the branch edges of f taken exactly when the point store said "point does not
// exist": comparisons of an error with ErrPointDoesNotExist (also errors.Is), and tests of the
// found result of a removal helper (via, at call site).
func notFoundEdges(f *ssa.Function, via *removalHelper, at *ssa.Call) []ssax.Edge {
	var notFound []ssax.Edge
	isNF := func(v ssa.Value) bool {
		u, ok := v.(*ssa.UnOp)
		if !ok {
			return false
		}
		g, ok := u.X.(*ssa.Global)
		return ok && g.Name() == "ErrPointDoesNotExist"
	}
	for _, b := range f.Blocks {
		ifi, ok := b.Instrs[len(b.Instrs)-1].(*ssa.If)
		if !ok {
			continue
		}
		cond, neg := ifi.Cond, false
		if u, ok := cond.(*ssa.UnOp); ok && u.Op == token.NOT {
			cond, neg = u.X, true
		}
		if call, ok := cond.(*ssa.Call); ok {
			if g := call.Call.StaticCallee(); g != nil && g.String() == "errors.Is" && len(call.Call.Args) == 2 && isNF(call.Call.Args[1]) {
				e := 0
				if neg {
					e = 1
				}
				notFound = append(notFound, ssax.Edge{From: b, Succ: e})
				continue
			}
		}
		if via != nil && via.foundResult >= 0 && at != nil {
			if ex, ok := cond.(*ssa.Extract); ok && ex.Tuple == ssa.Value(at) && ex.Index == via.foundResult {
				// found is false: the point was not there (or the helper failed, and then the error is returned)
				e := 1
				if neg {
					e = 0
				}
				notFound = append(notFound, ssax.Edge{From: b, Succ: e})
				continue
			}
		}
		bo, ok := ifi.Cond.(*ssa.BinOp)
		if !ok || (bo.Op != token.EQL && bo.Op != token.NEQ) {
			continue
		}
		if isNF(bo.X) || isNF(bo.Y) {
			e := 0
			if bo.Op == token.NEQ {
				e = 1
			}
			notFound = append(notFound, ssax.Edge{From: b, Succ: e})
		}
	}
	return notFound
}

// removalHelper describes a point store helper that looks a point up, deletes it and returns
// what was stored: (ShardPoint, found bool, error) or (ShardPoint, error).
type removalHelper struct {
	fn              *ssa.Function
	get, del        *ssa.Call
	deletesReturned bool // the node id it deletes is the node id of the point it returns
	foundResult     int  // index of a bool result that is false, with a nil error, only when the point does not exist; -1 if none
}

var removalHelpers = map[*ssa.Function]*removalHelper{}

func pointRemovalHelper(g *ssa.Function) *removalHelper {
	if h, ok := removalHelpers[g]; ok {
		return h
	}
	removalHelpers[g] = nil
	if !ssax.InModule(g) || len(g.Blocks) == 0 || !strings.Contains(load.PkgPath(g), "/shard") {
		return nil
	}
	res := g.Signature.Results()
	if res.Len() < 2 || ssax.TypeName(res.At(0).Type()) != "pointstore.ShardPoint" {
		return nil
	}
	h := &removalHelper{fn: g, foundResult: -1}
	for _, b := range g.Blocks {
		for _, in := range b.Instrs {
			call, ok := in.(*ssa.Call)
			if !ok || call.Call.StaticCallee() == nil {
				continue
			}
			switch load.FnKey(call.Call.StaticCallee()) {
			case "shard/pointstore.DeletePoint":
				h.del = call
			case "shard/pointstore.GetPointByUUID", "shard/pointstore.GetPointByNodeId":
				h.get = call
			}
		}
	}
	if h.del == nil || h.get == nil {
		return nil
	}
	errIdx := res.Len() - 1
	nf := notFoundEdges(g, nil, nil)
	// what is returned on success, and the found flag
	retID := map[string]ssax.Origin{}
	foundOK := res.Len() == 3 && types.Identical(res.At(1).Type().Underlying(), types.Typ[types.Bool])
	for _, b := range g.Blocks {
		ret, ok := b.Instrs[len(b.Instrs)-1].(*ssa.Return)
		if !ok {
			continue
		}
		if nonNilError(ssax.ReturnOperand(ret, errIdx), b) {
			continue
		}
		if res.Len() == 3 {
			fv, isC := ssax.ConstBool(ssax.ReturnOperand(ret, 1))
			switch {
			case !isC:
				foundOK = false
			case !fv:
				if !onlyViaAny(nf, b) {
					foundOK = false
				}
				continue // nothing was found: the returned point is the zero value
			}
		}
		for k, o := range originSet(ssax.ResolveField(ret.Results[0], "NodeId")) {
			retID[k] = o
		}
	}
	if foundOK {
		h.foundResult = 1
	}
	h.deletesReturned = sameOrigins(originSet(ssax.Resolve(h.del.Call.Args[2])), retID)
	removalHelpers[g] = h
	return h
}
