package rules

import (
	"fmt"
	"sort"
	"strings"

	"golang.org/x/tools/go/ssa"

	"semaverif/internal/core"
	"semaverif/internal/load"
	"semaverif/internal/ssax"
)

// ------------------------------------------------------------------ DOCFLOW
//
// Every write batch runs points through one closure that (1) changes the point
// store and (2) tells the index dispatcher what changed (IndexPointChange:
// NodeId, PreviousData, NewData). The indexes diff PreviousData against NewData,
// so they stay in step with the point store only if both sides are fed the very
// same values:
//
//	stored=indexed   the document bytes given to SetPoint are the NewData of the change
//	node-id          the node id given to SetPoint / DeletePoint is the NodeId of the change
//	previous=loaded  PreviousData is the Data of the point loaded from the store in this closure
//	merged=marshal   in the update closure the stored document is, on every path, the result of
//	                 marshalling the merged map (never a constant, nil or the request's raw bytes)
//
// Values are compared as sets of (SSA value, field path) origins resolved through
// the local struct cells of the closure (ssax.Resolve), not by name.

func originSet(os []ssax.Origin) map[string]ssax.Origin {
	m := map[string]ssax.Origin{}
	for _, o := range os {
		m[o.Key()] = o
	}
	return m
}

func originNames(m map[string]ssax.Origin) string {
	var xs []string
	for _, o := range m {
		xs = append(xs, o.String())
	}
	sort.Strings(xs)
	return "{" + strings.Join(xs, ", ") + "}"
}

func sameOrigins(a, b map[string]ssax.Origin) bool {
	if len(a) != len(b) || len(a) == 0 {
		return false
	}
	for k := range a {
		if _, ok := b[k]; !ok {
			return false
		}
	}
	return true
}

func DocFlow(w *load.World, c *core.Collector) {
	props := []string{"C01", "C02"}
	n := 0
	for _, f := range w.Fns {
		if load.PkgPath(f) != load.Mod+"/shard" || f.Parent() == nil {
			continue
		}
		res := f.Signature.Results()
		if res.Len() == 0 || ssax.TypeName(res.At(0).Type()) != "index.IndexPointChange" {
			continue
		}
		var setPoint, delPoint, getPoint *ssa.Call
		for _, b := range f.Blocks {
			for _, in := range b.Instrs {
				call, ok := in.(*ssa.Call)
				if !ok {
					continue
				}
				g := call.Call.StaticCallee()
				if g == nil {
					continue
				}
				switch load.FnKey(g) {
				case "shard/pointstore.SetPoint":
					setPoint = call
				case "shard/pointstore.DeletePoint":
					delPoint = call
				case "shard/pointstore.GetPointByUUID", "shard/pointstore.GetPointByNodeId":
					getPoint = call
				}
			}
		}
		if setPoint == nil && delPoint == nil {
			continue
		}
		n++
		fk := load.FnKey(f)
		// the change record: named result cell or the returned struct value
		changeField := func(name string) map[string]ssax.Origin {
			out := map[string]ssax.Origin{}
			for _, b := range f.Blocks {
				if b == f.Recover {
					continue
				}
				ret, ok := b.Instrs[len(b.Instrs)-1].(*ssa.Return)
				if !ok {
					continue
				}
				// only success returns describe a change
				if len(ret.Results) >= 3 && nonNilError(ssax.ReturnOperand(ret, 2), b) {
					continue
				}
				if len(ret.Results) >= 2 {
					if skip, isC := ssax.ConstBool(ssax.ReturnOperand(ret, 1)); isC && skip {
						continue
					}
				}
				for k, o := range originSet(ssax.ResolveField(ret.Results[0], name)) {
					out[k] = o
				}
			}
			return out
		}
		isZero := func(m map[string]ssax.Origin) bool {
			for _, o := range m {
				if cst, ok := o.Val.(*ssa.Const); ok && (cst.IsNil() || cst.Value == nil) {
					continue
				}
				if _, isLoad := o.Val.(*ssa.UnOp); isLoad {
					continue // unwritten field of the zeroed result cell
				}
				return false
			}
			return true
		}
		nodeID := changeField("NodeId")
		newData := changeField("NewData")
		prevData := changeField("PreviousData")
		if setPoint != nil {
			stored := originSet(ssax.ResolveField(setPoint.Call.Args[1], "Point", "Data"))
			storedID := originSet(ssax.ResolveField(setPoint.Call.Args[1], "NodeId"))
			if sameOrigins(stored, newData) {
				c.Add("DOCFLOW", "stored=indexed:"+fk, core.OK, w.At(setPoint), originNames(stored), props...)
			} else {
				c.Add("DOCFLOW", "stored=indexed:"+fk, core.Violation, w.At(setPoint),
					fmt.Sprintf("the point store is given the document %s but the indexes are told the new data is %s: index postings would describe a document that is not the stored one", originNames(stored), originNames(newData)), props...)
			}
			if sameOrigins(storedID, nodeID) {
				c.Add("DOCFLOW", "node-id:"+fk, core.OK, w.At(setPoint), originNames(storedID), "C01", "C10")
			} else {
				c.Add("DOCFLOW", "node-id:"+fk, core.Violation, w.At(setPoint),
					fmt.Sprintf("the point is stored under node id %s but the indexes are told %s", originNames(storedID), originNames(nodeID)), "C01", "C10")
			}
		}
		if delPoint != nil {
			delID := originSet(ssax.Resolve(delPoint.Call.Args[2]))
			if sameOrigins(delID, nodeID) {
				c.Add("DOCFLOW", "node-id:"+fk, core.OK, w.At(delPoint), originNames(delID), "C01", "C10")
			} else {
				c.Add("DOCFLOW", "node-id:"+fk, core.Violation, w.At(delPoint),
					fmt.Sprintf("the point store deletes node id %s but the indexes are told %s", originNames(delID), originNames(nodeID)), "C01", "C10")
			}
			if !isZero(newData) {
				c.Add("DOCFLOW", "deleted-has-no-new-data:"+fk, core.Violation, w.At(delPoint), "a deleted point is reported to the indexes with new data "+originNames(newData), props...)
			} else {
				c.Add("DOCFLOW", "deleted-has-no-new-data:"+fk, core.OK, w.At(delPoint), "", props...)
			}
		}
		if getPoint != nil {
			loaded := map[string]ssax.Origin{}
			if ex := resultValue(getPoint, 0); ex != nil {
				loaded = originSet([]ssax.Origin{{Val: ex, Path: []string{"Point", "Data"}}})
				// ShardPoint embeds models.Point: both spellings of the path name the same field
				alt := originSet([]ssax.Origin{{Val: ex, Path: []string{"Data"}}})
				if sameOrigins(prevData, alt) {
					loaded = alt
				}
			}
			if sameOrigins(prevData, loaded) {
				c.Add("DOCFLOW", "previous=loaded:"+fk, core.OK, w.At(getPoint), originNames(prevData), props...)
			} else {
				c.Add("DOCFLOW", "previous=loaded:"+fk, core.Violation, w.At(getPoint),
					fmt.Sprintf("the indexes are told the previous data is %s, not the document loaded from the point store %s: stale postings would survive the change", originNames(prevData), originNames(loaded)), props...)
			}
			// update closure: what is stored is the marshalled merge, on every path
			if setPoint != nil {
				bad := ""
				for _, o := range originSet(ssax.ResolveField(setPoint.Call.Args[1], "Point", "Data")) {
					ex, ok := o.Val.(*ssa.Extract)
					okM := false
					if ok && len(o.Path) == 0 {
						if call, ok := ex.Tuple.(*ssa.Call); ok && call.Call.StaticCallee() != nil && strings.HasSuffix(call.Call.StaticCallee().String(), "msgpack/v5.Marshal") {
							okM = true
						}
					}
					if !okM {
						bad = o.String()
					}
				}
				if bad != "" {
					c.Add("DOCFLOW", "merged=marshal:"+fk, core.Violation, w.At(setPoint), "an update can store "+bad+" instead of the marshalled merge of the stored and the incoming document", "C01")
				} else {
					c.Add("DOCFLOW", "merged=marshal:"+fk, core.OK, w.At(setPoint), "", "C01")
				}
			}
		} else if !isZero(prevData) && setPoint != nil {
			c.Add("DOCFLOW", "previous=loaded:"+fk, core.Violation, w.At(setPoint), "previous data "+originNames(prevData)+" is reported for a point that was not loaded from the store", props...)
		}
	}
	c.Count("point_change_closures", n)
	if n < 3 {
		c.Add("DOCFLOW", "anchor:closures", core.Undecided, "", fmt.Sprintf("found %d closures that change the point store and report an IndexPointChange, expected 3", n), props...)
	}
}
