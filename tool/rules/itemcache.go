package rules

import (
	"fmt"
	"go/token"
	"strings"

	"golang.org/x/tools/go/ssa"

	"semaverif/internal/core"
	"semaverif/internal/load"
	"semaverif/internal/ssax"
)

// ---------------------------------------------------------------- ITEMFLAGS
//
// The item cache keeps two flags per element: IsDirty (Flush must write it) and
// IsDeleted (Flush must remove it; readers must not see it). The rule checks the
// protocol around them on the generic origin of cache.ItemCache:
//
//	put-live      on every path through Put the element registered for the id is dirty and
//	              not deleted: a fresh element, or an existing one whose IsDeleted is cleared
//	read-skips    Get, GetMany and ForEach hand out the value of a cached element only behind
//	              the "not deleted" edge of a test of that element's IsDeleted
//	flush-obeys   Flush calls DeleteFrom behind IsDeleted and WriteTo behind the dirty test
//	delete-marks  Delete sets IsDeleted on both of its paths (cached / read from disk)

func itemCacheMethod(w *load.World, name string) *ssa.Function {
	for _, f := range w.Fns {
		if f.Name() == name && f.Signature.Recv() != nil && ssax.TypeName(f.Signature.Recv().Type()) == "cache.ItemCache" && f.Parent() == nil {
			// prefer an instantiation (bodies of the generic origin are not built when instantiated)
			return f
		}
	}
	return nil
}

// elemField: v is the address of field `name` of an itemCacheElem; returns the elem value.
func elemField(v ssa.Value, name string) (ssa.Value, bool) {
	fa, ok := v.(*ssa.FieldAddr)
	if !ok || ssax.TypeName(fa.X.Type()) != "cache.itemCacheElem" {
		return nil, false
	}
	if ssax.StructOf(fa.X.Type()).Field(fa.Field).Name() != name {
		return nil, false
	}
	return fa.X, true
}

func isFreshElem(v ssa.Value) bool {
	if al, ok := v.(*ssa.Alloc); ok {
		return al.Heap
	}
	// an element a helper of the cache built and returned (read-through): as fresh as one built here
	switch v.(type) {
	case *ssa.Call, *ssa.Extract:
		_, fresh := ssax.Path(v)
		return fresh
	}
	return false
}

func ItemFlags(w *load.World, c *core.Collector) {
	where := func(f *ssa.Function) string { return w.Position(f.Pos()) }
	// ---- put-live
	props := []string{"C10", "C08", "C01"}
	put := itemCacheMethod(w, "Put")
	if put == nil {
		c.Add("ITEMFLAGS", "anchor:Put", core.Undecided, "", "cache.ItemCache.Put not found", props...)
	} else {
		type pstate struct {
			freshRegistered, freshDirty          bool
			reusedValue, reusedDirty, reusedLive bool
		}
		var bad []string
		npaths := 0
		var dfs func(b *ssa.BasicBlock, st pstate, seen map[*ssa.BasicBlock]bool)
		dfs = func(b *ssa.BasicBlock, st pstate, seen map[*ssa.BasicBlock]bool) {
			if seen[b] || b == put.Recover {
				return
			}
			seen[b] = true
			defer delete(seen, b)
			for _, in := range b.Instrs {
				switch x := in.(type) {
				case *ssa.Store:
					if e, ok := elemField(x.Addr, "IsDirty"); ok {
						if v, isC := ssax.ConstBool(x.Val); isC && v {
							if isFreshElem(e) {
								st.freshDirty = true
							} else {
								st.reusedDirty = true
							}
						}
					}
					if e, ok := elemField(x.Addr, "IsDeleted"); ok && !isFreshElem(e) {
						if v, isC := ssax.ConstBool(x.Val); isC && !v {
							st.reusedLive = true
						}
					}
					if e, ok := elemField(x.Addr, "value"); ok && !isFreshElem(e) {
						st.reusedValue = true
					}
				case *ssa.MapUpdate:
					if isFreshElem(x.Value) {
						st.freshRegistered = true
					}
				case *ssa.Return:
					npaths++
					switch {
					case st.freshRegistered && st.freshDirty:
					case st.reusedValue && st.reusedDirty && st.reusedLive:
					case st.reusedValue && !st.reusedLive:
						bad = append(bad, "a path through Put reuses the cached element without clearing IsDeleted: an id deleted and put again in one transaction is removed by the next Flush")
					case st.reusedValue && !st.reusedDirty:
						bad = append(bad, "a path through Put reuses the cached element without marking it dirty: the new value never reaches disk")
					case st.freshRegistered && !st.freshDirty:
						bad = append(bad, "a path through Put registers an element that is not dirty: the new value never reaches disk")
					default:
						bad = append(bad, "a path through Put neither registers a new element nor updates the cached one")
					}
				}
			}
			for _, s := range b.Succs {
				dfs(s, st, seen)
			}
		}
		dfs(put.Blocks[0], pstate{}, map[*ssa.BasicBlock]bool{})
		if len(bad) > 0 {
			c.Add("ITEMFLAGS", "put-live", core.Violation, where(put), strings.Join(dedupeSorted(bad), "; "), props...)
		} else if npaths == 0 {
			c.Add("ITEMFLAGS", "put-live", core.Undecided, where(put), "no return path found in Put", props...)
		} else {
			c.Add("ITEMFLAGS", "put-live", core.OK, where(put), fmt.Sprintf("%d paths", npaths), props...)
		}
	}
	// ---- read-skips
	rprops := []string{"C10", "C01", "C08"}
	n := 0
	for _, name := range []string{"Get", "GetMany", "ForEach"} {
		f := itemCacheMethod(w, name)
		if f == nil {
			c.Add("ITEMFLAGS", "anchor:"+name, core.Undecided, "", "cache.ItemCache."+name+" not found", rprops...)
			continue
		}
		fns := []*ssa.Function{f}
		fns = append(fns, f.AnonFuncs...)
		// helpers of the cache that the method leaves the lookup to
		for _, g := range append([]*ssa.Function{}, fns...) {
			for _, b := range g.Blocks {
				for _, in := range b.Instrs {
					if h := ssax.StaticModuleCallee(in); h != nil && len(h.Blocks) > 0 && load.PkgPath(h) == load.PkgPath(f) && h.Signature.Recv() != nil && h.Name() != "read" {
						dup := false
						for _, x := range fns {
							if x == h {
								dup = true
							}
						}
						if !dup {
							fns = append(fns, h)
						}
					}
				}
			}
		}
		for _, g := range fns {
			for _, b := range g.Blocks {
				for _, in := range b.Instrs {
					u, ok := in.(*ssa.UnOp)
					if !ok || u.Op != token.MUL {
						continue
					}
					e, ok := elemField(u.X, "value")
					if !ok || isFreshElem(e) {
						continue
					}
					if !ssax.Used(u) {
						continue
					}
					// elements that this very function just read from disk are not deleted
					if call, isCall := e.(*ssa.Call); isCall && call.Call.StaticCallee() != nil && call.Call.StaticCallee().Name() == "read" {
						continue
					}
					n++
					guarded := false
					for _, bb := range g.Blocks {
						ifi, ok := bb.Instrs[len(bb.Instrs)-1].(*ssa.If)
						if !ok {
							continue
						}
						cond, neg := ifi.Cond, false
						if un, ok := cond.(*ssa.UnOp); ok && un.Op == token.NOT {
							cond, neg = un.X, true
						}
						ld, ok := cond.(*ssa.UnOp)
						if !ok || ld.Op != token.MUL {
							continue
						}
						de, ok := elemField(ld.X, "IsDeleted")
						if !ok || de != e {
							continue
						}
						edge := 1 // false edge of "IsDeleted"
						if neg {
							edge = 0
						}
						if ssax.OnlyViaEdge(bb, edge, b) {
							guarded = true
						}
					}
					key := "read-skips-deleted:" + name
					if guarded {
						c.Add("ITEMFLAGS", key, core.OK, w.At(in), "", rprops...)
					} else {
						c.Add("ITEMFLAGS", key, core.Violation, w.At(in), "the value of a cached element is handed out without testing its IsDeleted mark: an item deleted earlier in the transaction is still visible", rprops...)
					}
				}
			}
		}
	}
	c.Count("itemcache_value_reads", n)
	if n < 3 {
		c.Add("ITEMFLAGS", "anchor:value-reads", core.Undecided, "", fmt.Sprintf("found %d reads of cached element values in Get/GetMany/ForEach, expected at least 3", n), rprops...)
	}
	// ---- flush-obeys and delete-marks
	fprops := []string{"C08", "C10"}
	if f := itemCacheMethod(w, "Flush"); f != nil {
		has := func(edgeFrom *ssa.BasicBlock, succ int, method string) bool {
			for _, b := range f.Blocks {
				if !ssax.OnlyViaEdge(edgeFrom, succ, b) {
					continue
				}
				for _, in := range b.Instrs {
					if callsNamed(in, method, 0) {
						return true
					}
				}
			}
			return false
		}
		delOK, wrOK, delSkipped := false, false, false
		for _, b := range f.Blocks {
			ifi, ok := b.Instrs[len(b.Instrs)-1].(*ssa.If)
			if !ok {
				continue
			}
			if ld, ok := ifi.Cond.(*ssa.UnOp); ok && ld.Op == token.MUL {
				if _, ok := elemField(ld.X, "IsDeleted"); ok && has(b, 0, "DeleteFrom") {
					delOK = true
					// ... and unconditionally: the element leaves the cache (delete from the items map)
					// only after DeleteFrom has run, whatever its other flags say. An element that is
					// dirty and deleted was persisted by an earlier flush; its keys are still there.
					for _, db := range f.Blocks {
						if !ssax.OnlyViaEdge(b, 0, db) {
							continue
						}
						for _, din := range db.Instrs {
							dc, ok := din.(*ssa.Call)
							if !ok {
								continue
							}
							if bi, ok := dc.Call.Value.(*ssa.Builtin); !ok || bi.Name() != "delete" {
								continue
							}
							// reachable from the deleted-edge without passing a DeleteFrom?
							seen := map[*ssa.BasicBlock]bool{}
							var dfs func(x *ssa.BasicBlock) bool
							dfs = func(x *ssa.BasicBlock) bool {
								if seen[x] {
									return false
								}
								seen[x] = true
								for _, xi := range x.Instrs {
									if xi == ssa.Instruction(dc) {
										return true
									}
									if callsNamed(xi, "DeleteFrom", 0) {
										return false
									}
								}
								for _, sc := range x.Succs {
									if dfs(sc) {
										return true
									}
								}
								return false
							}
							if dfs(b.Succs[0]) {
								delSkipped = true
							}
						}
					}
				}
				if _, ok := elemField(ld.X, "IsDirty"); ok {
					// `IsDirty || CheckAndClearDirty()` is a short-circuit: WriteTo is behind either true edge
					for _, bb := range f.Blocks {
						for _, in := range bb.Instrs {
							if callsNamed(in, "WriteTo", 0) {
								if ssax.Reaches(b.Succs[0], bb) {
									wrOK = true
								}
							}
						}
					}
				}
			}
		}
		v, d := core.OK, ""
		if !delOK {
			v, d = core.Violation, "Flush does not call DeleteFrom for elements marked deleted"
		} else if delSkipped {
			v, d = core.Violation, "Flush can drop an element marked deleted from the cache without calling DeleteFrom (the call depends on another flag): the keys of an item that was persisted earlier stay in the bucket and a cold read brings the item back"
		} else if !wrOK {
			v, d = core.Violation, "Flush does not call WriteTo for elements marked dirty"
		}
		c.Add("ITEMFLAGS", "flush-obeys-flags", v, where(f), d, fprops...)
	} else {
		c.Add("ITEMFLAGS", "anchor:Flush", core.Undecided, "", "cache.ItemCache.Flush not found", fprops...)
	}
	if f := itemCacheMethod(w, "Delete"); f != nil {
		marks := 0
		for _, b := range f.Blocks {
			for _, in := range b.Instrs {
				if st, ok := in.(*ssa.Store); ok {
					if _, ok := elemField(st.Addr, "IsDeleted"); ok {
						if v, isC := ssax.ConstBool(st.Val); isC && v {
							marks++
						}
					}
				}
			}
		}
		// both the cached and the read-from-disk path mark; a single shared mark after the
		// branch is fine too when it post-dominates both (then marks == 1 and no `continue` skips it)
		v, d := core.OK, ""
		if marks == 0 {
			v, d = core.Violation, "Delete never marks an element deleted"
		} else {
			// every path from the map lookup's hit edge back to the loop head passes a mark
			for _, b := range f.Blocks {
				ifi, ok := b.Instrs[len(b.Instrs)-1].(*ssa.If)
				if !ok {
					continue
				}
				ex, ok := ifi.Cond.(*ssa.Extract)
				if !ok || ex.Index != 1 {
					continue
				}
				if _, isLookup := ex.Tuple.(*ssa.Lookup); !isLookup {
					continue
				}
				isMark := func(in ssa.Instruction) bool {
					st, ok := in.(*ssa.Store)
					if !ok {
						return false
					}
					_, ok = elemField(st.Addr, "IsDeleted")
					return ok
				}
				loopHead := func(in ssa.Instruction) bool {
					// the range loop re-evaluates its index comparison: first instruction of a block with a back edge
					blk := in.Block()
					if in != blk.Instrs[0] {
						return false
					}
					return blk.Dominates(b) && blk != b
				}
				if ok, at := mustPassFromEdge(ssax.Edge{From: b, Succ: 0}, isMark, loopHead); !ok {
					v, d = core.Violation, "an id found in the cache can pass through Delete without being marked deleted ("+w.At(at)+")"
				}
			}
		}
		c.Add("ITEMFLAGS", "delete-marks", v, where(f), d, fprops...)
	} else {
		c.Add("ITEMFLAGS", "anchor:Delete", core.Undecided, "", "cache.ItemCache.Delete not found", fprops...)
	}
}

func dedupeSorted(xs []string) []string {
	m := map[string]bool{}
	var out []string
	for _, x := range xs {
		if !m[x] {
			m[x] = true
			out = append(out, x)
		}
	}
	return out
}

// callsNamed: the instruction calls a method of that name, directly or inside a
// helper of the same package that it calls (two levels).
func callsNamed(in ssa.Instruction, method string, depth int) bool {
	call, ok := in.(*ssa.Call)
	if !ok {
		return false
	}
	if call.Call.IsInvoke() && call.Call.Method.Name() == method {
		return true
	}
	g := call.Call.StaticCallee()
	if g == nil {
		return false
	}
	if g.Name() == method {
		return true
	}
	if depth >= 2 || !ssax.InModule(g) || load.PkgPath(g) != load.PkgPath(in.Parent()) {
		return false
	}
	for _, b := range g.Blocks {
		for _, gi := range b.Instrs {
			if callsNamed(gi, method, depth+1) {
				return true
			}
		}
	}
	return false
}
