package rules

import (
	"fmt"
	"go/token"
	"sort"
	"strings"

	"golang.org/x/tools/go/ssa"

	"semaverif/internal/core"
	"semaverif/internal/load"
	"semaverif/internal/ssax"
)

// --------------------------------------------------------------------- SCAN
//
// Range and prefix queries of every inverted index bottom out in the RangeScan /
// PrefixScan methods of the storage buckets (one per backend). Their result is
// "the keys between the bounds" only if every comparison of an iterated key with
// a bound is the right one for the inclusiveness in force. The rule reads, in
// every implementation of diskstore.Bucket.RangeScan and PrefixScan, each call
// of bytes.Compare / bytes.Equal / bytes.HasPrefix that involves a bound
// parameter and checks the row (bound, predicate, operator, inclusive-context)
// against the rows that implement the documented meaning:
//
//	RangeScan  end,   Compare(k,end)  >  0 under inclusive      (stop)
//	           end,   Compare(k,end)  >= 0 under !inclusive     (stop)
//	           start, Compare(k,start) <  0 under inclusive     (skip)
//	           start, Compare(k,start) <= 0 under !inclusive    (skip)
//	           start, Equal(k,start)        under !inclusive    (skip the seeked key)
//	PrefixScan prefix, HasPrefix(k,prefix) or k[:len(prefix)] == prefix
//
// Siblings are thereby cross-checked against one meaning instead of against each
// other; a prefix test on a range bound, or a strict/non-strict mix-up, is a row
// outside the table.

func Scan(w *load.World, c *core.Collector) {
	props := []string{"C02", "C08"}
	n := 0
	for _, f := range w.Fns {
		if load.PkgPath(f) != load.Mod+"/diskstore" || f.Signature.Recv() == nil || f.Parent() != nil {
			continue
		}
		if f.Name() != "RangeScan" && f.Name() != "PrefixScan" {
			continue
		}
		if len(f.Blocks) < 2 {
			continue // the empty bucket
		}
		n++
		recv := ssax.TypeName(f.Signature.Recv().Type())
		key := f.Name() + ":" + recv
		// parameters by role
		params := map[*ssa.Parameter]string{}
		var inclusive *ssa.Parameter
		for _, p := range f.Params[1:] {
			switch {
			case p.Type().String() == "[]byte":
				params[p] = p.Name()
			case p.Type().String() == "bool":
				inclusive = p
			}
		}
		// order of []byte params is (start, end) or (prefix)
		var byteParams []*ssa.Parameter
		for _, p := range f.Params[1:] {
			if p.Type().String() == "[]byte" {
				byteParams = append(byteParams, p)
			}
		}
		role := map[*ssa.Parameter]string{}
		if f.Name() == "RangeScan" && len(byteParams) == 2 {
			role[byteParams[0]], role[byteParams[1]] = "start", "end"
		} else if f.Name() == "PrefixScan" && len(byteParams) == 1 {
			role[byteParams[0]] = "prefix"
		} else {
			c.Add("SCAN", key, core.Undecided, w.Position(f.Pos()), "unexpected parameter list", props...)
			continue
		}
		boundOfIn := func(role map[*ssa.Parameter]string, v ssa.Value) string {
			o := ssax.Prov(v)
			for p, r := range role {
				if o["param:"+p.Name()] {
					return r
				}
			}
			return ""
		}
		ctxOfIn := func(fn *ssa.Function, inclusive *ssa.Parameter, b *ssa.BasicBlock) string {
			if inclusive == nil {
				return "any"
			}
			for _, bb := range fn.Blocks {
				ifi, ok := bb.Instrs[len(bb.Instrs)-1].(*ssa.If)
				if !ok {
					continue
				}
				cond, neg := ifi.Cond, false
				if u, ok := cond.(*ssa.UnOp); ok && u.Op == token.NOT {
					cond, neg = u.X, true
				}
				if cond != ssa.Value(inclusive) {
					continue
				}
				t, e := "inclusive", "exclusive"
				if neg {
					t, e = e, t
				}
				if ssax.OnlyViaEdge(bb, 0, b) {
					return t
				}
				if ssax.OnlyViaEdge(bb, 1, b) {
					return e
				}
			}
			return "any"
		}
		var rows, bad []string
		var visit func(fn *ssa.Function, role map[*ssa.Parameter]string, inclusive *ssa.Parameter, outer string, depth int)
		visit = func(fn *ssa.Function, role map[*ssa.Parameter]string, inclusive *ssa.Parameter, outer string, depth int) {
			boundOf := func(v ssa.Value) string { return boundOfIn(role, v) }
			ctxOf := func(b *ssa.BasicBlock) string {
				if c := ctxOfIn(fn, inclusive, b); c != "any" || outer == "" {
					return c
				}
				return outer
			}
			for _, b := range fn.Blocks {
				for _, in := range b.Instrs {
					switch x := in.(type) {
					case *ssa.Call:
						g := x.Call.StaticCallee()
						if g == nil {
							continue
						}
						name := g.String()
						if name == "strings.HasPrefix" {
							name = "bytes.HasPrefix"
						}
						if ssax.InModule(g) && len(g.Blocks) > 0 && depth < 3 && g != fn {
							// a predicate helper: the bounds and the inclusive flag reach it as arguments
							sub := map[*ssa.Parameter]string{}
							var subIncl *ssa.Parameter
							for i, a := range x.Call.Args {
								if i >= len(g.Params) {
									break
								}
								if r := boundOf(a); r != "" {
									// the key itself also derives from no bound; only pure bound arguments count
									if _, isParam := role[paramOfValue(a)]; isParam || boundOnly(a, role) {
										sub[g.Params[i]] = r
									}
								}
								if inclusive != nil && a == ssa.Value(inclusive) {
									subIncl = g.Params[i]
								}
							}
							if len(sub) > 0 {
								visit(g, sub, subIncl, ctxOf(b), depth+1)
							}
							continue
						}
						if name != "bytes.Compare" && name != "bytes.Equal" && name != "bytes.HasPrefix" {
							continue
						}
						bound, argPos := "", -1
						for i, a := range x.Call.Args {
							if r := boundOf(a); r != "" {
								bound, argPos = r, i
							}
						}
						if bound == "" {
							continue
						}
						ctx := ctxOf(b)
						switch name {
						case "bytes.HasPrefix":
							row := fmt.Sprintf("%s HasPrefix(%s) %s", bound, map[int]string{0: "bound,key", 1: "key,bound"}[argPos], ctx)
							rows = append(rows, row)
							if !(bound == "prefix" && argPos == 1) {
								bad = append(bad, row+": a prefix test decides a range bound (a key that merely starts with the bound is treated as equal to it)")
							}
						case "bytes.Equal":
							row := fmt.Sprintf("%s Equal %s", bound, ctx)
							rows = append(rows, row)
							if !(bound == "start" && ctx == "exclusive") && bound != "prefix" {
								bad = append(bad, row+": equality with this bound is only meaningful for skipping an exclusive start")
							}
						case "bytes.Compare":
							for _, r := range *x.Referrers() {
								bo, ok := r.(*ssa.BinOp)
								if !ok {
									continue
								}
								op := bo.Op
								other := bo.Y
								if bo.X != ssa.Value(x) {
									other = bo.X
									// constant on the left: mirror the operator
									op = map[token.Token]token.Token{token.LSS: token.GTR, token.GTR: token.LSS, token.LEQ: token.GEQ, token.GEQ: token.LEQ, token.EQL: token.EQL, token.NEQ: token.NEQ}[bo.Op]
								}
								zero, isC := ssax.ConstInt(other)
								// "c >= stopAt" with stopAt chosen by the flag: one comparison per value of the flag
								if phi, isPhi := other.(*ssa.Phi); isPhi && !isC && inclusive != nil {
									okPhi := true
									for i, e := range phi.Edges {
										if e == ssa.Value(phi) {
											continue // carried round the loop unchanged
										}
										k, kc := ssax.ConstInt(e)
										pc := edgeCtx(fn, inclusive, phi.Block().Preds[i], phi.Block())
										nop, nok := normCmp(op, k)
										if !kc || pc == "any" || !nok {
											okPhi = false
											break
										}
										if argPos == 0 {
											nop = map[token.Token]token.Token{token.LSS: token.GTR, token.GTR: token.LSS, token.LEQ: token.GEQ, token.GEQ: token.LEQ, token.EQL: token.EQL, token.NEQ: token.NEQ}[nop]
										}
										row := fmt.Sprintf("%s Compare(key,bound) %s 0 %s", bound, nop, pc)
										rows = append(rows, row)
										good := (bound == "end" && pc == "inclusive" && nop == token.GTR) || (bound == "end" && pc == "exclusive" && nop == token.GEQ) ||
											(bound == "start" && pc == "inclusive" && nop == token.LSS) || (bound == "start" && pc == "exclusive" && nop == token.LEQ)
										if !good {
											bad = append(bad, row+": not the comparison this bound needs under this inclusiveness")
										}
									}
									if okPhi {
										continue
									}
								}
								if nop, nok := normCmp(op, zero); isC && nok {
									op, zero = nop, 0
								}
								if !isC || zero != 0 {
									bad = append(bad, fmt.Sprintf("%s Compare result compared with something other than 0", bound))
									continue
								}
								if argPos == 0 {
									// Compare(bound, key): mirror
									op = map[token.Token]token.Token{token.LSS: token.GTR, token.GTR: token.LSS, token.LEQ: token.GEQ, token.GEQ: token.LEQ, token.EQL: token.EQL, token.NEQ: token.NEQ}[op]
								}
								// the comparison with zero may sit deeper than the call (behind a test of the flag)
								ctx := ctx
								if cb := ctxOf(bo.Block()); cb != "any" {
									ctx = cb
								}
								row := fmt.Sprintf("%s Compare(key,bound) %s 0 %s", bound, op, ctx)
								rows = append(rows, row)
								okRow := false
								// the form `c > 0 || (c == 0 && !inclusive)`: the strict comparison holds whatever
								// the inclusiveness, the equality only counts together with a test of the flag
								if ctx == "any" {
									switch {
									case bound == "end" && op == token.GTR, bound == "start" && op == token.LSS:
										okRow = true
									case op == token.EQL && inclusive != nil && bo.Referrers() != nil:
										for _, r := range *bo.Referrers() {
											ifi, ok := r.(*ssa.If)
											if !ok {
												continue
											}
											nb := ifi.Block().Succs[0]
											if ni, ok := nb.Instrs[len(nb.Instrs)-1].(*ssa.If); ok {
												c2 := ni.Cond
												if u, ok := c2.(*ssa.UnOp); ok && u.Op == token.NOT {
													c2 = u.X
												}
												if c2 == ssa.Value(inclusive) {
													okRow = true
												}
											}
											// `return c == 0 && !inclusive`: on the equal edge the answer is the negated flag
											for _, cand := range append([]*ssa.BasicBlock{nb}, nb.Succs...) {
												for _, ci := range cand.Instrs {
													var vals []ssa.Value
													switch y := ci.(type) {
													case *ssa.Return:
														vals = y.Results
													case *ssa.Phi:
														vals = y.Edges
													}
													for _, v := range vals {
														if u, ok := v.(*ssa.UnOp); ok && u.Op == token.NOT && u.X == ssa.Value(inclusive) {
															okRow = true
														}
													}
												}
											}
										}
									}
								}
								switch {
								case okRow:
								case bound == "end" && ctx == "exclusive" && op == token.EQL && strictAlso(x, token.GTR, argPos),
									bound == "start" && ctx == "exclusive" && op == token.EQL && strictAlso(x, token.LSS, argPos):
									// "c > 0 || (!inclusive && c == 0)": together with the strict test of the same result
									okRow = true
								case bound == "end" && ctx == "inclusive" && op == token.GTR,
									bound == "end" && ctx == "exclusive" && op == token.GEQ,
									bound == "start" && ctx == "inclusive" && op == token.LSS,
									bound == "start" && ctx == "exclusive" && op == token.LEQ,
									bound == "start" && ctx == "exclusive" && op == token.EQL:
									okRow = true
								}
								if !okRow {
									bad = append(bad, row+": not the comparison this bound needs under this inclusiveness")
								}
							}
						}
					case *ssa.BinOp:
						// k[:len(prefix)] == string(prefix) in the in-memory PrefixScan
						if x.Op == token.EQL && f.Name() == "PrefixScan" {
							if boundOf(x.X) == "prefix" || boundOf(x.Y) == "prefix" {
								if _, isSl := x.X.(*ssa.Slice); isSl {
									rows = append(rows, "prefix slice-equal")
								} else if _, isSl := x.Y.(*ssa.Slice); isSl {
									rows = append(rows, "prefix slice-equal")
								}
							}
						}
					}
				}
			}
		}
		visit(f, role, inclusive, "", 0)
		sort.Strings(rows)
		// the start bound is compared as well: a cursor positioned by Seek stands on the first key >= start,
		// which is the start itself only if it is stored — an exclusive scan may skip it only when it is equal
		need := map[string][]string{"RangeScan": {"end", "start"}, "PrefixScan": {"prefix"}}[f.Name()]
		for _, nd := range need {
			found := false
			for _, r := range rows {
				if strings.HasPrefix(r, nd+" ") {
					found = true
				}
			}
			if !found {
				bad = append(bad, "no comparison of the iterated key with the "+nd+" bound was found")
			}
		}
		if len(bad) > 0 {
			sort.Strings(bad)
			c.Add("SCAN", key, core.Violation, w.Position(f.Pos()), strings.Join(dedupe(bad), "; "), props...)
		} else {
			c.Add("SCAN", key, core.OK, w.Position(f.Pos()), strings.Join(rows, " | "), props...)
		}
	}
	c.Count("scan_implementations", n)
	if n < 4 {
		c.Add("SCAN", "anchor:implementations", core.Undecided, "", fmt.Sprintf("found %d RangeScan/PrefixScan implementations with a body, expected 4", n), props...)
	}
}

func paramOfValue(v ssa.Value) *ssa.Parameter {
	p, _ := v.(*ssa.Parameter)
	return p
}

// boundOnly: the value is a bound parameter seen through conversions only.
func boundOnly(v ssa.Value, role map[*ssa.Parameter]string) bool {
	for {
		switch x := v.(type) {
		case *ssa.Parameter:
			_, ok := role[x]
			return ok
		case *ssa.Convert:
			v = x.X
		case *ssa.ChangeType:
			v = x.X
		default:
			return false
		}
	}
}

// strictAlso: the same Compare result is also tested strictly (op 0) — with the operator
// mirrored when the bound is the first argument.
func strictAlso(call *ssa.Call, want token.Token, argPos int) bool {
	mirror := map[token.Token]token.Token{token.LSS: token.GTR, token.GTR: token.LSS, token.LEQ: token.GEQ, token.GEQ: token.LEQ, token.EQL: token.EQL, token.NEQ: token.NEQ}
	for _, r := range *call.Referrers() {
		bo, ok := r.(*ssa.BinOp)
		if !ok {
			continue
		}
		op := bo.Op
		zero, isC := ssax.ConstInt(bo.Y)
		if bo.X != ssa.Value(call) {
			zero, isC = ssax.ConstInt(bo.X)
			op = mirror[op]
		}
		if !isC || zero != 0 {
			continue
		}
		if argPos == 0 {
			op = mirror[op]
		}
		if op == want {
			return true
		}
	}
	return false
}

// normCmp rewrites "c op k" for k in {-1, 0, 1} as "c op' 0" (c is an integer).
func normCmp(op token.Token, k int64) (token.Token, bool) {
	switch {
	case k == 0:
		return op, true
	case k == 1 && op == token.GEQ:
		return token.GTR, true
	case k == 1 && op == token.LSS:
		return token.LEQ, true
	case k == -1 && op == token.LEQ:
		return token.LSS, true
	case k == -1 && op == token.GTR:
		return token.GEQ, true
	}
	return op, false
}

// edgeCtx: the value of the inclusive flag on the control-flow edge pred->succ.
func edgeCtx(fn *ssa.Function, inclusive *ssa.Parameter, pred, succ *ssa.BasicBlock) string {
	var tEdges, fEdges []ssax.Edge
	for _, bb := range fn.Blocks {
		ifi, ok := bb.Instrs[len(bb.Instrs)-1].(*ssa.If)
		if !ok {
			continue
		}
		cond, neg := ifi.Cond, false
		if u, ok := cond.(*ssa.UnOp); ok && u.Op == token.NOT {
			cond, neg = u.X, true
		}
		if cond != ssa.Value(inclusive) {
			continue
		}
		t, e := 0, 1
		if neg {
			t, e = 1, 0
		}
		tEdges = append(tEdges, ssax.Edge{From: bb, Succ: t})
		fEdges = append(fEdges, ssax.Edge{From: bb, Succ: e})
	}
	switch {
	case edgeOnlyVia(tEdges, pred, succ):
		return "inclusive"
	case edgeOnlyVia(fEdges, pred, succ):
		return "exclusive"
	}
	return "any"
}
