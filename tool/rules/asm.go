package rules

import (
	"bufio"
	"bytes"
	"fmt"
	"path/filepath"
	"regexp"
	"sort"
	"strconv"
	"strings"

	"semaverif/internal/core"
	"semaverif/internal/load"
)

type asmIns struct {
	line int
	op   string
	args []string
}

type asmFunc struct {
	name  string
	file  string
	ins   []asmIns
	label map[string]int // label -> index into ins of the first instruction after it
}

var memRe = regexp.MustCompile(`^(-?\d+)?\(([A-Z0-9]+)\)(?:\(([A-Z0-9]+)\*(\d)\))?$`)

func parseAsm(w *load.World, path string) ([]*asmFunc, error) {
	data, err := w.ReadFile(path)
	if err != nil {
		return nil, err
	}
	var fns []*asmFunc
	var cur *asmFunc
	sc := bufio.NewScanner(bytes.NewReader(data))
	n := 0
	for sc.Scan() {
		n++
		line := sc.Text()
		if i := strings.Index(line, "//"); i >= 0 {
			line = line[:i]
		}
		line = strings.TrimSpace(line)
		if line == "" || strings.HasPrefix(line, "#") {
			continue
		}
		if strings.HasPrefix(line, "TEXT") {
			name := strings.TrimPrefix(strings.Fields(line)[1], "·")
			name = strings.TrimSuffix(strings.Split(name, "(")[0], ",")
			cur = &asmFunc{name: name, file: path, label: map[string]int{}}
			fns = append(fns, cur)
			continue
		}
		if cur == nil {
			continue
		}
		if strings.HasSuffix(line, ":") {
			cur.label[strings.TrimSuffix(line, ":")] = len(cur.ins)
			continue
		}
		f := strings.Fields(line)
		op := f[0]
		rest := strings.TrimSpace(strings.TrimPrefix(line, op))
		var args []string
		for _, a := range strings.Split(rest, ",") {
			if a = strings.TrimSpace(a); a != "" {
				args = append(args, a)
			}
		}
		cur.ins = append(cur.ins, asmIns{n, op, args})
	}
	return fns, sc.Err()
}

func imm(s string) (int64, bool) {
	if !strings.HasPrefix(s, "$") {
		return 0, false
	}
	v, err := strconv.ParseInt(strings.TrimPrefix(s, "$"), 0, 64)
	return v, err == nil
}

func regWidth(op string, args []string) int64 {
	// width of the memory access of a vector instruction
	if strings.HasSuffix(op, "SS") {
		return 4
	}
	for _, a := range args {
		if strings.HasPrefix(a, "Y") {
			return 32
		}
	}
	for _, a := range args {
		if strings.HasPrefix(a, "X") {
			return 16
		}
	}
	return 0
}

func Asm(w *load.World, c *core.Collector) {
	props := []string{"C20"}
	files, _ := filepath.Glob(filepath.Join(w.Dir, "distance", "asm", "*.s"))
	sort.Strings(files)
	nf := 0
	for _, path := range files {
		fns, err := parseAsm(w, path)
		if err != nil {
			c.Add("ASM", "parse:"+filepath.Base(path), core.Undecided, "", err.Error(), props...)
			continue
		}
		for _, f := range fns {
			nf++
			checkKernel(w, c, f, props)
		}
	}
	c.Count("asm_kernels", nf)
	if nf < 2 {
		c.Add("ASM", "anchor:kernels", core.Undecided, "", fmt.Sprintf("found %d assembly kernels, expected 2", nf), props...)
	}
}

func checkKernel(w *load.World, c *core.Collector, f *asmFunc, props []string) {
	rel := strings.TrimPrefix(strings.TrimPrefix(f.file, w.Dir), "/")
	at := func(i int) string { return fmt.Sprintf("%s:%d", rel, f.ins[i].line) }
	var px, py, cnt string
	usesYLen := false
	for _, in := range f.ins {
		if in.op == "MOVQ" && len(in.args) == 2 {
			switch {
			case strings.HasPrefix(in.args[0], "x_base"):
				px = in.args[1]
			case strings.HasPrefix(in.args[0], "y_base"):
				py = in.args[1]
			case strings.HasPrefix(in.args[0], "x_len"):
				cnt = in.args[1]
			case strings.HasPrefix(in.args[0], "y_len"):
				usesYLen = true
			}
		}
	}
	if px == "" || py == "" || cnt == "" {
		c.Add("ASM", f.name+":registers", core.Undecided, rel, "could not identify the pointer and count registers", props...)
		return
	}
	if !usesYLen {
		c.Notef("ASM: %s consults only len(x); equal operand lengths are the callers' obligation (VALID)", f.name)
	}
	f = normaliseAddressing(f, px, py, cnt)
	f = normaliseSplitRegions(f, px, py, cnt)
	at = func(i int) string { return fmt.Sprintf("%s:%d", rel, f.ins[i].line) }
	horizontalSum(w, c, f, props)
	// every instruction is one the two analyses give a meaning to; in particular nothing touches the
	// floating-point control state (LDMXCSR: flush-to-zero changes the products of denormal inputs)
	known := map[string]bool{"MOVQ": true, "MOVL": true, "LEAQ": true, "ADDQ": true, "SUBQ": true, "INCQ": true, "DECQ": true, "NEGQ": true,
		"SHRQ": true, "SHLQ": true, "ANDQ": true, "XORQ": true, "XORL": true, "CMPQ": true, "TESTQ": true, "JMP": true, "RET": true,
		"VXORPS": true, "VMOVUPS": true, "VMOVAPS": true, "VMOVSS": true, "MOVSS": true, "VFMADD231PS": true, "VFMADD231SS": true,
		"VSUBPS": true, "VSUBSS": true, "VMULPS": true, "VMULSS": true, "VADDPS": true, "VADDSS": true, "VHADDPS": true,
		"VEXTRACTF128": true, "VZEROUPPER": true, "PCALIGN": true,
		// lane shuffles between registers (the horizontal-sum clause gives them their meaning)
		"VMOVSHDUP": true, "VMOVSLDUP": true, "VMOVHLPS": true, "VMOVLHPS": true}
	var strange []string
	for i, in := range f.ins {
		if known[in.op] || (len(in.op) >= 2 && in.op[0] == 'J') {
			continue
		}
		strange = append(strange, fmt.Sprintf("%s: %s %s", at(i), in.op, strings.Join(in.args, ", ")))
	}
	if len(strange) > 0 {
		c.Add("ASM", f.name+":vocabulary", core.Violation, rel, "instructions the kernel checks give no meaning to (control-register loads change how denormals and rounding behave; masked or gathered loads read what the traversal check does not see): "+strings.Join(strange, "; "), props...)
	} else {
		c.Add("ASM", f.name+":vocabulary", core.OK, rel, "", props...)
	}
	// Symbolic check of the traversal. Invariant at every block entry: both pointers have advanced
	// by 4*c bytes and the count register holds n-c, for the same c. Per block: what is read through
	// each pointer, relative to the entry, tiles [0,k) floats exactly once where k is what the block
	// takes off the count; both pointers advance by 4k; and k (and every element read) lies below
	// the lower bound the branch conditions establish for the count at the block's entry. At RET
	// the count is known to be zero. This holds for top-tested and bottom-tested loops alike.
	accs := map[string]bool{}
	for _, in := range f.ins {
		if strings.HasPrefix(in.op, "VFMADD") {
			accs[in.args[len(in.args)-1]] = true
		}
	}
	// counters: the count register, or — when the prologue splits the length once into whole blocks
	// and a remainder (MOVQ n,B; SHRQ $k,B; ANDQ $2^k-1,n) — the block counter with weight 2^k and
	// the remainder with weight 1: what is left to process is always the weighted sum
	wts := map[string]int64{cnt: 1}
	hiOf := map[string]int64{}
	skip := map[int]bool{}
	byteUnit := map[string]bool{} // counters that count bytes, not elements
	byteMod := map[string]int64{}
	for i, in := range f.ins {
		if in.op == "MOVQ" && len(in.args) == 2 && in.args[0] == cnt && !strings.Contains(in.args[1], "(") {
			cp := in.args[1]
			var shr, and, shl = -1, -1, -1
			var k, mask, jsh int64
			for j := i + 1; j < len(f.ins) && j < i+6; j++ {
				jn := f.ins[j]
				if len(jn.args) != 2 {
					continue
				}
				v, isImm := imm(jn.args[0])
				if !isImm {
					continue
				}
				switch {
				case jn.op == "SHRQ" && jn.args[1] == cp:
					shr, k = j, v
				case jn.op == "SHLQ" && jn.args[1] == cp && shr >= 0:
					shl, jsh = j, v
				case jn.op == "ANDQ" && jn.args[1] == cnt:
					and, mask = j, v
				}
			}
			if shr >= 0 && and >= 0 && k > 0 && k < 16 && mask == (int64(1)<<uint(k))-1 {
				wts[cp] = int64(1) << uint(k)
				hiOf[cnt] = mask
				skip[i], skip[shr], skip[and] = true, true, true
				if shl >= 0 && jsh == k+2 {
					// (n >> k) << (k+2): the whole blocks in bytes; one unit is one byte
					byteUnit[cp] = true
					byteMod[cp] = int64(4) << uint(k)
					skip[shl] = true
				}
			}
		}
	}
	// the remainder taken off the length: MOVQ n,T; ANDQ $2^k-1,T; SUBQ T,n — T is at most 2^k-1,
	// n a multiple of 2^k, and what is left to process is their sum
	splitMod := map[string]int64{}
	for i := 0; i+2 < len(f.ins); i++ {
		a, b, cc := f.ins[i], f.ins[i+1], f.ins[i+2]
		if a.op == "MOVQ" && len(a.args) == 2 && a.args[0] == cnt && !strings.Contains(a.args[1], "(") &&
			b.op == "ANDQ" && len(b.args) == 2 && b.args[1] == a.args[1] &&
			cc.op == "SUBQ" && len(cc.args) == 2 && cc.args[0] == a.args[1] && cc.args[1] == cnt {
			if v, ok := imm(b.args[0]); ok && v > 0 && (v+1)&v == 0 && len(wts) == 1 {
				wts[a.args[1]] = 1
				hiOf[a.args[1]] = v
				splitMod[cnt] = v + 1
				skip[i], skip[i+1], skip[i+2] = true, true, true
			}
		}
	}
	// Other ways to walk the vectors than counting the length down. What all of them have is a cursor
	// (the x pointer itself, or an index register used as (px)(I*4)) and limits it is compared with:
	// the length, or the length rounded down to a whole number of blocks (ANDQ $-2^k), kept as a number
	// (index form) or as an end address (LEAQ (px)(R*4), L). For each limit L the quantity that
	// plays the role of a counter is V_L = L - cursor: it drops by what the cursor advances, a
	// comparison of the cursor with L is a comparison of V_L with zero, the rounded limit is a multiple
	// of 2^k, and the two are tied by 0 <= V_length - V_rounded < 2^k.
	type limitInfo struct {
		primary bool
		mod     int64
	}
	limits := map[string]limitInfo{}
	idxReg := ""
	// Negated index: both pointers are moved past the region a counter stands for ("ADDQ C, px" or
	// "LEAQ (px)(C*s), px", same for py), the counter is negated, and the elements are read as
	// (px)(C*s) while C climbs to zero. C still is what remains of its region, the cursor is
	// px + C*s, and "ADDQ $v, C" consumes v units.
	type negConv struct {
		reg   string
		scale int64
	}
	negAt := map[int]negConv{}
	for i, in := range f.ins {
		if in.op != "NEGQ" || len(in.args) != 1 {
			continue
		}
		cr := in.args[0]
		if _, isCtr := wts[cr]; !isCtr {
			continue
		}
		var sx, sy int64
		var ix, iy = -1, -1
		for j := i - 1; j >= 0 && j >= i-6; j-- {
			jn := f.ins[j]
			if jn.op == "JMP" || jn.op == "RET" || (len(jn.op) >= 2 && jn.op[0] == 'J') {
				break
			}
			if len(jn.args) != 2 {
				continue
			}
			switch {
			case jn.op == "ADDQ" && jn.args[0] == cr && jn.args[1] == px:
				sx, ix = 1, j
			case jn.op == "ADDQ" && jn.args[0] == cr && jn.args[1] == py:
				sy, iy = 1, j
			case jn.op == "LEAQ":
				if m := memRe.FindStringSubmatch(jn.args[0]); m != nil && m[1] == "" && m[3] == cr && m[2] == jn.args[1] {
					sc, _ := strconv.ParseInt(m[4], 10, 64)
					if jn.args[1] == px {
						sx, ix = sc, j
					}
					if jn.args[1] == py {
						sy, iy = sc, j
					}
				}
			}
		}
		if ix >= 0 && iy >= 0 && sx == sy && sx > 0 {
			negAt[i] = negConv{cr, sx}
			skip[i], skip[ix], skip[iy] = true, true, true
		}
	}
	negForm := len(negAt) > 0
	for _, in := range f.ins {
		if in.op == "LEAQ" || negForm {
			continue // computes an address, reads nothing
		}
		for _, a := range in.args {
			if m := memRe.FindStringSubmatch(a); m != nil && m[3] != "" && (m[2] == px || m[2] == py) {
				if m[4] != "4" || (idxReg != "" && idxReg != m[3]) {
					c.Add("ASM", f.name+":registers", core.Undecided, rel, "indexed operands with more than one index register or a scale other than 4", props...)
					return
				}
				idxReg = m[3]
			}
		}
	}
	firstBranch := len(f.ins)
	for i, in := range f.ins {
		if in.op == "JMP" || in.op == "RET" || (len(in.op) >= 2 && in.op[0] == 'J') {
			firstBranch = i
			break
		}
	}
	for _, idx := range f.label {
		if idx < firstBranch {
			firstBranch = idx
		}
	}
	{
		rounded := map[string]int64{} // register holding the length rounded down to a multiple
		idxZeroed := false
		for i := 0; i < firstBranch; i++ {
			in := f.ins[i]
			if len(in.args) != 2 {
				if len(in.args) == 3 || len(in.args) == 0 {
					continue
				}
			}
			if len(in.args) < 2 {
				continue
			}
			src, dst := in.args[0], in.args[1]
			switch in.op {
			case "MOVQ":
				if src == cnt && !strings.Contains(dst, "(") && !skip[i] {
					// candidate for the rounded copy: needs the ANDQ below
					for j := i + 1; j < firstBranch && j < i+4; j++ {
						jn := f.ins[j]
						if jn.op == "ANDQ" && len(jn.args) == 2 && jn.args[1] == dst {
							if v, ok := imm(jn.args[0]); ok && v < 0 && (-v)&(-v-1) == 0 {
								rounded[dst] = -v
								skip[i], skip[j] = true, true
							}
						}
					}
				}
				if v, ok := imm(src); ok && v == 0 && dst == idxReg {
					idxZeroed = true
					skip[i] = true
				}
			case "XORQ", "XORL":
				if src == dst && dst == idxReg {
					idxZeroed = true
					skip[i] = true
				}
			case "LEAQ":
				m := memRe.FindStringSubmatch(src)
				if m == nil || m[2] != px || m[1] != "" || m[4] != "4" {
					continue
				}
				switch {
				case m[3] == cnt:
					limits[dst] = limitInfo{primary: true, mod: 1}
					skip[i] = true
				case rounded[m[3]] > 0:
					limits[dst] = limitInfo{mod: rounded[m[3]]}
					skip[i] = true
				}
			}
		}
		if idxReg != "" {
			if !idxZeroed {
				c.Add("ASM", f.name+":entry", core.Violation, at(0), "the index register "+idxReg+" is used before it is set to zero", props...)
			}
			limits[cnt] = limitInfo{primary: true, mod: 1}
			for r, m := range rounded {
				limits[r] = limitInfo{mod: m}
			}
		}
	}
	virtual := len(limits) > 0
	cursor := px
	if idxReg != "" {
		cursor = idxReg
	}
	mods := map[string]int64{}
	var primaryLimit string
	if virtual {
		hasPrimary := false
		for r, li := range limits {
			if li.primary {
				hasPrimary = true
				primaryLimit = r
			}
			_ = r
		}
		if !hasPrimary {
			c.Add("ASM", f.name+":registers", core.Undecided, rel, "the cursor is compared with limits, but none of them is the full length", props...)
			return
		}
		wts = map[string]int64{}
		hiOf = map[string]int64{}
		for r, li := range limits {
			if li.primary {
				wts[r] = 1
			} else {
				wts[r] = 0
			}
			mods[r] = li.mod
		}
	}
	// hybrid: the count is counted down for a while and then, somewhere after the prologue, turned into
	// an end address in place (LEAQ (px)(n*4), n): from there on the register is a limit of the cursor
	convAt := map[int]bool{}
	if !virtual {
		for i := firstBranch; i < len(f.ins); i++ {
			in := f.ins[i]
			if in.op != "LEAQ" || len(in.args) != 2 || in.args[1] != cnt {
				continue
			}
			if m := memRe.FindStringSubmatch(in.args[0]); m != nil && m[1] == "" && m[2] == px && m[3] == cnt && m[4] == "4" {
				convAt[i] = true
				skip[i] = true
			}
		}
	}
	hybrid := len(convAt) > 0
	if virtual || hybrid || negForm || len(splitMod) > 0 {
		// the count register is not counted down in these forms: that every element is consumed is what
		// the symbolic traversal below establishes (the limit counters are zero at RET)
		checkRegisterFlow(w, c, f, "", props)
	} else {
		checkRegisterFlow(w, c, f, cnt, props)
	}
	isCounter := func(r string) bool { _, ok := wts[r]; return ok }
	isJcc := func(op string) bool {
		switch op {
		case "JL", "JLT", "JGE", "JLE", "JG", "JGT", "JE", "JEQ", "JZ", "JNE", "JNZ", "JB", "JLO", "JCS", "JAE", "JHS", "JCC", "JA", "JHI", "JBE", "JLS":
			return true
		}
		return false
	}
	// block boundaries
	leader := map[int]bool{0: true}
	for _, idx := range f.label {
		leader[idx] = true
	}
	for i, in := range f.ins {
		if in.op == "JMP" || isJcc(in.op) || in.op == "RET" {
			leader[i+1] = true
		}
	}
	var starts []int
	for i := range leader {
		if i < len(f.ins) {
			starts = append(starts, i)
		}
	}
	sort.Ints(starts)
	type ablock struct {
		start, end int // inclusive
		name       string
	}
	var blocks []ablock
	blockAt := map[int]int{}
	labelAt := map[int]string{}
	for l, idx := range f.label {
		if cur, ok := labelAt[idx]; !ok || l < cur {
			labelAt[idx] = l
		}
	}
	lastLabel := "entry"
	for bi, st := range starts {
		en := len(f.ins) - 1
		if bi+1 < len(starts) {
			en = starts[bi+1] - 1
		}
		if l, ok := labelAt[st]; ok {
			lastLabel = l
		}
		blockAt[st] = len(blocks)
		blocks = append(blocks, ablock{st, en, lastLabel})
	}
	// in which blocks the count register is already an end address (hybrid form)
	entryVirt := make([]int, len(blocks)) // 0 unknown, 1 plain, 2 end address, 3 both (inconsistent)
	if hybrid {
		entryVirt[0] = 1
		for iter := 0; iter < len(blocks)+2; iter++ {
			for bi, b := range blocks {
				if entryVirt[bi] == 0 {
					continue
				}
				out := entryVirt[bi]
				for i := b.start; i <= b.end; i++ {
					if convAt[i] {
						out = 2
					}
				}
				push := func(t int) {
					if t >= 0 && t < len(blocks) {
						entryVirt[t] |= out
					}
				}
				last := f.ins[b.end]
				switch {
				case last.op == "RET":
				case last.op == "JMP":
					if t, ok := f.label[last.args[0]]; ok {
						push(blockAt[t])
					}
				case isJcc(last.op):
					if t, ok := f.label[last.args[0]]; ok {
						push(blockAt[t])
					}
					push(bi + 1)
				default:
					push(bi + 1)
				}
			}
		}
	}
	// from where on a counter is a negated index (bit set per block entry: 1 plain, 2 negated)
	entryNeg := map[string][]int{}
	if negForm {
		for _, nc := range negAt {
			entryNeg[nc.reg] = make([]int, len(blocks))
		}
		for reg, modes := range entryNeg {
			modes[0] = 1
			for iter := 0; iter < len(blocks)+2; iter++ {
				for bi, b := range blocks {
					if modes[bi] == 0 {
						continue
					}
					out := modes[bi]
					for i := b.start; i <= b.end; i++ {
						if nc, ok := negAt[i]; ok && nc.reg == reg {
							out = 2
						}
					}
					push := func(t int) {
						if t >= 0 && t < len(blocks) {
							modes[t] |= out
						}
					}
					last := f.ins[b.end]
					switch {
					case last.op == "RET":
					case last.op == "JMP":
						if t, ok := f.label[last.args[0]]; ok {
							push(blockAt[t])
						}
					case isJcc(last.op):
						if t, ok := f.label[last.args[0]]; ok {
							push(blockAt[t])
						}
						push(bi + 1)
					default:
						push(bi + 1)
					}
				}
			}
		}
	}
	negScale := map[string]int64{}
	for _, nc := range negAt {
		negScale[nc.reg] = nc.scale
	}
	// bytes of each operand that one unit of a counter stands for
	bytesPer := func(r string) int64 {
		if byteUnit[r] {
			return 1
		}
		return 4 * wts[r]
	}
	const inf = int64(1) << 40
	_ = primaryLimit
	type ival struct{ lo, hi, mod int64 } // lo <= v <= hi and v is a multiple of mod (mod <= 1: no information)
	gcd := func(a, b int64) int64 {
		if a < 0 {
			a = -a
		}
		if b < 0 {
			b = -b
		}
		for b != 0 {
			a, b = b, a%b
		}
		if a == 0 {
			return 1
		}
		return a
	}
	floorTo := func(v, m int64) int64 {
		r := v % m
		if r < 0 {
			r += m
		}
		return v - r
	}
	tighten := func(v ival) ival {
		if v.mod > 1 {
			if v.lo > -inf {
				if f := floorTo(v.lo, v.mod); f != v.lo {
					v.lo = f + v.mod
				}
			}
			if v.hi < inf {
				v.hi = floorTo(v.hi, v.mod)
			}
		}
		return v
	}
	hull := func(a, b ival) ival {
		if b.lo < a.lo {
			a.lo = b.lo
		}
		if b.hi > a.hi {
			a.hi = b.hi
		}
		am, bm := a.mod, b.mod
		if am < 1 {
			am = 1
		}
		if bm < 1 {
			bm = 1
		}
		a.mod = gcd(am, bm)
		return a
	}
	type bsum struct {
		dx, dy     int64
		dcs        map[string]int64 // units taken off each counter
		loadsX     map[int64]int64  // byte offset relative to the entry pointer -> width in bytes
		loadsY     map[int64]int64
		dupX, dupY bool
		bad        string
		// branch at the end: comparison of the (updated) count with k
		jop    string
		target int
		cmpK   int64
		cmpReg string
		hasCmp bool
		ret    bool
		jmp    bool
		// negated-index loads: the index register used, at which other pre-advanced counters must be zero
		idxUsed map[string]bool
	}
	sums := make([]bsum, len(blocks))
	for bi, b := range blocks {
		sm := bsum{loadsX: map[int64]int64{}, loadsY: map[int64]int64{}, dcs: map[string]int64{}, target: -1, idxUsed: map[string]bool{}}
		negNow := map[string]bool{}
		for reg, modes := range entryNeg {
			if modes[bi] == 2 {
				negNow[reg] = true
			}
			if modes[bi] == 3 {
				sm.bad = "the register " + reg + " is a count on one way into this block and a negated index on another"
			}
		}
		flagsOK := false
		flagReg := ""
		var cmpK int64
		cmpCursorFirst, cmpVirtual := false, false
		asLimit := hybrid && entryVirt[bi] == 2 // the count register holds an end address here
		if hybrid && entryVirt[bi] == 3 {
			sm.bad = "the count register holds a count on one way into this block and an end address on another"
		}
		for i := b.start; i <= b.end; i++ {
			in := f.ins[i]
			if convAt[i] {
				asLimit = true
			}
			if nc, ok := negAt[i]; ok {
				negNow[nc.reg] = true
				if bytesPer(nc.reg) != nc.scale {
					sm.bad = fmt.Sprintf("the pointers are moved by %d bytes per unit of %s, which stands for %d bytes per unit", nc.scale, nc.reg, bytesPer(nc.reg))
				}
			}
			if skip[i] {
				continue
			}
			// memory reads through the two pointers
			width := regWidth(in.op, in.args)
			for ai, a := range in.args {
				m := memRe.FindStringSubmatch(a)
				if m == nil {
					continue
				}
				off := int64(0)
				if m[1] != "" {
					off, _ = strconv.ParseInt(m[1], 10, 64)
				}
				if ai == len(in.args)-1 && len(in.args) > 1 && (m[2] == px || m[2] == py) {
					sm.bad = fmt.Sprintf("%s writes through an operand pointer", in.op)
					continue
				}
				if width <= 0 {
					continue
				}
				if negForm && (m[2] == px || m[2] == py) {
					sc, _ := strconv.ParseInt(m[4], 10, 64)
					if m[3] == "" || !negNow[m[3]] || sc != negScale[m[3]] {
						sm.bad = fmt.Sprintf("%s %s: not addressed through the negated index of the region being read", in.op, a)
						continue
					}
					sm.idxUsed[m[3]] = true
				} else if (m[2] == px || m[2] == py) && (m[3] != "") != (idxReg != "") {
					sm.bad = fmt.Sprintf("%s %s: mixes indexed and plain addressing of the operands", in.op, a)
					continue
				}
				switch m[2] {
				case px:
					if _, dup := sm.loadsX[sm.dx+off]; dup {
						sm.dupX = true
					}
					sm.loadsX[sm.dx+off] = width
				case py:
					if _, dup := sm.loadsY[sm.dy+off]; dup {
						sm.dupY = true
					}
					sm.loadsY[sm.dy+off] = width
				}
			}
			dst := ""
			if len(in.args) > 0 {
				dst = in.args[len(in.args)-1]
			}
			switch in.op {
			case "ADDQ", "SUBQ":
				v, isImm := imm(in.args[0])
				sign := int64(1)
				if in.op == "SUBQ" {
					sign = -1
				}
				if (dst == px || dst == py || isCounter(dst) || (idxReg != "" && dst == idxReg)) && !isImm {
					sm.bad = fmt.Sprintf("%s %s: not a constant step", in.op, strings.Join(in.args, ", "))
				}
				switch {
				case negNow[dst]:
					if sign < 0 || !isImm {
						sm.bad = fmt.Sprintf("%s on the negated index %s", in.op, dst)
					}
					sm.dcs[dst] += v
					sm.dx += v * negScale[dst]
					sm.dy += v * negScale[dst]
				case idxReg != "" && dst == idxReg:
					// the index is shared by both operands: each cursor moves by 4 bytes per unit
					sm.dx += 4 * sign * v
					sm.dy += 4 * sign * v
				case dst == px:
					sm.dx += sign * v
					if asLimit {
						if (sign*v)%4 != 0 {
							sm.bad = "the x pointer advances by a fraction of an element"
						}
						sm.dcs[cnt] += sign * v / 4
					}
				case dst == py:
					sm.dy += sign * v
				case asLimit && dst == cnt:
					sm.bad = fmt.Sprintf("%s changes the end address %s", in.op, dst)
				case virtual && isCounter(dst):
					sm.bad = fmt.Sprintf("%s changes the limit %s", in.op, dst)
				case isCounter(dst):
					sm.dcs[dst] -= sign * v
				}
				flagsOK, flagReg, cmpK = isCounter(dst) && !virtual && !asLimit, dst, 0
				cmpVirtual, cmpCursorFirst = negNow[dst], negNow[dst] // the register holds minus what remains
			case "INCQ", "DECQ":
				sign := int64(1)
				if in.op == "DECQ" {
					sign = -1
				}
				switch {
				case negNow[dst]:
					if sign < 0 {
						sm.bad = in.op + " on the negated index " + dst
					}
					sm.dcs[dst] += 1
					sm.dx += negScale[dst]
					sm.dy += negScale[dst]
				case idxReg != "" && dst == idxReg:
					sm.dx += 4 * sign
					sm.dy += 4 * sign
				case dst == px || dst == py:
					sm.bad = in.op + " on an operand pointer"
				case virtual && isCounter(dst):
					sm.bad = fmt.Sprintf("%s changes the limit %s", in.op, dst)
				case isCounter(dst):
					sm.dcs[dst] -= sign
				}
				flagsOK, flagReg, cmpK = isCounter(dst) && !virtual, dst, 0
				cmpVirtual, cmpCursorFirst = negNow[dst], negNow[dst]
			case "CMPQ":
				flagsOK = false
				cmpCursorFirst, cmpVirtual = false, false
				if asLimit {
					switch {
					case in.args[0] == px && in.args[1] == cnt:
						flagsOK, flagReg, cmpK, cmpVirtual, cmpCursorFirst = true, cnt, 0, true, true
					case in.args[1] == px && in.args[0] == cnt:
						flagsOK, flagReg, cmpK, cmpVirtual = true, cnt, 0, true
					}
				} else if virtual {
					switch {
					case in.args[0] == cursor && isCounter(in.args[1]):
						flagsOK, flagReg, cmpK, cmpVirtual, cmpCursorFirst = true, in.args[1], 0, true, true
					case in.args[1] == cursor && isCounter(in.args[0]):
						flagsOK, flagReg, cmpK, cmpVirtual = true, in.args[0], 0, true
					}
				} else if isCounter(in.args[0]) {
					if v, ok := imm(in.args[1]); ok {
						flagsOK, flagReg, cmpK = true, in.args[0], v
						if negNow[in.args[0]] {
							flagsOK = v == 0
							cmpVirtual, cmpCursorFirst = true, true
						}
					}
				}
			case "TESTQ":
				flagsOK, flagReg, cmpK = !virtual && len(in.args) == 2 && isCounter(in.args[0]) && in.args[1] == in.args[0], in.args[0], 0
				cmpVirtual, cmpCursorFirst = negNow[in.args[0]], negNow[in.args[0]]
			case "MOVQ", "LEAQ", "XORQ", "ANDQ", "ORQ", "SHLQ", "SHRQ", "NEGQ", "IMULQ":
				if dst == px || dst == py || isCounter(dst) || (idxReg != "" && dst == idxReg) {
					// the prologue loads them; later writes are outside the vocabulary
					if !(in.op == "MOVQ" && strings.Contains(in.args[0], "(FP)")) {
						sm.bad = fmt.Sprintf("%s changes %s in a way the check does not model", in.op, dst)
					}
				}
				if in.op != "MOVQ" && in.op != "LEAQ" {
					flagsOK = false
				}
			case "RET":
				sm.ret = true
			case "JMP":
				sm.jmp = true
				if t, ok := f.label[in.args[0]]; ok {
					sm.target = blockAt[t]
				}
			default:
				if isJcc(in.op) {
					sm.jop = in.op
					sm.hasCmp, sm.cmpK, sm.cmpReg = flagsOK, cmpK, flagReg
					if flagsOK && cmpVirtual {
						// a comparison of the cursor with the limit L, read as a comparison of V_L = L - cursor with a constant
						type tr struct {
							op string
							k  int64
						}
						var t tr
						ge := map[string]bool{"JAE": true, "JHS": true, "JCC": true, "JGE": true}
						lt := map[string]bool{"JB": true, "JLO": true, "JCS": true, "JL": true, "JLT": true}
						gt := map[string]bool{"JA": true, "JHI": true, "JG": true, "JGT": true}
						le := map[string]bool{"JBE": true, "JLS": true, "JLE": true}
						switch {
						case in.op == "JE" || in.op == "JEQ" || in.op == "JZ":
							t = tr{"JE", 0}
						case in.op == "JNE" || in.op == "JNZ":
							t = tr{"JNE", 0}
						case cmpCursorFirst && ge[in.op]: // cursor >= L: V <= 0
							t = tr{"JL", 1}
						case cmpCursorFirst && lt[in.op]: // cursor < L: V >= 1
							t = tr{"JGE", 1}
						case cmpCursorFirst && gt[in.op]: // cursor > L: V < 0
							t = tr{"JL", 0}
						case cmpCursorFirst && le[in.op]: // cursor <= L: V >= 0
							t = tr{"JGE", 0}
						case ge[in.op]: // L >= cursor: V >= 0
							t = tr{"JGE", 0}
						case lt[in.op]: // V < 0
							t = tr{"JL", 0}
						case gt[in.op]: // V > 0
							t = tr{"JGE", 1}
						case le[in.op]: // V <= 0
							t = tr{"JL", 1}
						}
						if t.op == "" {
							sm.hasCmp = false
						} else {
							sm.jop, sm.cmpK = t.op, t.k
						}
					}
					if t, ok := f.label[in.args[0]]; ok {
						sm.target = blockAt[t]
					}
				}
			}
		}
		if virtual {
			if sm.dx%4 != 0 {
				sm.bad = fmt.Sprintf("the cursor advances by %d bytes, not a whole number of elements", sm.dx)
			}
			for r := range wts {
				sm.dcs[r] = sm.dx / 4
			}
		}
		sums[bi] = sm
	}
	// branch semantics on "count REL k", as intervals for the taken and the fall-through edge
	refine := func(cur ival, op string, k int64, nonNeg bool) (taken, fall ival, ok bool) {
		taken, fall = cur, cur
		clamp := func(v ival) ival {
			if nonNeg && v.lo < 0 {
				v.lo = 0
			}
			return tighten(v)
		}
		lt := func(v ival, k int64) ival { // count < k
			if v.hi > k-1 {
				v.hi = k - 1
			}
			return v
		}
		ge := func(v ival, k int64) ival {
			if v.lo < k {
				v.lo = k
			}
			return v
		}
		eq := func(v ival, k int64) ival { return ival{k, k, v.mod} }
		ne := func(v ival, k int64) ival {
			if v.lo == k {
				v.lo = k + 1
			}
			if v.hi == k {
				v.hi = k - 1
			}
			return v
		}
		switch op {
		case "JL", "JLT", "JB", "JLO", "JCS":
			taken, fall = lt(cur, k), ge(cur, k)
		case "JGE", "JAE", "JHS", "JCC":
			taken, fall = ge(cur, k), lt(cur, k)
		case "JLE", "JBE", "JLS":
			taken, fall = lt(cur, k+1), ge(cur, k+1)
		case "JG", "JGT", "JA", "JHI":
			taken, fall = ge(cur, k+1), lt(cur, k+1)
		case "JE", "JEQ", "JZ":
			taken, fall = eq(cur, k), ne(cur, k)
		case "JNE", "JNZ":
			taken, fall = ne(cur, k), eq(cur, k)
		default:
			return cur, cur, false
		}
		return clamp(taken), clamp(fall), true
	}
	var regs []string
	for r := range wts {
		regs = append(regs, r)
	}
	sort.Strings(regs)
	type ivals map[string]ival
	entry := make([]ivals, len(blocks))
	reached := make([]bool, len(blocks))
	entry[0], reached[0] = ivals{}, true
	for _, r := range regs {
		hi := inf
		if h, ok := hiOf[r]; ok {
			hi = h
		}
		m0 := mods[r]
		if bm, ok := byteMod[r]; ok {
			m0 = bm
		}
		if sm, ok := splitMod[r]; ok {
			m0 = sm
		}
		entry[0][r] = ival{0, hi, m0}
	}
	// the limits of the cursor forms are tied to the full length: 0 <= V_length - V_rounded < 2^k
	tie := func(v ivals) (ivals, bool) {
		if !virtual {
			return v, true
		}
		p := v[primaryLimit]
		for _, r := range regs {
			if r == primaryLimit {
				continue
			}
			a := v[r]
			m := mods[r]
			if m < 1 {
				m = 1
			}
			// P in [A.lo, A.hi + m-1]; A in [P.lo-(m-1), P.hi]
			if a.lo > p.lo {
				p.lo = a.lo
			}
			if a.hi < inf && a.hi+m-1 < p.hi {
				p.hi = a.hi + m - 1
			}
			if p.lo-(m-1) > a.lo {
				a.lo = p.lo - (m - 1)
			}
			if p.hi < inf && p.hi < a.hi {
				a.hi = p.hi
			}
			a = tighten(a)
			if a.lo > a.hi || p.lo > p.hi {
				return v, false
			}
			v[r] = a
		}
		v[primaryLimit] = p
		return v, true
	}
	var probsAll []string
	for iter := 0; iter < 64; iter++ {
		changed := false
		for bi := range blocks {
			if !reached[bi] {
				continue
			}
			sm := sums[bi]
			out := ivals{}
			for _, r := range regs {
				cur := entry[bi][r]
				cm := cur.mod
				if cm < 1 {
					cm = 1
				}
				o := ival{cur.lo - sm.dcs[r], cur.hi - sm.dcs[r], gcd(cm, sm.dcs[r])}
				if sm.dcs[r] == 0 {
					o.mod = cm
				}
				if cur.hi >= inf {
					o.hi = inf
				}
				if o.lo < 0 && wts[r] > 0 {
					o.lo = 0 // a block that takes more than it may is reported below
				}
				out[r] = o
			}
			push := func(t int, v ivals) {
				if t < 0 || t >= len(blocks) {
					return
				}
				for _, r := range regs {
					if v[r].lo > v[r].hi {
						return // infeasible edge
					}
				}
				{
					cp := ivals{}
					for r, x := range v {
						cp[r] = x
					}
					var feasible bool
					if v, feasible = tie(cp); !feasible {
						return
					}
				}
				if !reached[t] {
					cp := ivals{}
					for r, x := range v {
						cp[r] = x
					}
					reached[t], entry[t] = true, cp
					changed = true
					return
				}
				for _, r := range regs {
					if h := hull(entry[t][r], v[r]); h != entry[t][r] {
						entry[t][r] = h
						changed = true
					}
				}
			}
			with := func(base ivals, r string, v ival) ivals {
				cp := ivals{}
				for k, x := range base {
					cp[k] = x
				}
				cp[r] = v
				return cp
			}
			switch {
			case sm.ret:
			case sm.jmp:
				push(sm.target, out)
			case sm.jop != "":
				if sm.hasCmp {
					if tk, fl, ok := refine(out[sm.cmpReg], sm.jop, sm.cmpK, wts[sm.cmpReg] > 0); ok {
						push(sm.target, with(out, sm.cmpReg, tk))
						push(bi+1, with(out, sm.cmpReg, fl))
						break
					}
				}
				push(sm.target, out)
				push(bi+1, out)
			default:
				push(bi+1, out)
			}
		}
		if !changed {
			break
		}
	}
	tiles := func(loads map[int64]int64, total int64) string {
		var os []int64
		for o := range loads {
			os = append(os, o)
		}
		sort.Slice(os, func(i, j int) bool { return os[i] < os[j] })
		next := int64(0)
		for _, o := range os {
			if o != next {
				return fmt.Sprintf("gap or overlap at byte %d", next)
			}
			next += loads[o]
		}
		if next != total {
			return fmt.Sprintf("%d bytes are read, the pointer advances by %d", next, total)
		}
		return ""
	}
	nLoops := 0
	byName := map[string][]string{}
	nameLine := map[string]int{}
	var order []string
	for bi, b := range blocks {
		if !reached[bi] {
			continue
		}
		sm := sums[bi]
		var dcTotal, avail int64 // bytes of each operand the block takes; bytes known to remain at its entry
		overdraw := ""
		for _, r := range regs {
			if wts[r] == 0 {
				continue
			}
			dcTotal += bytesPer(r) * sm.dcs[r]
			avail += bytesPer(r) * entry[bi][r].lo
			if wts[r] > 0 && sm.dcs[r] > entry[bi][r].lo {
				overdraw = fmt.Sprintf("the block takes %d off %s but the branches leading here only establish that it is at least %d", sm.dcs[r], r, entry[bi][r].lo)
			}
		}
		touches := len(sm.loadsX)+len(sm.loadsY) > 0 || sm.dx != 0 || sm.dy != 0 || dcTotal != 0
		if _, seen := nameLine[b.name]; !seen {
			nameLine[b.name] = b.start
			order = append(order, b.name)
			byName[b.name] = nil
		}
		if sm.bad != "" {
			byName[b.name] = append(byName[b.name], sm.bad)
		}
		if sm.ret {
			for _, r := range regs {
				if wts[r] == 0 {
					continue // a rounded limit: the full length decides
				}
				if e := entry[bi][r]; !(e.lo == 0 && e.hi == 0) {
					byName[b.name] = append(byName[b.name], fmt.Sprintf("the function can return with elements left (%s in [%d,%s] at RET)", r, e.lo, map[bool]string{true: "unbounded", false: fmt.Sprint(e.hi)}[e.hi >= inf]))
				}
			}
		}
		if !touches {
			continue
		}
		nLoops++
		lo := avail
		var probs []string
		if sm.dx != sm.dy {
			probs = append(probs, fmt.Sprintf("x advances by %d bytes, y by %d", sm.dx, sm.dy))
		}
		if dcTotal <= 0 || sm.dx != dcTotal {
			probs = append(probs, fmt.Sprintf("pointers advance by %d bytes while the count drops by %d floats", sm.dx, dcTotal/4))
		}
		// with negated indexes the pointers stand at the end of their regions: reading through one index
		// is only right once the regions of the other indexes have been used up
		for used := range sm.idxUsed {
			for reg := range negScale {
				if reg == used {
					continue
				}
				if e := entry[bi][reg]; entryNeg[reg][bi] == 2 && !(e.lo == 0 && e.hi == 0) {
					probs = append(probs, fmt.Sprintf("reads through the index %s while the pointers are still moved past the region of %s, which is not known to be used up", used, reg))
				}
			}
		}
		if overdraw != "" {
			probs = append(probs, overdraw)
		}
		for o, wd := range sm.loadsX {
			if o < 0 || (o+wd) > lo {
				probs = append(probs, fmt.Sprintf("reads bytes [%d,%d) through %s with only %d floats known to remain", o, o+wd, px, lo/4))
				break
			}
		}
		for o, wd := range sm.loadsY {
			if o < 0 || (o+wd) > lo {
				probs = append(probs, fmt.Sprintf("reads bytes [%d,%d) through %s with only %d floats known to remain", o, o+wd, py, lo/4))
				break
			}
		}
		if m := tiles(sm.loadsX, sm.dx); m != "" {
			probs = append(probs, fmt.Sprintf("reads through %s do not tile the block: %s", px, m))
		}
		if m := tiles(sm.loadsY, sm.dy); m != "" {
			probs = append(probs, fmt.Sprintf("reads through %s do not tile the block: %s", py, m))
		}
		if sm.dupX || sm.dupY {
			probs = append(probs, "an element is read twice in one iteration")
		}
		byName[b.name] = append(byName[b.name], probs...)
	}
	for _, name := range order {
		probs := byName[name]
		key := f.name + ":" + name
		hasWork := false
		for bi, b := range blocks {
			if b.name == name && reached[bi] {
				sm := sums[bi]
				nz := false
				for _, d := range sm.dcs {
					if d != 0 {
						nz = true
					}
				}
				if len(sm.loadsX)+len(sm.loadsY) > 0 || nz || sm.ret {
					hasWork = true
				}
			}
		}
		if !hasWork && len(probs) == 0 {
			continue
		}
		if len(probs) > 0 {
			c.Add("ASM", key, core.Violation, at(nameLine[name]), strings.Join(dedupe(probs), "; "), props...)
		} else {
			c.Add("ASM", key, core.OK, at(nameLine[name]), "", props...)
		}
	}
	_ = probsAll
	if nLoops < 2 {
		c.Add("ASM", f.name+":loops", core.Undecided, rel, fmt.Sprintf("expected a block loop and a tail loop, found %d blocks that consume elements", nLoops), props...)
		return
	}
	lastLoopEnd := 0
	for i, in := range f.ins {
		if (in.op == "JMP" || isJcc(in.op)) && len(in.args) == 1 {
			if t, ok := f.label[in.args[0]]; ok && t <= i && i > lastLoopEnd {
				lastLoopEnd = i
			}
		}
	}
	// every accumulator is folded into the result after the loops
	used := map[string]bool{}
	for i := lastLoopEnd + 1; i < len(f.ins); i++ {
		in := f.ins[i]
		for ai, a := range in.args {
			if ai == len(in.args)-1 && len(in.args) > 1 {
				continue // destination
			}
			used[a] = true
			if strings.HasPrefix(a, "Y") {
				used["X"+a[1:]] = true
			}
			if strings.HasPrefix(a, "X") {
				used["Y"+a[1:]] = true
			}
		}
	}
	var lost []string
	for a := range accs {
		if !used[a] {
			lost = append(lost, a)
		}
	}
	sort.Strings(lost)
	if len(lost) > 0 {
		c.Add("ASM", f.name+":accumulators", core.Violation, rel, fmt.Sprintf("partial sums in %v never reach the result", lost), props...)
	} else {
		c.Add("ASM", f.name+":accumulators", core.OK, rel, fmt.Sprintf("%d accumulators folded", len(accs)), props...)
	}
}

// normaliseAddressing rewrites two addressing forms into the pointer form the traversal check
// reads, when — and only when — the rewrite provably leaves every address unchanged:
//
//	shared byte cursor   XORQ R,R at the top; both base pointers are never written; R occurs only
//	                     as d(base)(R*1) and in ADDQ $c,R. Then d(base)(R*1) is d(base) with both
//	                     bases advanced by c wherever R was.
//	difference register  SUBQ px,py at the top (py becomes y−x); py is never written again and
//	                     occurs only as d(px)(py*1); px is only written by ADDQ $c,px. Then
//	                     d(px)(py*1) is d(py) with py advanced in step with px.
//
// Anything that does not fit is returned as it is (and decided, or not, by the other forms).
func normaliseAddressing(f *asmFunc, px, py, cnt string) *asmFunc {
	firstLabel := len(f.ins)
	for _, idx := range f.label {
		if idx < firstLabel {
			firstLabel = idx
		}
	}
	dest := func(in asmIns) string {
		if len(in.args) == 0 || in.op == "CMPQ" || in.op == "TESTQ" || strings.HasPrefix(in.op, "J") {
			return ""
		}
		return in.args[len(in.args)-1]
	}
	isLoadOf := func(in asmIns, reg string) bool {
		return in.op == "MOVQ" && len(in.args) == 2 && in.args[1] == reg && strings.Contains(in.args[0], "(FP)")
	}
	rebuild := func(edit func(i int, in asmIns) []asmIns) *asmFunc {
		g := &asmFunc{name: f.name, file: f.file, label: map[string]int{}}
		newIdx := make([]int, len(f.ins)+1)
		for i, in := range f.ins {
			newIdx[i] = len(g.ins)
			g.ins = append(g.ins, edit(i, in)...)
		}
		newIdx[len(f.ins)] = len(g.ins)
		for l, idx := range f.label {
			g.label[l] = newIdx[idx]
		}
		return g
	}
	mentions := func(a, reg string) bool {
		if a == reg {
			return true
		}
		if m := memRe.FindStringSubmatch(a); m != nil && (m[2] == reg || m[3] == reg) {
			return true
		}
		return false
	}
	// ---- shared byte cursor
	for zi, zin := range f.ins[:firstLabel] {
		if !((zin.op == "XORQ" || zin.op == "XORL") && len(zin.args) == 2 && zin.args[0] == zin.args[1]) {
			continue
		}
		r := zin.args[0]
		if r == px || r == py || r == cnt || !(len(r) == 2 || len(r) == 3) || strings.HasPrefix(r, "X") || strings.HasPrefix(r, "Y") {
			continue
		}
		ok, used := true, false
		for i, in := range f.ins {
			if i == zi {
				continue
			}
			// the bases stay where they are
			if d := dest(in); (d == px || d == py) && !isLoadOf(in, d) {
				ok = false
			}
			for ai, a := range in.args {
				m := memRe.FindStringSubmatch(a)
				if m != nil && (m[2] == px || m[2] == py) {
					if m[3] != r || m[4] != "1" {
						ok = false // every access goes through the cursor
					}
					used = true
					continue
				}
				if !mentions(a, r) {
					continue
				}
				if in.op == "ADDQ" && ai == 1 && a == r {
					if _, isImm := imm(in.args[0]); isImm {
						continue
					}
				}
				ok = false
			}
		}
		if !ok || !used {
			continue
		}
		return rebuild(func(i int, in asmIns) []asmIns {
			if i == zi {
				return nil
			}
			if in.op == "ADDQ" && len(in.args) == 2 && in.args[1] == r {
				return []asmIns{{in.line, "ADDQ", []string{in.args[0], px}}, {in.line, "ADDQ", []string{in.args[0], py}}}
			}
			out := asmIns{in.line, in.op, append([]string{}, in.args...)}
			for ai, a := range out.args {
				if m := memRe.FindStringSubmatch(a); m != nil && m[3] == r {
					out.args[ai] = m[1] + "(" + m[2] + ")"
				}
			}
			return []asmIns{out}
		})
	}
	// ---- difference register
	for si, sin := range f.ins[:firstLabel] {
		if !(sin.op == "SUBQ" && len(sin.args) == 2 && sin.args[0] == px && sin.args[1] == py) {
			continue
		}
		ok, used := true, false
		for i, in := range f.ins {
			if i == si {
				continue
			}
			if i < si && !isLoadOf(in, py) && !isLoadOf(in, px) {
				for _, a := range in.args {
					if mentions(a, py) || mentions(a, px) {
						ok = false // used before the subtraction
					}
				}
			}
			if d := dest(in); d == py && !isLoadOf(in, py) {
				ok = false
			}
			if d := dest(in); d == px && !isLoadOf(in, px) {
				if _, isImm := imm(in.args[0]); !(in.op == "ADDQ" && len(in.args) == 2 && isImm) {
					ok = false
				}
			}
			for _, a := range in.args {
				m := memRe.FindStringSubmatch(a)
				if m != nil && m[3] == py {
					if m[2] != px || m[4] != "1" {
						ok = false
					}
					used = true
					continue
				}
				if m != nil && (m[2] == py || (m[3] != "" && m[2] == px)) {
					ok = false
				}
				if a == py && !isLoadOf(in, py) {
					ok = false
				}
			}
		}
		if !ok || !used {
			continue
		}
		return rebuild(func(i int, in asmIns) []asmIns {
			if i == si {
				return nil
			}
			out := asmIns{in.line, in.op, append([]string{}, in.args...)}
			for ai, a := range out.args {
				if m := memRe.FindStringSubmatch(a); m != nil && m[3] == py && m[2] == px {
					out.args[ai] = m[1] + "(" + py + ")"
				}
			}
			if in.op == "ADDQ" && len(in.args) == 2 && in.args[1] == px {
				return []asmIns{out, {in.line, "ADDQ", []string{in.args[0], py}}}
			}
			return []asmIns{out}
		})
	}
	return f
}

// horizontalSum: the last straight-line block of a kernel folds the accumulators into the one
// float that is returned. Lane model: every vector register is eight lanes, each a multiset of
// "lane j of accumulator R at the block's entry"; 128-bit VEX operations work on the low four
// lanes and clear the upper four. Required at the store of the result: lane 0 holds every lane of
// every packed accumulator exactly once and lane 0 of every scalar accumulator exactly once —
// whatever mixture of VADDPS, VHADDPS, VEXTRACTF128 and shuffles (VMOVSHDUP, VMOVHLPS, …) got
// it there.
func horizontalSum(w *load.World, c *core.Collector, f *asmFunc, props []string) {
	rel := strings.TrimPrefix(strings.TrimPrefix(f.file, w.Dir), "/")
	key := f.name + ":horizontal-sum"
	// accumulators and their width
	wide, packed, scalar := map[string]bool{}, map[string]bool{}, map[string]bool{}
	num := func(r string) string { return strings.TrimLeft(r, "XY") }
	for _, in := range f.ins {
		if !strings.HasPrefix(in.op, "VFMADD") || len(in.args) == 0 {
			continue
		}
		d := in.args[len(in.args)-1]
		switch {
		case strings.HasSuffix(in.op, "SS"):
			scalar[num(d)] = true
		case strings.HasPrefix(d, "Y"):
			wide[num(d)] = true
		default:
			packed[num(d)] = true
		}
	}
	// the final block: from the last branch target or jump before RET
	end := -1
	for i, in := range f.ins {
		if in.op == "RET" {
			end = i
		}
	}
	if end < 0 {
		c.Add("ASM", key, core.Undecided, rel, "no RET", props...)
		return
	}
	start := 0
	for _, idx := range f.label {
		if idx <= end && idx > start {
			start = idx
		}
	}
	for i := start; i < end; i++ {
		if op := f.ins[i].op; op == "JMP" || (len(op) >= 2 && op[0] == 'J') {
			start = i + 1
		}
	}
	type lane map[string]int
	regs := map[string][]lane{}
	get := func(r string) []lane {
		n := num(r)
		if v, ok := regs[n]; ok {
			return v
		}
		v := make([]lane, 8)
		for j := range v {
			v[j] = lane{fmt.Sprintf("%s.%d", n, j): 1}
		}
		regs[n] = v
		return v
	}
	add := func(a, b lane) lane {
		o := lane{}
		for k, v := range a {
			o[k] += v
		}
		for k, v := range b {
			o[k] += v
		}
		return o
	}
	zero := func() lane { return lane{} }
	set := func(r string, v []lane) {
		n := num(r)
		out := make([]lane, 8)
		for j := 0; j < 8; j++ {
			if j < len(v) && v[j] != nil {
				out[j] = v[j]
			} else {
				out[j] = zero()
			}
		}
		if strings.HasPrefix(r, "X") {
			for j := 4; j < 8; j++ {
				out[j] = zero() // VEX.128 clears the upper half
			}
		}
		regs[n] = out
	}
	isReg := func(a string) bool { _, ok := vreg(a); return ok }
	var stored []lane
	unknown := ""
	for i := start; i <= end && unknown == ""; i++ {
		in := f.ins[i]
		a := in.args
		allRegs := true
		for _, x := range a {
			if !isReg(x) && !strings.HasPrefix(x, "$") {
				allRegs = false
			}
		}
		switch {
		case in.op == "RET" || in.op == "VZEROUPPER" || in.op == "PCALIGN":
		case (in.op == "MOVSS" || in.op == "VMOVSS") && len(a) == 2 && isReg(a[0]) && !isReg(a[1]):
			stored = get(a[0])
		case in.op == "VXORPS" && len(a) == 3 && a[0] == a[1] && a[1] == a[2]:
			set(a[2], make([]lane, 8))
		case (in.op == "VADDPS") && len(a) == 3 && allRegs:
			x, y := get(a[0]), get(a[1])
			n := 8
			if strings.HasPrefix(a[2], "X") {
				n = 4
			}
			o := make([]lane, 8)
			for j := 0; j < n; j++ {
				o[j] = add(x[j], y[j])
			}
			set(a[2], o)
		case in.op == "VADDSS" && len(a) == 3 && allRegs:
			x, y := get(a[0]), get(a[1]) // Go order: src2, src1, dst: lane 0 = src1+src2, lanes 1..3 from src1
			o := make([]lane, 8)
			o[0] = add(x[0], y[0])
			for j := 1; j < 4; j++ {
				o[j] = y[j]
			}
			set(a[2], o)
		case in.op == "VHADDPS" && len(a) == 3 && allRegs:
			s2, s1 := get(a[0]), get(a[1])
			o := make([]lane, 8)
			halves := 1
			if strings.HasPrefix(a[2], "Y") {
				halves = 2
			}
			for h := 0; h < halves; h++ {
				b := 4 * h
				o[b+0] = add(s1[b+0], s1[b+1])
				o[b+1] = add(s1[b+2], s1[b+3])
				o[b+2] = add(s2[b+0], s2[b+1])
				o[b+3] = add(s2[b+2], s2[b+3])
			}
			set(a[2], o)
		case in.op == "VEXTRACTF128" && len(a) == 3 && isReg(a[1]) && isReg(a[2]):
			s := get(a[1])
			o := make([]lane, 8)
			off := 0
			if v, ok := imm(a[0]); ok && v == 1 {
				off = 4
			}
			for j := 0; j < 4; j++ {
				o[j] = s[off+j]
			}
			set(a[2], o)
		case in.op == "VMOVSHDUP" && len(a) == 2 && allRegs:
			s := get(a[0])
			set(a[1], []lane{s[1], s[1], s[3], s[3]})
		case in.op == "VMOVSLDUP" && len(a) == 2 && allRegs:
			s := get(a[0])
			set(a[1], []lane{s[0], s[0], s[2], s[2]})
		case in.op == "VMOVHLPS" && len(a) == 3 && allRegs:
			s2, s1 := get(a[0]), get(a[1]) // dst.low = high(src2), dst.high = high(src1)
			set(a[2], []lane{s2[2], s2[3], s1[2], s1[3]})
		case in.op == "VMOVLHPS" && len(a) == 3 && allRegs:
			s2, s1 := get(a[0]), get(a[1]) // dst.low = low(src1), dst.high = low(src2)
			set(a[2], []lane{s1[0], s1[1], s2[0], s2[1]})
		case (in.op == "VMOVAPS" || in.op == "VMOVUPS") && len(a) == 2 && allRegs:
			s := get(a[0])
			set(a[1], append([]lane{}, s...))
		default:
			unknown = fmt.Sprintf("%s:%d: %s %s", rel, in.line, in.op, strings.Join(a, ", "))
		}
	}
	if unknown != "" {
		c.Add("ASM", key, core.Undecided, rel, "the final block has an instruction the lane model gives no meaning to: "+unknown, props...)
		return
	}
	if stored == nil {
		c.Add("ASM", key, core.Undecided, rel, "no store of the result found in the final block", props...)
		return
	}
	var probs []string
	want := func(n string, lanes int) {
		for j := 0; j < lanes; j++ {
			k := fmt.Sprintf("%s.%d", n, j)
			if got := stored[0][k]; got != 1 {
				probs = append(probs, fmt.Sprintf("lane %d of accumulator %s enters the result %d times", j, n, got))
			}
		}
	}
	var names []string
	for n := range wide {
		names = append(names, n)
	}
	sort.Strings(names)
	for _, n := range names {
		want(n, 8)
	}
	names = nil
	for n := range packed {
		if !wide[n] {
			names = append(names, n)
		}
	}
	sort.Strings(names)
	for _, n := range names {
		want(n, 4)
	}
	names = nil
	for n := range scalar {
		if !wide[n] && !packed[n] {
			names = append(names, n)
		}
	}
	sort.Strings(names)
	for _, n := range names {
		want(n, 1)
	}
	if len(probs) > 0 {
		c.Add("ASM", key, core.Violation, rel, "the reduction does not add up every lane of every accumulator exactly once: "+strings.Join(probs, "; "), props...)
	} else {
		c.Add("ASM", key, core.OK, rel, fmt.Sprintf("%d packed and %d scalar accumulators folded lane by lane", len(wide)+len(packed), len(scalar)), props...)
	}
}

// normaliseSplitRegions: the prologue cuts the vectors into a head of whole blocks and a remainder
// and gives the remainder pointers of its own,
//
//	MOVQ n,T; ANDQ $2^k-1,T; SUBQ T,n; LEAQ (px)(n*4),SX; LEAQ (py)(n*4),SY
//
// so that the two regions can be walked in either order. Relabel the elements so that whatever
// region is walked first comes first (the same relabelling for x and y: pairs stay pairs, "every
// index exactly once" and "nothing beyond the length" are unchanged by it): then SX is px and SY
// is py, one cursor pair that runs through both regions. That is only the same program if every
// straight-line block that reads or advances SX/SY takes its elements off T alone and every block
// that reads or advances px/py takes them off n alone — checked here; anything else is left as it
// is. The split itself (T <= 2^k-1, n a multiple of 2^k, both of weight one) is read by checkKernel.
func normaliseSplitRegions(f *asmFunc, px, py, cnt string) *asmFunc {
	firstLabel := len(f.ins)
	for _, idx := range f.label {
		if idx < firstLabel {
			firstLabel = idx
		}
	}
	mi, ai, si, lx, ly := -1, -1, -1, -1, -1
	var T, SX, SY string
	for i := 0; i+2 < firstLabel; i++ {
		a, b, c := f.ins[i], f.ins[i+1], f.ins[i+2]
		if a.op == "MOVQ" && len(a.args) == 2 && a.args[0] == cnt && !strings.Contains(a.args[1], "(") &&
			b.op == "ANDQ" && len(b.args) == 2 && b.args[1] == a.args[1] &&
			c.op == "SUBQ" && len(c.args) == 2 && c.args[0] == a.args[1] && c.args[1] == cnt {
			if v, ok := imm(b.args[0]); ok && v > 0 && (v+1)&v == 0 {
				mi, ai, si, T = i, i+1, i+2, a.args[1]
			}
		}
	}
	if mi < 0 {
		return f
	}
	for i := si + 1; i < firstLabel; i++ {
		in := f.ins[i]
		if len(in.args) == 0 {
			continue
		}
		dst := in.args[len(in.args)-1]
		if in.op == "LEAQ" && len(in.args) == 2 {
			if m := memRe.FindStringSubmatch(in.args[0]); m != nil && m[1] == "" && m[3] == cnt && m[4] == "4" {
				switch {
				case m[2] == px && lx < 0:
					lx, SX = i, in.args[1]
					continue
				case m[2] == py && ly < 0:
					ly, SY = i, in.args[1]
					continue
				}
			}
		}
		if dst == px || dst == py || dst == cnt || dst == T {
			return f // moved before the remainder's pointers were taken
		}
	}
	if lx < 0 || ly < 0 || SX == SY || SX == px || SX == py || SY == px || SY == py {
		return f
	}
	// how the remainder's registers are used, and the separation of the two regions per block
	leaders := map[int]bool{0: true}
	for _, idx := range f.label {
		leaders[idx] = true
	}
	for i, in := range f.ins {
		if in.op == "JMP" || in.op == "RET" || (len(in.op) >= 2 && in.op[0] == 'J') {
			leaders[i+1] = true
		}
	}
	touchesTail, touchesHead, takesT, takesN := false, false, false, false
	flush := func() bool {
		ok := !(touchesTail && (takesN || touchesHead)) && !(touchesHead && takesT)
		touchesTail, touchesHead, takesT, takesN = false, false, false, false
		return ok
	}
	for i, in := range f.ins {
		if leaders[i] && !flush() {
			return f
		}
		if i == mi || i == ai || i == si || i == lx || i == ly {
			continue
		}
		dst := ""
		if len(in.args) > 0 && in.op != "CMPQ" && in.op != "TESTQ" && !(len(in.op) >= 2 && in.op[0] == 'J') {
			dst = in.args[len(in.args)-1]
		}
		for ak, a := range in.args {
			m := memRe.FindStringSubmatch(a)
			if m == nil {
				if (a == SX || a == SY) && !(ak == len(in.args)-1 && in.op == "ADDQ") {
					return f // the remainder's pointers escape into arithmetic
				}
				continue
			}
			if m[3] == SX || m[3] == SY || ((m[2] == SX || m[2] == SY) && m[3] != "") {
				return f
			}
			if m[2] == SX || m[2] == SY {
				touchesTail = true
			}
			if m[2] == px || m[2] == py {
				touchesHead = true
			}
		}
		switch dst {
		case SX, SY:
			if _, isImm := imm(in.args[0]); in.op != "ADDQ" || !isImm {
				return f
			}
			touchesTail = true
		case px, py:
			touchesHead = true
		case T:
			takesT = true
		case cnt:
			if !(in.op == "MOVQ" && strings.Contains(in.args[0], "(FP)")) {
				takesN = true
			}
		}
	}
	if !flush() {
		return f
	}
	ren := func(a string) string {
		switch a {
		case SX:
			return px
		case SY:
			return py
		}
		if m := memRe.FindStringSubmatch(a); m != nil && (m[2] == SX || m[2] == SY) {
			base := px
			if m[2] == SY {
				base = py
			}
			return m[1] + "(" + base + ")"
		}
		return a
	}
	g := &asmFunc{name: f.name, file: f.file, label: map[string]int{}}
	newIdx := make([]int, len(f.ins)+1)
	for i, in := range f.ins {
		newIdx[i] = len(g.ins)
		if i == lx || i == ly {
			continue
		}
		n := asmIns{line: in.line, op: in.op}
		for _, a := range in.args {
			n.args = append(n.args, ren(a))
		}
		g.ins = append(g.ins, n)
	}
	newIdx[len(f.ins)] = len(g.ins)
	for l, idx := range f.label {
		g.label[l] = newIdx[idx]
	}
	return g
}
