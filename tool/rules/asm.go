package rules

import (
	"bufio"
	"bytes"
	"fmt"
	"path/filepath"
	"regexp"
	"sort"
	"strconv"
	"strings"

	"semaverif/internal/core"
	"semaverif/internal/load"
)

type asmIns struct {
	line int
	op   string
	args []string
}

type asmFunc struct {
	name  string
	file  string
	ins   []asmIns
	label map[string]int // label -> index into ins of the first instruction after it
}

var memRe = regexp.MustCompile(`^(-?\d+)?\(([A-Z0-9]+)\)$`)

func parseAsm(w *load.World, path string) ([]*asmFunc, error) {
	data, err := w.ReadFile(path)
	if err != nil {
		return nil, err
	}
	var fns []*asmFunc
	var cur *asmFunc
	sc := bufio.NewScanner(bytes.NewReader(data))
	n := 0
	for sc.Scan() {
		n++
		line := sc.Text()
		if i := strings.Index(line, "//"); i >= 0 {
			line = line[:i]
		}
		line = strings.TrimSpace(line)
		if line == "" || strings.HasPrefix(line, "#") {
			continue
		}
		if strings.HasPrefix(line, "TEXT") {
			name := strings.TrimPrefix(strings.Fields(line)[1], "·")
			name = strings.TrimSuffix(strings.Split(name, "(")[0], ",")
			cur = &asmFunc{name: name, file: path, label: map[string]int{}}
			fns = append(fns, cur)
			continue
		}
		if cur == nil {
			continue
		}
		if strings.HasSuffix(line, ":") {
			cur.label[strings.TrimSuffix(line, ":")] = len(cur.ins)
			continue
		}
		f := strings.Fields(line)
		op := f[0]
		rest := strings.TrimSpace(strings.TrimPrefix(line, op))
		var args []string
		for _, a := range strings.Split(rest, ",") {
			if a = strings.TrimSpace(a); a != "" {
				args = append(args, a)
			}
		}
		cur.ins = append(cur.ins, asmIns{n, op, args})
	}
	return fns, sc.Err()
}

func imm(s string) (int64, bool) {
	if !strings.HasPrefix(s, "$") {
		return 0, false
	}
	v, err := strconv.ParseInt(strings.TrimPrefix(s, "$"), 0, 64)
	return v, err == nil
}

func regWidth(op string, args []string) int64 {
	// width of the memory access of a vector instruction
	if strings.HasSuffix(op, "SS") {
		return 4
	}
	for _, a := range args {
		if strings.HasPrefix(a, "Y") {
			return 32
		}
	}
	for _, a := range args {
		if strings.HasPrefix(a, "X") {
			return 16
		}
	}
	return 0
}

func Asm(w *load.World, c *core.Collector) {
	props := []string{"C20"}
	files, _ := filepath.Glob(filepath.Join(w.Dir, "distance", "asm", "*.s"))
	sort.Strings(files)
	nf := 0
	for _, path := range files {
		fns, err := parseAsm(w, path)
		if err != nil {
			c.Add("ASM", "parse:"+filepath.Base(path), core.Undecided, "", err.Error(), props...)
			continue
		}
		for _, f := range fns {
			nf++
			checkKernel(w, c, f, props)
		}
	}
	c.Count("asm_kernels", nf)
	if nf < 2 {
		c.Add("ASM", "anchor:kernels", core.Undecided, "", fmt.Sprintf("found %d assembly kernels, expected 2", nf), props...)
	}
}

func checkKernel(w *load.World, c *core.Collector, f *asmFunc, props []string) {
	rel := strings.TrimPrefix(strings.TrimPrefix(f.file, w.Dir), "/")
	at := func(i int) string { return fmt.Sprintf("%s:%d", rel, f.ins[i].line) }
	var px, py, cnt string
	usesYLen := false
	for _, in := range f.ins {
		if in.op == "MOVQ" && len(in.args) == 2 {
			switch {
			case strings.HasPrefix(in.args[0], "x_base"):
				px = in.args[1]
			case strings.HasPrefix(in.args[0], "y_base"):
				py = in.args[1]
			case strings.HasPrefix(in.args[0], "x_len"):
				cnt = in.args[1]
			case strings.HasPrefix(in.args[0], "y_len"):
				usesYLen = true
			}
		}
	}
	if px == "" || py == "" || cnt == "" {
		c.Add("ASM", f.name+":registers", core.Undecided, rel, "could not identify the pointer and count registers", props...)
		return
	}
	if !usesYLen {
		c.Notef("ASM: %s consults only len(x); equal operand lengths are the callers' obligation (VALID)", f.name)
	}
	checkRegisterFlow(w, c, f, cnt, props)
	// loops: label L ... JMP L
	type loop struct {
		label      string
		start, end int
	}
	var loops []loop
	for i, in := range f.ins {
		if in.op == "JMP" && len(in.args) == 1 {
			if s, ok := f.label[in.args[0]]; ok && s <= i {
				loops = append(loops, loop{in.args[0], s, i})
			}
		}
	}
	if len(loops) < 2 {
		c.Add("ASM", f.name+":loops", core.Undecided, rel, fmt.Sprintf("expected a block loop and a tail loop, found %d loops", len(loops)), props...)
		return
	}
	accs := map[string]bool{}
	lastLoopEnd := 0
	for _, lp := range loops {
		if lp.end > lastLoopEnd {
			lastLoopEnd = lp.end
		}
		var addX, addY, sub int64 = -1, -1, -1
		var guardImm int64 = -1
		guardJump := ""
		offs := map[string]map[int64]int64{px: {}, py: {}}
		for i := lp.start; i <= lp.end; i++ {
			in := f.ins[i]
			switch in.op {
			case "ADDQ":
				if v, ok := imm(in.args[0]); ok {
					if in.args[1] == px {
						addX = v
					}
					if in.args[1] == py {
						addY = v
					}
				}
			case "SUBQ":
				if v, ok := imm(in.args[0]); ok && in.args[1] == cnt {
					sub = v
				}
			case "DECQ":
				if in.args[0] == cnt {
					sub = 1
				}
			case "CMPQ":
				if in.args[0] == cnt {
					if v, ok := imm(in.args[1]); ok {
						guardImm = v
						if i+1 < len(f.ins) {
							guardJump = f.ins[i+1].op
						}
					}
				}
			}
			width := regWidth(in.op, in.args)
			for ai, a := range in.args {
				m := memRe.FindStringSubmatch(a)
				if m == nil {
					continue
				}
				off := int64(0)
				if m[1] != "" {
					off, _ = strconv.ParseInt(m[1], 10, 64)
				}
				if _, tracked := offs[m[2]]; tracked && ai < len(in.args)-1 && width > 0 {
					offs[m[2]][off] = width
				}
			}
			if strings.HasPrefix(in.op, "VFMADD") {
				accs[in.args[len(in.args)-1]] = true
			}
		}
		key := f.name + ":" + lp.label
		var probs []string
		if addX != addY {
			probs = append(probs, fmt.Sprintf("x advances by %d bytes, y by %d", addX, addY))
		}
		if sub <= 0 || addX != 4*sub {
			probs = append(probs, fmt.Sprintf("pointers advance by %d bytes while the count drops by %d floats", addX, sub))
		}
		switch {
		case sub > 1 && !(guardImm == sub && (guardJump == "JL" || guardJump == "JB" || guardJump == "JLT")):
			probs = append(probs, fmt.Sprintf("the loop reads %d floats but is guarded by CMPQ count,$%d; %s", sub, guardImm, guardJump))
		case sub == 1 && !(guardImm == 0 && (guardJump == "JE" || guardJump == "JEQ" || guardJump == "JLE")):
			probs = append(probs, fmt.Sprintf("the tail loop is guarded by CMPQ count,$%d; %s", guardImm, guardJump))
		}
		for _, r := range []string{px, py} {
			var os []int64
			for o := range offs[r] {
				os = append(os, o)
			}
			sort.Slice(os, func(i, j int) bool { return os[i] < os[j] })
			next := int64(0)
			for _, o := range os {
				if o != next {
					probs = append(probs, fmt.Sprintf("reads through %s do not tile the block: gap or overlap at byte %d", r, next))
					break
				}
				next += offs[r][o]
			}
			if next != addX && len(probs) == 0 {
				probs = append(probs, fmt.Sprintf("reads through %s cover %d bytes, the pointer advances by %d", r, next, addX))
			}
		}
		if len(probs) > 0 {
			c.Add("ASM", key, core.Violation, at(lp.start), strings.Join(probs, "; "), props...)
		} else {
			c.Add("ASM", key, core.OK, at(lp.start), fmt.Sprintf("%d floats, %d bytes per iteration", sub, addX), props...)
		}
	}
	// every accumulator is folded into the result after the loops
	used := map[string]bool{}
	for i := lastLoopEnd + 1; i < len(f.ins); i++ {
		in := f.ins[i]
		for ai, a := range in.args {
			if ai == len(in.args)-1 && len(in.args) > 1 {
				continue // destination
			}
			used[a] = true
			if strings.HasPrefix(a, "Y") {
				used["X"+a[1:]] = true
			}
			if strings.HasPrefix(a, "X") {
				used["Y"+a[1:]] = true
			}
		}
	}
	var lost []string
	for a := range accs {
		if !used[a] {
			lost = append(lost, a)
		}
	}
	sort.Strings(lost)
	if len(lost) > 0 {
		c.Add("ASM", f.name+":accumulators", core.Violation, rel, fmt.Sprintf("partial sums in %v never reach the result", lost), props...)
	} else {
		c.Add("ASM", f.name+":accumulators", core.OK, rel, fmt.Sprintf("%d accumulators folded", len(accs)), props...)
	}
}
