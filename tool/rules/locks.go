package rules

import (
	"fmt"
	"os"
	"go/types"
	"sort"
	"strings"

	"golang.org/x/tools/go/ssa"

	"semaverif/internal/core"
	"semaverif/internal/load"
	"semaverif/internal/lockset"
	"semaverif/internal/ssax"
)

// ---------------------------------------------------------------- LOCKORDER

type orderException struct {
	From, To string
	Fn       string // substring of the enclosing function or of the callee through which To is acquired
	Pkg      string // fallback when no function of that name exists any more
	Reason   string
}

var orderExceptions = []orderException{
	{"vamana.graphNode.edgesMu", "vamana.graphNode.edgesMu", "insertSinglePoint", "shard/index/vamana",
		"read lock of the node being inserted, then write lock of an existing neighbour: a node becomes reachable only after its own neighbour list is fixed, so no two inserts can wait on each other"},
	{"vamana.graphNode.edgesMu", "vamana.graphNode.edgesMu", "pruneDeleteNeighbour", "shard/index/vamana",
		"runs single-threaded after the insert workers were joined"},
	{"cache.ItemCache.itemsMu", "vamana.graphNode.edgesMu", "EdgeScan", "shard/index/vamana",
		"edge scan happens in the delete phase, after the insert workers (the only holders of edgesMu that take itemsMu) were joined; the cache is held exclusively by this transaction"},
	{"cache.sharedCacheElem.mu", "cache.Transaction.mu", "cache.Transaction).", "shard/cache",
		"the held elem is the one this call just created; Transaction.mu is per transaction and none of its goroutines waits for an elem the transaction already write-holds"},
}

func propsForClasses(classes []string) []string {
	ps := map[string]bool{"C09": true}
	for _, c := range classes {
		if strings.HasPrefix(c, "cache.") {
			ps["C11"] = true
		}
		if strings.HasPrefix(c, "cluster.") {
			ps["C12"] = true
		}
	}
	var out []string
	for p := range ps {
		out = append(out, p)
	}
	sort.Strings(out)
	return out
}

func LockOrder(w *load.World, ls *lockset.Result, c *core.Collector) {
	type pair struct{ a, b string }
	groups := map[pair][]lockset.Edge{}
	for _, e := range ls.Edges {
		groups[pair{e.From, e.To}] = append(groups[pair{e.From, e.To}], e)
	}
	fnExists := func(sub string) bool {
		for _, f := range w.Fns {
			if strings.Contains(f.String(), sub) {
				return true
			}
		}
		return false
	}
	// classify each concrete edge: excepted or live
	excepted := func(e lockset.Edge) (bool, string) {
		if e.AcqFresh {
			return true, "acquired lock belongs to an object allocated in the same function (cannot be contended before it is published)"
		}
		for _, x := range orderExceptions {
			if x.From != e.From || x.To != e.To {
				continue
			}
			if x.From == "cache.sharedCacheElem.mu" && !e.HeldFresh {
				continue
			}
			fn := e.Fn.String()
			via := ""
			if e.Via != nil {
				via = e.Via.String()
			}
			if strings.Contains(fn, x.Fn) || strings.Contains(via, x.Fn) {
				return true, x.Reason
			}
			if !fnExists(x.Fn) && (strings.Contains(load.PkgPath(e.Fn), x.Pkg) || (e.Via != nil && strings.Contains(load.PkgPath(e.Via), x.Pkg))) {
				c.Notef("LOCKORDER exception for %s->%s matched by package %s (function %q no longer exists)", x.From, x.To, x.Pkg, x.Fn)
				return true, x.Reason
			}
		}
		return false, ""
	}
	adj := map[string][]string{}
	live := map[pair][]lockset.Edge{}
	var pairs []pair
	for p := range groups {
		pairs = append(pairs, p)
	}
	sort.Slice(pairs, func(i, j int) bool { return pairs[i].a+pairs[i].b < pairs[j].a+pairs[j].b })
	for _, p := range pairs {
		var reasons []string
		for _, e := range groups[p] {
			if ok, why := excepted(e); ok {
				if !contains(reasons, why) {
					reasons = append(reasons, why)
				}
			} else {
				live[p] = append(live[p], e)
			}
		}
		if len(live[p]) > 0 {
			adj[p.a] = append(adj[p.a], p.b)
		}
		if len(live[p]) == 0 {
			e := groups[p][0]
			c.Add("LOCKORDER", "edge:"+p.a+"->"+p.b, core.Exception, e.At, strings.Join(reasons, " | "), propsForClasses([]string{p.a, p.b})...)
		}
	}
	inBad := map[pair]bool{}
	for _, scc := range sccs(adj) {
		self := contains(adj[scc[0]], scc[0])
		if len(scc) == 1 && !self {
			continue
		}
		sort.Strings(scc)
		set := map[string]bool{}
		for _, n := range scc {
			set[n] = true
		}
		var det []string
		where := ""
		for _, p := range pairs {
			if set[p.a] && set[p.b] && len(live[p]) > 0 {
				inBad[p] = true
				seen := map[string]bool{}
				for _, e := range live[p] {
					s := fmt.Sprintf("%s->%s in %s @%s", p.a, p.b, load.FnKey(e.Fn), e.At)
					if e.Via != nil {
						s += " via " + load.FnKey(e.Via)
					}
					if !seen[s] && len(seen) < 3 {
						seen[s] = true
						det = append(det, s)
						if where == "" {
							where = e.At
						}
					}
				}
			}
		}
		c.Add("LOCKORDER", "cycle:{"+strings.Join(scc, ",")+"}", core.Violation, where,
			"lock classes can be acquired in a cyclic order: "+strings.Join(det, "; "), propsForClasses(scc)...)
	}
	for _, p := range pairs {
		if len(live[p]) > 0 && !inBad[p] {
			e := live[p][0]
			c.Add("LOCKORDER", "edge:"+p.a+"->"+p.b, core.OK, e.At, "", propsForClasses([]string{p.a, p.b})...)
		}
	}
	c.Count("lock_classes", len(ls.Classes))
	c.Count("lock_sites", ls.LockSites)
	c.Count("lock_order_edges", len(pairs))
	c.Count("lock_states_explored", ls.States)
	for _, u := range ls.Undecided {
		c.Add("LOCKORDER", "undecided:"+u, core.Undecided, "", u, "C09", "C11", "C12")
	}
}

// ----------------------------------------------------------------- LOCKPAIR

func LockPair(w *load.World, ls *lockset.Result, c *core.Collector) {
	leaky := map[*ssa.Function]bool{}
	for _, l := range ls.Leaks {
		if l.Transfer && ls.TransferConsistent(l) {
			// a helper that returns with a lock held: the lock is tracked on in its callers
			continue
		}
		leaky[l.Fn] = true
		classes := []string{}
		for _, h := range l.Held {
			if !contains(classes, h.Class) {
				classes = append(classes, h.Class)
			}
		}
		sort.Strings(classes)
		key := "exit-holding:" + load.FnKey(l.Fn) + ":" + strings.Join(classes, ",")
		// hand-over: Transaction.With may return holding the write lock of an elem iff registered
		if strings.HasPrefix(load.FnKey(l.Fn), "(*shard/cache.Transaction).") && handedOver(l) {
			c.Add("LOCKPAIR", key, core.Exception, l.At, "write lock handed over to the transaction: the elem is registered in writtenCaches before this exit and Commit unlocks every registered elem", "C11", "C07")
			continue
		}
		var hs []string
		for _, h := range l.Held {
			hs = append(hs, h.String())
		}
		c.Add("LOCKPAIR", key, core.Violation, l.At, "return reached while holding "+strings.Join(hs, ","), propsForClasses(classes)...)
	}
	// every function with lock operations and no leak
	n := 0
	for _, f := range w.Fns {
		has := false
		var classes []string
		for _, b := range f.Blocks {
			for _, in := range b.Instrs {
				if call, ok := in.(*ssa.Call); ok {
					if kind, l, ok := lockset.AsLockOp(call.Common()); ok && !strings.HasSuffix(kind, "nlock") {
						has = true
						if !contains(classes, l.Class) {
							classes = append(classes, l.Class)
						}
					}
				}
			}
		}
		if has {
			n++
			if !leaky[f] {
				c.Add("LOCKPAIR", "paired:"+load.FnKey(f), core.OK, w.Position(f.Pos()), "", propsForClasses(classes)...)
			}
		}
	}
	c.Count("functions_with_locks", n)
	commitUnlocksAll(w, c)
}

// handedOver: every held lock is an elem write lock whose owner value was
// stored into t.writtenCaches on a site that dominates the return.
func handedOver(l lockset.Leak) bool {
	for _, h := range l.Held {
		if h.Class != "cache.sharedCacheElem.mu" || h.Mode != lockset.W {
			return false
		}
		if !h.Handed && !contains(l.Tags, "registered:"+strings.TrimSuffix(h.Key, ".mu")) {
			return false
		}
	}
	return true
}

// HandOverTagger marks, along a path, every elem stored into Transaction.writtenCaches.
func HandOverTagger(in ssa.Instruction) (string, bool) {
	mu, ok := in.(*ssa.MapUpdate)
	if !ok {
		return "", false
	}
	u, ok := mu.Map.(*ssa.UnOp)
	if !ok {
		return "", false
	}
	fa, ok := u.X.(*ssa.FieldAddr)
	if !ok || fieldOf(fa) != "cache.Transaction.writtenCaches" {
		return "", false
	}
	vp, _ := ssax.Path(mu.Value)
	return "registered:" + vp, true
}

func commitUnlocksAll(w *load.World, c *core.Collector) {
	var commit *ssa.Function
	for _, f := range w.Fns {
		if load.FnKey(f) == "(*shard/cache.Transaction).Commit" {
			commit = f
		}
	}
	if commit == nil {
		c.Add("LOCKPAIR", "handover:Commit", core.Undecided, "", "anchor (*cache.Transaction).Commit not found", "C11", "C07")
		return
	}
	// find range over writtenCaches and the Unlock on the ranged value (in Commit, or in the helper
	// it leaves the release to)
	commit = homeOf(commit, rangesOverWritten)
	var unlock *ssa.Call
	var next *ssa.Next
	for _, b := range commit.Blocks {
		for _, in := range b.Instrs {
			if n, ok := in.(*ssa.Next); ok {
				if rg, ok := n.Iter.(*ssa.Range); ok {
					if p, _ := ssax.Path(rg.X); strings.Contains(p, "writtenCaches") {
						next = n
					}
				}
			}
			if call, ok := in.(*ssa.Call); ok {
				if kind, l, ok := lockset.AsLockOp(call.Common()); ok && kind == "Unlock" && l.Class == "cache.sharedCacheElem.mu" {
					unlock = call
				}
			}
		}
	}
	if next == nil || unlock == nil {
		c.Add("LOCKPAIR", "handover:Commit", core.Violation, w.Position(commit.Pos()), "Commit does not range over writtenCaches unlocking each elem", "C11", "C07")
		return
	}
	// loop body entry: successor of the block testing ok (extract #0)
	header := next.Block()
	var body *ssa.BasicBlock
	if ifi, ok := header.Instrs[len(header.Instrs)-1].(*ssa.If); ok {
		_ = ifi
		body = header.Succs[0]
	}
	okAll := body != nil && !reachAvoiding(body, header, unlock.Block())
	v := core.OK
	d := ""
	if !okAll {
		v = core.Violation
		d = "a path through the loop body returns to the loop header without unlocking the elem"
	}
	c.Add("LOCKPAIR", "handover:Commit", v, w.At(unlock), d, "C11", "C07")
}

// reachAvoiding: can 'to' be reached from 'from' without passing through block avoid?
func reachAvoiding(from, to, avoid *ssa.BasicBlock) bool {
	seen := map[*ssa.BasicBlock]bool{}
	var dfs func(b *ssa.BasicBlock) bool
	dfs = func(b *ssa.BasicBlock) bool {
		if b == avoid {
			return false
		}
		if seen[b] {
			return false
		}
		seen[b] = true
		for _, s := range b.Succs {
			if s == to {
				return true
			}
			if dfs(s) {
				return true
			}
		}
		return false
	}
	if from == avoid {
		return false
	}
	return dfs(from)
}

// -------------------------------------------------------------------- GUARD

type guardRow struct {
	Field, Lock string
	WriteNeedsW bool
	Props       []string
}

var guardTable = []guardRow{
	{"cluster.ShardManager.shardStore", "cluster.ShardManager.shardLock", false, []string{"C12", "C09"}},
	{"cluster.loadedShard.shard", "cluster.loadedShard.mu", true, []string{"C12", "C09"}},
	{"cache.Manager.sharedCaches", "cache.Manager.mu", false, []string{"C11", "C09"}},
	{"cache.Transaction.writtenCaches", "cache.Transaction.mu", false, []string{"C11", "C09"}},
	{"cache.sharedCacheElem.lastAccessed", "cache.Manager.mu", false, []string{"C11", "C09"}},
	{"cache.ItemCache.items", "cache.ItemCache.itemsMu", false, []string{"C09", "C08"}},
	{"cache.ItemCache.isAllInCache", "cache.ItemCache.itemsMu", false, []string{"C09", "C08"}},
	{"cluster.ClusterNode.rpcClients", "cluster.ClusterNode.rpcClientsMu", false, []string{"C09"}},
}

// AtomicMaps: the guarded fields of map type, with their lock class (for check-then-act atomicity).
func AtomicMaps(w *load.World) map[string]string {
	m := map[string]string{
		"cache.Manager.sharedCaches":      "cache.Manager.mu",
		"cache.Transaction.writtenCaches": "cache.Transaction.mu",
		"cache.ItemCache.items":           "cache.ItemCache.itemsMu",
		"cluster.ClusterNode.rpcClients":  "cluster.ClusterNode.rpcClientsMu",
	}
	if f, l := shardRegistryRow(w); f != "" {
		m[f] = l
	} else {
		m["cluster.ShardManager.shardStore"] = "cluster.ShardManager.shardLock"
	}
	for k, v := range m {
		m[k] = resolveLockClass(w, v)
	}
	return m
}

// ------------------------------------------------------------------- ATOMIC
//
// Check-then-act on a guarded map: when a function looks a key up in one of the
// maps of the guarded-by table and, later on the same path, stores into that map,
// the guarding lock must not have been released in between. Otherwise two
// goroutines can both miss and both publish — for the shared cache registry that
// means a reader's cold cache replacing the cache a writer has just published and
// locked (C09, C11), for the shard registry a shard opened twice (C12).
func Atomic(w *load.World, ls *lockset.Result, c *core.Collector) {
	propsOf := func(field string) []string {
		for _, r := range guardTable {
			if r.Field == field {
				return r.Props
			}
		}
		return []string{"C09"}
	}
	bad := map[string]lockset.Split{}
	for _, s := range ls.Splits {
		bad[s.Field+"@"+load.FnKey(s.Fn)] = s
	}
	n := 0
	seen := map[string]bool{}
	for _, a := range ls.Acts {
		k := a.Field + "@" + load.FnKey(a.Fn)
		if seen[k] {
			continue
		}
		seen[k] = true
		n++
		if s, isBad := bad[k]; isBad {
			c.Add("ATOMIC", "check-then-act:"+k, core.Violation, s.At, "the map "+a.Field+" is updated on the strength of a lookup made in an earlier critical section: its lock was released in between, so another goroutine can have registered the same key meanwhile and is overwritten", propsOf(a.Field)...)
		} else {
			c.Add("ATOMIC", "check-then-act:"+k, core.OK, a.At, "", propsOf(a.Field)...)
		}
	}
	c.Count("check_then_act_sites", n)
	if n < 3 {
		c.Add("ATOMIC", "anchor:sites", core.Undecided, "", fmt.Sprintf("found %d lookup-then-update sites on guarded maps, expected at least 3", n), "C09", "C11", "C12")
	}
}

func fieldOf(fa *ssa.FieldAddr) string {
	return ssax.TypeName(fa.X.Type()) + "." + ssax.StructOf(fa.X.Type()).Field(fa.Field).Name()
}

func isWriteOf(fa *ssa.FieldAddr) bool {
	for _, r := range *fa.Referrers() {
		switch u := r.(type) {
		case *ssa.Store:
			if u.Addr == fa {
				return true
			}
		case *ssa.UnOp: // loaded map then updated / deleted
			for _, rr := range *u.Referrers() {
				switch m := rr.(type) {
				case *ssa.MapUpdate:
					if m.Map == u {
						return true
					}
				case *ssa.Call:
					if b, ok := m.Call.Value.(*ssa.Builtin); ok && (b.Name() == "delete" || b.Name() == "clear") && len(m.Call.Args) > 0 && m.Call.Args[0] == u {
						return true
					}
				}
			}
		}
	}
	return false
}

// guardRows: the table, with the shard registry's row resolved by type (the field and its mutex
// may have been renamed or regrouped into a struct of their own)
func guardRows(w *load.World) []guardRow {
	out := append([]guardRow{}, guardTable...)
	if f, l := shardRegistryRow(w); f != "" {
		out[0].Field, out[0].Lock = f, l
	}
	for i := range out {
		out[i].Lock = resolveLockClass(w, out[i].Lock)
	}
	return out
}

// resolveLockClass: a lock named "pkg.Type.field" in a table. When the struct no longer has a
// field of that name but has exactly one mutex (renamed, or embedded: "ls.Lock()"), that one is
// meant: the lock is recognised by its type, the name in the table is the one of the pinned tree.
func resolveLockClass(w *load.World, cls string) string {
	parts := strings.Split(cls, ".")
	if len(parts) != 3 {
		return cls
	}
	for path, pkg := range w.ByPath {
		if !strings.HasSuffix(path, "/"+parts[0]) && path != parts[0] {
			continue
		}
		tn, ok := pkg.Types.Scope().Lookup(parts[1]).(*types.TypeName)
		if !ok {
			continue
		}
		st, ok := tn.Type().Underlying().(*types.Struct)
		if !ok {
			continue
		}
		var mutexes []string
		for i := 0; i < st.NumFields(); i++ {
			if st.Field(i).Name() == parts[2] {
				return cls
			}
			if t := st.Field(i).Type().String(); t == "sync.Mutex" || t == "sync.RWMutex" {
				mutexes = append(mutexes, st.Field(i).Name())
			}
		}
		if len(mutexes) == 1 {
			return parts[0] + "." + parts[1] + "." + mutexes[0]
		}
	}
	return cls
}

func Guard(w *load.World, ls *lockset.Result, c *core.Collector) {
	rows := map[string]guardRow{}
	found := map[string]int{}
	guardTable := guardRows(w)
	for _, r := range guardTable {
		rows[r.Field] = r
	}
	for _, f := range w.Fns {
		// an instance of a generic function over another function's type parameter (the body a
		// generic helper refers to) never runs: its ground instances do, and are checked
		if partialInstance(f) {
			continue
		}
		for _, b := range f.Blocks {
			for _, in := range b.Instrs {
				fa, ok := in.(*ssa.FieldAddr)
				if !ok {
					continue
				}
				row, tracked := rows[fieldOf(fa)]
				if !tracked {
					continue
				}
				found[row.Field]++
				_, fresh := ssax.Path(fa.X)
				write := isWriteOf(fa)
				kind := "read"
				if write {
					kind = "write"
				}
				key := fmt.Sprintf("%s:%s@%s", row.Field, kind, load.FnKey(f))
				if fresh {
					c.Add("GUARD", key, core.OK, w.At(in), "constructor: object not yet shared", row.Props...)
					continue
				}
				m := ls.HeldAt(in)[row.Lock]
				switch {
				case m == lockset.None:
					if os.Getenv("SEMA_DEBUG") != "" {
						fmt.Fprintf(os.Stderr, "GUARD DEBUG: %s typeargs=%v partial=%v\n", f.String(), f.TypeArgs(), partialInstance(f))
					}
					c.Add("GUARD", key, core.Violation, w.At(in), fmt.Sprintf("%s of %s without %s held", kind, row.Field, row.Lock), row.Props...)
				case write && row.WriteNeedsW && m != lockset.W:
					c.Add("GUARD", key, core.Violation, w.At(in), fmt.Sprintf("write of %s under a read lock only", row.Field), row.Props...)
				default:
					c.Add("GUARD", key, core.OK, w.At(in), "", row.Props...)
				}
			}
		}
	}
	for _, r := range guardTable {
		c.Count("guard_accesses:"+r.Field, found[r.Field])
		if found[r.Field] == 0 {
			c.Add("GUARD", "anchor:"+r.Field, core.Undecided, "", "guarded field no longer exists: the table row would pass vacuously", r.Props...)
		}
	}
}

// ----------------------------------------------------------------- ROEFFECT

// cacheableTypes: closure of the types reachable from implementers of cache.Cachable.
func cacheableTypes(w *load.World) map[string]bool {
	var cachable *types.Interface
	var named []*types.Named
	for path, p := range w.ByPath {
		if strings.Contains(path, "/internal/") {
			continue
		}
		sc := p.Types.Scope()
		for _, n := range sc.Names() {
			if tn, ok := sc.Lookup(n).(*types.TypeName); ok {
				if nm, ok := tn.Type().(*types.Named); ok {
					named = append(named, nm)
					if path == load.Mod+"/shard/cache" && n == "Cachable" {
						cachable, _ = nm.Underlying().(*types.Interface)
					}
				}
			}
		}
	}
	out := map[string]bool{}
	if cachable == nil {
		return out
	}
	impls := func(it *types.Interface) []types.Type {
		var r []types.Type
		if it.NumMethods() == 0 {
			return nil
		}
		for _, nm := range named {
			if nm.TypeParams().Len() > 0 {
				continue
			}
			if _, isI := nm.Underlying().(*types.Interface); isI {
				continue
			}
			if types.Implements(nm, it) || types.Implements(types.NewPointer(nm), it) {
				r = append(r, nm)
			}
		}
		return r
	}
	seen := map[string]bool{}
	var visit func(t types.Type)
	visit = func(t types.Type) {
		switch x := t.(type) {
		case *types.Pointer:
			visit(x.Elem())
		case *types.Slice:
			visit(x.Elem())
		case *types.Array:
			visit(x.Elem())
		case *types.Map:
			visit(x.Elem())
		case *types.Alias:
			visit(types.Unalias(x))
		case *types.Named:
			if x.Obj().Pkg() == nil || !strings.HasPrefix(x.Obj().Pkg().Path(), load.Mod) {
				return
			}
			if seen[x.String()] {
				return
			}
			seen[x.String()] = true
			out[ssax.TypeName(x)] = true
			switch u := x.Underlying().(type) {
			case *types.Struct:
				for i := 0; i < u.NumFields(); i++ {
					visit(u.Field(i).Type())
				}
			case *types.Interface:
				for _, im := range impls(u) {
					visit(im)
				}
			default:
				visit(u)
			}
		case *types.Struct:
			for i := 0; i < x.NumFields(); i++ {
				visit(x.Field(i).Type())
			}
		}
	}
	for _, im := range impls(cachable) {
		visit(im)
	}
	return out
}

// withCallbacks returns the literals passed as callback to Transaction.With with the given readOnly constant.
func withCallbacks(w *load.World, readOnly bool) []*ssa.Function {
	var out []*ssa.Function
	for _, f := range w.Fns {
		for _, b := range f.Blocks {
			for _, in := range b.Instrs {
				call, ok := in.(*ssa.Call)
				if !ok || !ssax.IsMethod(call.Common(), "cache.Transaction", "With") || len(call.Call.Args) < 5 {
					continue
				}
				if ro, ok := ssax.ConstBool(call.Call.Args[2]); ok && ro == readOnly {
					if mc, ok := call.Call.Args[4].(*ssa.MakeClosure); ok {
						out = append(out, mc.Fn.(*ssa.Function))
					}
				}
			}
		}
	}
	return out
}

// reachFrom: module functions reachable from roots; a function literal counts
// only when its enclosing function is reachable (or it is a root).
func reachFrom(w *load.World, roots []*ssa.Function, followGo bool) map[*ssa.Function]bool {
	reach := map[*ssa.Function]bool{}
	isRoot := map[*ssa.Function]bool{}
	stack := append([]*ssa.Function(nil), roots...)
	for _, r := range roots {
		isRoot[r] = true
	}
	var pending []*ssa.Function
	for progress := true; progress; {
		progress = false
		for len(stack) > 0 {
			f := stack[len(stack)-1]
			stack = stack[:len(stack)-1]
			if reach[f] || f.Blocks == nil || !load.InMod(f) {
				continue
			}
			if f.Parent() != nil && !isRoot[f] && !reach[f.Parent()] {
				pending = append(pending, f)
				continue
			}
			reach[f] = true
			progress = true
			for _, b := range f.Blocks {
				for _, in := range b.Instrs {
					if ci, ok := in.(ssa.CallInstruction); ok {
						if _, isGo := in.(*ssa.Go); isGo && !followGo {
							continue
						}
						stack = append(stack, w.Callees(ci, false)...)
					}
				}
			}
		}
		stack, pending = pending, nil
	}
	return reach
}

// storeBase: struct type and field a store address belongs to, freshness of its root.
func storeBase(addr ssa.Value) (typ, field string, fresh bool) {
	switch x := addr.(type) {
	case *ssa.FieldAddr:
		_, fr := ssax.Path(x.X)
		return ssax.TypeName(x.X.Type()), ssax.StructOf(x.X.Type()).Field(x.Field).Name(), fr
	case *ssa.IndexAddr:
		if u, ok := x.X.(*ssa.UnOp); ok {
			t, f, fr := storeBase(u.X)
			if t != "" {
				return t, f + "[]", fr
			}
		}
		_, fr := ssax.Path(x.X)
		return "", "", fr
	}
	return "", "", false
}

func RoEffect(w *load.World, ls *lockset.Result, c *core.Collector) {
	ct := cacheableTypes(w)
	roots := withCallbacks(w, true)
	c.Count("ro_callbacks", len(roots))
	c.Count("cacheable_types", len(ct))
	if len(roots) < 2 {
		c.Add("ROEFFECT", "anchor:ro-callbacks", core.Undecided, "", fmt.Sprintf("found %d read-only cache callbacks, expected at least 2", len(roots)), "C09")
	}
	reach := reachFrom(w, roots, true)
	c.Count("ro_reachable_functions", len(reach))
	var fns []*ssa.Function
	for f := range reach {
		fns = append(fns, f)
	}
	sort.Slice(fns, func(i, j int) bool { return fns[i].String() < fns[j].String() })
	n := 0
	for _, f := range fns {
		for _, b := range f.Blocks {
			for _, in := range b.Instrs {
				var addr ssa.Value
				switch x := in.(type) {
				case *ssa.Store:
					addr = x.Addr
				case *ssa.MapUpdate:
					if u, ok := x.Map.(*ssa.UnOp); ok {
						addr = u.X
					}
				}
				if addr == nil {
					continue
				}
				tn, field, fresh := storeBase(addr)
				if tn == "" || fresh || !ct[tn] {
					continue
				}
				n++
				guarded := false
				for cls := range ls.HeldAt(in) {
					if strings.HasPrefix(cls, tn+".") {
						guarded = true
					}
				}
				key := fmt.Sprintf("store:%s.%s@%s", tn, field, load.FnKey(f))
				if guarded {
					c.Add("ROEFFECT", key, core.OK, w.At(in), "", "C09")
				} else {
					c.Add("ROEFFECT", key, core.Violation, w.At(in),
						fmt.Sprintf("store to %s.%s reachable from a read-only cache callback (shared lock only) without a mutex of %s held", tn, field, tn), "C09")
				}
			}
		}
	}
	c.Count("ro_shared_stores", n)
	// assumption check: func-typed fields of cacheable types only take named functions or fresh-owner literals
	for _, f := range w.Fns {
		for _, b := range f.Blocks {
			for _, in := range b.Instrs {
				st, ok := in.(*ssa.Store)
				if !ok {
					continue
				}
				fa, ok := st.Addr.(*ssa.FieldAddr)
				if !ok || !ct[ssax.TypeName(fa.X.Type())] {
					continue
				}
				if _, isFn := st.Val.Type().Underlying().(*types.Signature); !isFn {
					continue
				}
				if _, isMC := st.Val.(*ssa.MakeClosure); isMC {
					if _, fresh := ssax.Path(fa.X); !fresh {
						c.Add("ROEFFECT", "closure-field:"+fieldOf(fa)+"@"+load.FnKey(f), core.Violation, w.At(in),
							"a function literal is stored into a shared cached object; the closure-reachability refinement is unsound for it", "C09")
					}
				}
			}
		}
	}
}

// ---------------------------------------------------------------- helpers

func contains(xs []string, x string) bool {
	for _, y := range xs {
		if y == x {
			return true
		}
	}
	return false
}

func sccs(adj map[string][]string) [][]string {
	index := 0
	idx := map[string]int{}
	low := map[string]int{}
	on := map[string]bool{}
	var stack []string
	var out [][]string
	ns := map[string]bool{}
	for a, bs := range adj {
		ns[a] = true
		for _, b := range bs {
			ns[b] = true
		}
	}
	var nodes []string
	for n := range ns {
		nodes = append(nodes, n)
	}
	sort.Strings(nodes)
	var strong func(v string)
	strong = func(v string) {
		idx[v] = index
		low[v] = index
		index++
		stack = append(stack, v)
		on[v] = true
		for _, x := range adj[v] {
			if _, ok := idx[x]; !ok {
				strong(x)
				if low[x] < low[v] {
					low[v] = low[x]
				}
			} else if on[x] && idx[x] < low[v] {
				low[v] = idx[x]
			}
		}
		if low[v] == idx[v] {
			var comp []string
			for {
				x := stack[len(stack)-1]
				stack = stack[:len(stack)-1]
				on[x] = false
				comp = append(comp, x)
				if x == v {
					break
				}
			}
			out = append(out, comp)
		}
	}
	for _, n := range nodes {
		if _, ok := idx[n]; !ok {
			strong(n)
		}
	}
	return out
}

// fieldOfAddr names the struct field an address value points to ("pkg.Type.field"), or "".
func fieldOfAddr(v ssa.Value) string {
	if fa, ok := v.(*ssa.FieldAddr); ok {
		return fieldOf(fa)
	}
	return ""
}

// partialInstance: f (or the function a literal sits in) is an instantiation whose type arguments
// still mention a type parameter
func partialInstance(f *ssa.Function) bool {
	for f.Parent() != nil {
		f = f.Parent()
	}
	// the generic function itself (its body is only a template for the instances)
	if tp := f.TypeParams(); tp != nil && tp.Len() > 0 && len(f.TypeArgs()) == 0 {
		return true
	}
	var mentions func(t types.Type, d int) bool
	mentions = func(t types.Type, d int) bool {
		if d > 4 {
			return false
		}
		switch x := t.(type) {
		case *types.TypeParam:
			return true
		case *types.Pointer:
			return mentions(x.Elem(), d+1)
		case *types.Slice:
			return mentions(x.Elem(), d+1)
		case *types.Named:
			if ta := x.TypeArgs(); ta != nil {
				for i := 0; i < ta.Len(); i++ {
					if mentions(ta.At(i), d+1) {
						return true
					}
				}
			}
		}
		return false
	}
	for _, t := range f.TypeArgs() {
		if mentions(t, 0) {
			return true
		}
	}
	return false
}
