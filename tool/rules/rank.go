package rules

import (
	"fmt"
	"go/constant"
	"go/token"
	"go/types"
	"sort"
	"strings"

	"golang.org/x/tools/go/ssa"

	"semaverif/internal/core"
	"semaverif/internal/load"
	"semaverif/internal/ssax"
)

// --------------------------------------------------------------------- RANK
//
// Structural necessary conditions of the three ranking searches (graph, flat,
// text). None of them decides what is nearest or how high a score is; they
// decide that whatever is computed is gated, cut, signed and ordered the way the
// properties say:
//
//	filter-gate     a result is added only where no filter was given or the id is in the filter
//	                (graph: C03, flat: C04; text intersects its match set with the filter: C05)
//	limit           results grow only while fewer than the requested limit are held / are cut to it
//	entry-node      the graph's internal entry node is never appended to the results (C03)
//	score           hybrid score = -(weight * distance) for vectors, +(weight * score) for text (C03-C06)
//	resultset-ids   the id set returned with the results holds exactly the ids of the results
//	order           text results are sorted by score, highest first, before they are cut (C05)
//	operator        containsAll intersects the term sets, containsAny unites them (C05)

// reachableWithoutEdges: target can be reached from the entry when none of the edges may be used.
func reachableWithoutEdges(f *ssa.Function, edges []ssax.Edge, target *ssa.BasicBlock) bool {
	banned := func(b *ssa.BasicBlock, i int) bool {
		for _, e := range edges {
			if e.From == b && e.Succ == i {
				return true
			}
		}
		return false
	}
	seen := map[*ssa.BasicBlock]bool{}
	var dfs func(b *ssa.BasicBlock) bool
	dfs = func(b *ssa.BasicBlock) bool {
		if b == target {
			return true
		}
		if seen[b] {
			return false
		}
		seen[b] = true
		for i, s := range b.Succs {
			if banned(b, i) {
				continue
			}
			if dfs(s) {
				return true
			}
		}
		return false
	}
	return dfs(f.Blocks[0])
}

func isSearchResultSlice(t types.Type) bool {
	sl, ok := t.Underlying().(*types.Slice)
	return ok && ssax.TypeName(sl.Elem()) == "models.SearchResult"
}

// resultWrites: instructions that put a SearchResult into a result slice (append or indexed store).
func resultWrites(f *ssa.Function) []ssa.Instruction {
	var out []ssa.Instruction
	for _, b := range f.Blocks {
		for _, in := range b.Instrs {
			switch x := in.(type) {
			case *ssa.Call:
				if bi, ok := x.Call.Value.(*ssa.Builtin); ok && bi.Name() == "append" && isSearchResultSlice(x.Type()) {
					out = append(out, in)
				}
			case *ssa.Store:
				if ia, ok := x.Addr.(*ssa.IndexAddr); ok && isSearchResultSlice(ia.X.Type()) {
					if ssax.TypeName(x.Val.Type()) == "models.SearchResult" {
						// element swaps of an insertion sort move results, they do not add one
						if _, isLoad := x.Val.(*ssa.UnOp); isLoad {
							if ld := x.Val.(*ssa.UnOp); ld.Op == token.MUL {
								if lia, ok := ld.X.(*ssa.IndexAddr); ok && isSearchResultSlice(lia.X.Type()) {
									continue
								}
							}
						}
						out = append(out, in)
					}
				}
			}
		}
	}
	return out
}

// filterEdges: edges on which "no filter, or the id is in the filter" holds, for bitmap value flt.
func filterEdges(f *ssa.Function, isFilter func(ssa.Value) bool) (edges []ssax.Edge, found bool) {
	for _, b := range f.Blocks {
		ifi, ok := b.Instrs[len(b.Instrs)-1].(*ssa.If)
		if !ok {
			continue
		}
		cond, neg := ifi.Cond, false
		if u, ok := cond.(*ssa.UnOp); ok && u.Op == token.NOT {
			cond, neg = u.X, true
		}
		switch x := cond.(type) {
		case *ssa.BinOp:
			if (x.Op == token.NEQ || x.Op == token.EQL) && ((isFilter(x.X) && ssax.IsNilConst(x.Y)) || (isFilter(x.Y) && ssax.IsNilConst(x.X))) {
				// filter == nil edge
				nilEdge := 1
				if x.Op == token.EQL {
					nilEdge = 0
				}
				if neg {
					nilEdge = 1 - nilEdge
				}
				edges = append(edges, ssax.Edge{From: b, Succ: nilEdge})
				found = true
			}
		case *ssa.Call:
			if g := x.Call.StaticCallee(); g != nil && g.Name() == "Contains" && len(x.Call.Args) > 0 && isFilter(x.Call.Args[0]) {
				in := 0
				if neg {
					in = 1
				}
				edges = append(edges, ssax.Edge{From: b, Succ: in})
				found = true
			} else if g == nil && admissionPredicate(f, x.Call.Value) {
				// a predicate chosen once: "always" without a filter, filter.Contains with one
				in := 0
				if neg {
					in = 1
				}
				edges = append(edges, ssax.Edge{From: b, Succ: in})
				found = true
			}
		}
	}
	return
}

// productSign flattens a product and reports whether it carries an odd number of negations.
func productSign(v ssa.Value, depth int) (neg bool, factors []ssa.Value, ok bool) {
	if depth > 6 {
		return false, nil, false
	}
	switch x := v.(type) {
	case *ssa.BinOp:
		if x.Op == token.MUL {
			n1, f1, ok1 := productSign(x.X, depth+1)
			n2, f2, ok2 := productSign(x.Y, depth+1)
			return n1 != n2, append(f1, f2...), ok1 && ok2
		}
		if x.Op == token.SUB {
			// 0 - y
			if c, isC := x.X.(*ssa.Const); isC && c.Value != nil && constant.Sign(c.Value) == 0 {
				n, f, ok := productSign(x.Y, depth+1)
				return !n, f, ok
			}
		}
		return false, []ssa.Value{v}, true
	case *ssa.UnOp:
		if x.Op == token.SUB {
			n, f, ok := productSign(x.X, depth+1)
			return !n, f, ok
		}
		return false, []ssa.Value{v}, true
	case *ssa.Const:
		if x.Value != nil && (x.Value.Kind() == constant.Float || x.Value.Kind() == constant.Int) {
			s := constant.Sign(x.Value)
			if s == 0 {
				return false, nil, false
			}
			return s < 0, nil, true
		}
		return false, nil, false
	case *ssa.Convert:
		return productSign(x.X, depth+1)
	}
	return false, []ssa.Value{v}, true
}

// productSignDeep: productSign, with factors that are captured variables assigned once in the
// enclosing function replaced by what was assigned (a scale computed once before the scan).
func productSignDeep(v ssa.Value) (neg bool, factors []ssa.Value, ok bool) {
	neg, factors, ok = productSign(v, 0)
	if !ok {
		return
	}
	for round := 0; round < 3; round++ {
		changed := false
		var out []ssa.Value
		for _, fv := range factors {
			if u, isU := fv.(*ssa.UnOp); isU && u.Op == token.MUL {
				if free, isFree := u.X.(*ssa.FreeVar); isFree {
					if src := ssax.CapturedSingleStore(free); src != nil {
						n2, f2, ok2 := productSign(src, 0)
						if ok2 {
							neg = neg != n2
							out = append(out, f2...)
							changed = true
							continue
						}
					}
				}
			}
			out = append(out, fv)
		}
		factors = out
		if !changed {
			break
		}
	}
	return
}

// admissionPredicate: fv is a function value called in f (a scan callback) to decide whether a
// point is considered. It is a variable of the enclosing function that holds a literal returning
// true unless a filter was given, in which case it holds that filter's Contains: the assignment
// of Contains sits in the successor of a "filter != nil" test and comes after the default.
func admissionPredicate(f *ssa.Function, fv ssa.Value) bool {
	ld, ok := fv.(*ssa.UnOp)
	if !ok || ld.Op != token.MUL {
		return false
	}
	free, ok := ld.X.(*ssa.FreeVar)
	if !ok || f.Parent() == nil {
		return false
	}
	p := f.Parent()
	var cell *ssa.Alloc
	for i, q := range f.FreeVars {
		if q != free {
			continue
		}
		for _, b := range p.Blocks {
			for _, in := range b.Instrs {
				if mc, ok := in.(*ssa.MakeClosure); ok && mc.Fn == ssa.Value(f) && i < len(mc.Bindings) {
					cell, _ = mc.Bindings[i].(*ssa.Alloc)
				}
			}
		}
	}
	if cell == nil {
		return false
	}
	isFilter := isParamOrCapture(p, "roaring64.Bitmap")
	var always, contains *ssa.Store
	for _, r := range *cell.Referrers() {
		st, ok := r.(*ssa.Store)
		if !ok || st.Addr != ssa.Value(cell) {
			continue
		}
		var fn *ssa.Function
		mc := &ssa.MakeClosure{}
		switch x := st.Val.(type) {
		case *ssa.MakeClosure:
			mc, fn = x, x.Fn.(*ssa.Function)
		case *ssa.Function:
			fn = x
		default:
			return false
		}
		switch {
		case len(mc.Bindings) == 1 && strings.HasPrefix(fn.Name(), "Contains") && isFilter(mc.Bindings[0]):
			if contains != nil {
				return false
			}
			contains = st
		case len(mc.Bindings) == 0 && returnsConstTrue(fn):
			if always != nil {
				return false
			}
			always = st
		default:
			return false
		}
	}
	if always == nil || contains == nil {
		return false
	}
	// Contains is installed exactly when the filter is not nil
	cb := contains.Block()
	if len(cb.Preds) != 1 {
		return false
	}
	pred := cb.Preds[0]
	ifi, ok := pred.Instrs[len(pred.Instrs)-1].(*ssa.If)
	if !ok {
		return false
	}
	bo, ok := ifi.Cond.(*ssa.BinOp)
	if !ok || !((isFilter(bo.X) && ssax.IsNilConst(bo.Y)) || (isFilter(bo.Y) && ssax.IsNilConst(bo.X))) {
		return false
	}
	nonNil := 0
	if bo.Op == token.EQL {
		nonNil = 1
	} else if bo.Op != token.NEQ {
		return false
	}
	if pred.Succs[nonNil] != cb {
		return false
	}
	// the default does not come after it
	if always.Block() == cb || ssax.Reaches(cb, always.Block()) && always.Block() != pred && !always.Block().Dominates(pred) {
		return false
	}
	return true
}

func returnsConstTrue(fn *ssa.Function) bool {
	n := 0
	for _, b := range fn.Blocks {
		if ret, ok := b.Instrs[len(b.Instrs)-1].(*ssa.Return); ok {
			if len(ret.Results) != 1 {
				return false
			}
			v, isC := ssax.ConstBool(ret.Results[0])
			if !isC || !v {
				return false
			}
			n++
		}
	}
	return n > 0
}

// hybridStores: values stored into the HybridScore field of a SearchResult being built.
func hybridStores(f *ssa.Function) []*ssa.Store {
	var out []*ssa.Store
	for _, b := range f.Blocks {
		for _, in := range b.Instrs {
			st, ok := in.(*ssa.Store)
			if !ok {
				continue
			}
			if fieldOfAddr(st.Addr) == "models.SearchResult.HybridScore" {
				if fa := st.Addr.(*ssa.FieldAddr); fa != nil {
					if _, fresh := ssax.Path(fa.X); fresh {
						out = append(out, st)
					}
				}
			}
		}
	}
	return out
}

func checkScore(w *load.World, c *core.Collector, f *ssa.Function, key string, wantNeg bool, quantity string, props []string) {
	sts := hybridStores(f)
	if len(sts) == 0 {
		c.Add("RANK", key, core.Undecided, w.Position(f.Pos()), "no result with a hybrid score is built here", props...)
		return
	}
	for _, st := range sts {
		neg, factors, ok := productSignDeep(st.Val)
		hasW, hasQ := false, false
		for _, fv := range factors {
			o := ssax.Prov(fv)
			// a factor captured from the enclosing function: what was bound to it
			var free *ssa.FreeVar
			switch x := fv.(type) {
			case *ssa.FreeVar:
				free = x
			case *ssa.UnOp:
				free, _ = x.X.(*ssa.FreeVar)
			}
			if free != nil && f.Parent() != nil {
				for i, q := range f.FreeVars {
					if q != free {
						continue
					}
					for _, pb := range f.Parent().Blocks {
						for _, pi := range pb.Instrs {
							if mc, ok := pi.(*ssa.MakeClosure); ok && mc.Fn == f && i < len(mc.Bindings) {
								for k := range ssax.Prov(mc.Bindings[i]) {
									o[k] = true
								}
							}
						}
					}
				}
			}
			if o["field:Weight"] || deepHas(w, fv, "field:Weight") {
				hasW = true
			}
			if o["field:"+quantity] || o.HasPrefix("call:math.") || quantity == "Distance" && (o["call:?"] || o.HasPrefix("freevar:") || deepHas(w, fv, "call:?")) {
				hasQ = true
			}
			if quantity == "Distance" && deepHas(w, fv, "field:Distance") {
				hasQ = true
			}
			if quantity == "Score" && len(o) > 0 && !o["field:Weight"] {
				hasQ = true
			}
		}
		switch {
		case !ok:
			c.Add("RANK", key, core.Undecided, w.At(st), "the hybrid score is not a product the rule can read", props...)
		case !hasW:
			c.Add("RANK", key, core.Violation, w.At(st), "the hybrid score does not depend on the query's weight", props...)
		case !hasQ:
			c.Add("RANK", key, core.Violation, w.At(st), "the hybrid score does not depend on the computed "+strings.ToLower(quantity), props...)
		case neg != wantNeg:
			sign := map[bool]string{true: "minus", false: "plus"}
			c.Add("RANK", key, core.Violation, w.At(st), fmt.Sprintf("the hybrid score is %s weight times %s, it must be %s: nearer points (higher scores) must rank first when results are merged", sign[neg], strings.ToLower(quantity), sign[wantNeg]), props...)
		default:
			c.Add("RANK", key, core.OK, w.At(st), "", props...)
		}
	}
}

func Rank(w *load.World, c *core.Collector) {
	rankVamana(w, c)
	vamanaClassification(w, c)
	vamanaSeedWindow(w, c)
	rankFlat(w, c)
	rankText(w, c)
	weightDefaults(w, c)
	ownFilter(w, c)
	arrayTermSets(w, c)
	unlinkCovers(w, c)
	textTermsDistinct(w, c)
}

func isParamOrCapture(f *ssa.Function, typeName string) func(ssa.Value) bool {
	return func(v ssa.Value) bool {
		switch x := v.(type) {
		case *ssa.Parameter:
			return ssax.TypeName(x.Type()) == typeName
		case *ssa.FreeVar:
			return ssax.TypeName(x.Type()) == typeName
		case *ssa.UnOp:
			if fv, ok := x.X.(*ssa.FreeVar); ok {
				return ssax.TypeName(fv.Type()) == typeName
			}
		}
		return false
	}
}

func rankVamana(w *load.World, c *core.Collector) {
	props := []string{"C03"}
	f := findFn(w, "(*shard/index/vamana.IndexVamana).Search")
	gs := findFn(w, "(*shard/index/vamana.IndexVamana).greedySearch")
	if f == nil || gs == nil {
		c.Add("RANK", "anchor:vamana", core.Undecided, "", "IndexVamana.Search / greedySearch not found", props...)
		return
	}
	// the results may be built by a helper the search calls
	f = homeOf(f, func(g *ssa.Function) bool { return len(resultWrites(g)) > 0 })
	writes := resultWrites(f)
	if len(writes) == 0 {
		c.Add("RANK", "anchor:vamana-results", core.Undecided, w.Position(f.Pos()), "no result append found in IndexVamana.Search", props...)
		return
	}
	// entry node: comparison of an Id() with the STARTID constant
	var startID constant.Value
	if sp := w.SPkgs[load.Mod+"/shard/index/vamana"]; sp != nil {
		if nc, ok := sp.Members["STARTID"].(*ssa.NamedConst); ok {
			startID = nc.Value.Value
		}
	}
	var notStart, underLimit []ssax.Edge
	for _, b := range f.Blocks {
		ifi, ok := b.Instrs[len(b.Instrs)-1].(*ssa.If)
		if !ok {
			continue
		}
		bo, ok := ifi.Cond.(*ssa.BinOp)
		if !ok {
			continue
		}
		// id == STARTID
		for _, pr := range [][2]ssa.Value{{bo.X, bo.Y}, {bo.Y, bo.X}} {
			cst, isC := pr[1].(*ssa.Const)
			if !isC || cst.Value == nil || startID == nil || !constant.Compare(cst.Value, token.EQL, startID) {
				continue
			}
			if call, ok := pr[0].(*ssa.Call); ok && call.Call.IsInvoke() && call.Call.Method.Name() == "Id" {
				switch bo.Op {
				case token.EQL:
					notStart = append(notStart, ssax.Edge{From: b, Succ: 1})
				case token.NEQ:
					notStart = append(notStart, ssax.Edge{From: b, Succ: 0})
				}
			}
		}
		// len(results) vs Limit
		isLenRes := func(v ssa.Value) bool {
			call, ok := v.(*ssa.Call)
			if !ok {
				return false
			}
			bi, ok := call.Call.Value.(*ssa.Builtin)
			return ok && bi.Name() == "len" && isSearchResultSlice(call.Call.Args[0].Type())
		}
		isLimit := func(v ssa.Value) bool { return deepHas(w, v, "field:Limit") }
		x, y, op := bo.X, bo.Y, bo.Op
		if isLenRes(y) && isLimit(x) {
			x, y = y, x
			op = map[token.Token]token.Token{token.LSS: token.GTR, token.GTR: token.LSS, token.LEQ: token.GEQ, token.GEQ: token.LEQ}[op]
		}
		if isLenRes(x) && isLimit(y) {
			switch op {
			case token.GEQ: // len >= limit -> stop ; room on false edge
				underLimit = append(underLimit, ssax.Edge{From: b, Succ: 1})
			case token.LSS:
				underLimit = append(underLimit, ssax.Edge{From: b, Succ: 0})
			}
		}
	}
	for i, wr := range writes {
		k := fmt.Sprintf("#%d", i+1)
		if onlyViaAny(notStart, wr.Block()) {
			c.Add("RANK", "vamana:entry-node-excluded"+k, core.OK, w.At(wr), "", props...)
		} else {
			c.Add("RANK", "vamana:entry-node-excluded"+k, core.Violation, w.At(wr), "a search result can be appended without the element having been compared with the internal entry node's id: the entry node (which is no stored point) can surface in answers", props...)
		}
		if onlyViaAny(underLimit, wr.Block()) {
			c.Add("RANK", "vamana:limit"+k, core.OK, w.At(wr), "", props...)
		} else {
			c.Add("RANK", "vamana:limit"+k, core.Violation, w.At(wr), "a search result can be appended although the requested limit has been reached (no `len(results) < limit` edge dominates the append)", props...)
		}
		// the id added to the result set is the id of the result
		okIDs := false
		if call, isCall := wr.(*ssa.Call); isCall {
			_ = call
			var nodeID, setID string
			var nodeVal, setVal ssa.Value
			for _, b := range f.Blocks {
				for _, in := range b.Instrs {
					if st, ok := in.(*ssa.Store); ok && fieldOfAddr(st.Addr) == "models.SearchResult.NodeId" {
						nodeVal = st.Val
						if ic, ok := st.Val.(*ssa.Call); ok && ic.Call.IsInvoke() {
							nodeID, _ = ssax.Path(ic.Call.Value)
						}
					}
					if cl, ok := in.(*ssa.Call); ok {
						if g := cl.Call.StaticCallee(); g != nil && strings.HasSuffix(g.String(), "roaring64.Bitmap).Add") && cl.Block() == wr.Block() {
							setVal = cl.Call.Args[1]
							if ic, ok := cl.Call.Args[1].(*ssa.Call); ok && ic.Call.IsInvoke() {
								setID, _ = ssax.Path(ic.Call.Value)
							}
						}
					}
				}
			}
			okIDs = nodeID != "" && nodeID == setID || nodeVal != nil && nodeVal == setVal
			if !okIDs {
				// two-pass form: the set is filled afterwards from the NodeId fields of the finished list
				fromNodeId := func(v ssa.Value) bool {
					for k := range ssax.Prov(v) {
						if strings.Contains(k, "field:NodeId") {
							return true
						}
					}
					return false
				}
				for _, b := range f.Blocks {
					for _, in := range b.Instrs {
						cl, ok := in.(*ssa.Call)
						if !ok || cl.Call.StaticCallee() == nil || len(cl.Call.Args) < 2 {
							continue
						}
						n := cl.Call.StaticCallee().String()
						switch {
						case strings.HasSuffix(n, "roaring64.Bitmap).Add"):
							if fromNodeId(cl.Call.Args[1]) && !ssax.Reaches(b, wr.Block()) {
								okIDs = true
							}
						case strings.HasSuffix(n, "roaring64.Bitmap).AddMany"):
							// every element stored into the slice handed over is a NodeId of the list
							var base ssa.Value = cl.Call.Args[1]
							if sl, ok := base.(*ssa.Slice); ok {
								base = sl.X
							}
							nSt, allIds := 0, true
							for _, bb := range f.Blocks {
								for _, ii := range bb.Instrs {
									st, ok := ii.(*ssa.Store)
									if !ok {
										continue
									}
									ia, ok := st.Addr.(*ssa.IndexAddr)
									if !ok || ia.X != base {
										continue
									}
									nSt++
									if !fromNodeId(st.Val) {
										allIds = false
									}
								}
							}
							if nSt > 0 && allIds {
								okIDs = true
							}
						}
					}
				}
			}
		}
		if okIDs {
			c.Add("RANK", "vamana:resultset-ids"+k, core.OK, w.At(wr), "", props...)
		} else {
			c.Add("RANK", "vamana:resultset-ids"+k, core.Violation, w.At(wr), "the id set returned next to the results is not filled with the id of the very element that is appended", props...)
		}
	}
	checkScore(w, c, f, "vamana:score", true, "Distance", []string{"C03", "C06"})
	// greedySearch: when a filter is given, the filtered result set only receives filter members
	isFilter := isParamOrCapture(gs, "roaring64.Bitmap")
	fe, found := filterEdges(gs, isFilter)
	var contains []ssax.Edge
	for _, e := range fe {
		if ifi, ok := e.From.Instrs[len(e.From.Instrs)-1].(*ssa.If); ok {
			cond := ifi.Cond
			if u, ok := cond.(*ssa.UnOp); ok && u.Op == token.NOT {
				cond = u.X
			}
			if _, isCall := cond.(*ssa.Call); isCall {
				contains = append(contains, e)
			}
		}
	}
	n := 0
	for _, b := range gs.Blocks {
		for _, in := range b.Instrs {
			call, ok := in.(*ssa.Call)
			if !ok {
				continue
			}
			g := call.Call.StaticCallee()
			if g == nil || !strings.HasPrefix(g.Name(), "Add") || ssax.TypeName(g.Signature.Recv().Type()) != "vamana.DistSet" {
				continue
			}
			// receiver is the result set: the pointer variable that aliases either the search set (no
			// filter) or the filtered set, or one of the sets it can alias while a filter is known to be given
			if al, isAlloc := call.Call.Args[0].(*ssa.Alloc); isAlloc {
				aliased := false
				for _, bb := range gs.Blocks {
					for _, ii := range bb.Instrs {
						if phi, ok := ii.(*ssa.Phi); ok {
							for _, e := range phi.Edges {
								if e == ssa.Value(al) {
									aliased = true
								}
							}
						}
					}
				}
				var nonNil []ssax.Edge
				for _, e := range fe {
					isContains := false
					for _, ce := range contains {
						if ce == e {
							isContains = true
						}
					}
					if !isContains {
						nonNil = append(nonNil, ssax.Edge{From: e.From, Succ: 1 - e.Succ})
					}
				}
				if !aliased || !onlyViaAny(nonNil, b) {
					continue
				}
			}
			n++
			key := fmt.Sprintf("vamana:filter-gate#%d", n)
			fromFilter := false
			for _, a := range call.Call.Args[1:] {
				o := ssax.Prov(a)
				for k := range o {
					if strings.Contains(k, "roaring64") && (strings.Contains(k, "Iterator") || strings.Contains(k, "Next") || strings.Contains(k, "ToArray")) {
						fromFilter = true
					}
				}
			}
			switch {
			case !found:
				c.Add("RANK", key, core.Violation, w.At(in), "greedy search never tests the filter", props...)
			case fromFilter || onlyViaAny(contains, b):
				c.Add("RANK", key, core.OK, w.At(in), "", props...)
			default:
				c.Add("RANK", key, core.Violation, w.At(in), "a point is added to the filtered result set without coming from the filter or having been tested with filter.Contains: points outside the pre-filter can be returned", props...)
			}
		}
	}
	// seeding moved into a helper that receives the filter: every add it makes to a distance set
	// must take its points from the filter (or be guarded by Contains)
	for _, b := range gs.Blocks {
		for _, in := range b.Instrs {
			h := ssax.StaticModuleCallee(in)
			if h == nil || len(h.Blocks) == 0 || h == gs {
				continue
			}
			hasFilter := false
			for _, p := range h.Params {
				if strings.Contains(p.Type().String(), "roaring64.Bitmap") {
					hasFilter = true
				}
			}
			if !hasFilter {
				continue
			}
			isFilterH := isParamOrCapture(h, "roaring64.Bitmap")
			feH, _ := filterEdges(h, isFilterH)
			for _, hb := range h.Blocks {
				for _, hin := range hb.Instrs {
					call, ok := hin.(*ssa.Call)
					if !ok {
						continue
					}
					g := call.Call.StaticCallee()
					if g == nil || !strings.HasPrefix(g.Name(), "Add") || g.Signature.Recv() == nil || ssax.TypeName(g.Signature.Recv().Type()) != "vamana.DistSet" {
						continue
					}
					// only adds to a set the helper received (the result set is one of them)
					if _, isParam := call.Call.Args[0].(*ssa.Parameter); !isParam {
						continue
					}
					fromFilter := false
					for _, a := range call.Call.Args[1:] {
						for k := range ssax.Prov(a) {
							if strings.Contains(k, "roaring64") && (strings.Contains(k, "Iterator") || strings.Contains(k, "Next") || strings.Contains(k, "ToArray")) {
								fromFilter = true
							}
						}
					}
					if g.Name() == "AddWithLimit" || fromFilter {
						n++
					}
					key := fmt.Sprintf("vamana:filter-gate@%s#%s", h.Name(), g.Name())
					if fromFilter || onlyViaAny(feH, hb) {
						c.Add("RANK", key, core.OK, w.At(hin), "", props...)
					} else {
						c.Add("RANK", key, core.Violation, w.At(hin), "a point is added to a result set in the seeding helper without coming from the filter or having been tested with filter.Contains", props...)
					}
				}
			}
		}
	}
	// with a filter the set that is returned is a separate one: the unfiltered search set, which takes
	// every neighbour on the way, reaches the result variable only over the "no filter" edge
	{
		var nilEdges []ssax.Edge
		for _, e := range fe {
			isContains := false
			for _, ce := range contains {
				if ce == e {
					isContains = true
				}
			}
			if !isContains {
				nilEdges = append(nilEdges, e)
			}
		}
		checked, bad := 0, ""
		for _, b := range gs.Blocks {
			r, ok := b.Instrs[len(b.Instrs)-1].(*ssa.Return)
			if !ok || len(r.Results) == 0 {
				continue
			}
			if n := len(r.Results); n > 0 && isErrorType(r.Results[n-1].Type()) && !ssax.IsNilConst(ssax.ReturnOperand(r, n-1)) {
				continue
			}
			ld, ok := ssax.ReturnOperand(r, 0).(*ssa.UnOp)
			if !ok || ld.Op != token.MUL {
				continue
			}
			phi, ok := ld.X.(*ssa.Phi)
			if !ok {
				continue
			}
			// the sets that arrive over a no-filter edge are the unfiltered ones
			unfiltered := map[ssa.Value]bool{}
			for i, e := range phi.Edges {
				if edgeOnlyVia(nilEdges, phi.Block().Preds[i], phi.Block()) {
					unfiltered[e] = true
				}
			}
			if len(unfiltered) == 0 {
				continue
			}
			checked++
			for i, e := range phi.Edges {
				if unfiltered[e] && !edgeOnlyVia(nilEdges, phi.Block().Preds[i], phi.Block()) {
					bad = w.At(phi)
				}
			}
		}
		switch {
		case bad != "":
			c.Add("RANK", "vamana:filtered-set-separate", core.Violation, bad, "with a filter given the search can still return its unfiltered search set (the separate filtered set is not installed on every path): points outside the pre-filter are returned", props...)
		case checked > 0:
			c.Add("RANK", "vamana:filtered-set-separate", core.OK, w.Position(gs.Pos()), "", props...)
		}
	}
	// the visiting loop looks at as many candidates as the search set was sized for: the bound next to
	// len(items) in the loop test is the very value NewDistSet was given for the search set (the query's
	// search size, not the index's build-time one)
	{
		var capArg ssa.Value
		var searchSetCell ssa.Value
		for _, b := range gs.Blocks {
			for _, in := range b.Instrs {
				call, ok := in.(*ssa.Call)
				if !ok || call.Call.StaticCallee() == nil || call.Call.StaticCallee().Name() != "NewDistSet" || capArg != nil {
					continue
				}
				capArg = call.Call.Args[0]
				for _, r := range *call.Referrers() {
					if st, ok := r.(*ssa.Store); ok && st.Val == ssa.Value(call) {
						searchSetCell = st.Addr
					}
				}
			}
		}
		checked, okBound := 0, true
		for _, b := range gs.Blocks {
			for _, in := range b.Instrs {
				call, ok := in.(*ssa.Call)
				if !ok {
					continue
				}
				bi, ok := call.Call.Value.(*ssa.Builtin)
				if !ok || bi.Name() != "min" || len(call.Call.Args) != 2 || !inLoop(b) {
					continue
				}
				for k := 0; k < 2; k++ {
					lc, ok := call.Call.Args[k].(*ssa.Call)
					if !ok {
						continue
					}
					lb, ok := lc.Call.Value.(*ssa.Builtin)
					if !ok || lb.Name() != "len" {
						continue
					}
					p, _ := ssax.Path(lc.Call.Args[0])
					cp, _ := ssax.Path(searchSetCell)
					if searchSetCell == nil || !strings.HasPrefix(strings.TrimSuffix(p, "*"), strings.TrimSuffix(cp, "*")) {
						continue
					}
					checked++
					other := call.Call.Args[1-k]
					po, _ := ssax.Path(other)
					pc, _ := ssax.Path(capArg)
					if !(peelToParam(other) == peelToParam(capArg) || (po != "" && po == pc)) {
						okBound = false
					}
				}
			}
		}
		if checked > 0 {
			if okBound {
				c.Add("RANK", "vamana:visit-bound", core.OK, w.Position(gs.Pos()), "", props...)
			} else {
				c.Add("RANK", "vamana:visit-bound", core.Violation, w.Position(gs.Pos()), "the visiting loop is bounded by something other than the size the search set was created with: with a larger query search size the candidates beyond that bound are never expanded and reachable nearest neighbours are missed", props...)
			}
		}
	}
	if n < 2 {
		c.Add("RANK", "anchor:vamana-filter-adds", core.Undecided, w.Position(gs.Pos()), fmt.Sprintf("found %d adds to the filtered result set in greedySearch, expected 2", n), props...)
	}
}

func rankFlat(w *load.World, c *core.Collector) {
	props := []string{"C04"}
	f := findFn(w, "(shard/index/flat.IndexFlat).Search")
	if f == nil {
		c.Add("RANK", "anchor:flat", core.Undecided, "", "IndexFlat.Search not found", props...)
		return
	}
	n := 0
	// the scan, its callback literals, and helpers they call (a refactoring may move the insertion there)
	cands := append([]*ssa.Function{f}, f.AnonFuncs...)
	type site struct {
		in *ssa.Function
		at ssa.Instruction
	}
	calledFrom := map[*ssa.Function][]site{}
	scoreChecked := map[*ssa.Function]bool{}
	for _, g := range append([]*ssa.Function{}, cands...) {
		for _, b := range g.Blocks {
			for _, in := range b.Instrs {
				if h := ssax.StaticModuleCallee(in); h != nil && len(h.Blocks) > 0 && len(resultWrites(h)) > 0 {
					if len(calledFrom[h]) == 0 {
						cands = append(cands, h)
					}
					calledFrom[h] = append(calledFrom[h], site{g, in})
				}
			}
		}
	}
	for _, g := range cands {
		writes := resultWrites(g)
		if len(writes) == 0 {
			continue
		}
		isFilter := isParamOrCapture(g, "roaring64.Bitmap")
		fe, found := filterEdges(g, isFilter)
		viaSites, sitesGated := false, true
		if !found && len(calledFrom[g]) > 0 {
			// the gate is at the call sites of the helper
			viaSites = true
			for _, cs := range calledFrom[g] {
				cfe, cfound := filterEdges(cs.in, isParamOrCapture(cs.in, "roaring64.Bitmap"))
				if !cfound || reachableWithoutEdges(cs.in, cfe, cs.at.Block()) {
					sitesGated = false
				}
				found = found || cfound
			}
		}
		for _, wr := range writes {
			n++
			key := fmt.Sprintf("flat:filter-gate#%d", n)
			gated := found && !reachableWithoutEdges(g, fe, wr.Block())
			if viaSites {
				gated = sitesGated
			}
			switch {
			case !found:
				c.Add("RANK", key, core.Violation, w.At(wr), "the flat scan never tests the filter", props...)
			case gated:
				c.Add("RANK", key, core.OK, w.At(wr), "", props...)
			default:
				c.Add("RANK", key, core.Violation, w.At(wr), "a result can be stored although a filter was given and the point was not found in it", props...)
			}
			// limit: growth only while len < cap, and the capacity is the limit
			if call, isAppend := wr.(*ssa.Call); isAppend {
				okLim := false
				for _, b := range g.Blocks {
					ifi, ok := b.Instrs[len(b.Instrs)-1].(*ssa.If)
					if !ok {
						continue
					}
					cond, negated := ifi.Cond, false
					if un, isNot := cond.(*ssa.UnOp); isNot && un.Op == token.NOT {
						cond, negated = un.X, true
					}
					// a predicate helper ("isFull(res)"): the comparison it returns
					if pc, isCall := cond.(*ssa.Call); isCall {
						if h := pc.Call.StaticCallee(); h != nil && ssax.InModule(h) && h.Signature.Results().Len() == 1 {
							var rets []*ssa.Return
							for _, hb := range h.Blocks {
								if r, ok := hb.Instrs[len(hb.Instrs)-1].(*ssa.Return); ok && hb != h.Recover {
									rets = append(rets, r)
								}
							}
							if len(rets) == 1 {
								cond = ssax.ReturnOperand(rets[0], 0)
							}
						}
					}
					bo, ok := cond.(*ssa.BinOp)
					if !ok {
						continue
					}
					// len(res) against its capacity or against the limit: the edge on which there is room
					isLen := func(v ssa.Value) bool {
						lc, ok := v.(*ssa.Call)
						if !ok {
							return false
						}
						lb, ok := lc.Call.Value.(*ssa.Builtin)
						return ok && lb.Name() == "len" && isSearchResultSlice(lc.Call.Args[0].Type())
					}
					isBound := func(v ssa.Value) bool {
						if cc, ok := v.(*ssa.Call); ok {
							if cb, ok := cc.Call.Value.(*ssa.Builtin); ok && cb.Name() == "cap" && isSearchResultSlice(cc.Call.Args[0].Type()) {
								return true
							}
						}
						return deepHas(w, v, "field:Limit")
					}
					x, y, op := bo.X, bo.Y, bo.Op
					if isLen(y) && isBound(x) {
						x, y = y, x
						op = map[token.Token]token.Token{token.LSS: token.GTR, token.GTR: token.LSS, token.LEQ: token.GEQ, token.GEQ: token.LEQ, token.EQL: token.EQL, token.NEQ: token.NEQ}[op]
					}
					if !isLen(x) || !isBound(y) {
						continue
					}
					room := -1
					switch op {
					case token.LSS, token.NEQ:
						room = 0
					case token.GEQ, token.EQL:
						room = 1
					}
					if room >= 0 && negated {
						room = 1 - room
					}
					if room >= 0 && ssax.OnlyViaEdge(b, room, call.Block()) {
						okLim = true
					}
				}
				capIsLimit := false
				for _, ff := range append([]*ssa.Function{f}, f.AnonFuncs...) {
					for _, b := range ff.Blocks {
						for _, in := range b.Instrs {
							if ms, ok := in.(*ssa.MakeSlice); ok && isSearchResultSlice(ms.Type()) && deepHas(w, ms.Cap, "field:Limit") {
								if _, arith := ms.Cap.(*ssa.BinOp); !arith {
									capIsLimit = true
								}
							}
						}
					}
				}
				if okLim && capIsLimit {
					c.Add("RANK", "flat:limit", core.OK, w.At(wr), "", props...)
				} else {
					c.Add("RANK", "flat:limit", core.Violation, w.At(wr), "the result buffer can grow beyond the requested limit (growth is not confined to len < cap with cap = limit)", props...)
				}
			}
		}
		// the result may be built by the caller and handed to a helper that only places it
		if len(hybridStores(g)) == 0 && len(calledFrom[g]) > 0 {
			for _, cs := range calledFrom[g] {
				if !scoreChecked[cs.in] {
					scoreChecked[cs.in] = true
					checkScore(w, c, cs.in, "flat:score", true, "Distance", []string{"C04", "C06"})
				}
			}
		} else if !scoreChecked[g] {
			scoreChecked[g] = true
			checkScore(w, c, g, "flat:score", true, "Distance", []string{"C04", "C06"})
		}
		// the k best are the k nearest: what keeps, rejects and orders candidates is the
		// distance. The hybrid score is weight times minus distance, and the weight is the
		// caller's: zero makes every candidate equal, a negative one reverses the order.
		byDist, byOther := 0, ""
		var where ssa.Instruction
		for _, gg := range append([]*ssa.Function{g}, g.AnonFuncs...) {
			for _, b := range gg.Blocks {
				for _, in := range b.Instrs {
					bo, ok := in.(*ssa.BinOp)
					if !ok {
						continue
					}
					switch bo.Op {
					case token.LSS, token.GTR, token.LEQ, token.GEQ:
					default:
						continue
					}
					for _, side := range []ssa.Value{bo.X, bo.Y} {
						fld := resultFieldRead(side)
						switch fld {
						case "":
						case "Distance":
							byDist++
						default:
							byOther = fld
							where = in
						}
					}
				}
			}
		}
		switch {
		case byOther != "":
			c.Add("RANK", "flat:ordered-by-distance", core.Violation, w.At(where), "the flat scan keeps or orders candidates by their "+byOther+", not by their distance: with a weight of zero every candidate ties and the first k seen are returned, with a negative weight the farthest are", props...)
		case byDist == 0:
			c.Add("RANK", "flat:ordered-by-distance", core.Violation, w.Position(g.Pos()), "the flat scan never compares the distances of stored results: nothing keeps the k nearest or their order", props...)
		default:
			c.Add("RANK", "flat:ordered-by-distance", core.OK, w.Position(g.Pos()), "", props...)
		}
	}
	if n < 2 {
		c.Add("RANK", "anchor:flat-writes", core.Undecided, w.Position(f.Pos()), fmt.Sprintf("found %d result writes in the flat scan, expected 2", n), props...)
	}
}

func rankText(w *load.World, c *core.Collector) {
	props := []string{"C05"}
	f := findFn(w, "(*shard/index/text.indexText).Search")
	if f == nil {
		c.Add("RANK", "anchor:text", core.Undecided, "", "indexText.Search not found", props...)
		return
	}
	var and, or, filterAnd *ssa.Call
	var sortCall *ssa.Call
	var cut *ssa.Slice
	for _, b := range f.Blocks {
		for _, in := range b.Instrs {
			switch x := in.(type) {
			case *ssa.Call:
				g := x.Call.StaticCallee()
				if g == nil {
					continue
				}
				switch {
				case strings.HasSuffix(g.String(), "roaring64.FastAnd"):
					and = x
				case strings.HasSuffix(g.String(), "roaring64.FastOr"):
					or = x
				case strings.HasSuffix(g.String(), "roaring64.And"), strings.HasSuffix(g.String(), "roaring64.Bitmap).And"):
					// the function (fresh result) or the in-place method: either way the match set is restricted
					for _, a := range x.Call.Args {
						if p, ok := a.(*ssa.Parameter); ok && ssax.TypeName(p.Type()) == "roaring64.Bitmap" {
							filterAnd = x
						}
					}
				case strings.HasPrefix(g.String(), "slices.SortFunc") || strings.HasPrefix(g.String(), "slices.SortStableFunc") || strings.HasPrefix(g.String(), "sort.Slice"):
					if len(x.Call.Args) > 0 && isSearchResultSlice(x.Call.Args[0].Type()) {
						sortCall = x
					}
				}
			case *ssa.Slice:
				if isSearchResultSlice(x.Type()) && x.High != nil && ssax.Prov(x.High)["field:Limit"] {
					cut = x
				}
			}
		}
	}
	// every term of the query contributes its posting set: in the loop that collects the sets, every
	// way back to the loop head goes through the append (a term that is skipped — an absent term has
	// an empty set — would drop out of the intersection, and containsAll would match without it)
	{
		isSetAppend := func(in ssa.Instruction) bool {
			// sets[i] = item.set: a slice of the right length filled by index
			if st, ok := in.(*ssa.Store); ok {
				if ia, ok := st.Addr.(*ssa.IndexAddr); ok {
					if sl, ok := ia.X.Type().Underlying().(*types.Slice); ok && strings.HasSuffix(sl.Elem().String(), "roaring64.Bitmap") {
						return true
					}
				}
				return false
			}
			call, ok := in.(*ssa.Call)
			if !ok {
				return false
			}
			bi, ok := call.Call.Value.(*ssa.Builtin)
			if !ok || bi.Name() != "append" {
				return false
			}
			sl, ok := call.Type().Underlying().(*types.Slice)
			return ok && strings.HasSuffix(sl.Elem().String(), "roaring64.Bitmap")
		}
		h := homeOf(f, func(g *ssa.Function) bool {
			for _, b := range g.Blocks {
				for _, in := range b.Instrs {
					if isSetAppend(in) && inLoop(b) {
						return true
					}
				}
			}
			return false
		})
		nApp := 0
		for _, b := range h.Blocks {
			for _, in := range b.Instrs {
				if !isSetAppend(in) || !inLoop(b) {
					continue
				}
				nApp++
				bad := ""
				if skippableInLoop(in) {
					bad = "skip"
				}
				key := fmt.Sprintf("text:every-term-set#%d", nApp)
				if bad != "" {
					c.Add("RANK", key, core.Violation, w.At(in), "the loop that collects the posting sets of the query terms can go on to the next term without adding the set of this one: the term drops out of the intersection and containsAll matches documents that lack it", props...)
				} else {
					c.Add("RANK", key, core.OK, w.At(in), "", props...)
				}
			}
		}
		if nApp == 0 {
			c.Add("RANK", "anchor:text-term-sets", core.Undecided, w.Position(f.Pos()), "the loop that collects the posting sets of the query terms was not found", props...)
		}
	}
	// operator table (in Search itself, or in a helper it calls that combines the term sets)
	opFn := f
	if and == nil || or == nil {
		for _, b := range f.Blocks {
			for _, in := range b.Instrs {
				if g := ssax.StaticModuleCallee(in); g != nil {
					var ga, go_ *ssa.Call
					for _, gb := range g.Blocks {
						for _, gi := range gb.Instrs {
							if call, ok := gi.(*ssa.Call); ok && call.Call.StaticCallee() != nil {
								switch {
								case strings.HasSuffix(call.Call.StaticCallee().String(), "roaring64.FastAnd"):
									ga = call
								case strings.HasSuffix(call.Call.StaticCallee().String(), "roaring64.FastOr"):
									go_ = call
								}
							}
						}
					}
					if ga != nil && go_ != nil {
						and, or, opFn = ga, go_, g
					}
				}
			}
		}
	}
	var allEdge []ssax.Edge
	for _, b := range opFn.Blocks {
		ifi, ok := b.Instrs[len(b.Instrs)-1].(*ssa.If)
		if !ok {
			continue
		}
		bo, ok := ifi.Cond.(*ssa.BinOp)
		if !ok || (bo.Op != token.EQL && bo.Op != token.NEQ) {
			continue
		}
		for _, pr := range [][2]ssa.Value{{bo.X, bo.Y}, {bo.Y, bo.X}} {
			if s, ok := ssax.ConstString(pr[1]); ok && s == "containsAll" && (ssax.Prov(pr[0])["field:Operator"] || opFn != f && ssax.Prov(pr[0]).HasPrefix("param:")) {
				e := 0
				if bo.Op == token.NEQ {
					e = 1
				}
				allEdge = append(allEdge, ssax.Edge{From: b, Succ: e})
			}
		}
	}
	switch {
	case and == nil || or == nil || len(allEdge) == 0:
		c.Add("RANK", "text:operator", core.Violation, w.Position(f.Pos()), "the text search does not choose between intersecting (containsAll) and uniting (containsAny) the term sets", props...)
	case onlyViaAny(allEdge, and.Block()) && !onlyViaAny(allEdge, or.Block()):
		c.Add("RANK", "text:operator", core.OK, w.At(and), "", props...)
	default:
		c.Add("RANK", "text:operator", core.Violation, w.At(and), "containsAll does not lead to the intersection of the term sets (or containsAny to their union)", props...)
	}
	// filter: when given, the match set is intersected with it before results are built
	writes := resultWrites(f)
	// the restriction may be made by a helper that receives the filter and hands back the match set
	var restrictCall *ssa.Call
	if filterAnd == nil {
		for _, b := range f.Blocks {
			for _, in := range b.Instrs {
				call, ok := in.(*ssa.Call)
				h := ssax.StaticModuleCallee(in)
				if !ok || h == nil || len(h.Blocks) == 0 {
					continue
				}
				for i, a := range call.Call.Args {
					if p, isP := a.(*ssa.Parameter); isP && ssax.TypeName(p.Type()) == "roaring64.Bitmap" && i < len(h.Params) {
						if returnsRestricted(h, h.Params[i], 0) {
							restrictCall = call
						}
					}
				}
			}
		}
	}
	if filterAnd == nil && restrictCall != nil {
		okF := len(writes) > 0
		for _, wr := range writes {
			if !ssax.Precedes(restrictCall, wr) {
				okF = false
			}
		}
		if okF {
			c.Add("RANK", "text:filter", core.OK, w.At(restrictCall), "", props...)
		} else {
			c.Add("RANK", "text:filter", core.Violation, w.At(restrictCall), "with a filter given, results can be built from a match set that was not intersected with it", props...)
		}
	} else if filterAnd == nil {
		c.Add("RANK", "text:filter", core.Violation, w.Position(f.Pos()), "the text search never intersects its match set with the pre-filter", props...)
	} else {
		isFilter := isParamOrCapture(f, "roaring64.Bitmap")
		fe, _ := filterEdges(f, isFilter)
		okF := len(writes) > 0
		for _, wr := range writes {
			// every path to a result write passes the intersection or the "no filter" edge
			passes := func(in ssa.Instruction) bool { return in == ssa.Instruction(filterAnd) }
			stop := func(in ssa.Instruction) bool { return in == wr }
			var nonNilEdges []ssax.Edge
			for _, e := range fe {
				nonNilEdges = append(nonNilEdges, ssax.Edge{From: e.From, Succ: 1 - e.Succ})
			}
			for _, e := range nonNilEdges {
				if ok, _ := mustPassFromEdge(e, passes, stop); !ok {
					okF = false
				}
			}
			if len(nonNilEdges) == 0 {
				okF = false
			}
		}
		if okF {
			c.Add("RANK", "text:filter", core.OK, w.At(filterAnd), "", props...)
		} else {
			c.Add("RANK", "text:filter", core.Violation, w.At(filterAnd), "with a filter given, results can be built from a match set that was not intersected with it", props...)
		}
	}
	// record-written: whenever the analysed document has tokens (insert or update), every success
	// path of the per-document routine stores the document record (term frequencies and length)
	if pd := findFn(w, "(*shard/index/text.indexText).processAnalysedDoc"); pd == nil {
		c.Add("RANK", "anchor:text-processAnalysedDoc", core.Undecided, "", "indexText.processAnalysedDoc not found", "C05", "C08")
	} else {
		// lengthTest: the block ends in a test of the analysed document's length against 0;
		// returns the successor taken when the document has tokens
		lengthTest := func(b *ssa.BasicBlock) (int, bool) {
			ifi, ok := b.Instrs[len(b.Instrs)-1].(*ssa.If)
			if !ok {
				return 0, false
			}
			bo, ok := ifi.Cond.(*ssa.BinOp)
			if !ok || !ssax.Prov(bo.X)["field:Length"] || !ssax.Prov(bo.X).HasPrefix("param:") {
				return 0, false
			}
			if _, arith := bo.X.(*ssa.BinOp); arith {
				return 0, false
			}
			if z, isC := ssax.ConstInt(bo.Y); !isC || z != 0 {
				return 0, false
			}
			switch bo.Op {
			case token.GTR, token.NEQ:
				return 0, true
			case token.EQL, token.LEQ:
				return 1, true
			}
			return 0, false
		}
		isPut := func(in ssa.Instruction) bool {
			call, ok := in.(*ssa.Call)
			if !ok {
				return false
			}
			g := call.Call.StaticCallee()
			if g == nil || g.Name() != "Put" || !strings.Contains(load.FnKey(g), "cache.ItemCache") {
				return false
			}
			return len(call.Call.Args) > 2 && ssax.TypeName(call.Call.Args[2].Type()) == "text.docCacheItem"
		}
		// a case of the routine may be a helper: it counts when every successful run of it stores the record
		directPut := isPut
		putSums := ssax.NewSummaries(func(in ssa.Instruction) []string {
			if directPut(in) {
				return []string{"put-record"}
			}
			return nil
		}, func(g *ssa.Function) []ssa.Instruction {
			var out []ssa.Instruction
			for _, e := range successExits(g) {
				out = append(out, e.In)
			}
			return out
		})
		isPut = func(in ssa.Instruction) bool {
			if directPut(in) {
				return true
			}
			for _, l := range putSums.At(in) {
				if l == "put-record" {
					return true
				}
			}
			return false
		}
		succ := map[ssa.Instruction]bool{}
		for _, e := range successExits(pd) {
			succ[e.In] = true
		}
		// walk every path that is consistent with "the document has tokens" (the test is written out
		// again in every case of the switch, so the walk keeps its answer fixed)
		nTests := 0
		bad := ""
		seen := map[*ssa.BasicBlock]bool{}
		var walk func(b *ssa.BasicBlock)
		walk = func(b *ssa.BasicBlock) {
			if seen[b] {
				return
			}
			seen[b] = true
			for _, in := range b.Instrs {
				if isPut(in) {
					return
				}
				if succ[in] {
					bad = w.At(in)
					return
				}
			}
			if e, ok := lengthTest(b); ok {
				nTests++
				walk(b.Succs[e])
				return
			}
			for _, sb := range b.Succs {
				walk(sb)
			}
		}
		walk(pd.Blocks[0])
		switch {
		case nTests == 0:
			c.Add("RANK", "text:record-written", core.Undecided, w.Position(pd.Pos()), "no test of the analysed document's length found", "C05", "C08")
		case bad == "":
			c.Add("RANK", "text:record-written", core.OK, w.Position(pd.Pos()), "", "C05", "C08")
		default:
			c.Add("RANK", "text:record-written", core.Violation, bad, "a document that has tokens can be processed successfully without its record (term frequencies, length) being stored: scores keep following the old text", "C05", "C08")
		}
	}
	// read-only: Search never mutates a bitmap that may be a cached posting set
	nMut := 0
	for _, b := range f.Blocks {
		for _, in := range b.Instrs {
			call, ok := in.(*ssa.Call)
			if !ok {
				continue
			}
			g := call.Call.StaticCallee()
			if g == nil || !strings.Contains(g.String(), "roaring64.Bitmap).") {
				continue
			}
			switch g.Name() {
			case "And", "Or", "AndNot", "Xor", "Add", "AddMany", "AddInt", "AddRange", "CheckedAdd", "Remove", "CheckedRemove", "RemoveRange", "Clear", "Flip", "FlipInt":
			default:
				continue
			}
			nMut++
			key := fmt.Sprintf("text:read-only#%d", nMut)
			if mayAliasCachedSet(call.Call.Args[0], map[ssa.Value]bool{}, 0) {
				c.Add("RANK", key, core.Violation, w.At(in), "the search calls "+g.Name()+" on a bitmap that can be a posting set held by the shared cache (it is taken from a cache item, not freshly computed): document frequencies, and with them every later score, change as a side effect of a query", "C05", "C09")
			} else {
				c.Add("RANK", key, core.OK, w.At(in), "", "C05", "C09")
			}
		}
	}
	checkScore(w, c, f, "text:score", false, "Score", []string{"C05", "C06"})
	// order: sorted by score descending, before the cut
	if sortCall == nil {
		c.Add("RANK", "text:order", core.Violation, w.Position(f.Pos()), "text results are not sorted", props...)
	} else {
		desc, ok := comparatorDescending(sortCall, "Score")
		switch {
		case !ok:
			c.Add("RANK", "text:order", core.Undecided, w.At(sortCall), "the comparator is not cmp.Compare over the two operands' Score", props...)
		case !desc:
			c.Add("RANK", "text:order", core.Violation, w.At(sortCall), "text results are sorted by ascending score: the lowest-scoring documents come first and survive the limit cut", props...)
		default:
			c.Add("RANK", "text:order", core.OK, w.At(sortCall), "", props...)
		}
	}
	if cut == nil {
		c.Add("RANK", "text:limit-cut", core.Violation, w.Position(f.Pos()), "text results are never cut to the requested limit", props...)
	} else {
		lo, _ := ssax.ConstInt(cut.Low)
		switch {
		case cut.Low != nil && lo != 0:
			c.Add("RANK", "text:limit-cut", core.Violation, w.At(cut), "the limit cut does not keep the head of the sorted results", props...)
		case sortCall != nil && !ssax.Precedes(sortCall, cut):
			c.Add("RANK", "text:limit-cut", core.Violation, w.At(cut), "results are cut to the limit before they are sorted by score", props...)
		default:
			if _, arith := cut.High.(*ssa.BinOp); arith {
				c.Add("RANK", "text:limit-cut", core.Violation, w.At(cut), "the cut keeps a number of results that is not the requested limit", props...)
			} else {
				c.Add("RANK", "text:limit-cut", core.OK, w.At(cut), "", props...)
			}
		}
	}
}

// comparatorDescending: the comparator passed to a sort call is cmp.Compare(second.F, first.F).
func comparatorDescending(sortCall *ssa.Call, field string) (desc bool, ok bool) {
	var cmpFn *ssa.Function
	for _, a := range sortCall.Call.Args {
		switch x := a.(type) {
		case *ssa.Function:
			cmpFn = x
		case *ssa.MakeClosure:
			cmpFn = x.Fn.(*ssa.Function)
		}
	}
	if cmpFn == nil || len(cmpFn.Params) != 2 {
		return false, false
	}
	for _, b := range cmpFn.Blocks {
		ret, isRet := b.Instrs[len(b.Instrs)-1].(*ssa.Return)
		if !isRet {
			continue
		}
		// the result may be the negation of the comparison (-cmp.Compare(a, b) orders like cmp.Compare(b, a))
		rv, flip := ret.Results[0], false
		for i := 0; i < 3; i++ {
			if u, isU := rv.(*ssa.UnOp); isU && u.Op == token.SUB {
				rv, flip = u.X, !flip
				continue
			}
			if bo, isB := rv.(*ssa.BinOp); isB {
				if k, isK := bo.X.(*ssa.Const); isK && bo.Op == token.SUB && k.Value != nil && constant.Sign(k.Value) == 0 {
					rv, flip = bo.Y, !flip
					continue
				}
				if k, isK := bo.Y.(*ssa.Const); isK && bo.Op == token.MUL && k.Value != nil && constant.Sign(k.Value) < 0 {
					rv, flip = bo.X, !flip
					continue
				}
				if k, isK := bo.X.(*ssa.Const); isK && bo.Op == token.MUL && k.Value != nil && constant.Sign(k.Value) < 0 {
					rv, flip = bo.Y, !flip
					continue
				}
			}
			break
		}
		call, isCall := rv.(*ssa.Call)
		if !isCall || call.Call.StaticCallee() == nil || !strings.HasPrefix(call.Call.StaticCallee().String(), "cmp.Compare") {
			return false, false
		}
		o0, o1 := ssax.Prov(call.Call.Args[0]), ssax.Prov(call.Call.Args[1])
		if !o0["field:"+field] || !o1["field:"+field] {
			return false, false
		}
		a, bb := "param:"+cmpFn.Params[0].Name(), "param:"+cmpFn.Params[1].Name()
		switch {
		case o0[bb] && !o0[a] && o1[a] && !o1[bb]:
			return !flip, true
		case o0[a] && !o0[bb] && o1[bb] && !o1[a]:
			return flip, true
		}
		return false, false
	}
	return false, false
}

// mayAliasCachedSet: the bitmap value can be the very object stored in a cache item (field `set` of a
// set cache item), as opposed to the fresh result of a library call.
func mayAliasCachedSet(v ssa.Value, seen map[ssa.Value]bool, depth int) bool {
	if v == nil || seen[v] || depth > 10 {
		return false
	}
	seen[v] = true
	switch x := v.(type) {
	case *ssa.Phi:
		for _, e := range x.Edges {
			if mayAliasCachedSet(e, seen, depth+1) {
				return true
			}
		}
	case *ssa.UnOp:
		if x.Op != token.MUL {
			return false
		}
		switch a := x.X.(type) {
		case *ssa.FieldAddr:
			if strings.HasSuffix(fieldOf(a), "setCacheItem.set") {
				return true
			}
		case *ssa.IndexAddr:
			return sliceHoldsCachedSet(a.X, seen, depth+1)
		case *ssa.Alloc:
			for _, r := range *a.Referrers() {
				if st, ok := r.(*ssa.Store); ok && st.Addr == ssa.Value(a) && mayAliasCachedSet(st.Val, seen, depth+1) {
					return true
				}
			}
		}
	case *ssa.Field:
		return strings.HasSuffix(ssax.TypeName(x.X.Type())+"."+ssax.StructOf(x.X.Type()).Field(x.Field).Name(), "setCacheItem.set")
	}
	return false
}

func sliceHoldsCachedSet(v ssa.Value, seen map[ssa.Value]bool, depth int) bool {
	if v == nil || seen[v] || depth > 10 {
		return false
	}
	seen[v] = true
	switch x := v.(type) {
	case *ssa.Phi:
		for _, e := range x.Edges {
			if sliceHoldsCachedSet(e, seen, depth+1) {
				return true
			}
		}
	case *ssa.Slice:
		return sliceHoldsCachedSet(x.X, seen, depth+1)
	case *ssa.Alloc:
		// a backing array: whatever is stored into its elements
		for _, r := range *x.Referrers() {
			if ia, ok := r.(*ssa.IndexAddr); ok {
				for _, rr := range *ia.Referrers() {
					if st, ok := rr.(*ssa.Store); ok && st.Addr == ssa.Value(ia) && mayAliasCachedSet(st.Val, seen, depth+1) {
						return true
					}
				}
			}
		}
	case *ssa.Call:
		if bi, ok := x.Call.Value.(*ssa.Builtin); ok && bi.Name() == "append" {
			for _, a := range x.Call.Args {
				if sliceHoldsCachedSet(a, seen, depth+1) {
					return true
				}
			}
		}
	}
	return false
}

// -------------------------------------------------------------------- QDIST
//
// A quantised vector store keeps, per point, the full vector until the
// quantiser is fitted and a code afterwards; points written before a restart
// come back with the code only. Every distance closure handed out by the store
// therefore works on exactly one representation. A closure that reads both the
// full vector and the code of the same point makes the reported distance depend
// on what happens to be cached (C04: warm = cold; C08).
func QDist(w *load.World, c *core.Collector) {
	metricFormula(w, c)
	props := []string{"C04", "C08"}
	n := 0
	for _, f := range w.Fns {
		if load.PkgPath(f) != load.Mod+"/shard/vectorstore" || f.Parent() == nil {
			continue
		}
		top := f
		for top.Parent() != nil {
			top = top.Parent()
		}
		if !strings.HasPrefix(top.Name(), "DistanceFrom") || top.Signature.Recv() == nil {
			continue
		}
		reads := map[string]map[string]bool{} // point type -> fields read
		for _, b := range f.Blocks {
			for _, in := range b.Instrs {
				var tn, fld string
				switch x := in.(type) {
				case *ssa.FieldAddr:
					tn, fld = ssax.TypeName(x.X.Type()), ssax.StructOf(x.X.Type()).Field(x.Field).Name()
				case *ssa.Field:
					tn, fld = ssax.TypeName(x.X.Type()), ssax.StructOf(x.X.Type()).Field(x.Field).Name()
				default:
					continue
				}
				if !strings.HasSuffix(tn, "QuantizedPoint") {
					continue
				}
				if reads[tn] == nil {
					reads[tn] = map[string]bool{}
				}
				reads[tn][fld] = true
			}
		}
		for tn, fs := range reads {
			n++
			key := fmt.Sprintf("one-representation:%s", load.FnKey(f))
			var codes []string
			for fld := range fs {
				if fld != "Vector" && fld != "id" && fld != "isDirty" {
					codes = append(codes, fld)
				}
			}
			if fs["Vector"] && len(codes) > 0 {
				c.Add("QDIST", key, core.Violation, w.Position(f.Pos()), fmt.Sprintf("this distance function reads both the full vector and the quantised code %v of a %s: the distance reported for a point depends on whether its full vector is still cached, so warm and cold answers differ", codes, tn), props...)
			} else {
				c.Add("QDIST", key, core.OK, w.Position(f.Pos()), "", props...)
			}
		}
	}
	c.Count("quantised_distance_closures", n)
	if n < 6 {
		c.Add("QDIST", "anchor:closures", core.Undecided, "", fmt.Sprintf("found %d distance closures over quantised points, expected at least 6", n), props...)
	}
}

// ----------------------------------------------------- vamana classification
//
// The graph index sorts every incoming change into insert / update / delete by
// (does the node exist, does the change carry a vector). The walk below follows
// every path of that closure keeping the answers to those two questions fixed
// (the source re-asks them in every case) and requires: a vector for an existing
// node is queued as an update, a vector for a new node is forwarded to the insert
// workers, no vector for an existing node is queued as a delete. A path that
// drops such a change (skip without queueing) leaves the graph with the old
// vector or a ghost node.
func vamanaClassification(w *load.World, c *core.Collector) {
	props := []string{"C03", "C10"}
	var f *ssa.Function
	if top := findFn(w, "(*shard/index/vamana.IndexVamana).insertUpdateDelete"); top != nil {
		f = classifierOf(w, top)
	}
	if f == nil {
		c.Add("RANK", "anchor:vamana-classification", core.Undecided, "", "the classification closure of IndexVamana.insertUpdateDelete was not found", props...)
		return
	}
	var exists ssa.Value
	for _, b := range f.Blocks {
		for _, in := range b.Instrs {
			if call, ok := in.(*ssa.Call); ok && call.Call.IsInvoke() && call.Call.Method.Name() == "Exists" {
				exists = call
			}
		}
	}
	if exists == nil {
		c.Add("RANK", "vamana:classification", core.Undecided, w.Position(f.Pos()), "no existence test found in the classification closure", props...)
		return
	}
	// condition -> (fact, value on the true edge)
	factOf := func(cond ssa.Value) (string, bool, bool) {
		neg := false
		if u, ok := cond.(*ssa.UnOp); ok && u.Op == token.NOT {
			cond, neg = u.X, true
		}
		if cond == exists {
			return "exists", !neg, true
		}
		if bo, ok := cond.(*ssa.BinOp); ok && (bo.Op == token.EQL || bo.Op == token.NEQ) {
			other := bo.X
			if ssax.IsNilConst(bo.X) {
				other = bo.Y
			} else if !ssax.IsNilConst(bo.Y) {
				return "", false, false
			}
			p, _ := ssax.Path(other)
			if strings.HasSuffix(strings.TrimSuffix(p, "*"), ".Vector") && strings.Contains(p, "point") || strings.HasSuffix(strings.TrimSuffix(p, "*"), ".Vector") {
				hasVec := bo.Op == token.NEQ
				if neg {
					hasVec = !hasVec
				}
				return "vector", hasVec, true
			}
		}
		return "", false, false
	}
	elemOfAppend := func(in ssa.Instruction) string {
		call, ok := in.(*ssa.Call)
		if !ok {
			return ""
		}
		bi, ok := call.Call.Value.(*ssa.Builtin)
		if !ok || bi.Name() != "append" {
			return ""
		}
		sl, ok := call.Type().Underlying().(*types.Slice)
		if !ok {
			return ""
		}
		if ssax.TypeName(sl.Elem()) == "vamana.IndexVectorChange" {
			return "update"
		}
		if bt, ok := sl.Elem().Underlying().(*types.Basic); ok && bt.Kind() == types.Uint64 {
			return "delete"
		}
		return ""
	}
	type pstate struct {
		facts   map[string]bool
		effects map[string]bool
		choice  map[*ssa.Phi]ssa.Value
	}
	clone := func(s pstate) pstate {
		n := pstate{map[string]bool{}, map[string]bool{}, map[*ssa.Phi]ssa.Value{}}
		for k, v := range s.facts {
			n.facts[k] = v
		}
		for k, v := range s.effects {
			n.effects[k] = v
		}
		for k, v := range s.choice {
			n.choice[k] = v
		}
		return n
	}
	var problems []string
	nPaths := 0
	var walk func(b, pred *ssa.BasicBlock, st pstate, depth int)
	walk = func(b, pred *ssa.BasicBlock, st pstate, depth int) {
		if depth > 60 {
			return
		}
		for _, in := range b.Instrs {
			if phi, ok := in.(*ssa.Phi); ok {
				for i, p := range b.Preds {
					if p == pred {
						st.choice[phi] = phi.Edges[i]
					}
				}
			}
			if e := elemOfAppend(in); e != "" {
				st.effects[e] = true
			}
			if ret, ok := in.(*ssa.Return); ok {
				resolve := func(v ssa.Value) ssa.Value {
					for i := 0; i < 6; i++ {
						if phi, ok := v.(*ssa.Phi); ok {
							if e, ok := st.choice[phi]; ok {
								v = e
								continue
							}
						}
						break
					}
					return v
				}
				if len(ret.Results) == 3 {
					if ev := resolve(ret.Results[2]); !ssax.IsNilConst(ev) {
						return // error path
					}
				}
				nPaths++
				skip, isC := ssax.ConstBool(resolve(ret.Results[1]))
				ex, exKnown := st.facts["exists"]
				vec, vecKnown := st.facts["vector"]
				if !exKnown || !vecKnown {
					return
				}
				switch {
				case ex && vec && !st.effects["update"]:
					problems = append(problems, "a change that carries a vector for an existing node can leave the closure without being queued as an update (at "+w.At(ret)+"): the graph keeps the old vector")
				case !ex && vec && !(isC && !skip):
					problems = append(problems, "a change that carries a vector for a new node is not forwarded to the insert workers")
				case ex && !vec && !st.effects["delete"]:
					problems = append(problems, "a change without a vector for an existing node is not queued as a delete")
				}
				return
			}
		}
		switch last := b.Instrs[len(b.Instrs)-1].(type) {
		case *ssa.Jump:
			walk(b.Succs[0], b, st, depth+1)
		case *ssa.If:
			if fact, onTrue, ok := factOf(last.Cond); ok {
				if known, have := st.facts[fact]; have {
					if known == onTrue {
						walk(b.Succs[0], b, clone(st), depth+1)
					} else {
						walk(b.Succs[1], b, clone(st), depth+1)
					}
					return
				}
				t, e := clone(st), clone(st)
				t.facts[fact] = onTrue
				e.facts[fact] = !onTrue
				walk(b.Succs[0], b, t, depth+1)
				walk(b.Succs[1], b, e, depth+1)
				return
			}
			walk(b.Succs[0], b, clone(st), depth+1)
			walk(b.Succs[1], b, clone(st), depth+1)
		}
	}
	walk(f.Blocks[0], nil, pstate{map[string]bool{}, map[string]bool{}, map[*ssa.Phi]ssa.Value{}}, 0)
	switch {
	case nPaths < 4:
		c.Add("RANK", "vamana:classification", core.Undecided, w.Position(f.Pos()), fmt.Sprintf("only %d success paths found in the classification closure", nPaths), props...)
	case len(problems) > 0:
		c.Add("RANK", "vamana:classification", core.Violation, w.Position(f.Pos()), strings.Join(dedupeSorted(problems), "; "), props...)
	default:
		c.Add("RANK", "vamana:classification", core.OK, w.Position(f.Pos()), fmt.Sprintf("%d paths", nPaths), props...)
	}
}

// vamanaSeedWindow: with a pre-filter, greedy search seeds its search set with filter members; the
// exactness promise for small filters ("at most searchSize members") needs at least searchSize seeds.
// The loop that draws ids from the filter's iterator is found by its Next() call; its counting guard,
// normalised to "count < bound", must have bound >= searchSize (the parameter itself, no negative offset).
func vamanaSeedWindow(w *load.World, c *core.Collector) {
	props := []string{"C03"}
	gs := findFn(w, "(*shard/index/vamana.IndexVamana).greedySearch")
	if gs == nil || len(gs.Params) < 4 {
		return
	}
	// the search-size parameter: the int parameter that bounds NewDistSet of the search set (3rd int param by position)
	var ints []*ssa.Parameter
	for _, p := range gs.Params {
		if bt, ok := p.Type().Underlying().(*types.Basic); ok && bt.Kind() == types.Int {
			ints = append(ints, p)
		}
	}
	if len(ints) < 2 {
		c.Add("RANK", "vamana:seed-window", core.Undecided, w.Position(gs.Pos()), "search-size parameter not identified", props...)
		return
	}
	size := ints[1] // (query, k, searchSize, filter): second int
	var nextBlk *ssa.BasicBlock
	findNext := func(fn *ssa.Function) *ssa.BasicBlock {
		var blk *ssa.BasicBlock
		for _, b := range fn.Blocks {
			for _, in := range b.Instrs {
				if call, ok := in.(*ssa.Call); ok && call.Call.IsInvoke() && call.Call.Method.Name() == "Next" && inLoop(b) {
					blk = b
				}
			}
		}
		return blk
	}
	nextBlk = findNext(gs)
	if nextBlk == nil {
		// the seeding loop may live in a helper that receives the search size
		for _, b := range gs.Blocks {
			for _, in := range b.Instrs {
				h := ssax.StaticModuleCallee(in)
				if h == nil || len(h.Blocks) == 0 || nextBlk != nil {
					continue
				}
				call := in.(ssa.CallInstruction).Common()
				for i, a := range call.Args {
					if a == ssa.Value(size) && i < len(h.Params) {
						if blk := findNext(h); blk != nil {
							nextBlk, gs, size = blk, h, h.Params[i]
						}
					}
				}
			}
		}
	}
	if nextBlk == nil {
		c.Add("RANK", "vamana:seed-window", core.Undecided, w.Position(gs.Pos()), "the loop that draws seeds from the filter was not found", props...)
		return
	}
	// affine form  size*n + c  of a value
	var lin func(v ssa.Value, depth int) (n int, cst int64, ok bool)
	lin = func(v ssa.Value, depth int) (int, int64, bool) {
		if depth > 6 {
			return 0, 0, false
		}
		if v == ssa.Value(size) {
			return 1, 0, true
		}
		if k, ok := ssax.ConstInt(v); ok {
			return 0, k, true
		}
		if bo, ok := v.(*ssa.BinOp); ok && (bo.Op == token.ADD || bo.Op == token.SUB) {
			n1, c1, ok1 := lin(bo.X, depth+1)
			n2, c2, ok2 := lin(bo.Y, depth+1)
			if ok1 && ok2 {
				if bo.Op == token.ADD {
					return n1 + n2, c1 + c2, true
				}
				return n1 - n2, c1 - c2, true
			}
		}
		return 0, 0, false
	}
	found := false
	for _, b := range gs.Blocks {
		if !(ssax.Reaches(b, nextBlk) && ssax.Reaches(nextBlk, b)) {
			continue
		}
		ifi, ok := b.Instrs[len(b.Instrs)-1].(*ssa.If)
		if !ok {
			continue
		}
		bo, ok := ifi.Cond.(*ssa.BinOp)
		if !ok {
			continue
		}
		n, k, okB := lin(bo.Y, 0)
		op := bo.Op
		if !okB || n == 0 {
			// bound on the left?
			n, k, okB = lin(bo.X, 0)
			if !okB || n == 0 {
				continue
			}
			op = map[token.Token]token.Token{token.LSS: token.GTR, token.GTR: token.LSS, token.LEQ: token.GEQ, token.GEQ: token.LEQ}[op]
		}
		found = true
		eff := k
		switch op {
		case token.LSS:
		case token.LEQ:
			eff = k + 1
		default:
			c.Add("RANK", "vamana:seed-window", core.Undecided, w.At(ifi), "the seeding loop's guard is not of the form count < bound", props...)
			return
		}
		if n == 1 && eff >= 0 {
			c.Add("RANK", "vamana:seed-window", core.OK, w.At(ifi), "", props...)
		} else {
			c.Add("RANK", "vamana:seed-window", core.Violation, w.At(ifi), fmt.Sprintf("the search is seeded with at most searchSize%+d filter members: a filter with exactly searchSize members loses one of them, which can be the nearest", eff), props...)
		}
	}
	if !found {
		c.Add("RANK", "vamana:seed-window", core.Undecided, w.Position(gs.Pos()), "the seeding loop has no guard that compares a count with the search size", props...)
	}
}

// homeOf returns f itself when it satisfies has, otherwise the first static
// module callee (two levels) that does: a block of f that a refactoring moved
// into a helper is analysed where it now lives.
func homeOf(f *ssa.Function, has func(*ssa.Function) bool) *ssa.Function {
	if f == nil || has(f) {
		return f
	}
	seen := map[*ssa.Function]bool{f: true}
	level := []*ssa.Function{f}
	for depth := 0; depth < 2; depth++ {
		var next []*ssa.Function
		for _, g := range level {
			for _, b := range g.Blocks {
				for _, in := range b.Instrs {
					h := ssax.StaticModuleCallee(in)
					if h == nil || seen[h] || len(h.Blocks) == 0 {
						continue
					}
					seen[h] = true
					if has(h) {
						return h
					}
					next = append(next, h)
				}
			}
			for _, lit := range g.AnonFuncs {
				if !seen[lit] {
					seen[lit] = true
					if has(lit) {
						return lit
					}
					next = append(next, lit)
				}
			}
		}
		level = next
	}
	return f
}

// deepHas: the value's provenance, followed through parameters to the call
// sites and through captured variables, contains the label.
func deepHas(w *load.World, v ssa.Value, label string) bool {
	for k := range provDeep(w, v) {
		if k == label || strings.HasSuffix(k, ":"+label) {
			return true
		}
	}
	return false
}

// unwrapThin: when f does nothing but take a lock (or the like) and hand all its
// parameters to one function of its own package, the work lives there: returns
// that function (repeatedly, two levels), else f itself.
func unwrapThin(f *ssa.Function) *ssa.Function {
	for depth := 0; depth < 2 && f != nil; depth++ {
		var target *ssa.Function
		n, other := 0, 0
		for _, b := range f.Blocks {
			for _, in := range b.Instrs {
				switch x := in.(type) {
				case *ssa.Call:
					g := x.Call.StaticCallee()
					switch {
					case g != nil && g.Pkg != nil && g.Pkg.Pkg.Path() == "sync":
					case g != nil && ssax.InModule(g) && load.PkgPath(g) == load.PkgPath(f) && len(g.Blocks) > 0:
						// all parameters of f are handed over
						passed := 0
						for _, p := range f.Params {
							for _, a := range x.Call.Args {
								if peelToParam(a) == ssa.Value(p) {
									passed++
									break
								}
							}
						}
						if passed == len(f.Params) {
							target = g
							n++
						} else {
							other++
						}
					default:
						other++
					}
				case *ssa.Defer, *ssa.RunDefers, *ssa.Return, *ssa.FieldAddr, *ssa.UnOp, *ssa.Extract, *ssa.Jump, *ssa.DebugRef, *ssa.If, *ssa.Phi,
					*ssa.ChangeType, *ssa.ChangeInterface, *ssa.MakeInterface, *ssa.Convert, *ssa.Alloc, *ssa.Store:
				default:
					other++
				}
			}
		}
		if n != 1 || other > 0 || target == nil || target == f {
			return f
		}
		f = target
	}
	return f
}

// peelToParam: the parameter a value is, seen through conversions and through a local cell it was spilled into.
func peelToParam(v ssa.Value) ssa.Value {
	for i := 0; i < 4; i++ {
		switch x := v.(type) {
		case *ssa.ChangeType:
			v = x.X
		case *ssa.Convert:
			v = x.X
		case *ssa.UnOp:
			al, ok := x.X.(*ssa.Alloc)
			if !ok {
				return v
			}
			sv := ssax.SingleStore(al)
			if sv == nil {
				return v
			}
			v = sv
		default:
			return v
		}
	}
	return v
}

// returnsRestricted: every return of h that hands back a set does so either on
// the path where the filter parameter is nil, or with a set that was
// intersected with it (roaring64.And / the in-place And), directly or through
// another such helper.
func returnsRestricted(h *ssa.Function, flt *ssa.Parameter, depth int) bool {
	if depth > 2 {
		return false
	}
	isFilter := func(v ssa.Value) bool { return v == ssa.Value(flt) }
	fe, _ := filterEdges(h, isFilter) // edges on which there is no filter (or the id is in it)
	var inPlace []ssa.Instruction
	for _, b := range h.Blocks {
		for _, in := range b.Instrs {
			if call, ok := in.(*ssa.Call); ok {
				if g := call.Call.StaticCallee(); g != nil && strings.HasSuffix(g.String(), "roaring64.Bitmap).And") && len(call.Call.Args) == 2 && call.Call.Args[1] == ssa.Value(flt) {
					inPlace = append(inPlace, in)
				}
			}
		}
	}
	found := false
	for _, b := range h.Blocks {
		ret, ok := b.Instrs[len(b.Instrs)-1].(*ssa.Return)
		if !ok || len(ret.Results) == 0 {
			continue
		}
		v := ssax.ReturnOperand(ret, 0)
		if ssax.IsNilConst(v) {
			continue // error path
		}
		found = true
		if onlyViaAny(fe, b) {
			continue // no filter given
		}
		okRet := false
		switch x := v.(type) {
		case *ssa.Call:
			if g := x.Call.StaticCallee(); g != nil {
				if strings.HasSuffix(g.String(), "roaring64.And") {
					for _, a := range x.Call.Args {
						if a == ssa.Value(flt) {
							okRet = true
						}
					}
				} else if ssax.InModule(g) {
					for i, a := range x.Call.Args {
						if a == ssa.Value(flt) && i < len(g.Params) && returnsRestricted(g, g.Params[i], depth+1) {
							okRet = true
						}
					}
				}
			}
		}
		for _, ip := range inPlace {
			if ssax.Precedes(ip, ret) {
				okRet = true
			}
		}
		if !okRet {
			return false
		}
	}
	return found
}

// weightDefaults: a query's weight is optional (a pointer). The default 1 is what a search
// uses when it was not given — and only then: an explicit weight, whatever its value (zero,
// negative), must reach the score. For every variable that takes the value of a Weight
// field: the constant default reaches it only over the "Weight == nil" edge.
func weightDefaults(w *load.World, c *core.Collector) {
	props := []string{"C03", "C05", "C06"}
	n := 0
	for _, f := range w.Fns {
		if !load.InMod(f) || !(strings.Contains(load.PkgPath(f), "/shard/index") || strings.HasSuffix(load.PkgPath(f), "/models")) {
			continue
		}
		props := []string{"C03", "C04", "C05", "C06"}
		switch {
		case strings.HasSuffix(load.PkgPath(f), "/vamana"):
			props = []string{"C03", "C06"}
		case strings.HasSuffix(load.PkgPath(f), "/text"):
			props = []string{"C05", "C06"}
		case strings.HasSuffix(load.PkgPath(f), "/flat"):
			props = []string{"C04", "C06"}
		}
		// a pointer to a query weight: the Weight field of an options struct, or a *float32
		// parameter that every caller binds to one
		var isWeightPtr func(v ssa.Value, depth int) bool
		isWeightPtr = func(v ssa.Value, depth int) bool {
			switch x := v.(type) {
			case *ssa.UnOp:
				if x.Op != token.MUL {
					return false
				}
				if fa, ok := x.X.(*ssa.FieldAddr); ok {
					st := ssax.StructOf(fa.X.Type())
					return st != nil && st.Field(fa.Field).Name() == "Weight"
				}
			case *ssa.Field:
				st := ssax.StructOf(x.X.Type())
				return st != nil && st.Field(x.Field).Name() == "Weight"
			case *ssa.Parameter:
				if depth > 0 || x.Type().String() != "*float32" {
					return false
				}
				sites := staticCallSites(w, x.Parent())
				idx := -1
				for i, q := range x.Parent().Params {
					if q == x {
						idx = i
					}
				}
				if len(sites) == 0 || idx < 0 {
					return false
				}
				for _, site := range sites {
					if idx >= len(site.Common().Args) || !isWeightPtr(site.Common().Args[idx], depth+1) {
						return false
					}
				}
				return true
			}
			return false
		}
		isWeightLoad := func(v ssa.Value) bool {
			ld, ok := v.(*ssa.UnOp)
			return ok && ld.Op == token.MUL && isWeightPtr(ld.X, 0)
		}
		// edges on which the weight pointer is nil / not nil
		var nilEdges, nonNilEdges []ssax.Edge
		for _, b := range f.Blocks {
			ifi, ok := b.Instrs[len(b.Instrs)-1].(*ssa.If)
			if !ok {
				continue
			}
			bo, neg, ok := condBinOp(ifi.Cond, 0)
			if !ok || (bo.Op != token.EQL && bo.Op != token.NEQ) || !(ssax.IsNilConst(bo.X) || ssax.IsNilConst(bo.Y)) {
				continue
			}
			other := bo.X
			if ssax.IsNilConst(bo.X) {
				other = bo.Y
			}
			if !isWeightPtr(other, 0) {
				continue
			}
			nilSucc := 0
			if (bo.Op == token.NEQ) != neg {
				nilSucc = 1
			}
			nilEdges = append(nilEdges, ssax.Edge{From: b, Succ: nilSucc})
			nonNilEdges = append(nonNilEdges, ssax.Edge{From: b, Succ: 1 - nilSucc})
		}
		// "if w == nil { return 1 }; return *w" in a helper
		{
			var loads, consts []*ssa.Return
			for _, b := range f.Blocks {
				r, ok := b.Instrs[len(b.Instrs)-1].(*ssa.Return)
				if !ok || len(r.Results) != 1 {
					continue
				}
				if isWeightLoad(r.Results[0]) {
					loads = append(loads, r)
				} else if _, isC := r.Results[0].(*ssa.Const); isC {
					consts = append(consts, r)
				}
			}
			if len(loads) > 0 {
				n++
				key := "weight-default:" + load.FnKey(f)
				bad := false
				for _, r := range consts {
					if !onlyViaAny(nilEdges, r.Block()) {
						bad = true
					}
				}
				if bad {
					c.Add("RANK", key, core.Violation, w.Position(f.Pos()), "the default weight is returned on a path where the query gave a weight explicitly: a weight of zero or below is ignored and the hybrid score changes", props...)
				} else {
					c.Add("RANK", key, core.OK, w.Position(f.Pos()), "", props...)
				}
			}
		}
		for _, b := range f.Blocks {
			for _, in := range b.Instrs {
				switch x := in.(type) {
				case *ssa.Phi:
					has := false
					for _, e := range x.Edges {
						if isWeightLoad(e) {
							has = true
						}
					}
					if !has {
						continue
					}
					n++
					key := "weight-default:" + load.FnKey(f)
					bad := false
					for i, e := range x.Edges {
						if _, isC := e.(*ssa.Const); isC && !edgeOnlyVia(nilEdges, b.Preds[i], b) {
							bad = true
						}
					}
					if bad {
						c.Add("RANK", key, core.Violation, w.Position(x.Pos()), "the default weight replaces a weight that the query gave explicitly (the constant reaches the variable on a path where Weight is not nil): a weight of zero or below is ignored and the hybrid score changes", props...)
					} else {
						c.Add("RANK", key, core.OK, w.Position(x.Pos()), "", props...)
					}
				case *ssa.Store:
					cell, ok := x.Addr.(*ssa.Alloc)
					if !ok || !isWeightLoad(x.Val) {
						continue
					}
					n++
					key := "weight-default:" + load.FnKey(f)
					// from the not-nil edge every way to a read of the variable goes through this store
					bad := false
					for _, e := range nonNilEdges {
						from := e.From.Succs[e.Succ]
						seen := map[*ssa.BasicBlock]bool{b: true}
						var dfs func(bb *ssa.BasicBlock) bool
						dfs = func(bb *ssa.BasicBlock) bool {
							if seen[bb] {
								return false
							}
							seen[bb] = true
							for _, ii := range bb.Instrs {
								if ld, ok := ii.(*ssa.UnOp); ok && ld.Op == token.MUL && ld.X == ssa.Value(cell) {
									return true
								}
								if mc, ok := ii.(*ssa.MakeClosure); ok {
									for _, bnd := range mc.Bindings {
										if bnd == ssa.Value(cell) {
											return true
										}
									}
								}
							}
							for _, s := range bb.Succs {
								if dfs(s) {
									return true
								}
							}
							return false
						}
						if from != b && dfs(from) {
							bad = true
						}
					}
					if bad || len(nonNilEdges) == 0 {
						c.Add("RANK", key, core.Violation, w.At(x), "the default weight replaces a weight that the query gave explicitly (the variable is read on a path where Weight is not nil and was not assigned): a weight of zero or below is ignored and the hybrid score changes", props...)
					} else {
						c.Add("RANK", key, core.OK, w.At(x), "", props...)
					}
				}
			}
		}
	}
	c.Count("weight_defaults", n)
	if n < 1 {
		c.Add("RANK", "anchor:weight-defaults", core.Undecided, "", fmt.Sprintf("found %d places where a query weight is taken, expected at least 1", n), props...)
	}
}

// skippableInLoop: the instruction sits in a loop and an iteration can go round (from the loop
// head back to the loop head) without executing it.
func skippableInLoop(in ssa.Instruction) bool {
	b := in.Block()
	h := b.Parent()
	for _, hd := range h.Blocks {
		if hd == b || !(ssax.Reaches(hd, b) && ssax.Reaches(b, hd)) {
			continue
		}
		leaves := false
		for _, s := range hd.Succs {
			if !(ssax.Reaches(s, hd)) {
				leaves = true
			}
		}
		if !leaves || !hd.Dominates(b) {
			continue
		}
		seen := map[*ssa.BasicBlock]bool{b: true}
		var dfs func(x *ssa.BasicBlock) bool
		dfs = func(x *ssa.BasicBlock) bool {
			if x == hd {
				return true
			}
			if seen[x] {
				return false
			}
			seen[x] = true
			for _, s := range x.Succs {
				if dfs(s) {
					return true
				}
			}
			return false
		}
		for _, s := range hd.Succs {
			if ssax.Reaches(s, hd) && s != b && dfs(s) {
				return true
			}
		}
	}
	return false
}

// ownFilter: each ranking index is searched with the pre-filter of its own option block. The
// three blocks can all be present in a decoded query (only the one named by the type is
// validated), so a filter picked from "whichever block has one" restricts the search with a
// filter the caller never asked for. Decided: the bitmap handed to an index's Search is the
// result of the recursive search over the Filter field of the same block type as the options
// argument — through captured cells, helper parameters (per call site) and helper results.
func ownFilter(w *load.World, c *core.Collector) {
	props := []string{"C03", "C04", "C05", "C06"}
	isBitmap := func(t types.Type) bool { return strings.HasSuffix(t.String(), "roaring64.Bitmap") }
	isQuery := func(t types.Type) bool { return strings.HasSuffix(t.String(), "models.Query") }
	type frame struct{ site ssa.CallInstruction }
	typeSwitched := false
	var trace func(v ssa.Value, stack []frame, depth int) map[string]bool
	trace = func(v ssa.Value, stack []frame, depth int) map[string]bool {
		out := map[string]bool{}
		if depth > 14 || v == nil {
			return out
		}
		add := func(m map[string]bool) {
			for k := range m {
				out[k] = true
			}
		}
		allocStores := func(al *ssa.Alloc) {
			var visit func(refs []ssa.Instruction)
			visit = func(refs []ssa.Instruction) {
				for _, r := range refs {
					switch s := r.(type) {
					case *ssa.Store:
						if s.Addr == ssa.Value(al) {
							add(trace(s.Val, stack, depth+1))
						}
					case *ssa.MakeClosure:
						// stores made inside closures that capture the cell
						for i, b := range s.Bindings {
							if b == ssa.Value(al) {
								fv := s.Fn.(*ssa.Function).FreeVars[i]
								for _, rr := range *fv.Referrers() {
									if st, ok := rr.(*ssa.Store); ok && st.Addr == ssa.Value(fv) {
										add(trace(st.Val, nil, depth+1))
									}
								}
							}
						}
					}
				}
			}
			visit(*al.Referrers())
		}
		switch x := v.(type) {
		case *ssa.UnOp:
			if x.Op != token.MUL {
				return out
			}
			switch a := x.X.(type) {
			case *ssa.FieldAddr:
				if st := ssax.StructOf(a.X.Type()); st != nil && st.Field(a.Field).Name() == "Filter" {
					out[ssax.TypeName(a.X.Type())] = true
					if fn := a.Parent(); fn != nil && switchesOnType(fn) {
						typeSwitched = true
					}
					return out
				}
				add(trace(a.X, stack, depth+1))
			case *ssa.Alloc:
				allocStores(a)
			case *ssa.FreeVar:
				fn := a.Parent()
				if p := fn.Parent(); p != nil {
					for i, fv := range fn.FreeVars {
						if fv != a {
							continue
						}
						for _, b := range p.Blocks {
							for _, in := range b.Instrs {
								if mc, ok := in.(*ssa.MakeClosure); ok && mc.Fn == ssa.Value(fn) && i < len(mc.Bindings) {
									if al, ok := mc.Bindings[i].(*ssa.Alloc); ok {
										allocStores(al)
									} else {
										add(trace(mc.Bindings[i], nil, depth+1))
									}
								}
							}
						}
					}
				}
			default:
				add(trace(x.X, stack, depth+1))
			}
		case *ssa.Phi:
			for _, e := range x.Edges {
				add(trace(e, stack, depth+1))
			}
		case *ssa.Extract:
			add(trace(x.Tuple, stack, depth+1))
		case *ssa.ChangeType:
			add(trace(x.X, stack, depth+1))
		case *ssa.MakeInterface:
			add(trace(x.X, stack, depth+1))
		case *ssa.Parameter:
			fn := x.Parent()
			idx := -1
			for i, q := range fn.Params {
				if q == x {
					idx = i
				}
			}
			if idx < 0 {
				return out
			}
			if len(stack) > 0 {
				site := stack[len(stack)-1].site
				if site.Common().StaticCallee() == fn && idx < len(site.Common().Args) {
					add(trace(site.Common().Args[idx], stack[:len(stack)-1], depth+1))
					return out
				}
			}
			for _, site := range staticCallSites(w, fn) {
				if idx < len(site.Common().Args) {
					add(trace(site.Common().Args[idx], nil, depth+1))
				}
			}
		case *ssa.Call:
			g := x.Call.StaticCallee()
			if g == nil || !ssax.InModule(g) {
				return out
			}
			// the recursive search over a query: whose Filter is the query
			if g.Signature.Results().Len() >= 1 && isBitmap(g.Signature.Results().At(0).Type()) {
				for i, a := range x.Call.Args {
					if isQuery(a.Type()) && i < len(g.Params) && g.Name() == "Search" {
						add(trace(a, stack, depth+1))
						return out
					}
				}
				// a helper that computes the filter: its results
				for _, b := range g.Blocks {
					if ret, ok := b.Instrs[len(b.Instrs)-1].(*ssa.Return); ok && len(ret.Results) > 0 {
						add(trace(ret.Results[0], append(append([]frame{}, stack...), frame{x}), depth+1))
					}
				}
			}
		}
		return out
	}
	n := 0
	for _, f := range w.Fns {
		if load.PkgPath(f) != load.Mod+"/shard/index" {
			continue
		}
		for _, b := range f.Blocks {
			for _, in := range b.Instrs {
				call, ok := in.(*ssa.Call)
				if !ok {
					continue
				}
				g := call.Call.StaticCallee()
				if g == nil || g.Name() != "Search" || !strings.HasPrefix(load.PkgPath(g), load.Mod+"/shard/index/") {
					continue
				}
				var opts, flt ssa.Value
				for _, a := range call.Call.Args[1:] {
					tn := ssax.TypeName(a.Type())
					if strings.HasPrefix(tn, "models.Search") && strings.HasSuffix(tn, "Options") {
						opts = a
					}
					if isBitmap(a.Type()) {
						flt = a
					}
				}
				if opts == nil || flt == nil {
					continue
				}
				if st := ssax.StructOf(opts.Type()); st == nil || !hasField(st, "Filter") {
					continue
				}
				n++
				own := ssax.TypeName(opts.Type())
				key := "own-filter:" + strings.TrimPrefix(load.PkgPath(g), load.Mod+"/shard/index/")
				switch {
				case strings.HasSuffix(key, ":vamana"):
					props = []string{"C03"}
				case strings.HasSuffix(key, ":flat"):
					props = []string{"C04"}
				case strings.HasSuffix(key, ":text"):
					props = []string{"C05"}
				}
				typeSwitched = false
				got := trace(flt, nil, 0)
				var others []string
				for k := range got {
					if k != own {
						others = append(others, k)
					}
				}
				sort.Strings(others)
				switch {
				case len(got) == 0:
					c.Add("RANK", key, core.Undecided, w.At(call), "cannot trace the filter given to the "+own+" search back to a Filter field", props...)
				case !got[own]:
					c.Add("RANK", key, core.Violation, w.At(call), "the search with "+own+" is restricted by the filter of "+strings.Join(others, ", ")+", never by its own", props...)
				case len(others) > 0 && !typeSwitched:
					c.Add("RANK", key, core.Violation, w.At(call), "the filter given to the search with "+own+" can be the Filter of "+strings.Join(others, ", ")+": a query that carries a filter in another option block is restricted by a filter it did not ask for", props...)
				default:
					c.Add("RANK", key, core.OK, w.At(call), "", props...)
				}
			}
		}
	}
	if n < 3 {
		c.Add("RANK", "anchor:own-filter", core.Undecided, "", fmt.Sprintf("found %d ranking index searches with a filter argument, expected 3", n), props...)
	}
}

func hasField(st *types.Struct, name string) bool {
	for i := 0; i < st.NumFields(); i++ {
		if st.Field(i).Name() == name {
			return true
		}
	}
	return false
}

// switchesOnType: the function compares a field called Type with string constants
func switchesOnType(f *ssa.Function) bool {
	for _, b := range f.Blocks {
		for _, in := range b.Instrs {
			bo, ok := in.(*ssa.BinOp)
			if !ok || bo.Op != token.EQL {
				continue
			}
			for _, side := range []ssa.Value{bo.X, bo.Y} {
				if u, ok := side.(*ssa.UnOp); ok {
					if fa, ok := u.X.(*ssa.FieldAddr); ok {
						if st := ssax.StructOf(fa.X.Type()); st != nil && st.Field(fa.Field).Name() == "Type" {
							return true
						}
					}
				}
				if fl, ok := side.(*ssa.Field); ok {
					if st := ssax.StructOf(fl.X.Type()); st != nil && st.Field(fl.Field).Name() == "Type" {
						return true
					}
				}
			}
		}
	}
	return false
}

// resultFieldRead: the value is read from a field of a stored search result (through the
// Distance pointer too); which field
func resultFieldRead(v ssa.Value) string {
	for i := 0; i < 4; i++ {
		u, ok := v.(*ssa.UnOp)
		if !ok || u.Op != token.MUL {
			return ""
		}
		if fa, ok := u.X.(*ssa.FieldAddr); ok {
			if strings.HasSuffix(ssax.TypeName(fa.X.Type()), "SearchResult") {
				return ssax.StructOf(fa.X.Type()).Field(fa.Field).Name()
			}
			return ""
		}
		v = u.X
	}
	return ""
}

// metricFormula: the cosine and dot metrics are the kernel's inner product put through "one
// minus" and "minus" and nothing else. The property gives the metric as exactly that; a clamp
// (max(0, …), min(…, 1)) makes every pair beyond the clamp tie, and the k nearest among them are
// whichever the scan met first. The functions are found through the metric table
// (GetFloatDistanceFn: name constant → function), not by their names.
func metricFormula(w *load.World, c *core.Collector) {
	props := []string{"C04", "C03", "C20"}
	tab := findFn(w, "distance.GetFloatDistanceFn")
	if tab == nil {
		c.Add("QDIST", "anchor:metric-table", core.Undecided, "", "distance.GetFloatDistanceFn not found", props...)
		return
	}
	byName := map[string]*ssa.Function{}
	for _, b := range tab.Blocks {
		ifi, ok := b.Instrs[len(b.Instrs)-1].(*ssa.If)
		if !ok {
			continue
		}
		bo, ok := ifi.Cond.(*ssa.BinOp)
		if !ok || bo.Op != token.EQL {
			continue
		}
		name, ok := ssax.ConstString(bo.Y)
		if !ok {
			if name, ok = ssax.ConstString(bo.X); !ok {
				continue
			}
		}
		prev, t := b, b.Succs[0]
		for i := 0; i < 4; i++ {
			if _, isJ := t.Instrs[len(t.Instrs)-1].(*ssa.Jump); isJ {
				prev, t = t, t.Succs[0]
				continue
			}
			break
		}
		// the branches meet in a variable that is returned further down (after a nil test, say)
		if _, isRet := t.Instrs[len(t.Instrs)-1].(*ssa.Return); !isRet {
			for _, in := range t.Instrs {
				phi, ok := in.(*ssa.Phi)
				if !ok {
					break
				}
				returned := false
				var reaches func(v ssa.Value, d int)
				reaches = func(v ssa.Value, d int) {
					if d > 4 || v.Referrers() == nil {
						return
					}
					for _, r := range *v.Referrers() {
						switch x := r.(type) {
						case *ssa.Return:
							returned = true
						case *ssa.ChangeType:
							reaches(x, d+1)
						case *ssa.MakeInterface:
							reaches(x, d+1)
						case *ssa.Phi:
							reaches(x, d+1)
						}
					}
				}
				reaches(phi, 0)
				if !returned {
					continue
				}
				for k, p := range t.Preds {
					if p == prev {
						for _, fn := range funcValuesOf(w, phi.Edges[k], 0) {
							byName[name] = fn
						}
					}
				}
			}
		}
		if ret, ok := t.Instrs[len(t.Instrs)-1].(*ssa.Return); ok && len(ret.Results) > 0 {
			rv := ret.Results[0]
			// the function chosen on this branch, when the branches meet in one return
			for i := 0; i < 3; i++ {
				if ct, ok := rv.(*ssa.ChangeType); ok {
					rv = ct.X
					continue
				}
				if phi, ok := rv.(*ssa.Phi); ok && phi.Block() == t {
					for k, p := range t.Preds {
						if p == prev {
							rv = phi.Edges[k]
						}
					}
					continue
				}
				break
			}
			for _, fn := range funcValuesOf(w, rv, 0) {
				byName[name] = fn
			}
		}
	}
	type aff struct {
		c, s  float64
		calls int
	}
	var eval func(v ssa.Value, d int) (aff, bool)
	eval = func(v ssa.Value, d int) (aff, bool) {
		if d > 8 {
			return aff{}, false
		}
		switch x := v.(type) {
		case *ssa.Const:
			if x.Value != nil && (x.Value.Kind() == constant.Float || x.Value.Kind() == constant.Int) {
				f, _ := constant.Float64Val(constant.ToFloat(x.Value))
				return aff{c: f}, true
			}
		case *ssa.Call:
			if _, isB := x.Call.Value.(*ssa.Builtin); isB {
				return aff{}, false
			}
			return aff{s: 1, calls: 1}, true
		case *ssa.Convert:
			return eval(x.X, d+1)
		case *ssa.UnOp:
			if x.Op == token.SUB {
				a, ok := eval(x.X, d+1)
				return aff{-a.c, -a.s, a.calls}, ok
			}
			if x.Op == token.MUL {
				if al, ok := x.X.(*ssa.Alloc); ok {
					if sv := ssax.SingleStore(al); sv != nil {
						return eval(sv, d+1)
					}
				}
			}
		case *ssa.BinOp:
			a, ok1 := eval(x.X, d+1)
			b, ok2 := eval(x.Y, d+1)
			if !ok1 || !ok2 {
				return aff{}, false
			}
			switch x.Op {
			case token.ADD:
				return aff{a.c + b.c, a.s + b.s, a.calls + b.calls}, true
			case token.SUB:
				return aff{a.c - b.c, a.s - b.s, a.calls + b.calls}, true
			case token.MUL:
				if a.calls == 0 {
					return aff{a.c * b.c, a.c * b.s, b.calls}, true
				}
				if b.calls == 0 {
					return aff{a.c * b.c, b.c * a.s, a.calls}, true
				}
			}
		}
		return aff{}, false
	}
	want := map[string]aff{"cosine": {c: 1, s: -1, calls: 1}, "dot": {c: 0, s: -1, calls: 1}}
	for _, name := range []string{"cosine", "dot"} {
		key := "formula:" + name
		fn := byName[name]
		if fn == nil {
			c.Add("QDIST", key, core.Undecided, w.Position(tab.Pos()), "the metric table has no entry for "+name, props...)
			continue
		}
		bad := ""
		n := 0
		for _, b := range fn.Blocks {
			ret, ok := b.Instrs[len(b.Instrs)-1].(*ssa.Return)
			if !ok || len(ret.Results) != 1 {
				continue
			}
			n++
			a, ok := eval(ret.Results[0], 0)
			if !ok {
				bad = "the result is not the inner product put through a linear formula (a clamp, a branch or another function is applied to it): all pairs beyond the clamp get the same distance and tie"
			} else if a != want[name] {
				bad = fmt.Sprintf("the result is %g %+g times the inner product, the metric is %g %+g times it", a.c, a.s, want[name].c, want[name].s)
			}
		}
		if n == 0 {
			bad = "no return found"
		}
		if bad != "" {
			c.Add("QDIST", key, core.Violation, w.Position(fn.Pos()), bad, props...)
		} else {
			c.Add("QDIST", key, core.OK, w.Position(fn.Pos()), "", props...)
		}
	}
}

// arrayTermSets: containsAll over an array index intersects the posting sets of all query terms.
// In the loop of IndexInvertedArray.Search that collects those sets every iteration adds its set
// (by append or by an indexed store): a term that is skipped because its set is empty — a term no
// point holds — drops out of the intersection, and containsAll matches points that lack it.
func arrayTermSets(w *load.World, c *core.Collector) {
	props := []string{"C02"}
	isSetWrite := func(in ssa.Instruction) bool {
		switch x := in.(type) {
		case *ssa.Call:
			bi, ok := x.Call.Value.(*ssa.Builtin)
			if !ok || bi.Name() != "append" {
				return false
			}
			sl, ok := x.Type().Underlying().(*types.Slice)
			return ok && strings.HasSuffix(sl.Elem().String(), "roaring64.Bitmap")
		case *ssa.Store:
			ia, ok := x.Addr.(*ssa.IndexAddr)
			if !ok {
				return false
			}
			return strings.HasSuffix(x.Val.Type().String(), "roaring64.Bitmap") && ia != nil
		}
		return false
	}
	done := false
	for _, f := range w.Fns {
		if done || load.PkgPath(f) != load.Mod+"/shard/index/inverted" || f.Name() != "Search" || f.Signature.Recv() == nil || len(f.Blocks) == 0 {
			continue
		}
		if !strings.Contains(f.Signature.Recv().Type().String(), "IndexInvertedArray") {
			continue
		}
		h := homeOf(f, func(g *ssa.Function) bool {
			for _, b := range g.Blocks {
				for _, in := range b.Instrs {
					if isSetWrite(in) && inLoop(b) {
						return true
					}
				}
			}
			return false
		})
		n := 0
		for _, b := range h.Blocks {
			for _, in := range b.Instrs {
				if !isSetWrite(in) || !inLoop(b) {
					continue
				}
				n++
				key := fmt.Sprintf("array:every-term-set#%d", n)
				if skippableInLoop(in) {
					c.Add("RANK", key, core.Violation, w.At(in), "the loop that collects the posting sets of the queried array elements can go on to the next element without adding the set of this one: an element no point holds drops out of the intersection and containsAll matches points that lack it", props...)
				} else {
					c.Add("RANK", key, core.OK, w.At(in), "", props...)
				}
			}
		}
		if n == 0 {
			c.Add("RANK", "anchor:array-term-sets", core.Undecided, w.Position(f.Pos()), "the loop that collects the posting sets of the queried array elements was not found", props...)
		}
		done = true
	}
	if !done {
		c.Add("RANK", "anchor:array-search", core.Undecided, "", "IndexInvertedArray.Search not found", props...)
	}
}

// unlinkCovers: a point whose vector is replaced or removed is first unlinked from the graph: the
// set handed to removeInboundEdges holds the ids of the updated points as well as of the deleted
// ones. An updated point that is left out keeps the edges (and the cached neighbour entries with
// the old vector) of its old position; searches near the old position report it with the distance
// to a vector it no longer has. Decided: ids are added to that set both where (or from what) the
// deleted ids are collected and where (or from what) the updated points are collected.
func unlinkCovers(w *load.World, c *core.Collector) {
	props := []string{"C03", "C10"}
	var site *ssa.Call
	var home *ssa.Function
	for _, f := range w.Fns {
		if load.PkgPath(f) != load.Mod+"/shard/index/vamana" {
			continue
		}
		for _, b := range f.Blocks {
			for _, in := range b.Instrs {
				if call, ok := in.(*ssa.Call); ok && call.Call.StaticCallee() != nil && call.Call.StaticCallee().Name() == "removeInboundEdges" && f.Name() != "removeInboundEdges" {
					site, home = call, f
				}
			}
		}
	}
	if site == nil {
		c.Add("RANK", "anchor:unlink", core.Undecided, "", "no call of removeInboundEdges found in the vamana package", props...)
		return
	}
	for home.Parent() != nil {
		home = home.Parent()
	}
	// the set: a map value or the cell that holds it
	root := func(v ssa.Value) ssa.Value {
		for i := 0; i < 6; i++ {
			switch x := v.(type) {
			case *ssa.UnOp:
				v = x.X
			case *ssa.FreeVar:
				if al := capturedCell(x); al != nil {
					return al
				}
				return v
			case *ssa.Phi:
				return v
			default:
				return v
			}
		}
		return v
	}
	fieldKey := func(v ssa.Value) string {
		if fa, ok := v.(*ssa.FieldAddr); ok {
			return fmt.Sprintf("%s#%d", ssax.TypeName(fa.X.Type()), fa.Field)
		}
		return ""
	}
	set := root(site.Call.Args[len(site.Call.Args)-1])
	// handed down by a caller: the caller's set, and the caller is where it is filled
	for i := 0; i < 2; i++ {
		p, ok := set.(*ssa.Parameter)
		if !ok {
			break
		}
		idx := -1
		for k, q := range p.Parent().Params {
			if q == p {
				idx = k
			}
		}
		sites := staticCallSites(w, p.Parent())
		if idx < 0 || len(sites) != 1 || idx >= len(sites[0].Common().Args) {
			break
		}
		set = root(sites[0].Common().Args[idx])
		home = sites[0].Parent()
		for home.Parent() != nil {
			home = home.Parent()
		}
	}
	kinds := map[string]bool{}
	elemKind := func(t types.Type) string {
		sl, ok := t.Underlying().(*types.Slice)
		if !ok {
			return ""
		}
		if bt, ok := sl.Elem().Underlying().(*types.Basic); ok && bt.Kind() == types.Uint64 {
			return "deleted"
		}
		if _, ok := sl.Elem().Underlying().(*types.Struct); ok {
			return "updated"
		}
		return ""
	}
	fns := append([]*ssa.Function{home}, home.AnonFuncs...)
	if cl := classifierOf(w, home); cl != nil {
		dup := false
		for _, x := range fns {
			if x == cl {
				dup = true
			}
		}
		if !dup {
			fns = append(fns, cl)
		}
	}
	n := 0
	updBlocks := map[*ssa.Function][]*ssa.BasicBlock{}
	defer func() {}()
	for _, f := range fns {
		for _, b := range f.Blocks {
			for _, in := range b.Instrs {
				mu, ok := in.(*ssa.MapUpdate)
				if !ok {
					continue
				}
				if r := root(mu.Map); r != set && (fieldKey(r) == "" || fieldKey(r) != fieldKey(set)) {
					continue
				}
				n++
				updBlocks[f] = append(updBlocks[f], b)
				// or taken from a collected list
				key := mu.Key
				for i := 0; i < 6 && key != nil; i++ {
					switch x := key.(type) {
					case *ssa.Field:
						key = x.X
					case *ssa.UnOp:
						key = x.X
					case *ssa.FieldAddr:
						key = x.X
					case *ssa.IndexAddr:
						if k := elemKind(x.X.Type()); k != "" {
							kinds[k] = true
						}
						key = nil
					case *ssa.Index:
						key = nil
					case *ssa.Extract:
						if nx, ok := x.Tuple.(*ssa.Next); ok {
							if rg, ok := nx.Iter.(*ssa.Range); ok {
								if k := elemKind(rg.X.Type()); k != "" {
									kinds[k] = true
								}
							}
						}
						key = nil
					default:
						key = nil
					}
				}
			}
		}
	}
	// collected where the lists are collected: every place that appends to a list of deleted ids
	// or of updated points also adds to the set on all ways through (before or after the append)
	appendsOf := map[string]int{}
	uncovered := map[string]bool{}
	for _, f := range fns {
		for _, b := range f.Blocks {
			for _, in := range b.Instrs {
				call, ok := in.(*ssa.Call)
				if !ok {
					continue
				}
				bl, ok := call.Call.Value.(*ssa.Builtin)
				if !ok || bl.Name() != "append" {
					continue
				}
				k := elemKind(call.Type())
				if k == "" {
					continue
				}
				appendsOf[k]++
				covered := false
				for _, ub := range updBlocks[f] {
					if ub == b || ub.Dominates(b) || !exitReachableAvoiding(b, ub) {
						covered = true
					}
				}
				if !covered {
					uncovered[k] = true
				}
			}
		}
	}
	for _, k := range []string{"deleted", "updated"} {
		if appendsOf[k] > 0 && !uncovered[k] && len(updBlocks) > 0 {
			kinds[k] = true
		}
	}
	switch {
	case n == 0:
		c.Add("RANK", "vamana:unlink-covers", core.Undecided, w.At(site), "nothing is ever added to the set handed to removeInboundEdges", props...)
	case !kinds["updated"]:
		c.Add("RANK", "vamana:unlink-covers", core.Violation, w.At(site), "the set of nodes to unlink is filled from the deleted ids only: a point whose vector is replaced keeps the inbound edges and cached neighbour entries of its old position, and searches near that position report it with the distance to its previous vector", props...)
	case !kinds["deleted"]:
		c.Add("RANK", "vamana:unlink-covers", core.Violation, w.At(site), "the set of nodes to unlink is filled from the updated points only: edges to deleted nodes stay in the graph", props...)
	default:
		c.Add("RANK", "vamana:unlink-covers", core.OK, w.At(site), "", props...)
	}
}

// exitReachableAvoiding: a return of the function can be reached from block b without entering block avoid
func exitReachableAvoiding(b, avoid *ssa.BasicBlock) bool {
	seen := map[*ssa.BasicBlock]bool{avoid: true}
	var dfs func(x *ssa.BasicBlock) bool
	dfs = func(x *ssa.BasicBlock) bool {
		if seen[x] {
			return false
		}
		seen[x] = true
		if _, ok := x.Instrs[len(x.Instrs)-1].(*ssa.Return); ok {
			return true
		}
		for _, s := range x.Succs {
			if dfs(s) {
				return true
			}
		}
		return false
	}
	return dfs(b)
}

// textTermsDistinct: the tf-idf score sums over the distinct terms of the analysed query. Where
// the text index collects query terms into a slice it does so behind a membership test (or
// compacts the slice): a term appended once per occurrence is scored once per occurrence, and
// "wizard wizard hobbit" ranks differently from "wizard hobbit".
func textTermsDistinct(w *load.World, c *core.Collector) {
	props := []string{"C05"}
	n := 0
	bad := ""
	for _, f := range w.Fns {
		if load.PkgPath(f) != load.Mod+"/shard/index/text" || f.Synthetic != "" {
			continue
		}
		hasCompact := false
		for _, b := range f.Blocks {
			for _, in := range b.Instrs {
				if call, ok := in.(*ssa.Call); ok && call.Call.StaticCallee() != nil && strings.Contains(call.Call.StaticCallee().String(), "slices.Compact") {
					hasCompact = true
				}
			}
		}
		searchSide := strings.Contains(f.Name(), "Search") || (f.Parent() != nil && strings.Contains(f.Parent().Name(), "Search"))
		for _, b := range f.Blocks {
			for _, in := range b.Instrs {
				call, ok := in.(*ssa.Call)
				if !ok {
					continue
				}
				bi, ok := call.Call.Value.(*ssa.Builtin)
				if !ok || bi.Name() != "append" || !inLoop(b) {
					continue
				}
				sl, ok := call.Type().Underlying().(*types.Slice)
				if !ok {
					continue
				}
				if bt, ok := sl.Elem().Underlying().(*types.Basic); !ok || bt.Kind() != types.String {
					continue
				}
				if !deepHas(w, call.Call.Args[1], "field:Term") {
					continue
				}
				// only the query side (a function that searches): documents keep their repetitions (term frequency)
				if !searchSide {
					continue
				}
				n++
				guarded := hasCompact
				for _, gb := range f.Blocks {
					ifi, ok := gb.Instrs[len(gb.Instrs)-1].(*ssa.If)
					if !ok {
						continue
					}
					cond := ifi.Cond
					if u, ok := cond.(*ssa.UnOp); ok && u.Op == token.NOT {
						cond = u.X
					}
					isMember := false
					if ex, ok := cond.(*ssa.Extract); ok {
						if _, ok := ex.Tuple.(*ssa.Lookup); ok {
							isMember = true
						}
					}
					if cc, ok := cond.(*ssa.Call); ok && cc.Call.StaticCallee() != nil && strings.Contains(cc.Call.StaticCallee().String(), "Contains") {
						isMember = true
					}
					if isMember && (ssax.OnlyViaEdge(gb, 0, b) || ssax.OnlyViaEdge(gb, 1, b)) {
						guarded = true
					}
				}
				if !guarded {
					bad = w.At(in)
				}
			}
		}
	}
	if bad != "" {
		c.Add("RANK", "text:terms-distinct", core.Violation, bad, "the query's terms are collected once per occurrence (appended in the token loop with no membership test): a repeated term is scored as often as it occurs, scores and the top-limit cut change with repetitions in the query text", props...)
	} else {
		c.Add("RANK", "text:terms-distinct", core.OK, "", fmt.Sprintf("%d slice collections of query terms, all behind a membership test", n), props...)
	}
}

// classifierOf: the function that sorts the incoming changes of a write into insert / update /
// delete: a literal of top with the transform signature, or whatever top hands to
// TransformWithContext (a method value of a small state struct, say), unwrapped.
func classifierOf(w *load.World, top *ssa.Function) *ssa.Function {
	okSig := func(a *ssa.Function) bool {
		res := a.Signature.Results()
		return res.Len() == 3 && ssax.TypeName(res.At(0).Type()) == "vamana.IndexVectorChange"
	}
	for _, a := range top.AnonFuncs {
		if okSig(a) {
			return a
		}
	}
	for _, b := range top.Blocks {
		for _, in := range b.Instrs {
			call, ok := in.(*ssa.Call)
			if !ok || call.Call.StaticCallee() == nil || !strings.Contains(call.Call.StaticCallee().String(), "TransformWithContext") {
				continue
			}
			for _, a := range call.Call.Args {
				for _, fn := range funcValuesOf(w, a, 0) {
					if !okSig(fn) {
						continue
					}
					// a bound-method wrapper forwards to the method
					if fn.Synthetic != "" {
						for _, fb := range fn.Blocks {
							for _, fi := range fb.Instrs {
								if g := ssax.StaticModuleCallee(fi); g != nil && okSig(g) && len(g.Blocks) > 0 {
									return g
								}
							}
						}
					}
					return fn
				}
			}
		}
	}
	return nil
}
