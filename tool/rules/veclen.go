package rules

import (
	"fmt"
	"go/token"
	"sort"
	"strings"

	"golang.org/x/tools/go/ssa"

	"semaverif/internal/core"
	"semaverif/internal/load"
	"semaverif/internal/ssax"
)

// ------------------------------------------------------------------- VECLEN
//
// "A vector whose length differs from the index dimension never reaches a
// distance computation" (C18) rests on two schema-aware validators of package
// models: Query.ValidateSchema (searches) and IndexSchema.CheckCompatibleMap
// (inserts, updates). For each vector index type the rule takes the edge on
// which the validator has established `schema type == that type` and requires
// that every path from it to a success return — or, inside the per-property
// loop, to the next iteration — runs through the "equal" edge of a comparison
// of len(<the vector>) with <the schema's>.VectorSize. A call to a helper counts
// when every success exit of the helper is itself behind such an edge (must
// summary), so the check survives the cases being folded into helpers.

// veclenOKBlock: block b is the "lengths are equal" successor of a comparison len(x) ==/!= VectorSize.
func veclenOKBlocks(f *ssa.Function) map[*ssa.BasicBlock]string {
	out := map[*ssa.BasicBlock]string{}
	for _, b := range f.Blocks {
		ifi, ok := b.Instrs[len(b.Instrs)-1].(*ssa.If)
		if !ok {
			continue
		}
		bo, ok := ifi.Cond.(*ssa.BinOp)
		if !ok || (bo.Op != token.EQL && bo.Op != token.NEQ) {
			continue
		}
		isLen := func(v ssa.Value) bool {
			for {
				switch x := v.(type) {
				case *ssa.Convert:
					v = x.X
					continue
				case *ssa.Call:
					bi, ok := x.Call.Value.(*ssa.Builtin)
					return ok && bi.Name() == "len"
				}
				return false
			}
		}
		isSize := func(v ssa.Value) bool { return ssax.Prov(v)["field:VectorSize"] }
		if !((isLen(bo.X) && isSize(bo.Y)) || (isLen(bo.Y) && isSize(bo.X))) {
			continue
		}
		succ := b.Succs[0]
		if bo.Op == token.NEQ {
			succ = b.Succs[1]
		}
		if len(succ.Preds) == 1 {
			// which parameter block(s) the dimension is read from
			sizeV := bo.Y
			if isSize(bo.X) {
				sizeV = bo.X
			}
			var blocks []string
			for k := range ssax.Prov(sizeV) {
				if strings.HasPrefix(k, "field:Vector") && k != "field:VectorSize" {
					blocks = append(blocks, strings.TrimPrefix(k, "field:"))
				}
			}
			sort.Strings(blocks)
			out[succ] = strings.Join(blocks, "+")
		}
	}
	return out
}

func VecLen(w *load.World, c *core.Collector) {
	props := []string{"C18"}
	okBlocks := map[*ssa.BasicBlock]string{}
	for _, f := range w.Fns {
		if load.PkgPath(f) == load.Mod+"/models" {
			for b, from := range veclenOKBlocks(f) {
				okBlocks[b] = from
			}
		}
	}
	labeller := func(in ssa.Instruction) []string {
		if b := in.Block(); b.Instrs[0] == in {
			if from, ok := okBlocks[b]; ok {
				return []string{"veclen-ok:" + from}
			}
		}
		return nil
	}
	sums := ssax.NewSummaries(labeller, func(f *ssa.Function) []ssa.Instruction {
		var out []ssa.Instruction
		for _, e := range successExits(f) {
			out = append(out, e.In)
		}
		return out
	})
	// vector index type constants of the models package
	vecTypes := map[string]string{}
	if sp := w.SPkgs[load.Mod+"/models"]; sp != nil {
		for name, m := range sp.Members {
			if nc, ok := m.(*ssa.NamedConst); ok && strings.HasPrefix(name, "IndexTypeVector") {
				if s, ok := ssax.ConstString(nc.Value); ok {
					vecTypes[s] = name
				}
			}
		}
	}
	if len(vecTypes) < 2 {
		c.Add("VECLEN", "anchor:vector-index-types", core.Undecided, "", fmt.Sprintf("found %d IndexTypeVector* constants, expected at least 2", len(vecTypes)), props...)
		return
	}
	n := 0
	for _, fk := range []string{"(models.Query).ValidateSchema", "(models.IndexSchema).CheckCompatibleMap"} {
		f := findFn(w, fk)
		if f == nil {
			c.Add("VECLEN", "anchor:"+fk, core.Undecided, "", "validator not found", props...)
			continue
		}
		// the per-type cases may have been moved into a helper of the validator
		f = homeOf(f, func(g *ssa.Function) bool {
			for _, b := range g.Blocks {
				if ifi, ok := b.Instrs[len(b.Instrs)-1].(*ssa.If); ok {
					if bo, ok := ifi.Cond.(*ssa.BinOp); ok && bo.Op == token.EQL {
						for _, v := range []ssa.Value{bo.X, bo.Y} {
							if cs, isC := ssax.ConstString(v); isC {
								if _, isVec := vecTypes[cs]; isVec {
									return true
								}
							}
						}
					}
				}
			}
			return false
		})
		succExit := map[ssa.Instruction]bool{}
		for _, e := range successExits(f) {
			succExit[e.In] = true
		}
		for _, b := range f.Blocks {
			ifi, ok := b.Instrs[len(b.Instrs)-1].(*ssa.If)
			if !ok {
				continue
			}
			bo, ok := ifi.Cond.(*ssa.BinOp)
			if !ok || bo.Op != token.EQL {
				continue
			}
			cs, isC := ssax.ConstString(bo.Y)
			other := bo.X
			if !isC {
				cs, isC = ssax.ConstString(bo.X)
				other = bo.Y
			}
			tname, isVec := vecTypes[cs]
			if !isC || !isVec || !ssax.Prov(other)["field:Type"] {
				continue
			}
			n++
			// the dimension must be that of this index type's own parameter block
			wantBlock := strings.TrimPrefix(tname, "IndexType")
			wrongBlock := ""
			pred := func(in ssa.Instruction) bool {
				for _, l := range sums.At(in) {
					if l == "veclen-ok:"+wantBlock {
						return true
					}
					if strings.HasPrefix(l, "veclen-ok:") {
						wrongBlock = strings.TrimPrefix(l, "veclen-ok:")
					}
				}
				return false
			}
			stop := func(in ssa.Instruction) bool {
				if succExit[in] {
					return true
				}
				// back at a block that dominates the case test: the next iteration of the per-property loop
				blk := in.Block()
				return in == blk.Instrs[0] && blk != b && blk.Dominates(b) && len(blk.Preds) > 1
			}
			key := fmt.Sprintf("%s:%s", strings.NewReplacer("(models.", "", ")", "").Replace(load.Short(fk)), tname)
			if ok, at := mustPassFromEdge(ssax.Edge{From: b, Succ: 0}, pred, stop); ok {
				c.Add("VECLEN", key, core.OK, w.At(ifi), "", props...)
			} else {
				msg := "for an index of type " + cs + " the validator can succeed at " + w.At(at) + " without having compared the vector's length with the index dimension: a vector of the wrong length reaches the distance kernels"
				if wrongBlock != "" {
					msg = "for an index of type " + cs + " the vector's length is compared with a dimension that is not (only) read from this type's own parameter block " + wantBlock + " but from " + wrongBlock + ": a stray parameter block of another index type decides which vectors are accepted"
				}
				c.Add("VECLEN", key, core.Violation, w.At(at), msg, props...)
			}
		}
	}
	c.Count("vector_type_cases_in_validators", n)
	if n < 4 {
		c.Add("VECLEN", "anchor:cases", core.Undecided, "", fmt.Sprintf("found %d vector-type cases in the schema validators, expected at least 4", n), props...)
	}
}
